// capi_driver (C18): executes the world op grammar subset expressible through the C interface (mustache/c_api.h)
// against the REAL library and prints the observation lines of harness/world_driver.cpp (same canonical format), so
// that one op file can be run through the C API (this driver), through the C++ API (capi_ref_driver = world_driver +
// the job / write / clear ops) and on the Lean model (`driver capi`), and the three outputs diffed.
//
// This translation unit includes ONLY the C header (its global `World`, `Entity`, ... clash with the C++ names);
// what needs C++ headers (validity, archetype index, lock/unlock as a job performs them, clone) lives in capi_peek.cpp.
//
// Component catalogue: run-time registered types with the size / alignment of world_driver's A..H; the optional
// lifecycle functions of each type are a subset given by `capi_flags <mask> <dv> [<L>=<mask>:<dv> ...]`
//   mask bits: 1 create, 2 copy, 4 move, 8 move_constructor, 16 destroy;  dv: default value on/off
// A value token is stored redundantly in every 64-bit word of the component; moved-from and destroyed storage is
// poisoned, so a stale / neighbour / dead value is distinguishable from the right one.
//
//   ops:  create|createb <mask>          creategroup <mask> <n>      assign <e> <C> <tok>   (WithoutInit + write)
//         assign0 <e> <C>  (init)        set <e> <C> <tok>  (write through getComponent(mutable))
//         remove <e> <C>                 destroynow <e>...           destroy <e>...        wupdate      clear
//         lock | unlock  (the state a job callback runs in)          clone <e>  (C++ clone of a C-described entity)
//         valid|has|get|getmut           foreach req=<m> opt=<m> const=<m> ent=<0|1> [w=<C>:<base>] [mode=cur|par]
//         dump   teardown
#include <mustache/c_api.h>

#include <algorithm>
#include <cstdint>
#include <cstdio>
#include <cstring>
#include <exception>
#include <iostream>
#include <map>
#include <mutex>
#include <sstream>
#include <string>
#include <vector>

// fresh heap memory carries a fill pattern (all of it, not only the first 4 KiB): storage in which no object was ever
// built is recognisable by the lifecycle functions below. ASAN_OPTIONS from the environment still apply on top.
extern "C" const char* __asan_default_options() { return "max_malloc_fill_size=1073741824:malloc_fill_byte=204"; }

namespace peek {
bool valid(void* world, uint64_t entity);
long archOf(void* world, uint64_t entity);
long posOf(void* world, uint64_t entity);
void lock(void* world);
bool unlock(void* world);
bool locked(void* world);
uint64_t clone(void* world, uint64_t entity, std::string& err);
bool stampedNow(void* world, uint64_t entity, uint32_t component_id);
bool stampedSince(void* world, uint64_t entity, uint32_t component_id);
void bumpVersion(void* world);
void setStorageCap(uint32_t cap);
std::string errKind(const std::exception& ex);
}

namespace {

constexpr int kN = 8;
const char* kLetters = "ABCDEFGH";
const size_t kSize[kN]  = {8, 8, 64, 1, 4096, 8, 8, 8};
const size_t kAlign[kN] = {8, 8, 64, 1, 8, 8, 8, 8};
constexpr uint64_t kNullEntity = ~0ull;

enum : uint32_t { kCreate = 1, kCopy = 2, kMove = 4, kMoveCtor = 8, kDestroy = 16 };

uint64_t defaultTok(int c) { return 1000u + static_cast<uint64_t>(c); }      // what the create function writes
// the bytes of `default_value` carry a DIFFERENT token: with both a create function and a default value the
// constructor's result must be what a new component holds, and the two are distinguishable
uint64_t defaultValueTok(int c) { return 2000u + static_cast<uint64_t>(c); }

std::mutex g_mutex;
std::vector<std::string> g_errors;
uint64_t g_calls[5] = {0, 0, 0, 0, 0};
// per letter: every live instance has been initialised (the type has a create function or a default value), so that
// storage still carrying the allocator's fill pattern is storage no object was ever built in
bool g_always_initialised[8] = {false, false, false, false, false, false, false, false};
constexpr unsigned char kRawFill = 0xCC;

void note(const std::string& s) {
    std::lock_guard<std::mutex> l{g_mutex};
    if (g_errors.size() < 8) g_errors.push_back(s);
}

void writeTok(int c, void* p, uint64_t tok) {
    if (kSize[c] < 8) return;                       // D: empty type, nothing to store
    auto* w = static_cast<uint64_t*>(p);
    for (size_t i = 0; i < kSize[c] / 8; ++i) w[i] = tok;
}

std::string readTok(int c, const void* p) {
    if (kSize[c] < 8) return "0";
    auto* w = static_cast<const uint64_t*>(p);
    for (size_t i = 1; i < kSize[c] / 8; ++i) if (w[i] != w[0]) return "corrupt";
    return std::to_string(w[0]);
}

void checkAlign(int c, const void* p, const char* fn) {
    if (reinterpret_cast<uintptr_t>(p) % kAlign[c] != 0) note(std::string("MISALIGNED-in-") + fn + ":" + kLetters[c]);
}

// ---- the optional lifecycle functions (one instantiation per letter: the C table carries no user data) ----
template <int L> void fnCreate(void* p, Entity, World*) {
    ++g_calls[0]; checkAlign(L, p, "create");
    writeTok(L, p, defaultTok(L));
}
template <int L> void fnCopy(void* d, const void* s) {
    ++g_calls[1]; checkAlign(L, d, "copy"); checkAlign(L, s, "copy");
    memcpy(d, s, kSize[L]);
}
bool isRaw(const void* p, size_t n) {
    const unsigned char* b = static_cast<const unsigned char*>(p);
    for (size_t i = 0; i < n; ++i) if (b[i] != kRawFill) return false;
    return n >= 8;
}
template <int L> void fnMove(void* d, void* s) {
    ++g_calls[2]; checkAlign(L, d, "move"); checkAlign(L, s, "move");
    // `move` is the ASSIGNMENT: its destination holds an object (a C++ type's operator= on raw storage is undefined)
    if (g_always_initialised[L] && isRaw(d, kSize[L])) note(std::string("MOVE-ASSIGN-ONTO-RAW-STORAGE:") + kLetters[L]);
    if (d != s) { memcpy(d, s, kSize[L]); memset(s, 0xDD, kSize[L]); }
}
template <int L> void fnMoveCtor(void* d, void* s) {
    ++g_calls[3]; checkAlign(L, d, "move_constructor"); checkAlign(L, s, "move_constructor");
    if (d != s) { memcpy(d, s, kSize[L]); memset(s, 0xDD, kSize[L]); }
}
template <int L> void fnDestroy(void* p) {
    ++g_calls[4]; checkAlign(L, p, "destroy");
    memset(p, 0xEE, kSize[L]);
}

template <int L> TypeInfoFunctions table(uint32_t mask) {
    TypeInfoFunctions f;
    memset(&f, 0, sizeof f);
    if (mask & kCreate) f.create = &fnCreate<L>;
    if (mask & kCopy) f.copy = &fnCopy<L>;
    if (mask & kMove) f.move = &fnMove<L>;
    if (mask & kMoveCtor) f.move_constructor = &fnMoveCtor<L>;
    if (mask & kDestroy) f.destroy = &fnDestroy<L>;
    return f;
}
TypeInfoFunctions tableOf(int c, uint32_t mask) {
    switch (c) {
        case 0: return table<0>(mask); case 1: return table<1>(mask); case 2: return table<2>(mask);
        case 3: return table<3>(mask); case 4: return table<4>(mask); case 5: return table<5>(mask);
        case 6: return table<6>(mask); default: return table<7>(mask);
    }
}

struct JobCtx {
    std::vector<int> comps;            // request order
    int write_comp = -1;
    uint64_t write_base = 0;
    bool parallel = false;
    std::vector<std::string> calls;    // one segment per callback (current-thread mode)
    std::map<uint64_t, std::string> per_entity;   // parallel mode: entity_index -> record
    long begin_size = -1, begin_tasks = -1, begin_mode = -1;
    long end_size = -1, end_tasks = -1, end_mode = -1;
    uint64_t first_entity = kNullEntity;
    bool entities_null = false;
    struct Driver* driver = nullptr;
};
JobCtx* g_job = nullptr;

struct Driver {
    World* world = nullptr;
    uint32_t world_id = 0;
    uint32_t mask[kN];
    bool dv[kN];
    bool registered = false;
    ComponentId ids[kN];
    std::vector<std::vector<unsigned char>> defaults;
    std::vector<Entity> issued;
    std::map<uint64_t, size_t> ordinal_of;
    std::ostringstream out;

    Driver() { for (int i = 0; i < kN; ++i) { mask[i] = 31; dv[i] = false; } }

    void ensure() {
        if (!registered) {
            registered = true;
            defaults.resize(kN);
            for (int c = 0; c < kN; ++c) {
                TypeInfo info;
                memset(&info, 0, sizeof info);
                static std::string names[kN];
                names[c] = std::string("capi_") + kLetters[c];
                info.name = names[c].c_str();
                info.size = kSize[c];
                info.align = kAlign[c];
                info.functions = tableOf(c, mask[c]);
                g_always_initialised[c] = (mask[c] & kCreate) != 0 || dv[c];
                if (dv[c]) {
                    defaults[c].assign(kSize[c], 0);
                    writeTok(c, defaults[c].data(), defaultValueTok(c));
                    info.default_value = defaults[c].data();
                }
                ids[c] = registerComponent(info);
            }
        }
        if (!world) world = createWorld(world_id);
    }

    static int comp(char ch) { const char* p = strchr(kLetters, ch); return (p && ch) ? static_cast<int>(p - kLetters) : -1; }

    bool parseMask(const std::string& s, std::vector<int>& v) {
        v.clear();
        if (s == "-") return true;
        for (char ch : s) {
            if (ch == ',') continue;
            int c = comp(ch);
            if (c < 0) return false;
            if (std::find(v.begin(), v.end(), c) == v.end()) v.push_back(c);
        }
        std::sort(v.begin(), v.end());
        return true;
    }

    std::string hname(Entity e) {
        auto it = ordinal_of.find(e);
        if (it != ordinal_of.end()) return std::to_string(it->second);
        char buf[32]; std::snprintf(buf, sizeof buf, "raw:%llx", static_cast<unsigned long long>(e));
        return buf;
    }

    bool parseEntity(const std::string& s, Entity& e) {
        if (s == "null") { e = kNullEntity; return true; }
        if (s.rfind("raw:", 0) == 0) { e = std::stoull(s.substr(4), nullptr, 16); return true; }
        try {
            size_t k = std::stoul(s);
            if (k >= issued.size()) return false;
            e = issued[k]; return true;
        } catch (...) { return false; }
    }

    std::string issue(Entity e) {
        size_t ord = issued.size();
        issued.push_back(e);
        ordinal_of[e] = ord;
        std::ostringstream o;
        o << "h " << ord << " id=" << (e & ((1ull << 30) - 1)) << " ver=" << (e >> 40) << " w=" << ((e >> 30) & 1023ull);
        return o.str();
    }

    Archetype* archetype(const std::vector<int>& comps, bool bitset) {
        if (bitset) {
            uint64_t bits = 0;
            for (int c : comps) bits |= 1ull << ids[c];
            return getArchetypeByBitsetMask(world, bits);
        }
        std::vector<ComponentId> v;
        for (int c : comps) v.push_back(ids[c]);
        ComponentMask m;
        m.component_count = static_cast<uint32_t>(v.size());
        m.ids = v.data();
        return getArchetype(world, m);
    }

    std::string sideNotes() {
        std::lock_guard<std::mutex> l{g_mutex};
        std::string s;
        for (auto& e : g_errors) s += " HARNESS-ERROR[" + e + "]";
        g_errors.clear();
        return s;
    }

    std::string getVal(Entity e, int c, bool is_const) {
        const void* p = getComponent(world, e, ids[c], is_const);
        if (!p) return "null";
        if (reinterpret_cast<uintptr_t>(p) % kAlign[c] != 0) return "MISALIGNED";
        return readTok(c, p);
    }

    // ---- job -------------------------------------------------------------------------------------------------
    static void jobCallback(Job*, JobForEachArrayArg* arg) {
        JobCtx& j = *g_job;
        Driver& d = *j.driver;
        std::ostringstream seg;
        std::lock_guard<std::mutex> l{g_mutex};
        if (arg->entities == nullptr) j.entities_null = true;
        if (!j.parallel) {
            seg << " | n=" << arg->array_size << " e=";
            if (!arg->entities) seg << "null";
            for (uint32_t i = 0; arg->entities && i < arg->array_size; ++i) seg << (i ? "," : "") << d.hname(arg->entities[i]);
        }
        if (arg->entities && arg->array_size > 0 && arg->invocation_index.entity_index == 0) j.first_entity = arg->entities[0];
        for (size_t k = 0; k < j.comps.size(); ++k) {
            const int c = j.comps[k];
            auto* base = static_cast<unsigned char*>(arg->components[k]);
            if (!j.parallel) seg << " " << kLetters[c] << "=";
            if (!base) { if (!j.parallel) seg << "-"; continue; }
            for (uint32_t i = 0; i < arg->array_size; ++i) {
                void* p = base + i * kSize[c];
                if (c == j.write_comp) writeTok(c, p, j.write_base + arg->invocation_index.entity_index + i);
                if (!j.parallel) seg << (i ? "," : "") << readTok(c, p);
            }
        }
        if (j.parallel) {
            for (uint32_t i = 0; i < arg->array_size; ++i) {
                std::ostringstream r;
                r << " | " << (arg->entities ? d.hname(arg->entities[i]) : std::string("null")) << ":";
                for (size_t k = 0; k < j.comps.size(); ++k) {
                    const int c = j.comps[k];
                    auto* base = static_cast<unsigned char*>(arg->components[k]);
                    r << (k ? "," : "") << kLetters[c] << "=" << (base ? readTok(c, base + i * kSize[c]) : std::string("-"));
                }
                j.per_entity[arg->invocation_index.entity_index + i] = r.str();
            }
        } else {
            j.calls.push_back(seg.str());
        }
    }
    static void jobBegin(Job*, World*, TasksCount t, JobSize s, JobRunMode m) {
        g_job->begin_size = s; g_job->begin_tasks = t; g_job->begin_mode = m;
    }
    static void jobEnd(Job*, World*, TasksCount t, JobSize s, JobRunMode m) {
        g_job->end_size = s; g_job->end_tasks = t; g_job->end_mode = m;
    }

    std::string foreach(const std::vector<std::string>& w) {
        std::vector<int> req, opt, cst;
        bool ent = true, par = false;
        JobCtx j;
        j.driver = this;
        for (size_t i = 1; i < w.size(); ++i) {
            const std::string& a = w[i];
            if (a.rfind("req=", 0) == 0) { if (!parseMask(a.substr(4), req)) return "bad-op"; }
            else if (a.rfind("opt=", 0) == 0) { if (!parseMask(a.substr(4), opt)) return "bad-op"; }
            else if (a.rfind("const=", 0) == 0) { if (!parseMask(a.substr(6), cst)) return "bad-op"; }
            else if (a.rfind("ent=", 0) == 0) ent = a.substr(4) != "0";
            else if (a.rfind("mode=", 0) == 0) par = a.substr(5) == "par";
            else if (a.rfind("w=", 0) == 0 && a.size() > 4) { j.write_comp = comp(a[2]); j.write_base = std::stoull(a.substr(4)); }
            else return "bad-op";
        }
        std::vector<JobArgInfo> args;
        for (int c : req) { JobArgInfo x; x.component_id = ids[c]; x.is_required = true;
            x.is_const = std::find(cst.begin(), cst.end(), c) != cst.end(); args.push_back(x); j.comps.push_back(c); }
        for (int c : opt) { if (std::find(req.begin(), req.end(), c) != req.end()) continue;
            JobArgInfo x; x.component_id = ids[c]; x.is_required = false;
            x.is_const = std::find(cst.begin(), cst.end(), c) != cst.end(); args.push_back(x); j.comps.push_back(c); }
        j.parallel = par;
        JobDescriptor desc;
        memset(&desc, 0, sizeof desc);
        desc.name = "capi_job";
        desc.callback = &jobCallback;
        desc.on_job_begin = &jobBegin;
        desc.on_job_end = &jobEnd;
        desc.component_info_arr = args.data();
        desc.component_info_arr_size = static_cast<uint32_t>(args.size());
        desc.entity_required = ent;
        g_job = &j;
        Job* job = makeJob(desc);
        peek::bumpVersion(world);
        runJob(job, world, par ? kParallel : kCurrentThread);
        destroyJob(job);
        g_job = nullptr;
        std::ostringstream o;
        if (j.begin_size < 0) return "job none";
        o << "job size=" << j.begin_size;
        if (!par) o << " tasks=" << j.begin_tasks;
        o << " mode=" << (j.begin_mode == kParallel ? "par" : "cur");
        o << " end=" << ((j.end_size == j.begin_size && j.end_tasks == j.begin_tasks && j.end_mode == j.begin_mode) ? 1 : 0);
        // which requested components of the first delivered entity were stamped by this run (non-const ones)
        o << " dirty=";
        bool any = false;
        if (j.first_entity != kNullEntity) {
            for (int c : j.comps) if (peek::stampedNow(world, j.first_entity, ids[c])) { o << kLetters[c]; any = true; }
        } else if (ent) { o << "?"; any = true; }
        if (!any) o << "-";
        if (ent && j.entities_null) o << " ENTITIES-NULL";
        if (par) for (auto& kv : j.per_entity) o << kv.second;
        else for (auto& s : j.calls) o << s;
        return o.str();
    }

    // ---- ops ---------------------------------------------------------------------------------------------------
    std::string exec(const std::vector<std::string>& w) {
        const std::string& op = w[0];
        try {
            if (op == "create" || op == "createb") {
                std::vector<int> comps;
                if (!parseMask(w.size() > 1 ? w[1] : "-", comps)) return "bad-op";
                return issue(createEntity(world, archetype(comps, op == "createb")));
            }
            if (op == "assign" || op == "assign0") {
                Entity e; if (!parseEntity(w[1], e)) return "bad-op";
                int c = comp(w[2][0]); if (c < 0) return "bad-op";
                void* p = nullptr;
                if (op == "assign") {
                    p = assignComponentWithoutInit(world, e, ids[c]);
                    if (p) writeTok(c, p, std::stoull(w[3]));
                } else {
                    p = assignComponent(world, e, ids[c]);
                }
                if (p && reinterpret_cast<uintptr_t>(p) % kAlign[c] != 0) return "ok MISALIGNED";
                return "ok";
            }
            if (op == "set") {
                Entity e; if (!parseEntity(w[1], e)) return "bad-op";
                int c = comp(w[2][0]); if (c < 0) return "bad-op";
                void* p = getComponent(world, e, ids[c], false);
                if (!p) return "null";
                writeTok(c, p, std::stoull(w[3]));
                return "ok";
            }
            if (op == "remove") {
                Entity e; if (!parseEntity(w[1], e)) return "bad-op";
                int c = comp(w[2][0]); if (c < 0) return "bad-op";
                removeComponent(world, e, ids[c]);
                return "ok";
            }
            if (op == "destroynow" || op == "destroy") {
                std::vector<Entity> es;
                for (size_t i = 1; i < w.size(); ++i) { Entity e; if (!parseEntity(w[i], e)) return "bad-op"; es.push_back(e); }
                destroyEntities(world, es.data(), static_cast<uint32_t>(es.size()), op == "destroynow");
                return "ok";
            }
            if (op == "wupdate") { updateWorld(world); return "ok"; }
            if (op == "clear") { clearWorldEntities(world); return "ok"; }
            if (op == "lock") { peek::lock(world); return "ok"; }
            if (op == "unlock") { return peek::unlock(world) ? "ret=1" : "ret=0"; }
            if (op == "clone") {
                Entity e; if (!parseEntity(w[1], e)) return "bad-op";
                std::string err;
                Entity r = peek::clone(world, e, err);
                if (!err.empty()) return err;
                if (r == kNullEntity) return "null";
                return issue(r);
            }
            if (op == "valid") { Entity e; if (!parseEntity(w[1], e)) return "bad-op"; return peek::valid(world, e) ? "valid=1" : "valid=0"; }
            if (op == "has") {
                Entity e; if (!parseEntity(w[1], e)) return "bad-op";
                int c = comp(w[2][0]); if (c < 0) return "has=0";
                return hasComponent(world, e, ids[c]) ? "has=1" : "has=0";
            }
            if (op == "get" || op == "getmut") {
                Entity e; if (!parseEntity(w[1], e)) return "bad-op";
                int c = comp(w[2][0]); if (c < 0) return "bad-op";
                // st: did this access mark the component changed? (const lookup: never; mutable lookup: always)
                peek::bumpVersion(world);
                const std::string v = getVal(e, c, op == "get");
                if (v == "null") return "val=null";
                return "val=" + v + (peek::stampedSince(world, e, ids[c]) ? " st=1" : " st=0");
            }
            if (op == "foreach") return foreach(w);
        } catch (const std::exception& ex) {
            return peek::errKind(ex);
        }
        return "bad-op";
    }

    void dump() {
        out << "dump\n";
        for (size_t ord = 0; ord < issued.size(); ++ord) {
            Entity e = issued[ord];
            out << "E " << ord;
            if (!peek::valid(world, e)) { out << " valid=0\n"; continue; }
            out << " valid=1";
            long a = peek::archOf(world, e);
            if (a < 0) { out << " arch=- pos=- comps=- shared=-\n"; continue; }
            out << " arch=" << a << " pos=" << peek::posOf(world, e) << " comps=";
            bool first = true;
            for (int c = 0; c < kN; ++c) {
                if (!hasComponent(world, e, ids[c])) continue;
                if (!first) out << ","; first = false;
                out << kLetters[c] << ":" << getVal(e, c, true);
            }
            if (first) out << "-";
            out << " shared=-\n";
        }
        out << "end\n";
    }

    void line(const std::string& l) {
        std::istringstream is(l);
        std::vector<std::string> w; std::string x;
        while (is >> x) w.push_back(x);
        if (w.empty()) return;
        if (w[0] == "capi_flags") {
            if (registered || w.size() < 3) { out << "bad-op\n"; return; }
            for (int c = 0; c < kN; ++c) { mask[c] = static_cast<uint32_t>(std::stoul(w[1])) & 31u; dv[c] = w[2] != "0"; }
            for (size_t i = 3; i < w.size(); ++i) {
                int c = comp(w[i][0]);
                auto colon = w[i].find(':');
                if (c < 0 || w[i].size() < 4 || w[i][1] != '=' || colon == std::string::npos) { out << "bad-op\n"; return; }
                mask[c] = static_cast<uint32_t>(std::stoul(w[i].substr(2, colon - 2))) & 31u;
                dv[c] = w[i].substr(colon + 1) != "0";
            }
            out << "ok\n"; return;
        }
        if (w[0] == "worldid") { world_id = static_cast<uint32_t>(std::stoul(w[1])); out << "ok\n"; return; }
        if (w[0] == "storagecap") { peek::setStorageCap(static_cast<uint32_t>(std::stoul(w[1]))); out << "ok\n"; return; }
        if (w[0] == "threads" || w[0] == "defaultctx") { out << "ok\n"; return; }
        ensure();
        if (w[0] == "dump") { dump(); return; }
        if (w[0] == "teardown") {
            destroyWorld(world); world = nullptr;
            out << "teardown" << sideNotes() << "\n";
            return;
        }
        if (w[0] == "creategroup") {
            std::vector<int> comps;
            if (w.size() < 3 || !parseMask(w[1], comps)) { out << "bad-op\n"; return; }
            const uint32_t n = static_cast<uint32_t>(std::stoul(w[2]));
            std::vector<Entity> es(n, kNullEntity);
            try {
                createEntityGroup(world, archetype(comps, false), es.data(), n);
            } catch (const std::exception& ex) { out << peek::errKind(ex) << "\n"; return; }
            for (auto e : es) out << issue(e) << "\n";
            return;
        }
        out << exec(w) << sideNotes() << "\n";
    }
};

}  // namespace

int main() {
    Driver d;
    std::string l;
    while (std::getline(std::cin, l)) {
        if (l.empty() || l[0] == '#') continue;
        d.line(l);
        std::cout << d.out.str();
        std::cout.flush();
        d.out.str("");
    }
    if (d.world) destroyWorld(d.world);
    std::fprintf(stderr, "CALLS create=%llu copy=%llu move=%llu move_constructor=%llu destroy=%llu\n",
                 (unsigned long long) g_calls[0], (unsigned long long) g_calls[1], (unsigned long long) g_calls[2],
                 (unsigned long long) g_calls[3], (unsigned long long) g_calls[4]);
    return 0;
}

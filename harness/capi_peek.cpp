// capi_peek: observation helpers of the C-API harness that need the C++ headers (validity, archetype index, row
// position, lock/unlock exactly as BaseJob::run performs them around the callbacks of a job, EntityManager::clone,
// component version stamps). Own translation unit: mustache/c_api.h declares global `World`, `Entity`, ... that clash
// with the C++ names, so capi_driver.cpp includes ONLY the C header and talks to this file through plain signatures
// (a world is the `World*` the C API returned, an entity its 64-bit value). Nothing here goes through c_api.cpp.
#include <mustache/ecs/world.hpp>
#include <mustache/ecs/entity_manager.hpp>

#include <cstdint>
#include <functional>
#include <stdexcept>
#include <string>

namespace mustache { namespace verif { extern uint32_t storage_chunk_capacity; } }

namespace mustache { namespace verif {
struct Access {
    static uint32_t locIndex(const EntityManager& m, Entity e) { return m.locations_[e.id()].index.toInt(); }
    static uint32_t lockCounter(const EntityManager& m) { return m.lock_counter_; }
};
}}

namespace peek {
using namespace mustache;

static EntityManager& em(void* world) { return static_cast<World*>(world)->entities(); }
static Entity ent(uint64_t v) { return Entity::makeFromValue(v); }

bool valid(void* world, uint64_t entity) { return em(world).isEntityValid(ent(entity)); }

long archOf(void* world, uint64_t entity) {
    Archetype* a = em(world).getArchetypeOf(ent(entity));
    return a ? static_cast<long>(a->id().toInt()) : -1;
}

long posOf(void* world, uint64_t entity) {
    if (!valid(world, entity)) return -1;
    return static_cast<long>(verif::Access::locIndex(em(world), ent(entity)));
}

void lock(void* world) { em(world).lock(); }
bool unlock(void* world) { return em(world).unlock(); }
bool locked(void* world) { return verif::Access::lockCounter(em(world)) > 0; }

std::string errKind(const std::exception& ex) {
    std::string w = ex.what();
    if (w.find("to itself") != std::string::npos) return "err:self-move";
    if (w.find("Can not update locked") != std::string::npos) return "err:locked-update";
    if (w.find("Can not create archetype") != std::string::npos) return "err:bad-archetype";
    if (dynamic_cast<const std::bad_function_call*>(&ex)) return "err:bad-function";
    return "err:other";
}

uint64_t clone(void* world, uint64_t entity, std::string& err) {
    try {
        return em(world).clone(ent(entity)).value;
    } catch (const std::exception& ex) {
        err = errKind(ex);
        return Entity{}.value;
    }
}

bool stampedNow(void* world, uint64_t entity, uint32_t component_id) {
    auto& m = em(world);
    Archetype* a = m.getArchetypeOf(ent(entity));
    if (!a) return false;
    const auto id = ComponentId::make(component_id);
    if (!a->hasComponent(id)) return false;
    const auto idx = ArchetypeEntityIndex::make(verif::Access::locIndex(m, ent(entity)));
    // bumpVersion() before the run, applyFilter stamps with that version, BaseJob::run then increments once more
    return a->getComponentVersion(idx, id).toInt() + 1u == static_cast<World*>(world)->version().toInt();
}

// after bumpVersion(): did an access made since stamp this component of the entity (chunk version == world version)?
bool stampedSince(void* world, uint64_t entity, uint32_t component_id) {
    auto& m = em(world);
    Archetype* a = m.getArchetypeOf(ent(entity));
    if (!a) return false;
    const auto id = ComponentId::make(component_id);
    if (!a->hasComponent(id)) return false;
    const auto idx = ArchetypeEntityIndex::make(verif::Access::locIndex(m, ent(entity)));
    return a->getComponentVersion(idx, id).toInt() == static_cast<World*>(world)->version().toInt();
}

// harness instrumentation around a job run: makes every earlier stamp strictly older than what the run writes
void bumpVersion(void* world) { static_cast<World*>(world)->incrementVersion(); }

void setStorageCap(uint32_t cap) { mustache::verif::storage_chunk_capacity = cap; }
}

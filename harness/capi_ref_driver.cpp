// capi_ref_driver (C18): the C++-interface counterpart of capi_driver. It IS harness/world_driver.cpp (included
// verbatim, its main renamed) - typed EntityManager calls on the catalogue A..H - plus the ops of the C18 grammar the
// world driver lacks: `set` (write through getComponent<T>), `clear`, `wupdate`, `creategroup`, multi-entity
// destroy, `create` as getArchetype + create(Archetype&) (what the C entry points call), `foreach` (a NonTemplateJob built directly through the C++ interface), `capi_flags` (ignored: the C++
// types have their own fixed lifecycle functions). Output format: that of world_driver / capi_driver.
#define main world_driver_main_unused
#include "world_driver.cpp"
#undef main

#include <mustache/ecs/non_template_job.hpp>

namespace {

size_t compSize(char c) {
    size_t s = 0;
    withComp(c, [&](auto t) { s = sizeof(typename decltype(t)::type); });
    return s;
}

template <typename X> void writeTyped(X* p, uint64_t tok) {
    if constexpr (std::is_same<X, D>::value) { (void) p; (void) tok; }
    else if constexpr (std::is_same<X, E>::value) { for (auto& x : p->tok) x = tok; }
    else if constexpr (std::is_same<X, B>::value || std::is_same<X, G>::value) { *p = X{tok}; }
    else { p->tok = tok; }
}

std::string readAt(char c, const void* p) {
    std::string r = "?";
    withComp(c, [&](auto t) { using X = typename decltype(t)::type; r = readTok<X>(static_cast<const X*>(p)); });
    return r;
}
void writeAt(char c, void* p, uint64_t tok) {
    withComp(c, [&](auto t) { using X = typename decltype(t)::type; writeTyped<X>(static_cast<X*>(p), tok); });
}

bool parseLetters(const std::string& s, std::string& v) {
    v.clear();
    if (s == "-") return true;
    for (char ch : s) {
        if (ch == ',') continue;
        if (!strchr(kLetters, ch)) return false;
        if (v.find(ch) == std::string::npos) v.push_back(ch);
    }
    std::sort(v.begin(), v.end());
    return true;
}

std::string foreachRef(Driver& d, const std::vector<std::string>& w) {
    std::string req, opt, cst;
    bool ent = true, par = false;
    int write_comp = -1; uint64_t write_base = 0;
    for (size_t i = 1; i < w.size(); ++i) {
        const std::string& a = w[i];
        if (a.rfind("req=", 0) == 0) { if (!parseLetters(a.substr(4), req)) return "bad-op"; }
        else if (a.rfind("opt=", 0) == 0) { if (!parseLetters(a.substr(4), opt)) return "bad-op"; }
        else if (a.rfind("const=", 0) == 0) { if (!parseLetters(a.substr(6), cst)) return "bad-op"; }
        else if (a.rfind("ent=", 0) == 0) ent = a.substr(4) != "0";
        else if (a.rfind("mode=", 0) == 0) par = a.substr(5) == "par";
        else if (a.rfind("w=", 0) == 0 && a.size() > 4) { write_comp = a[2]; write_base = std::stoull(a.substr(4)); }
        else return "bad-op";
    }
    std::string comps;
    NonTemplateJob job;
    job.job_name = "ref_job";
    for (char c : req) { job.component_requests.push_back({compId(c), cst.find(c) != std::string::npos, true}); comps.push_back(c); }
    for (char c : opt) { if (req.find(c) != std::string::npos) continue;
        job.component_requests.push_back({compId(c), cst.find(c) != std::string::npos, false}); comps.push_back(c); }
    job.require_entity = ent;
    std::mutex mutex;
    std::vector<std::string> calls;
    std::map<uint64_t, std::string> per_entity;
    long bs = -1, bt = -1, bm = -1, es = -1, et = -1, em = -1;
    Entity first_entity;
    job.job_begin = [&](World&, TasksCount t, JobSize s, JobRunMode m) { bs = s.toInt(); bt = t.toInt(); bm = static_cast<long>(m); };
    job.job_end = [&](World&, TasksCount t, JobSize s, JobRunMode m) { es = s.toInt(); et = t.toInt(); em = static_cast<long>(m); };
    job.callback = [&](NonTemplateJob::ForEachArrayArgs arg) {
        std::lock_guard<std::mutex> l{mutex};
        std::ostringstream seg;
        const uint32_t n = arg.count.toInt();
        const uint64_t eindex = arg.invocation_index.entity_index.toInt();
        if (!par) {
            seg << " | n=" << n << " e=";
            if (!arg.entities) seg << "null";
            for (uint32_t i = 0; arg.entities && i < n; ++i) seg << (i ? "," : "") << d.hname(arg.entities[i]);
        }
        if (arg.entities && n > 0 && eindex == 0) first_entity = arg.entities[0];
        for (size_t k = 0; k < comps.size(); ++k) {
            const char c = comps[k];
            auto* base = static_cast<unsigned char*>(arg.components[k]);
            if (!par) seg << " " << c << "=";
            if (!base) { if (!par) seg << "-"; continue; }
            for (uint32_t i = 0; i < n; ++i) {
                void* p = base + i * compSize(c);
                if (c == write_comp) writeAt(c, p, write_base + eindex + i);
                if (!par) seg << (i ? "," : "") << readAt(c, p);
            }
        }
        if (par) {
            for (uint32_t i = 0; i < n; ++i) {
                std::ostringstream r;
                r << " | " << (arg.entities ? d.hname(arg.entities[i]) : std::string("null")) << ":";
                for (size_t k = 0; k < comps.size(); ++k) {
                    auto* base = static_cast<unsigned char*>(arg.components[k]);
                    r << (k ? "," : "") << comps[k] << "=" << (base ? readAt(comps[k], base + i * compSize(comps[k])) : std::string("-"));
                }
                per_entity[eindex + i] = r.str();
            }
        } else calls.push_back(seg.str());
    };
    d.ensureWorld();
    d.world->incrementVersion();   // as capi_driver: earlier stamps become strictly older than what the run writes
    job.run(*d.world, par ? JobRunMode::kParallel : JobRunMode::kCurrentThread);
    if (bs < 0) return "job none";
    std::ostringstream o;
    o << "job size=" << bs;
    if (!par) o << " tasks=" << bt;
    o << " mode=" << (bm == static_cast<long>(JobRunMode::kParallel) ? "par" : "cur");
    o << " end=" << ((es == bs && et == bt && em == bm) ? 1 : 0) << " dirty=";
    bool any = false;
    if (!first_entity.isNull()) {
        auto& m = d.em();
        Archetype* a = m.getArchetypeOf(first_entity);
        for (char c : comps) {
            if (a && a->hasComponent(compId(c)) &&
                a->getComponentVersion(ArchetypeEntityIndex::make(Access::locIndex(m, first_entity)), compId(c)).toInt() + 1u == d.world->version().toInt()) {
                o << c; any = true;
            }
        }
    }
    if (!any) o << "-";
    if (par) for (auto& kv : per_entity) o << kv.second;
    else for (auto& s : calls) o << s;
    return o.str();
}

}  // namespace

int main() {
    for (const char* c = kLetters; *c; ++c) compId(*c);
    sharedId('S'); sharedId('T');
    Driver d;
    d.use_default_ctx = true;            // createWorld(id) of the C API = World{WorldId}
    std::string l;
    while (std::getline(std::cin, l)) {
        if (l.empty() || l[0] == '#') continue;
        std::istringstream is(l);
        std::vector<std::string> w; std::string x;
        while (is >> x) w.push_back(x);
        if (w.empty()) continue;
        try {
            if (w[0] == "capi_flags") { d.out << "ok\n"; }
            else if (w[0] == "create" || w[0] == "createb" || (w[0] == "creategroup" && w.size() >= 3)) {
                // the C++ calls the C entry points stand for: getArchetype(mask, null) once, then create(Archetype&)
                auto& m = d.em();
                const unsigned long n = w[0] == "creategroup" ? std::stoul(w[2]) : 1u;
                Archetype& arch = m.getArchetype(d.parseMask(w.size() > 1 ? w[1] : "-"), SharedComponentsInfo::null());
                for (unsigned long i = 0; i < n; ++i) d.out << d.issue(m.create(arch)) << d.drainSide() << "\n";
            }
            else if ((w[0] == "destroynow" || w[0] == "destroy") && w.size() != 2) {
                // one C call on an array = the C++ calls in array order
                bool ok = w.size() > 1;
                Entity tmp;
                for (size_t i = 1; i < w.size(); ++i) ok = ok && d.parseEntity(w[i], tmp);
                for (size_t i = 1; ok && i < w.size(); ++i) d.exec({w[0], w[i]});
                d.out << (ok ? "ok" : "bad-op") << d.drainSide() << "\n";
            }
            else if (w[0] == "set" && w.size() == 4) {
                Entity e;
                std::string r = "bad-op";
                if (d.parseEntity(w[1], e)) {
                    withComp(w[2][0], [&](auto t) {
                        using X = typename decltype(t)::type;
                        X* p = d.em().getComponent<X>(e);
                        if (!p) { r = "null"; return; }
                        writeTyped<X>(p, std::stoull(w[3]));
                        r = "ok";
                    });
                }
                d.out << r << d.drainSide() << "\n";
            }
            else if ((w[0] == "get" || w[0] == "getmut") && w.size() == 3) {
                // as capi_driver: the lookup, then whether it marked the component changed
                d.ensureWorld();
                d.world->incrementVersion();
                d.line(l);
                std::string r = d.out.str();
                d.out.str("");
                while (!r.empty() && r.back() == '\n') r.pop_back();
                Entity e;
                if (r.rfind("val=", 0) == 0 && r != "val=null" && d.world && d.parseEntity(w[1], e) && strchr(kLetters, w[2][0])) {
                    auto& m = d.em();
                    Archetype* a = m.getArchetypeOf(e);
                    bool st = false;
                    if (a && a->hasComponent(compId(w[2][0]))) {
                        st = a->getComponentVersion(ArchetypeEntityIndex::make(Access::locIndex(m, e)), compId(w[2][0])).toInt() ==
                             d.world->version().toInt();
                    }
                    r += st ? " st=1" : " st=0";
                }
                d.out << r << "\n";
            }
            else if (w[0] == "clear") { d.em().clear(); d.out << "ok" << d.drainSide() << "\n"; }
            else if (w[0] == "foreach") { d.out << foreachRef(d, w) << d.drainSide() << "\n"; }
            else d.line(l);
        } catch (const std::exception& ex) {
            d.out << Driver::errKind(ex) << "\n";
        }
        std::cout << d.out.str();
        std::cout.flush();
        d.out.str("");
    }
    if (d.agents.running) d.agents.stop(*d.dispatcher);
    d.world.reset();
    d.dispatcher.reset();
    return 0;
}

// C08 / C06 harness: drives the REAL mustache::Dispatcher from an op script (stdin), evaluates the
// property oracles on it and logs the schedule-point trace that `driver dispatch trace` checks
// against the Lean model.
//
// ops (one per line, '#' comments):
//   seed <s> | inject <per-mille> | trace <0|1> | cores <k> (what hardware_concurrency() reports; 0 = real)
//   disp <d> <n>            create dispatcher d with n workers (0 = library default)
//   single <d> <0|1>
//   queue <d> <prio>        createQueue -> serial queue number 1,2,... of d
//   par <d> <k> <work>      k parallel tasks
//   async <d> <q> <k> <work>
//   parg <d> <g> | asyncg <d> <q> <g>     one task that blocks on gate g
//   started <d> <t>         block until task t of d has begun
//   open <g> | autoopen <g> gate g opens at the next kWaiterBlocked event or after the next wait returns
//   pfor <d> <b> <e> <tc>
//   wait <d> <q>            q = 0: waitForParallelFinish, else Queue::wait
//   xwait <a> <b> <g>       a parallel task of dispatcher a calls b.waitForParallelFinish() (a worker of one dispatcher
//                           helps to drain another); gate g is opened once b's pending ungated tasks have begun (or
//                           after 200 ms); then the script thread waits for a. Use with `trace 0`: the trace check
//                           knows one external thread per dispatcher.
//   destroy <d>
// output: "O ..." one line per op (canonical, schedule independent unless a property is violated),
//         "T <seq> <d> <event> <thread> <arg>" the trace, printed at the end.
#include <mustache/utils/invoke.hpp>
#include <mustache/utils/dispatch.hpp>

#include <atomic>
#include <chrono>
#include <condition_variable>
#include <cstdio>
#include <cstdlib>
#include <deque>
#include <iostream>
#include <map>
#include <memory>
#include <mutex>
#include <sstream>
#include <string>
#include <thread>
#include <vector>
#include <unistd.h>

using namespace mustache;

// Interposed over libstdc++'s definition (the harness executable is searched first): lets a script choose
// what the library's "automatic" worker count sees, e.g. `cores 1` gives a dispatcher with zero workers.
static unsigned g_fake_cores = 0;
unsigned std::thread::hardware_concurrency() noexcept {
    if (g_fake_cores != 0) return g_fake_cores;
    const long n = sysconf(_SC_NPROCESSORS_ONLN);
    return n > 0 ? static_cast<unsigned>(n) : 1u;
}

namespace {

const char* kPointNames[] = {"?", "kWorkerBeforeLock", "kWorkerAfterLock", "kWorkerBeforeWait", "kWorkerAfterWake",
    "kWorkerPop", "kTaskBegin", "kTaskEnd", "kWorkerRelocked", "kWorkerExit", "kWaiterBeforeLock",
    "kWaiterAfterLock", "kWaiterEmpty", "kWaiterPop", "kWaiterRelocked", "kWaiterSpin", "kWaiterDone",
    "kWaiterBlocked", "kSubmit", "kSubmitNotified", "kSubmitInline", "kShutdownBegin", "kShutdownFlag",
    "kShutdownCleared", "kShutdownNotified", "kShutdownJoined", "kCreateQueue"};
constexpr int kNumPoints = sizeof(kPointNames) / sizeof(kPointNames[0]);

struct TaskRec {
    uint32_t id = 0;
    int queue = 0;
    int gate = -1;
    uint32_t work = 0;
    int xwait = -1;              // >= 0: the body waits for the parallel tasks of that dispatcher
    std::atomic<uint32_t> begun{0};
    std::atomic<uint32_t> ended{0};
    std::atomic<uint64_t> begin_stamp{0};
    uint64_t payload = 0; // plain on purpose: written by the task, read by the waiter after wait()
};

struct Disp {
    int index = 0;
    uint32_t workers = 0;
    std::unique_ptr<Dispatcher> d;
    std::vector<Queue> queues;          // serial queues, number k+1 -> queues[k]
    std::deque<TaskRec> tasks;
    std::atomic<uint32_t> submitted{0}; // advanced by the hook at kSubmit / kSubmitInline
    std::vector<std::unique_ptr<std::atomic<int>>> busy_tid; // per thread id: a task is inside its body
    std::vector<std::unique_ptr<std::atomic<int>>> in_queue; // per queue number: bodies running
    std::vector<std::unique_ptr<std::atomic<int64_t>>> last_started;
    std::atomic<int> active_on_workers{0};
    std::atomic<uint32_t> overlap{0}, order_viol{0}, badtid{0}, duptid{0}, tidmismatch{0}, foreign{0};
    bool destroyed = false;
    uint64_t destroy_return_stamp = 0;
};

struct TraceRec { int d; int point; unsigned th; long arg; const char* name; };

std::mutex g_trace_mutex;
std::vector<TraceRec> g_trace;
std::map<const void*, int> g_ptr_to_disp;
int g_creating = -1;
thread_local int tl_cur_disp = -1;
bool g_trace_on = true;
uint32_t g_inject = 0; // per mille
uint64_t g_seed = 1;
std::atomic<uint64_t> g_stamp{1};
std::vector<std::unique_ptr<Disp>> g_disps;   // touched by the script thread only
constexpr int kMaxDisp = 16;
constexpr int kMaxQueues = 16;
std::atomic<Dispatcher*> g_live[kMaxDisp];    // dispatchers currently alive, readable from task bodies
std::atomic<int> g_live_readers{0};

struct Gate { std::mutex m; std::condition_variable cv; bool open = false; };
std::map<int, std::unique_ptr<Gate>> g_gates;
std::mutex g_gates_mutex;
std::atomic<int> g_autoopen{-1};

Gate& gate(int g) {
    std::lock_guard<std::mutex> l{g_gates_mutex};
    auto& p = g_gates[g];
    if (!p) p.reset(new Gate);
    return *p;
}
void openGate(int g) {
    Gate& G = gate(g);
    { std::lock_guard<std::mutex> l{G.m}; G.open = true; }
    G.cv.notify_all();
}
void waitGate(int g) {
    Gate& G = gate(g);
    std::unique_lock<std::mutex> l{G.m};
    G.cv.wait(l, [&] { return G.open; });
}

thread_local uint64_t tl_rng = 0;
uint64_t nextRand(unsigned salt) {
    if (tl_rng == 0) {
        tl_rng = g_seed * 0x9E3779B97F4A7C15ull ^ (static_cast<uint64_t>(salt) + 1) * 0xBF58476D1CE4E5B9ull;
        if (tl_rng == 0) tl_rng = 88172645463325252ull;
    }
    tl_rng ^= tl_rng << 13; tl_rng ^= tl_rng >> 7; tl_rng ^= tl_rng << 17;
    return tl_rng;
}
void maybePreempt(unsigned salt) {
    if (g_inject == 0) return;
    const uint64_t r = nextRand(salt);
    const uint32_t roll = static_cast<uint32_t>(r % 1000u);
    if (roll < g_inject) {
        if ((r >> 20) % 8u == 0u) {
            std::this_thread::sleep_for(std::chrono::microseconds(20 + (r >> 24) % 200u));
        } else {
            std::this_thread::yield();
        }
    }
}

void logEvent(int d, int point, unsigned th, long arg, const char* name) {
    if (!g_trace_on) return;
    std::lock_guard<std::mutex> l{g_trace_mutex};
    // consecutive iterations of the waiter's spin carry no information (the model's spinRetry is idempotent)
    if (point == mustache::verif::kWaiterSpin && !g_trace.empty() && g_trace.back().point == point && g_trace.back().d == d) return;
    g_trace.push_back(TraceRec{d, point, th, arg, name});
}

void schedHook(int point, const void* dispatcher, unsigned thread_id, int arg) {
    maybePreempt(thread_id * 31u + static_cast<unsigned>(point));
    int d = -1;
    {
        std::lock_guard<std::mutex> l{g_trace_mutex};
        auto it = g_ptr_to_disp.find(dispatcher);
        if (it != g_ptr_to_disp.end()) {
            d = it->second;
        } else {
            d = (g_creating >= 0) ? g_creating : tl_cur_disp;
            if (d >= 0) g_ptr_to_disp[dispatcher] = d;
        }
        if (d >= 0 && point == mustache::verif::kShutdownJoined) g_ptr_to_disp.erase(dispatcher);
    }
    if (d < 0) return;
    if (point == mustache::verif::kSubmit || point == mustache::verif::kSubmitInline) {
        g_disps[d]->submitted.fetch_add(1);
    }
    if (point == mustache::verif::kWaiterBlocked) {
        const int g = g_autoopen.exchange(-1);
        if (g >= 0) openGate(g);
    }
    logEvent(d, point, thread_id, arg, nullptr);
}

// the tsan variant must not add synchronisation of its own: no trace, no shared counters in the hook
void schedHookQuiet(int point, const void*, unsigned thread_id, int) {
    maybePreempt(thread_id * 31u + static_cast<unsigned>(point));
}

void taskBody(Disp* D, TaskRec* T, ThreadId tid_arg) {
    const unsigned tid = tid_arg.toInt();
    logEvent(D->index, 0, tid, T->id, "Body");
    T->begin_stamp.store(g_stamp.fetch_add(1));
    T->begun.fetch_add(1);
    if (tid > D->workers) {
        D->badtid.fetch_add(1);
    } else {
        if (D->busy_tid[tid]->exchange(1) != 0) D->duptid.fetch_add(1);
    }
    if (D->d && D->d->currentThreadId().toInt() != tid) D->tidmismatch.fetch_add(1);
    if (tid != 0u) {
        // a worker of D is not a thread of any other dispatcher that is alive (fixed slots; a destroyer waits for readers)
        g_live_readers.fetch_add(1);
        for (auto& slot : g_live) {
            Dispatcher* other = slot.load();
            if (other != nullptr && other != D->d.get()) {
                if (other->currentThreadId().toInt() != 0u) D->foreign.fetch_add(1);
            }
        }
        g_live_readers.fetch_sub(1);
    }
    if (tid != 0u && T->queue == 0) D->active_on_workers.fetch_add(1); // parallel tasks inside their body on a worker
    if (T->queue > 0) {
        if (D->in_queue[T->queue]->fetch_add(1) != 0) D->overlap.fetch_add(1);
        const int64_t prev = D->last_started[T->queue]->exchange(static_cast<int64_t>(T->id));
        if (prev >= static_cast<int64_t>(T->id)) D->order_viol.fetch_add(1);
    }
    if (T->gate >= 0) waitGate(T->gate);
    if (T->xwait >= 0) g_disps[T->xwait]->d->waitForParallelFinish();
    volatile uint64_t sink = 0;
    for (uint32_t i = 0; i < T->work; ++i) {
        sink += i;
        if ((i & 63u) == 63u) maybePreempt(tid * 131u + 7u);
    }
    T->payload = static_cast<uint64_t>(T->id) * 7u + 1u;
    if (T->queue > 0) D->in_queue[T->queue]->fetch_sub(1);
    if (tid != 0u && T->queue == 0) D->active_on_workers.fetch_sub(1);
    if (tid <= D->workers) D->busy_tid[tid]->store(0);
    T->ended.fetch_add(1);
}

Disp& disp(int d) {
    if (d < 0 || d >= static_cast<int>(g_disps.size()) || !g_disps[d]) {
        std::printf("O error unknown dispatcher %d\n", d);
        std::fflush(stdout);
        std::exit(2);
    }
    return *g_disps[d];
}

TaskRec* newTask(Disp& D, int queue, int gate_id, uint32_t work) {
    D.tasks.emplace_back();
    TaskRec* T = &D.tasks.back();
    T->id = D.submitted.load();
    T->queue = queue;
    T->gate = gate_id;
    T->work = work;
    return T;
}

void submitOne(Disp& D, int queue, int gate_id, uint32_t work) {
    TaskRec* T = newTask(D, queue, gate_id, work);
    Disp* Dp = &D;
    const uint32_t before = D.submitted.load();
    tl_cur_disp = D.index;
    if (queue == 0) {
        D.d->addParallelTask([Dp, T](ThreadId tid) { taskBody(Dp, T, tid); });
    } else {
        D.queues.at(queue - 1).async([Dp, T](ThreadId tid) { taskBody(Dp, T, tid); });
    }
    if (g_trace_on && D.submitted.load() != before + 1) {
        std::printf("O error submit of task %u advanced the submit counter by %u\n", T->id, D.submitted.load() - before);
    }
    if (!g_trace_on) D.submitted.fetch_add(1);
}

void openAllGates() {
    std::vector<int> ids;
    { std::lock_guard<std::mutex> l{g_gates_mutex}; for (auto& kv : g_gates) ids.push_back(kv.first); }
    for (int g : ids) openGate(g);
}

void destroyDisp(Disp& D) {
    if (D.destroyed) return;
    openAllGates(); // a task parked at a gate would make the join below hang for a reason of the script's own making
    tl_cur_disp = D.index;
    D.queues.clear();
    g_live[D.index].store(nullptr);
    while (g_live_readers.load() != 0) std::this_thread::yield();
    D.d.reset();
    D.destroy_return_stamp = g_stamp.fetch_add(1);
    D.destroyed = true;
}

void finalLine(Disp& D) {
    uint32_t once = 0, multi = 0, never = 0, unfinished = 0, after = 0;
    std::string never_ids;
    for (auto& T : D.tasks) {
        const uint32_t b = T.begun.load();
        if (b == 0) { ++never; never_ids += (never_ids.empty() ? "" : ",") + std::to_string(T.id); }
        else if (b == 1) ++once; else ++multi;
        if (b != T.ended.load()) ++unfinished;
        if (D.destroyed && b > 0 && T.begin_stamp.load() > D.destroy_return_stamp) ++after;
    }
    std::printf("O final %d submitted=%zu once=%u multi=%u never=%u unfinished=%u overlap=%u order=%u badtid=%u duptid=%u tidmismatch=%u foreign=%u ran_after_destroy=%u never_ids=%s\n",
        D.index, D.tasks.size(), once, multi, never, unfinished, D.overlap.load(), D.order_viol.load(), D.badtid.load(),
        D.duptid.load(), D.tidmismatch.load(), D.foreign.load(), after, never_ids.empty() ? "-" : never_ids.c_str());
}

} // namespace

int main() {
    std::string line;
    int pending_autoopen_after_wait = -1;
    mustache::verif::sched_hook = &schedHook;
    while (std::getline(std::cin, line)) {
        if (line.empty() || line[0] == '#') continue;
        std::istringstream in{line};
        std::string op;
        in >> op;
        if (op == "seed") { in >> g_seed; std::printf("O seed\n"); }
        else if (op == "cores") { in >> g_fake_cores; std::printf("O cores %u -> %u\n", g_fake_cores, Dispatcher::maxThreadCount()); }
        else if (op == "inject") { in >> g_inject; std::printf("O inject\n"); }
        else if (op == "trace") {
            int on = 1; in >> on; g_trace_on = on != 0;
            mustache::verif::sched_hook = g_trace_on ? &schedHook : &schedHookQuiet;
            std::printf("O trace %d\n", on);
        }
        else if (op == "disp") {
            int d = 0; uint32_t n = 0; in >> d >> n;
            if (d != static_cast<int>(g_disps.size()) || d >= kMaxDisp) { std::printf("O error dispatchers must be numbered 0,1,2,... (at most 16)\n"); std::fflush(stdout); return 2; }
            g_disps.emplace_back(new Disp);
            Disp& D = *g_disps.back();
            D.index = d;
            const uint32_t expect = n != 0 ? n : Dispatcher::maxThreadCount() - 1u;
            D.workers = expect;
            for (uint32_t i = 0; i <= expect; ++i) D.busy_tid.emplace_back(new std::atomic<int>(0));
            for (int q = 0; q <= kMaxQueues; ++q) {
                D.in_queue.emplace_back(new std::atomic<int>(0));
                D.last_started.emplace_back(new std::atomic<int64_t>(-1));
            }
            logEvent(d, 0, 0, expect, "X_new");
            { std::lock_guard<std::mutex> l{g_trace_mutex}; g_creating = d; }
            tl_cur_disp = d;
            D.d.reset(new Dispatcher{n});
            g_live[d].store(D.d.get());
            // worker threads may start late: keep attributing unknown dispatcher-state pointers to `d`
            // until the first worker has reported (a dispatcher without workers is identified by its
            // first event on this thread)
            for (;;) {
                {
                    std::lock_guard<std::mutex> l{g_trace_mutex};
                    bool known = expect == 0u || mustache::verif::sched_hook != &schedHook;
                    for (const auto& kv : g_ptr_to_disp) known = known || kv.second == d;
                    if (known) { g_creating = -1; break; }
                }
                std::this_thread::yield();
            }
            std::printf("O disp %d requested=%u count_ok=%d self_tid=%u\n", d, n, D.d->threadCount() == expect ? 1 : 0,
                D.d->currentThreadId().toInt());
        }
        else if (op == "single") {
            int d = 0, on = 0; in >> d >> on;
            Disp& D = disp(d);
            tl_cur_disp = d;
            D.d->setSingleThreadMode(on != 0);
            logEvent(d, 0, 0, on, "X_setSingle");
            std::printf("O single %d %d\n", d, on);
        }
        else if (op == "queue") {
            int d = 0; int prio = 0; in >> d >> prio;
            Disp& D = disp(d);
            tl_cur_disp = d;
            logEvent(d, 0, 0, prio, "X_createQueue");
            if (static_cast<int>(D.queues.size()) >= kMaxQueues) { std::printf("O error too many queues\n"); std::fflush(stdout); return 2; }
            D.queues.emplace_back(D.d->createQueue("q" + std::to_string(D.queues.size()), prio));
            std::printf("O queue %d -> %zu valid=%d\n", d, D.queues.size(), D.queues.back().valid() ? 1 : 0);
        }
        else if (op == "par" || op == "async" || op == "parg" || op == "asyncg") {
            int d = 0, q = 0, g = -1; uint32_t k = 1, work = 0;
            in >> d;
            if (op == "async" || op == "asyncg") in >> q;
            if (op == "parg" || op == "asyncg") in >> g; else in >> k >> work;
            Disp& D = disp(d);
            if (q < 0 || q > static_cast<int>(D.queues.size())) { std::printf("O error no such queue\n"); return 2; }
            const size_t first = D.tasks.size();
            for (uint32_t i = 0; i < k; ++i) submitOne(D, q, g, work);
            std::printf("O %s %d q=%d first=%zu count=%u\n", op.c_str(), d, q, first, k);
        }
        else if (op == "started") {
            int d = 0; uint32_t t = 0; in >> d >> t;
            Disp& D = disp(d);
            while (t >= D.tasks.size() || D.tasks[t].begun.load() == 0) std::this_thread::yield();
            std::printf("O started %d %u\n", d, t);
        }
        else if (op == "open") { int g = 0; in >> g; openGate(g); std::printf("O open %d\n", g); }
        else if (op == "autoopen") {
            int g = 0; in >> g;
            g_autoopen.store(g);
            pending_autoopen_after_wait = g;
            std::printf("O autoopen %d\n", g);
        }
        else if (op == "pfor") {
            int d = 0; size_t b = 0, e = 0; uint32_t tc = 0; in >> d >> b >> e >> tc;
            Disp& D = disp(d);
            const size_t size = e >= b ? e - b : 0;
            std::vector<std::atomic<uint32_t>> visits(size);
            struct PerTask { std::atomic<uint64_t> lo{~0ull}, hi{0}, n{0}; };
            std::vector<PerTask> per(4096);
            std::atomic<uint32_t> out_of_range{0}, bad_task{0};
            const uint32_t before = D.submitted.load();
            tl_cur_disp = d;
            auto fn = [&](size_t i, ParallelTaskId task_id) {
                if (i < b || i >= e) { out_of_range.fetch_add(1); return; }
                visits[i - b].fetch_add(1);
                const uint32_t t = task_id.toInt();
                if (t >= per.size()) { bad_task.fetch_add(1); return; }
                uint64_t lo = per[t].lo.load();
                while (i < lo && !per[t].lo.compare_exchange_weak(lo, i)) {}
                uint64_t hi = per[t].hi.load();
                while (i + 1 > hi && !per[t].hi.compare_exchange_weak(hi, i + 1)) {}
                per[t].n.fetch_add(1);
            };
            D.d->parallelFor(fn, b, e, tc);
            // the library's tasks are anonymous: account for them so that later ids line up with the model
            const uint32_t added = D.submitted.load() - before;
            for (uint32_t i = 0; i < added; ++i) {
                D.tasks.emplace_back();
                D.tasks.back().id = before + i;
                D.tasks.back().begun.store(1); D.tasks.back().ended.store(1); // checked through `visits`
                D.tasks.back().payload = static_cast<uint64_t>(before + i) * 7u + 1u;
            }
            uint32_t missed = 0, twice = 0;
            for (auto& v : visits) { if (v.load() == 0) ++missed; if (v.load() > 1) ++twice; }
            std::string ranges;
            uint32_t contiguous_bad = 0;
            for (size_t t = 0; t < per.size(); ++t) {
                if (per[t].n.load() == 0) continue;
                if (per[t].hi.load() - per[t].lo.load() != per[t].n.load()) ++contiguous_bad;
                ranges += " (" + std::to_string(per[t].lo.load()) + "," + std::to_string(per[t].hi.load()) + ")";
            }
            std::printf("O pfor %d %zu %zu %u threads=%u submitted=%u missed=%u twice=%u outside=%u badtask=%u noncontig=%u ranges=%s\n",
                d, b, e, tc, D.workers, added, missed, twice, out_of_range.load(), bad_task.load(), contiguous_bad,
                ranges.empty() ? " -" : ranges.c_str());
        }
        else if (op == "wait") {
            int d = 0, q = 0; in >> d >> q;
            Disp& D = disp(d);
            if (q < 0 || q > static_cast<int>(D.queues.size())) { std::printf("O error no such queue\n"); std::fflush(stdout); return 2; }
            const size_t upto = D.tasks.size();
            tl_cur_disp = d;
            logEvent(d, 0, 0, q, "X_waitBegin");
            if (q == 0) D.d->waitForParallelFinish(); else D.queues.at(q - 1).wait();
            // plain reads first: under TSan these must be ordered after the tasks' writes by the library alone
            uint32_t bad_payload = 0;
            for (size_t t = 0; t < upto; ++t) {
                if (D.tasks[t].queue != q) continue;
                if (D.tasks[t].payload != static_cast<uint64_t>(D.tasks[t].id) * 7u + 1u) ++bad_payload;
            }
            const int active = q == 0 ? D.active_on_workers.load() : 0;
            uint32_t notdone = 0; std::string which;
            for (size_t t = 0; t < upto; ++t) {
                if (D.tasks[t].queue != q) continue;
                if (D.tasks[t].ended.load() != 1u) { ++notdone; if (which.size() < 60) which += (which.empty() ? "" : ",") + std::to_string(t); }
            }
            logEvent(d, 0, 0, q, "X_waitReturn");
            if (pending_autoopen_after_wait >= 0) { openGate(pending_autoopen_after_wait); pending_autoopen_after_wait = -1; g_autoopen.store(-1); }
            std::printf("O wait %d %d notdone=%u [%s] bad_payload=%u workers_running=%d\n", d, q, notdone, which.c_str(), bad_payload, active);
        }
        else if (op == "xwait") {
            int a = 0, b = 0, g = -1; in >> a >> b >> g;
            Disp& A = disp(a);
            Disp& B = disp(b);
            if (a == b) { std::printf("O error xwait needs two dispatchers\n"); std::fflush(stdout); return 2; }
            TaskRec* T = newTask(A, 0, -1, 0);
            T->xwait = b;
            Disp* Ap = &A;
            tl_cur_disp = a;
            A.d->addParallelTask([Ap, T](ThreadId tid) { taskBody(Ap, T, tid); });
            if (!g_trace_on) A.submitted.fetch_add(1);
            while (T->begun.load() == 0) std::this_thread::yield();
            const auto t0 = std::chrono::steady_clock::now();
            for (;;) {
                bool all = true;
                for (auto& t : B.tasks) if (t.gate < 0 && t.begun.load() == 0) all = false;
                if (all || std::chrono::steady_clock::now() - t0 > std::chrono::milliseconds(200)) break;
                std::this_thread::yield();
            }
            if (g >= 0) openGate(g);
            A.d->waitForParallelFinish();
            uint32_t notdone = 0;
            for (auto& t : B.tasks) if (t.queue == 0 && t.ended.load() != 1u) ++notdone;
            std::printf("O xwait %d %d helper_done=%u notdone=%u\n", a, b, T->ended.load(), notdone);
        }
        else if (op == "destroy") {
            int d = 0; in >> d;
            Disp& D = disp(d);
            destroyDisp(D);
            std::printf("O destroy %d\n", d);
        }
        else { std::printf("O error unknown op %s\n", op.c_str()); return 2; }
        std::fflush(stdout);
    }
    // let stragglers of destroyed dispatchers (there must be none) show up, then tear the rest down
    for (auto& D : g_disps) if (D) destroyDisp(*D);
    std::this_thread::sleep_for(std::chrono::milliseconds(2));
    for (auto& D : g_disps) if (D) finalLine(*D);
    {
        std::lock_guard<std::mutex> l{g_trace_mutex};
        size_t seq = 0;
        for (const auto& r : g_trace) {
            const char* name = r.name ? r.name : (r.point > 0 && r.point < kNumPoints ? kPointNames[r.point] : "?");
            std::printf("T %zu %d %s %u %ld\n", seq++, r.d, name, r.th, r.arg);
        }
    }
    std::fflush(stdout);
    return 0;
}

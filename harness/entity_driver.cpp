// Native side of the translator's differential validation: same line protocol as `driver entity`.
#include "wrappers.cpp"
#include <cstdio>
#include <cstring>
#include <cinttypes>
#include <string>
#include <vector>
#include <sstream>
#include <iostream>

int main() {
    std::string line;
    while (std::getline(std::cin, line)) {
        if (line.empty() || line[0] == '#') continue;
        std::istringstream is(line);
        std::string fn; is >> fn;
        std::vector<uint64_t> a; uint64_t x;
        while (is >> x) a.push_back(x);
        auto u32 = [&](size_t i) { return static_cast<uint32_t>(a[i]); };
        uint64_t r = 0; bool ok = true; bool undef = false;
        if (fn == "w_reset" && a.size() == 3) r = w_reset(u32(0), u32(1), u32(2));
        else if (fn == "w_ctor" && a.size() == 3) r = w_ctor(u32(0), u32(1), u32(2));
        else if (fn == "w_id" && a.size() == 1) r = w_id(a[0]);
        else if (fn == "w_version" && a.size() == 1) r = w_version(a[0]);
        else if (fn == "w_world" && a.size() == 1) r = w_world(a[0]);
        else if (fn == "w_isnull" && a.size() == 1) r = w_isnull(a[0]);
        else if (fn == "w_eq" && a.size() == 2) r = w_eq(a[0], a[1]);
        else if (fn == "w_ne" && a.size() == 2) r = w_ne(a[0], a[1]);
        else if (fn == "w_lt" && a.size() == 2) r = w_lt(a[0], a[1]);
        else if (fn == "w_next" && a.size() == 1) r = w_next(a[0]);
        else if (fn == "w_incr" && a.size() == 1) r = w_incr(a[0]);
        else if (fn == "w_setversion" && a.size() == 2) r = w_setversion(a[0], u32(1));
        else if (fn == "w_resetid" && a.size() == 2) r = w_resetid(a[0], u32(1));
        else if (fn == "w_default" && a.empty()) r = w_default();
        else if (fn == "w_align" && a.size() == 2) { if (u32(1) == 0) undef = true; else r = w_align(u32(0), u32(1)); }
        else if (fn == "w_makealigned" && a.size() == 2) { if (u32(1) == 0) undef = true; else r = w_makealigned(u32(0), u32(1)); }
        else if (fn == "w_div" && a.size() == 2) r = w_div(u32(0), u32(1));
        else if (fn == "w_mod" && a.size() == 2) r = w_mod(u32(0), u32(1));
        else ok = false;
        if (!ok) std::puts("bad-op");
        else if (undef) std::puts("undefined");
        else std::printf("%" PRIu64 "\n", r);
    }
    return 0;
}

// C15 harness: executes an event-manager history (one op per line on stdin) on the REAL
// mustache::EventManager and prints one canonical observation line per op.
//
// ONE PROCESS = ONE HISTORY: event-type ids are process-global (order of first use), so the
// check starts a fresh process for every op file.
//
//   newManager              -> "<i> newManager m=<k>"
//   dropManager <m>         -> "<i> dropManager ok"
//   newReceiver <T>         -> "<i> newReceiver r=<k>"            custom Receiver<Ev<T>> subclass, not subscribed
//   subscribeFn <m> <T>     -> "<i> subscribeFn r=<k>"            EventManager::subscribe<Ev<T>>(lambda)
//   subscribe <m> <r>       -> "<i> subscribe ok"                 EventManager::subscribe_<Ev<T>>(ptr)
//   unsubscribe <r>         -> "<i> unsubscribe ok"               Receiver::unsubscribe()
//   unsubscribeAt <m> <r>   -> "<i> unsubscribeAt ok"             EventManager::unsubscribe<Ev<T>>(ptr)
//   dropReceiver <r>        -> "<i> dropReceiver ok"              delete (destructor unsubscribes iff manager alive)
//   post <m> <T>            -> "<i> post delivered=<csv of receiver ordinals, in invocation order>"
//
// After " | " follow the internal observations (tie only, never the oracle): the process-global id
// of the op's event type and the slot table of every live manager:
//   " | id=<n> m0=-/E2:1,3/E0: m2=."      ('-' null slot, 'E<T>:<receivers>' slot of type T, '.' empty table)
// With -DVERIF_NO_INTERNALS the slot tables are omitted.
//
// Managers, receivers are named by creation ordinal; event types are the distinct C++ types Ev<0..7>.
// The op files are produced by the check and are contract-respecting (live objects only, a receiver is
// subscribed only while it is not subscribed); a malformed line aborts with exit code 3.
#include <mustache/ecs/event_manager.hpp>
#include <mustache/utils/memory_manager.hpp>

#include <cstdio>
#include <cstdlib>
#include <iostream>
#include <memory>
#include <sstream>
#include <string>
#include <vector>

using namespace mustache;

static constexpr int kTypes = 8;

template <int N>
struct Ev {
    long value;
    long check;  // == value * 7 + N : detects a payload delivered through the wrong type
};

// ------------------------------------------------------------------------------------------------
// delivery log (filled by every receiver, whoever invokes it)
struct Delivery {
    int receiver;
    int type;
    long value;
    bool payload_ok;
    bool receiver_alive;
};
static std::vector<Delivery> g_log;

struct RInfo {
    int type = -1;
    bool alive = false;
    void* base = nullptr;           // Receiver<Ev<type>>*
    void (*destroy)(void*) = nullptr;
};
static std::vector<RInfo> g_receivers;

static void record(int ordinal, int type, long value, long check) {
    const bool alive = ordinal >= 0 && ordinal < (int)g_receivers.size() && g_receivers[ordinal].alive;
    g_log.push_back(Delivery{ordinal, type, value, check == value * 7 + type, alive});
}

template <int N>
struct Custom final : public Receiver<Ev<N> > {
    explicit Custom(int o) : ordinal{o} {}
    int ordinal;
private:
    void onEvent(const Ev<N>& e) override { record(ordinal, N, e.value, e.check); }
};

// ------------------------------------------------------------------------------------------------
#ifndef VERIF_NO_INTERNALS
// read-only access to EventManager::subscriptions_ (explicit-instantiation access, no change to /repo)
namespace rob {
    using SubsT = ArrayWrapper<std::unique_ptr<AReceivers>, EventId, true>;
    template <typename Tag, typename Tag::type M>
    struct Rob {
        friend typename Tag::type get(Tag) { return M; }
    };
    struct SubsTag {
        using type = SubsT EventManager::*;
        friend type get(SubsTag);
    };
    template struct Rob<SubsTag, &EventManager::subscriptions_>;
}
#endif

struct MInfo {
    std::unique_ptr<EventManager> mgr;
};
static MemoryManager* g_memory = nullptr;
static std::vector<MInfo> g_managers;

static int ordinalOf(const void* base) {
    for (size_t i = 0; i < g_receivers.size(); ++i) {
        if (g_receivers[i].base == base) {   // dead receivers keep their (stale) address: reported as such
            return (int)i;
        }
    }
    return -1;
}

template <int N>
static bool dumpSlotAs(AReceivers* p, std::ostream& os) {
    auto* typed = dynamic_cast<Receivers<Ev<N> >*>(p);
    if (!typed) {
        return false;
    }
    os << "E" << N << ":";
    bool first = true;
    for (auto* r : typed->receivers) {
        // several receivers may have had the same address over time: prefer a live one
        int ord = -1;
        for (size_t i = 0; i < g_receivers.size(); ++i) {
            if (g_receivers[i].base == (void*)r && g_receivers[i].alive) { ord = (int)i; }
        }
        if (ord < 0) { ord = ordinalOf(r); }
        os << (first ? "" : ",");
        if (ord < 0) { os << "?"; } else { os << ord; if (!g_receivers[ord].alive) os << "!dead"; }
        first = false;
    }
    return true;
}

template <int... Ns>
static void dumpSlot(AReceivers* p, std::ostream& os, std::integer_sequence<int, Ns...>) {
    bool done = (dumpSlotAs<Ns>(p, os) || ...);
    if (!done) {
        os << "E?";
    }
}

static void dumpInternals(std::ostream& os) {
#ifndef VERIF_NO_INTERNALS
    for (size_t k = 0; k < g_managers.size(); ++k) {
        if (!g_managers[k].mgr) {
            continue;
        }
        auto& subs = (*g_managers[k].mgr).*get(rob::SubsTag{});
        os << " m" << k << "=";
        if (subs.size() == 0) {
            os << ".";
        }
        for (size_t i = 0; i < subs.size(); ++i) {
            if (i) os << "/";
            AReceivers* p = subs[EventId::make(i)].get();
            if (!p) {
                os << "-";
            } else {
                dumpSlot(p, os, std::make_integer_sequence<int, kTypes>{});
            }
        }
    }
#else
    (void)os;
#endif
}

// ------------------------------------------------------------------------------------------------
template <int N>
struct TypeOps {
    using E = Ev<N>;
    using R = Receiver<E>;

    static void destroy(void* base) { delete static_cast<R*>(base); }

    static int newReceiver() {
        const int ord = (int)g_receivers.size();
        R* p = new Custom<N>(ord);
        g_receivers.push_back(RInfo{N, true, p, &destroy});
        return ord;
    }
    static int subscribeFn(EventManager& m) {
        const int ord = (int)g_receivers.size();
        // reserve the ordinal first: subscribe() itself must not deliver anything
        g_receivers.push_back(RInfo{N, true, nullptr, &destroy});
        std::unique_ptr<R> p = m.subscribe<E>([ord](const E& e) { record(ord, N, e.value, e.check); });
        g_receivers[ord].base = p.release();
        return ord;
    }
    static void subscribe(EventManager& m, void* base) { m.subscribe_<E>(static_cast<R*>(base)); }
    static void unsubscribe(void* base) { static_cast<R*>(base)->unsubscribe(); }
    static void unsubscribeAt(EventManager& m, void* base) { m.unsubscribe<E>(static_cast<R*>(base)); }
    static void post(EventManager& m, long value) { m.post(E{value, value * 7 + N}); }
    // public, static: id of an already registered name (registers it otherwise)
    static unsigned id() { return EventManager::registerEventType(type_name<E>()).toInt(); }
};

#define DISPATCH(T, EXPR)                                                      \
    switch (T) {                                                               \
        case 0: { using O = TypeOps<0>; EXPR; } break;                         \
        case 1: { using O = TypeOps<1>; EXPR; } break;                         \
        case 2: { using O = TypeOps<2>; EXPR; } break;                         \
        case 3: { using O = TypeOps<3>; EXPR; } break;                         \
        case 4: { using O = TypeOps<4>; EXPR; } break;                         \
        case 5: { using O = TypeOps<5>; EXPR; } break;                         \
        case 6: { using O = TypeOps<6>; EXPR; } break;                         \
        case 7: { using O = TypeOps<7>; EXPR; } break;                         \
        default: bad("event type out of range");                               \
    }

[[noreturn]] static void bad(const char* what) {
    std::cout.flush();
    std::fprintf(stderr, "events_driver: malformed input: %s\n", what);
    std::exit(3);
}

static EventManager& mgr(long m) {
    if (m < 0 || m >= (long)g_managers.size() || !g_managers[m].mgr) bad("manager not alive");
    return *g_managers[m].mgr;
}
static RInfo& rcv(long r) {
    if (r < 0 || r >= (long)g_receivers.size() || !g_receivers[r].alive) bad("receiver not alive");
    return g_receivers[r];
}

int main() {
    std::ios::sync_with_stdio(false);
    MemoryManager memory;
    g_memory = &memory;
    std::string line;
    long index = 0;
    while (std::getline(std::cin, line)) {
        std::istringstream in(line);
        std::string op;
        if (!(in >> op) || op[0] == '#') {
            continue;
        }
        long a = -1, b = -1;
        in >> a >> b;
        std::ostringstream out;
        out << index << " " << op << " ";
        int type = -1;  // event type whose id is reported
        const size_t log_before = g_log.size();
        if (op == "newManager") {
            g_managers.push_back(MInfo{std::make_unique<EventManager>(memory)});
            out << "m=" << g_managers.size() - 1;
        } else if (op == "dropManager") {
            mgr(a);
            g_managers[a].mgr.reset();
            out << "ok";
        } else if (op == "newReceiver") {
            int r = -1;
            DISPATCH(a, r = O::newReceiver());
            out << "r=" << r;
        } else if (op == "subscribeFn") {
            int r = -1;
            EventManager& m = mgr(a);
            DISPATCH(b, r = O::subscribeFn(m));
            type = (int)b;
            out << "r=" << r;
        } else if (op == "subscribe") {
            EventManager& m = mgr(a);
            RInfo& r = rcv(b);
            DISPATCH(r.type, O::subscribe(m, r.base));
            type = r.type;
            out << "ok";
        } else if (op == "unsubscribe") {
            RInfo& r = rcv(a);
            DISPATCH(r.type, O::unsubscribe(r.base));
            out << "ok";
        } else if (op == "unsubscribeAt") {
            EventManager& m = mgr(a);
            RInfo& r = rcv(b);
            DISPATCH(r.type, O::unsubscribeAt(m, r.base));
            type = r.type;
            out << "ok";
        } else if (op == "dropReceiver") {
            RInfo& r = rcv(a);
            r.alive = false;   // a delivery from inside the destructor would be a delivery to a dead receiver
            r.destroy(r.base);
            out << "ok";
        } else if (op == "post") {
            EventManager& m = mgr(a);
            DISPATCH(b, O::post(m, index));
            type = (int)b;
            out << "delivered=";
            if (g_log.size() == log_before) out << "-";
            for (size_t i = log_before; i < g_log.size(); ++i) {
                const Delivery& d = g_log[i];
                out << (i == log_before ? "" : ",") << d.receiver;
                if (d.type != b) out << "!type" << d.type;
                if (d.value != index || !d.payload_ok) out << "!payload";
                if (!d.receiver_alive) out << "!dead";
            }
        } else {
            bad("unknown op");
        }
        if (op != "post" && g_log.size() != log_before) {
            out << " !spurious-delivery=" << g_log.size() - log_before;
        }
        out << " |";
        if (type >= 0) {
            unsigned id = 0;
            DISPATCH(type, id = O::id());
            out << " id=" << id;
        }
        dumpInternals(out);
        std::cout << out.str() << "\n";
        std::cout.flush();
        ++index;
    }
    // teardown in the safe order: receivers first (they unsubscribe), then managers
    for (auto& r : g_receivers) {
        if (r.alive) {
            r.alive = false;
            r.destroy(r.base);
        }
    }
    g_managers.clear();
    std::cout << "end\n";
    return 0;
}

// C04 harness: runs jobs of every supported shape over worlds described by `cfg` lines (stdin) on the REAL
// library and prints what the user callbacks observed, in a canonical form the Lean model reproduces.
//
// input, one configuration per line:
//   cfg id=<n> cap=<storage chunk capacity|0> defcs=<default version chunk size> job=<kind> filter=<none|ver|extra>
//       mode=<current|parallel|single> T=<task count override|-> archs=<k>:<size>:<cs|->:<pattern|*>:<excl 0|1>,...
//       [nreq=<desc>] [pre=<desc>;<desc>;...]
//   nreq: request list of a NonTemplateJob for the observed run: letters A B M (=M1) required, a b optional,
//         S shared required, `0` = empty list (default: nt = Ab, nts = AbS; A must be required in the observed run)
//   pre:  earlier runs of the SAME job object, unobserved, each with its own request list (typed jobs cannot
//         change their signature: every entry is one more identical run)
//   late=1: during the `pre` runs every archetype already exists but has no members yet (one member is created and
//         destroyed up front); the population is created after them (a per-job cache of matching archetypes must not
//         remember an empty archetype as "does not match")
//   kinds of archetypes (letter k): a=<A> b=<A,B> c=<A,M1> d=<A,B,M2> e=<A,M1,M2> f=<A,B,M3>
//                                   s=<A>+S(1) t=<A,B>+S(2) u=<A,M1>+S(1)      n=<B> m=<M1,M2> o=<B,M3> p=<M1>+S(1)
//   job kinds: plain idx ent opt shr arr nt nts
// output per configuration:
//   W <world archetype index> <kind|-> <size> <version chunk size> <storage capacity> <pattern> <excl>   (world order)
//   R <id> total=<JobSize> T=<TasksCount>           (onJobBegin; absent when the job found nothing)
//   B <arch>:<b>-<e> ...                            (filter blocks; internal, absent with -DVERIF_NO_INTERNALS)
//   K <task> <size>                                 (onTaskBegin)
//   A <task> <arch>,<first>,<len>,<eindex>,<intask> ...   (array-form callbacks of the task, in call order)
//   I <task> <arch>,<idx>,<eindex|->,<intask|-> ... (per-entity invocations of the task, in call order)
//   E <message>                                     (ownership / consistency error seen by the harness)
//   end <id>
#include <mustache/ecs/ecs.hpp>
#include <mustache/ecs/job.hpp>
#include <mustache/ecs/non_template_job.hpp>

#include <cstdio>
#include <cstring>
#include <functional>
#include <iostream>
#include <map>
#include <memory>
#include <mutex>
#include <sstream>
#include <string>
#include <unordered_map>
#include <vector>

namespace mustache { namespace verif { extern uint32_t storage_chunk_capacity; } }

using namespace mustache;

namespace {

struct A { uint64_t token; uint64_t chk; };
struct B { uint32_t token; uint32_t chk; };
struct M1 { char c; };
struct M2 { int x; };
struct M3 { double d; };
struct S : public TSharedComponentTag<S> {
    int v = 0;
    S() = default;
    explicit S(int x): v{x} {}
    bool operator==(const S& o) const noexcept { return v == o.v; }
};

struct ArchSpec {
    char kind = '-';
    uint32_t size = 0;
    int cs = -1;            // requested version chunk size, -1 = default
    std::string pattern;    // per version chunk: '1' changed, '0' not; "*" = all
    bool excl = false;
};

struct Cfg {
    long id = 0;
    uint32_t cap = 0;
    uint32_t defcs = 1024;
    std::string job = "idx";
    std::string filter = "none";
    std::string mode = "current";
    long T = -1;
    std::vector<ArchSpec> archs;
    std::string nreq;                 // request list of the observed NonTemplateJob run ("" = default of the kind)
    std::vector<std::string> pre;     // request lists of earlier, unobserved runs of the same job object
    bool late = false;                // the archetypes exist but are EMPTY during the `pre` runs; populated afterwards
};

struct WArch {               // one archetype of the world, world order
    Archetype* ptr = nullptr;
    char kind = '-';
    uint32_t size = 0;
    uint32_t cs = 0;
    std::string pattern;     // effective, one char per version chunk
    bool excl = false;
    bool hasB = false;
    const S* shared = nullptr;
    std::vector<Entity> ents;
    std::vector<const A*> addrA;
    std::vector<const B*> addrB;
};

struct Rec { uint32_t arch, idx; long eindex, intask; };
struct ARec { uint32_t arch, first, len; long eindex, intask; };

struct TaskLog {
    long size = -1;
    std::vector<Rec> invs;
    std::vector<ARec> arrs;
};

struct Ctl {
    std::vector<WArch> archs;
    std::unordered_map<const void*, std::pair<uint32_t, uint32_t> > byAddr;   // address of A -> (arch, idx)
    std::map<const Archetype*, uint32_t> byPtr;
    bool recording = false;
    bool prior = false;      // an earlier, unobserved run of the job object: callbacks do nothing
    int filter = 0;          // 0 none, 1 version, 2 extra
    long T = -1;
    uint32_t thread_limit = 0;
    long job_total = -1, job_tasks = -1;
    std::vector<TaskLog> logs;
    std::mutex mutex;
    std::vector<std::string> errors;
    void error(const std::string& s) {
        std::lock_guard<std::mutex> lock{mutex};
        if (errors.size() < 20) errors.push_back(s);
    }
};

Ctl* g = nullptr;
thread_local long t_task = -1;

uint64_t tokenOf(uint32_t arch, uint32_t idx) { return (uint64_t(arch) + 1u) * 1000003ull + idx * 7ull + 11ull; }

TaskLog* curLog() {
    if (t_task < 0 || size_t(t_task) >= g->logs.size()) {
        g->error("callback outside a task announced by onTaskBegin (task " + std::to_string(t_task) + ")");
        return nullptr;
    }
    return &g->logs[size_t(t_task)];
}

// ownership checks for one entity seen by a callback; returns false when `a` is not a known address
bool checkOne(const A* a, const Entity* e, bool hasBArg, const B* b, bool hasSArg, const S* s,
              uint32_t& arch, uint32_t& idx) {
    auto it = g->byAddr.find(a);
    if (it == g->byAddr.end()) {
        g->error("callback received a component address that belongs to no live entity");
        return false;
    }
    arch = it->second.first;
    idx = it->second.second;
    const WArch& w = g->archs[arch];
    if (a->token != tokenOf(arch, idx) || a->chk != ~a->token) {
        g->error("component A of arch " + std::to_string(arch) + " idx " + std::to_string(idx) + " holds foreign data");
    }
    if (e != nullptr && !(*e == w.ents[idx])) {
        g->error("entity handle does not belong to the component (arch " + std::to_string(arch) + " idx " + std::to_string(idx) + ")");
    }
    if (hasBArg) {
        const B* expected = w.hasB ? w.addrB[idx] : nullptr;
        if (b != expected) {
            g->error(std::string("optional component pointer is ") + (b == nullptr ? "null" : "foreign") +
                     " (arch " + std::to_string(arch) + " idx " + std::to_string(idx) + ")");
        } else if (b != nullptr && (b->token != uint32_t(a->token) || b->chk != ~b->token)) {
            g->error("optional component holds foreign data");
        }
    }
    if (hasSArg && s != w.shared) {
        g->error("shared component is not the archetype's instance (arch " + std::to_string(arch) + ")");
    }
    return true;
}

void recordInv(const A* a, const Entity* e, bool hasBArg, const B* b, bool hasSArg, const S* s, const JobInvocationIndex* ii) {
    uint32_t arch = 0, idx = 0;
    if (!checkOne(a, e, hasBArg, b, hasSArg, s, arch, idx)) return;
    if (!g->recording) return;
    TaskLog* log = curLog();
    if (!log) return;
    Rec r{arch, idx, -1, -1};
    if (ii) {
        r.eindex = ii->entity_index.toInt();
        r.intask = ii->entity_index_in_task.toInt();
        if (long(ii->task_index.toInt()) != t_task) g->error("invocation index names another task");
        if (ii->thread_id.toInt() > g->thread_limit) g->error("invocation index thread id out of range");
    }
    log->invs.push_back(r);
}

void recordArray(uint32_t n, const A* a, const Entity* e, bool hasBArg, const B* b, bool hasSArg, const S* s,
                 const JobInvocationIndex& ii) {
    if (n == 0) { g->error("array callback with size 0"); return; }
    uint32_t arch = 0, first = 0;
    if (!checkOne(a, e, hasBArg, b, hasSArg, s, arch, first)) return;
    const WArch& w = g->archs[arch];
    if (uint64_t(first) + n > w.size) {
        g->error("array runs past the archetype population");
        return;
    }
    for (uint32_t j = 1; j < n; ++j) {
        uint32_t a2 = 0, i2 = 0;
        if (!checkOne(a + j, e ? e + j : nullptr, hasBArg, b ? b + j : nullptr, hasSArg, s, a2, i2)) return;
        if (a2 != arch || i2 != first + j) {
            g->error("array is not a contiguous run of one archetype");
            return;
        }
    }
    if (!g->recording) return;
    TaskLog* log = curLog();
    if (!log) return;
    if (long(ii.task_index.toInt()) != t_task) g->error("invocation index names another task");
    log->arrs.push_back(ARec{arch, first, n, long(ii.entity_index.toInt()), long(ii.entity_index_in_task.toInt())});
}

// ---- behaviour shared by every job kind (all through public virtuals of BaseJob) ----
bool archAllowed(const Archetype& arch) {
    auto it = g->byPtr.find(&arch);
    return it == g->byPtr.end() || !g->archs[it->second].excl;
}
bool chunkAllowed(const Archetype& arch, ChunkIndex chunk) {
    if (g->filter != 2) return true;
    auto it = g->byPtr.find(&arch);
    if (it == g->byPtr.end()) return true;
    const std::string& p = g->archs[it->second].pattern;
    const auto c = chunk.toInt();
    return c < p.size() && p[c] == '1';
}
ComponentIdMask versionMask() {
    return g->filter == 1 ? ComponentFactory::instance().makeMask<A>() : ComponentIdMask::null();
}
void jobBegin(TasksCount tasks, JobSize total) {
    if (!g->recording) return;
    g->job_total = total.toInt();
    g->job_tasks = tasks.toInt();
    g->logs.assign(tasks.toInt(), TaskLog{});
}
void taskBegin(TaskSize size, ParallelTaskId id) {
    t_task = id.toInt();
    if (!g->recording) return;
    if (size_t(t_task) >= g->logs.size()) { g->error("task id beyond the announced task count"); return; }
    if (g->logs[size_t(t_task)].size != -1) g->error("task started twice");
    g->logs[size_t(t_task)].size = size.toInt();
}

template<typename J>
struct VJob : public PerEntityJob<J> {
    ComponentIdMask checkMask() const noexcept override { return versionMask(); }
    bool extraArchetypeFilterCheck(const Archetype& a) const noexcept override { return archAllowed(a); }
    bool extraChunkFilterCheck(const Archetype& a, ChunkIndex c) const noexcept override { return chunkAllowed(a, c); }
    TasksCount taskCount(World& w, uint32_t n) const noexcept override {
        return g->T >= 0 ? TasksCount::make(uint32_t(g->T)) : BaseJob::taskCount(w, n);
    }
    void onJobBegin(World&, TasksCount t, JobSize n, JobRunMode) noexcept override { jobBegin(t, n); }
    void onTaskBegin(World&, TaskSize s, ParallelTaskId id) noexcept override { taskBegin(s, id); }
    void onTaskEnd(World&, TaskSize, ParallelTaskId) noexcept override { t_task = -1; }
#ifndef VERIF_NO_INTERNALS
    const WorldFilterResult& filterResult() const { return this->filter_result_; }
#endif
};

struct JPlain : public VJob<JPlain> {
    void operator()(const A& a) { recordInv(&a, nullptr, false, nullptr, false, nullptr, nullptr); }
};
struct JIdx : public VJob<JIdx> {
    void operator()(A& a, JobInvocationIndex ii) { recordInv(&a, nullptr, false, nullptr, false, nullptr, &ii); }
};
struct JEnt : public VJob<JEnt> {
    void operator()(Entity e, const A& a, const JobInvocationIndex& ii) { recordInv(&a, &e, false, nullptr, false, nullptr, &ii); }
};
struct JOpt : public VJob<JOpt> {
    void operator()(Entity e, A& a, const B* b, JobInvocationIndex ii) { recordInv(&a, &e, true, b, false, nullptr, &ii); }
};
struct JShr : public VJob<JShr> {
    void operator()(Entity e, const A& a, const S& s, JobInvocationIndex ii) { recordInv(&a, &e, false, nullptr, true, &s, &ii); }
};
struct JArr : public VJob<JArr> {
    void forEachArray(const Entity* e, RequiredComponent<A> a, const B* b, ComponentArraySize n, JobInvocationIndex ii) {
        recordArray(n.toInt(), a.get(), e, true, b, false, nullptr, ii);
    }
};

struct NTJ : public NonTemplateJob {
    bool with_shared = false;
    bool extraArchetypeFilterCheck(const Archetype& a) const noexcept override { return archAllowed(a); }
    bool extraChunkFilterCheck(const Archetype& a, ChunkIndex c) const noexcept override { return chunkAllowed(a, c); }
    TasksCount taskCount(World& w, uint32_t n) const noexcept override {
        return g->T >= 0 ? TasksCount::make(uint32_t(g->T)) : BaseJob::taskCount(w, n);
    }
    void onJobBegin(World&, TasksCount t, JobSize n, JobRunMode) noexcept override { jobBegin(t, n); }
    void onTaskBegin(World&, TaskSize s, ParallelTaskId id) noexcept override { taskBegin(s, id); }
    void onTaskEnd(World&, TaskSize, ParallelTaskId) noexcept override { t_task = -1; }
#ifndef VERIF_NO_INTERNALS
    const WorldFilterResult& filterResult() const { return this->filter_result_; }
#endif
    int posA = -1, posB = -1, posM = -1;
    bool reqM = false;
    // desc: letters A B M required, a b optional, S shared required, 0 = nothing
    void setup(const std::string& desc) {
        component_requests.clear();
        shared_component_ids.clear();
        posA = posB = posM = -1;
        with_shared = false;
        reqM = false;
        for (char ch : desc) {
            const int pos = int(component_requests.size());
            switch (ch) {
                case 'A': case 'a':
                    posA = pos;
                    component_requests.push_back({ComponentFactory::instance().registerComponent<A>(), false, ch == 'A'});
                    break;
                case 'B': case 'b':
                    posB = pos;
                    component_requests.push_back({ComponentFactory::instance().registerComponent<B>(), true, ch == 'B'});
                    break;
                case 'M':
                    posM = pos;
                    reqM = true;
                    component_requests.push_back({ComponentFactory::instance().registerComponent<M1>(), true, true});
                    break;
                case 'S':
                    with_shared = true;
                    shared_component_ids = {ComponentFactory::instance().registerSharedComponent<S>()};
                    break;
                default: break;
            }
        }
        require_entity = true;
        version_check_mask = versionMask();
        callback = [this](const NonTemplateJob::ForEachArrayArgs& args) {
            if (g->prior) return;
            if (posA < 0 || args.components[posA] == nullptr) {
                g->error("required component A not handed to the callback");
                return;
            }
            if (reqM && args.components[posM] == nullptr) g->error("required component M1 is null");
            const S* s = with_shared ? static_cast<const S*>(args.shared_components[0]) : nullptr;
            recordArray(args.count.toInt(), static_cast<const A*>(args.components[posA]), args.entities, posB >= 0,
                        posB >= 0 ? static_cast<const B*>(args.components[posB]) : nullptr, with_shared, s,
                        args.invocation_index);
        };
    }
};

// request list of a job object for the next run (only run-time described jobs can change it)
void applyDesc(NTJ& job, const std::string& desc) { job.setup(desc); }
template<typename J> void applyDesc(J&, const std::string&) {}

// ---- world construction ----
std::shared_ptr<Dispatcher> g_dispatcher;
std::shared_ptr<MemoryManager> g_memory;

template<typename... C>
ComponentIdMask maskOf() { return ComponentFactory::instance().makeMask<C...>(); }

ComponentIdMask kindMask(char k) {
    switch (k) {
        case 'a': case 's': return maskOf<A>();
        case 'b': case 't': return maskOf<A, B>();
        case 'c': case 'u': return maskOf<A, M1>();
        case 'd': return maskOf<A, B, M2>();
        case 'e': return maskOf<A, M1, M2>();
        case 'f': return maskOf<A, B, M3>();
        case 'n': return maskOf<B>();
        case 'm': return maskOf<M1, M2>();
        case 'o': return maskOf<B, M3>();
        case 'p': return maskOf<M1>();
        default: return ComponentIdMask::null();
    }
}

Entity createKind(EntityManager& em, char k) {
    Entity e;
    switch (k) {
        case 'a': case 's': e = em.create<A>(); break;
        case 'b': case 't': e = em.create<A, B>(); break;
        case 'c': case 'u': e = em.create<A, M1>(); break;
        case 'd': e = em.create<A, B, M2>(); break;
        case 'e': e = em.create<A, M1, M2>(); break;
        case 'f': e = em.create<A, B, M3>(); break;
        case 'n': e = em.create<B>(); break;
        case 'm': e = em.create<M1, M2>(); break;
        case 'o': e = em.create<B, M3>(); break;
        case 'p': e = em.create<M1>(); break;
        default: throw std::runtime_error("unknown archetype kind");
    }
    switch (k) {
        case 's': case 'u': case 'p': em.assign<S>(e, S{1}); break;
        case 't': em.assign<S>(e, S{2}); break;
        default: break;
    }
    return e;
}

bool parseCfg(const std::string& line, Cfg& c) {
    std::istringstream in{line};
    std::string w;
    in >> w;
    if (w != "cfg") return false;
    while (in >> w) {
        const auto eq = w.find('=');
        if (eq == std::string::npos) return false;
        const std::string k = w.substr(0, eq), v = w.substr(eq + 1);
        if (k == "id") c.id = std::stol(v);
        else if (k == "cap") c.cap = uint32_t(std::stoul(v));
        else if (k == "defcs") c.defcs = uint32_t(std::stoul(v));
        else if (k == "job") c.job = v;
        else if (k == "filter") c.filter = v;
        else if (k == "mode") c.mode = v;
        else if (k == "T") c.T = (v == "-") ? -1 : std::stol(v);
        else if (k == "nreq") c.nreq = v;
        else if (k == "late") c.late = v == "1";
        else if (k == "pre") {
            std::istringstream ps{v};
            std::string item;
            while (std::getline(ps, item, ';')) if (!item.empty()) c.pre.push_back(item);
        }
        else if (k == "archs") {
            std::istringstream as{v};
            std::string item;
            while (std::getline(as, item, ',')) {
                if (item.empty()) continue;
                std::vector<std::string> f;
                std::istringstream is{item};
                std::string x;
                while (std::getline(is, x, ':')) f.push_back(x);
                if (f.size() != 5 || f[0].size() != 1) return false;
                ArchSpec a;
                a.kind = f[0][0];
                a.size = uint32_t(std::stoul(f[1]));
                a.cs = f[2] == "-" ? -1 : std::stoi(f[2]);
                a.pattern = f[3];
                a.excl = f[4] == "1";
                c.archs.push_back(a);
            }
        } else return false;
    }
    return true;
}

template<typename J>
void printBlocks(const J& job) {
#ifndef VERIF_NO_INTERNALS
    const auto& fr = job.filterResult();
    std::string out = "B";
    for (const auto& fa : fr.filtered_archetypes) {
        auto it = g->byPtr.find(fa.archetype);
        const long arch = it == g->byPtr.end() ? -1 : long(it->second);
        for (const auto& blk : fa.blocks) {
            out += " " + std::to_string(arch) + ":" + std::to_string(blk.begin.toInt()) + "-" + std::to_string(blk.end.toInt());
        }
    }
    std::puts(out.c_str());
#else
    (void) job;
#endif
}

template<typename J>
void runJob(World& world, J& job, const Cfg& c, const std::function<void()>& populate) {
    auto& em = world.entities();
    auto& dispatcher = world.dispatcher();
    JobRunMode mode = c.mode == "current" ? JobRunMode::kCurrentThread : JobRunMode::kParallel;
    dispatcher.setSingleThreadMode(c.mode == "single");
    const std::string observed = !c.nreq.empty() ? c.nreq : (c.job == "nts" ? "AbS" : "Ab");
    for (const auto& desc : c.pre) {
        // the same job object, described differently, has run before
        applyDesc(job, desc);
        g->recording = false;
        g->prior = true;
        job.run(world, mode);
        g->prior = false;
    }
    if (c.late) populate();
    applyDesc(job, observed);
    if (g->filter == 1) {
        // baseline: the job sees everything once, then only what is marked dirty afterwards
        g->recording = false;
        job.run(world, mode);
        world.update();
        const auto idA = ComponentFactory::instance().registerComponent<A>();
        for (auto& w : g->archs) {
            for (uint32_t chunk = 0; chunk < w.pattern.size(); ++chunk) {
                if (w.pattern[chunk] == '1' && chunk * w.cs < w.size) {
                    em.markDirty(w.ents[chunk * w.cs + (chunk % 2 ? std::min(w.cs - 1, w.size - 1 - chunk * w.cs) : 0u)], idA);
                }
            }
        }
    }
    g->recording = true;
    g->job_total = g->job_tasks = -1;
    g->logs.clear();
    job.run(world, mode);
    g->recording = false;
    dispatcher.setSingleThreadMode(false);

    if (g->job_total >= 0) {
        std::printf("R %ld total=%ld T=%ld\n", c.id, g->job_total, g->job_tasks);
        printBlocks(job);
        for (size_t t = 0; t < g->logs.size(); ++t) {
            const auto& log = g->logs[t];
            std::printf("K %zu %ld\n", t, log.size);
            if (!log.arrs.empty()) {
                std::string out = "A " + std::to_string(t);
                for (const auto& r : log.arrs) {
                    out += " " + std::to_string(r.arch) + "," + std::to_string(r.first) + "," + std::to_string(r.len) +
                           "," + std::to_string(r.eindex) + "," + std::to_string(r.intask);
                }
                std::puts(out.c_str());
            }
            if (!log.invs.empty()) {
                std::string out = "I " + std::to_string(t);
                for (const auto& r : log.invs) {
                    out += " " + std::to_string(r.arch) + "," + std::to_string(r.idx) + "," +
                           (r.eindex < 0 ? std::string("-") : std::to_string(r.eindex)) + "," +
                           (r.intask < 0 ? std::string("-") : std::to_string(r.intask));
                }
                std::puts(out.c_str());
            }
        }
    }
}

void runCfg(const Cfg& c) {
    Ctl ctl;
    g = &ctl;
    ctl.filter = c.filter == "ver" ? 1 : (c.filter == "extra" ? 2 : 0);
    ctl.T = c.T;
    mustache::verif::storage_chunk_capacity = c.cap;

    WorldContext context;
    context.memory_manager = g_memory;
    context.dispatcher = g_dispatcher;
    ctl.thread_limit = g_dispatcher->threadCount();
    {
        World world{context, WorldId::make(0)};
        world.update();
        auto& em = world.entities();
        em.setDefaultArchetypeVersionChunkSize(c.defcs);
        std::vector<std::pair<ComponentIdMask, uint32_t> > sizes;
        for (const auto& a : c.archs) {
            if (a.cs > 0) sizes.emplace_back(kindMask(a.kind), uint32_t(a.cs));
        }
        if (!sizes.empty()) {
            em.addChunkSizeFunction([sizes](const ComponentIdMask& mask) noexcept {
                ArchetypeChunkSize result;
                for (const auto& p : sizes) {
                    if (p.first == mask) {
                        result.min = p.second;
                        result.max = p.second;
                        break;
                    }
                }
                return result;
            });
        }
        if (c.late) {
            // the archetypes exist (in configuration order), without members
            for (size_t k = 0; k < c.archs.size(); ++k) {
                if (c.archs[k].size > 0) em.destroyNow(createKind(em, c.archs[k].kind));
            }
        }
        const auto populate = [&]() {
        // entities, archetype by archetype in configuration order
        std::vector<std::vector<Entity> > created(c.archs.size());
        for (size_t k = 0; k < c.archs.size(); ++k) {
            for (uint32_t i = 0; i < c.archs[k].size; ++i) {
                created[k].push_back(createKind(em, c.archs[k].kind));
            }
        }
        // world order
        const auto count = em.getArchetypesCount();
        ctl.archs.resize(count);
        for (size_t wi = 0; wi < count; ++wi) {
            auto& arch = em.getArchetype(ArchetypeIndex::make(wi));
            auto& w = ctl.archs[wi];
            w.ptr = &arch;
            w.size = arch.size();
            w.cs = arch.chunkCapacity().toInt();
            ctl.byPtr[&arch] = uint32_t(wi);
        }
        for (size_t k = 0; k < c.archs.size(); ++k) {
            if (created[k].empty()) continue;
            auto* arch = em.getArchetypeOf(created[k][0]);
            auto& w = ctl.archs[ctl.byPtr[arch]];
            w.kind = c.archs[k].kind;
            w.excl = c.archs[k].excl;
            const uint32_t chunks = w.size == 0 ? 0 : (w.size - 1) / w.cs + 1;
            const auto& p = c.archs[k].pattern;
            for (uint32_t ch = 0; ch < chunks; ++ch) {
                w.pattern.push_back(ctl.filter == 0 || p == "*" || (ch < p.size() && p[ch] == '1') ? '1' : '0');
            }
        }
        for (size_t wi = 0; wi < count; ++wi) {
            auto& w = ctl.archs[wi];
            const auto& ents = w.ptr->entities();
            w.hasB = w.ptr->hasComponent(ComponentFactory::instance().registerComponent<B>());
            const bool hasA = w.ptr->hasComponent(ComponentFactory::instance().registerComponent<A>());
            for (uint32_t i = 0; i < w.size; ++i) {
                const Entity e = ents[ArchetypeEntityIndex::make(i)];
                w.ents.push_back(e);
                if (i == 0) w.shared = em.getSharedComponent<S>(e);
                if (hasA) {
                    A* a = em.getComponent<A>(e);
                    a->token = tokenOf(uint32_t(wi), i);
                    a->chk = ~a->token;
                    w.addrA.push_back(a);
                    ctl.byAddr[a] = std::make_pair(uint32_t(wi), i);
                }
                if (w.hasB) {
                    B* b = em.getComponent<B>(e);
                    b->token = hasA ? uint32_t(tokenOf(uint32_t(wi), i)) : 5u;
                    b->chk = ~b->token;
                    w.addrB.push_back(b);
                }
            }
            const uint32_t cap = c.cap ? c.cap : 16384u;
            std::printf("W %zu %c %u %u %u %s %d\n", wi, w.kind, w.size, w.cs, cap,
                        w.pattern.empty() ? "-" : w.pattern.c_str(), w.excl ? 1 : 0);
        }
        };
        if (!c.late) populate();
        if (c.job == "plain") { JPlain j; runJob(world, j, c, populate); }
        else if (c.job == "idx") { JIdx j; runJob(world, j, c, populate); }
        else if (c.job == "ent") { JEnt j; runJob(world, j, c, populate); }
        else if (c.job == "opt") { JOpt j; runJob(world, j, c, populate); }
        else if (c.job == "shr") { JShr j; runJob(world, j, c, populate); }
        else if (c.job == "arr") { JArr j; runJob(world, j, c, populate); }
        else if (c.job == "nt" || c.job == "nts") { NTJ j; runJob(world, j, c, populate); }
        else ctl.error("unknown job kind " + c.job);
    }
    for (const auto& e : ctl.errors) std::printf("E %s\n", e.c_str());
    std::printf("end %ld\n", c.id);
    std::fflush(stdout);
    g = nullptr;
}

}

int main(int argc, char** argv) {
    uint32_t threads = 3;
    if (argc > 1) threads = uint32_t(std::atoi(argv[1]));
    g_memory = std::make_shared<MemoryManager>();
    g_dispatcher = std::make_shared<Dispatcher>(threads);
    std::string line;
    while (std::getline(std::cin, line)) {
        if (line.empty() || line[0] == '#') continue;
        Cfg c;
        bool ok = false;
        try { ok = parseCfg(line, c); } catch (...) { ok = false; }
        if (!ok) {
            std::printf("E bad configuration line\nend -1\n");
            std::fflush(stdout);
            continue;
        }
        try {
            runCfg(c);
        } catch (const std::exception& ex) {
            std::printf("E exception: %s\nend %ld\n", ex.what(), c.id);
            std::fflush(stdout);
            g = nullptr;
        }
    }
    return 0;
}

// layout_driver (C10): executes an op file against the REAL library and reports, for every component
// pointer the library hands out (lookup const/mutable, assignment immediate / under lock, iteration), where
// it lies: archetype, column, slot, chunk, offset inside the chunk, address modulo 64.
// Built by tools/vlib.py from /repo/src with -DMUSTACHE_VERIF:
//   asan  variant: ASan+UBSan (lifetime / bounds / misaligned-construction reports),
//   plain variant with -DLAYOUT_WORSTCASE_ALLOC: `aligned_alloc` is interposed by an allocator that returns
//         addresses aligned to EXACTLY the requested alignment (and not to twice it), because the sanitizer
//         and glibc allocators over-align and hide a too small `chunk_align_`.
//
// op file (one op per line; components are registered in the order of their `comp` lines):
//   cap <n>                    storage-chunk capacity hook (0 = library default); before `world`
//   world default|id|shared|explicit
//   comp <name> <size> <align> [typed]     run-time described component (or a compiled type of that shape)
//   create <names|-> <count>   entities with that component set (names comma separated)
//   get|cget <ord> <name>      mutable / const lookup
//   assign <ord> <name>        assignment (immediate when unlocked, command buffer when locked)
//   tassign <ord> <name>       typed assignment with constructor arguments (typed components only)
//   remove <ord> <name> | destroy <ord> | lock | unlock | update | clear
//   iter <names> [par]         NonTemplateJob::forEachArray over the archetypes having all <names>
//                              (a name with a trailing '?' is optional: null where the archetype lacks it)
//   titer <name>               typed forEach (typed components only), mutable and const
//   sweep                      lookup (const and mutable) of every component of every live entity
//   layout                     dump of every archetype's storage description
//   end                        destroy the world(s)
#include <mustache/ecs/world.hpp>
#include <mustache/ecs/entity_manager.hpp>
#include <mustache/ecs/job.hpp>
#include <mustache/ecs/non_template_job.hpp>
#include <mustache/ecs/default_component_data_storage.hpp>
#include <mustache/utils/dispatch.hpp>

#include <algorithm>
#include <atomic>
#include <cstdint>
#include <cstdio>
#include <cstdlib>
#include <cstring>
#include <iostream>
#include <map>
#include <memory>
#include <mutex>
#include <set>
#include <sstream>
#include <string>
#include <vector>

using namespace mustache;

// ------------------------------------------------------------------------------------------------
// worst-case allocator (plain variant only)
// ------------------------------------------------------------------------------------------------
#ifdef LAYOUT_WORSTCASE_ALLOC
extern "C" void* __libc_malloc(size_t);
extern "C" void __libc_free(void*);
namespace {
    constexpr size_t kSlots = 1u << 16;
    struct Slot { void* user; void* block; };
    Slot g_slots[kSlots];
    std::atomic_flag g_alloc_lock = ATOMIC_FLAG_INIT;
    size_t g_skewed_live = 0, g_skewed_total = 0;
    struct Spin {
        Spin() { while (g_alloc_lock.test_and_set(std::memory_order_acquire)) {} }
        ~Spin() { g_alloc_lock.clear(std::memory_order_release); }
    };
    size_t slotOf(const void* p) { return (reinterpret_cast<uintptr_t>(p) >> 4) * 2654435761u % kSlots; }
    void* const kTomb = reinterpret_cast<void*>(1);
}
// returns an address q with q % align == 0 and q % (2*align) != 0
extern "C" void* aligned_alloc(size_t align, size_t size) {
    if (align == 0) align = 1;
    char* block = static_cast<char*>(__libc_malloc(size + 3 * align + 16));
    if (block == nullptr) return nullptr;
    uintptr_t a = reinterpret_cast<uintptr_t>(block) + 1;       // never the block start itself
    a = (a + align - 1) / align * align;
    if (a % (2 * align) == 0) a += align;
    void* user = reinterpret_cast<void*>(a);
    Spin l;
    size_t i = slotOf(user);
    for (size_t n = 0; n < kSlots; ++n, i = (i + 1) % kSlots) {
        if (g_slots[i].user == nullptr || g_slots[i].user == kTomb) {
            g_slots[i] = {user, block};
            ++g_skewed_live; ++g_skewed_total;
            return user;
        }
    }
    abort();
}
extern "C" void free(void* p) {
    if (p == nullptr) return;
    void* block = nullptr;
    {
        Spin l;
        if (g_skewed_live != 0) {
            size_t i = slotOf(p);
            for (size_t n = 0; n < kSlots && g_slots[i].user != nullptr; ++n, i = (i + 1) % kSlots) {
                if (g_slots[i].user == p) {
                    block = g_slots[i].block;
                    g_slots[i].user = kTomb;
                    --g_skewed_live;
                    break;
                }
            }
        }
    }
    __libc_free(block != nullptr ? block : p);
}
#endif

// ------------------------------------------------------------------------------------------------
// access to internals (read-only)
// ------------------------------------------------------------------------------------------------
namespace mustache { namespace verif { extern uint32_t storage_chunk_capacity; } }
#ifndef VERIF_NO_INTERNALS
namespace mustache { namespace verif {
struct Access {
    static const BaseComponentDataStorage* storage(const Archetype& a) { return a.data_storage_.get(); }
    static uint32_t locArch(const EntityManager& m, Entity e) { return m.locations_[e.id()].archetype.toInt(); }
    static uint32_t locIndex(const EntityManager& m, Entity e) { return m.locations_[e.id()].index.toInt(); }
    static auto& temporal(EntityManager& m) { return m.temporal_storages_; }
};
}}
using mustache::verif::Access;
// protected members of DefaultComponentDataStorage, through a derived class (no hook needed)
struct Peek : public DefaultComponentDataStorage {
    static const auto& chunks(const DefaultComponentDataStorage& s) { return s.*(&Peek::chunks_); }
    static const auto& getters(const DefaultComponentDataStorage& s) { return s.*(&Peek::component_getter_info_); }
    static uint32_t chunkSize(const DefaultComponentDataStorage& s) { return s.*(&Peek::chunk_size_); }
    static uint32_t chunkAlign(const DefaultComponentDataStorage& s) { return s.*(&Peek::chunk_align_); }
    static uint32_t offsetAt(const DefaultComponentDataStorage& s, uint32_t i) {
        return getters(s)[ComponentIndex::make(i)].offset.toInt();
    }
    static uint32_t sizeAt(const DefaultComponentDataStorage& s, uint32_t i) {
        return getters(s)[ComponentIndex::make(i)].size;
    }
    static size_t getterCount(const DefaultComponentDataStorage& s) { return getters(s).size(); }
};
#endif

// ------------------------------------------------------------------------------------------------
// components
// ------------------------------------------------------------------------------------------------
static std::mutex g_mutex;
static std::vector<std::string> g_errors;     // misaligned `this` / argument seen inside a component function
static void fnCheck(const void* p, size_t align, const char* what, const std::string& name) {
    if (align != 0 && reinterpret_cast<uintptr_t>(p) % align != 0) {
        std::lock_guard<std::mutex> l{g_mutex};
        if (g_errors.size() < 8) {
            g_errors.push_back(std::string("FN-MISALIGNED ") + what + " c=" + name + " m=" +
                               std::to_string(reinterpret_cast<uintptr_t>(p) % 64));
        }
    }
}
static unsigned char pat(Entity e, uint32_t cid) {
    return static_cast<unsigned char>(0x11u + e.id().toInt() * 7u + e.version().toInt() * 3u + cid * 31u);
}

struct Fill { unsigned char v; };
static uint32_t g_typed_cid[16];
static std::string g_typed_name[16];
template <size_t S, size_t A, int K>
struct alignas(A) TC {
    unsigned char b[S];
    void chk(const char* what) const { fnCheck(this, A, what, g_typed_name[K]); }
    explicit TC(const Entity& e) { chk("ctor"); std::memset(b, pat(e, g_typed_cid[K]), S); }
    explicit TC(Fill f) { chk("arg-ctor"); std::memset(b, f.v, S); }
    TC(const TC& o) { chk("copy-ctor"); o.chk("copy-src"); std::memcpy(b, o.b, S); }
    TC(TC&& o) noexcept { chk("move-ctor"); o.chk("move-src"); std::memcpy(b, o.b, S); }
    TC& operator=(const TC& o) { chk("copy-assign"); o.chk("copy-src"); std::memcpy(b, o.b, S); return *this; }
    TC& operator=(TC&& o) noexcept { chk("move-assign"); o.chk("move-src"); std::memcpy(b, o.b, S); return *this; }
    ~TC() { chk("dtor"); }
};
using T0 = TC<1, 1, 0>;
using T1 = TC<3, 1, 1>;
using T2 = TC<4, 2, 2>;
using T3 = TC<8, 8, 3>;
using T4 = TC<24, 8, 4>;
using T5 = TC<64, 64, 5>;
using T6 = TC<64, 32, 6>;
using T7 = TC<4096, 16, 7>;
using T8 = TC<16, 16, 8>;
using T9 = TC<4, 4, 9>;
struct TypedShape { size_t size, align; };
static const TypedShape kTyped[] = {{1, 1}, {3, 1}, {4, 2}, {8, 8}, {24, 8}, {64, 64}, {64, 32}, {4096, 16}, {16, 16}, {4, 4}};
constexpr int kTypedCount = 10;
template <typename X> struct Tag { using type = X; };
template <typename Fn>
static void withTyped(int k, Fn&& fn) {
    switch (k) {
        case 0: fn(Tag<T0>{}); break; case 1: fn(Tag<T1>{}); break; case 2: fn(Tag<T2>{}); break;
        case 3: fn(Tag<T3>{}); break; case 4: fn(Tag<T4>{}); break; case 5: fn(Tag<T5>{}); break;
        case 6: fn(Tag<T6>{}); break; case 7: fn(Tag<T7>{}); break; case 8: fn(Tag<T8>{}); break;
        case 9: fn(Tag<T9>{}); break;
        default: break;
    }
}

struct CompDesc {
    std::string name;
    size_t size = 0, align = 0;
    ComponentId id;
    int typed = -1;
};

// ------------------------------------------------------------------------------------------------
// driver state
// ------------------------------------------------------------------------------------------------
struct Driver {
    std::vector<CompDesc> comps;
    std::map<std::string, size_t> by_name;
    bool typed_used[kTypedCount] = {};
    std::shared_ptr<MemoryManager> memory;
    std::shared_ptr<Dispatcher> dispatcher;
    std::unique_ptr<World> world, world2;
    std::vector<Entity> ents;
    uint64_t epoch = 0;                                                   // bumped by every structural op
    std::map<std::pair<size_t, size_t>, std::pair<uint64_t, const void*> > last;   // (ord, comp) -> (epoch, ptr)
    std::ostringstream out;

    EntityManager& em() { return world->entities(); }

    const CompDesc* comp(const std::string& n) const {
        auto it = by_name.find(n);
        return it == by_name.end() ? nullptr : &comps[it->second];
    }
    std::vector<const CompDesc*> parseNames(const std::string& s) const {
        std::vector<const CompDesc*> r;
        if (s == "-" || s.empty()) return r;
        std::stringstream ss{s};
        std::string item;
        while (std::getline(ss, item, ',')) {
            const auto* c = comp(item);
            if (c == nullptr) throw std::runtime_error("unknown component " + item);
            r.push_back(c);
        }
        return r;
    }
    ComponentIdMask maskOf(const std::vector<const CompDesc*>& cs) const {
        ComponentIdMask m;
        for (auto c : cs) m.set(c->id, true);
        return m;
    }
    std::string archName(const Archetype& a) const {
        std::string r;
        for (const auto& c : comps) {
            if (a.hasComponent(c.id)) { if (!r.empty()) r += ","; r += c.name; }
        }
        return r.empty() ? "-" : r;
    }
    int64_t ordOf(Entity e) const {
        for (size_t i = ents.size(); i-- > 0;) if (ents[i] == e) return static_cast<int64_t>(i);
        return -1;
    }

    // ---- registration ----
    void registerComp(const std::string& name, size_t size, size_t align, bool typed) {
        CompDesc d;
        d.name = name; d.size = size; d.align = align;
        if (typed) {
            for (int k = 0; k < kTypedCount; ++k) {
                if (!typed_used[k] && kTyped[k].size == size && kTyped[k].align == align) { d.typed = k; break; }
            }
        }
        if (d.typed >= 0) {
            typed_used[d.typed] = true;
            g_typed_name[d.typed] = name;
            withTyped(d.typed, [&](auto t) {
                using X = typename decltype(t)::type;
                d.id = ComponentFactory::instance().registerComponent<X>();
            });
            g_typed_cid[d.typed] = d.id.toInt();
        } else {
            ComponentInfo info;
            info.size = size;
            info.align = align;
            info.name = "rt_" + name + "_" + std::to_string(size) + "_" + std::to_string(align);
            info.type_id_hash_code = std::hash<std::string>{}(info.name);
            const uint32_t cid = ComponentFactory::instance().nextComponentId().toInt();
            info.functions.create = [size, align, cid, name](void* p, const Entity& e, World&) {
                fnCheck(p, align, "create", name);
                std::memset(p, pat(e, cid), size);
            };
            info.functions.copy = [size, align, name](void* d, const void* s) {
                fnCheck(d, align, "copy-dest", name); fnCheck(s, align, "copy-src", name);
                std::memcpy(d, s, size);
            };
            info.functions.move = [size, align, name](void* d, void* s) {
                fnCheck(d, align, "move-dest", name); fnCheck(s, align, "move-src", name);
                std::memmove(d, s, size);
            };
            info.functions.move_constructor = [size, align, name](void* d, void* s) {
                fnCheck(d, align, "movector-dest", name); fnCheck(s, align, "movector-src", name);
                std::memmove(d, s, size);
            };
            info.functions.destroy = [align, name](void* p) { fnCheck(p, align, "destroy", name); };
            d.id = ComponentFactory::instance().componentId(info);
        }
        by_name[name] = comps.size();
        comps.push_back(d);
        out << "comp " << name << " id=" << d.id.toInt() << (d.typed >= 0 ? " typed" : "") << "\n";
    }

    // ---- worlds ----
    void makeWorld(const std::string& kind) {
        if (kind == "default") {
            world = std::make_unique<World>();
        } else if (kind == "id") {
            world = std::make_unique<World>(WorldId::make(5));
        } else if (kind == "shared") {
            WorldContext ctx;
            ctx.memory_manager = std::make_shared<MemoryManager>();
            ctx.dispatcher = std::make_shared<Dispatcher>(2u);
            ctx.events = std::make_shared<EventManager>(*ctx.memory_manager);
            world2 = std::make_unique<World>(ctx, WorldId::make(1));
            world = std::make_unique<World>(ctx, WorldId::make(2));
        } else if (kind == "explicit") {
            WorldContext ctx;
            ctx.memory_manager = std::make_shared<MemoryManager>();
            ctx.dispatcher = std::make_shared<Dispatcher>(3u);
            world = std::make_unique<World>(ctx, WorldId::make(3));
        } else {
            throw std::runtime_error("unknown world kind " + kind);
        }
        // touch everything a fresh world offers
        world->init();
        (void) world->memoryManager();
        (void) world->dispatcher().threadCount();
        (void) world->events();
        (void) world->storage();
        world->update();
        if (world2) { world2->init(); world2->update(); }
        out << "world " << kind << " ok\n";
    }

    // ---- observation of one pointer into archetype storage ----
    void observe(const char* how, Entity e, const CompDesc& c, const void* p, bool writable, uint32_t count = 1) {
        const int64_t ord = ordOf(e);
        out << "P " << how << " e=" << ord << " c=" << c.name;
        if (p == nullptr) { out << " null\n"; return; }
        const auto addr = reinterpret_cast<uintptr_t>(p);
        Archetype* arch = em().getArchetypeOf(e);
        out << " a=" << (arch ? archName(*arch) : std::string("?"));
#ifndef VERIF_NO_INTERNALS
        if (arch != nullptr) {
            const auto* st = dynamic_cast<const DefaultComponentDataStorage*>(Access::storage(*arch));
            const auto ci = arch->getComponentIndex(c.id);
            out << " i=" << (ci.isValid() ? std::to_string(ci.toInt()) : std::string("-1"));
            out << " j=" << Access::locIndex(em(), e);
            int64_t chunk = -1; uint64_t rel = 0;
            if (st != nullptr) {
                const auto& chunks = Peek::chunks(*st);
                const auto csz = Peek::chunkSize(*st);
                for (size_t k = 0; k < chunks.size(); ++k) {
                    const auto b = reinterpret_cast<uintptr_t>(chunks[ChunkIndex::make(static_cast<uint32_t>(k))]);
                    // a zero-size component may sit exactly at the end of the chunk
                    if (addr >= b && addr + c.size * count <= b + csz && (addr < b + csz || c.size == 0)) {
                        chunk = static_cast<int64_t>(k); rel = addr - b; break;
                    }
                }
            }
            out << " k=" << chunk << " r=" << rel;
        }
#endif
        out << " m=" << addr % 64 << " n=" << count;
        if (ord >= 0) {
            auto key = std::make_pair(static_cast<size_t>(ord), static_cast<size_t>(&c - comps.data()));
            auto it = last.find(key);
            if (it != last.end() && it->second.first == epoch && it->second.second != p) out << " STABLE-ERROR";
            last[key] = {epoch, p};
        }
        // content: the bytes written by the constructor / the last write through a handed-out pointer
        const auto* bytes = static_cast<const unsigned char*>(p);
        const unsigned char want = pat(e, c.id.toInt());
        bool good = true;
        for (size_t i = 0; i < c.size; ++i) good = good && bytes[i] == want;
        if (!good) out << " CONTENT-ERROR";
        if (writable) std::memset(const_cast<void*>(p), want, c.size);
        out << "\n";
    }

    // ---- observation of a temporary parked in a command buffer ----
    // state of the calling thread's command buffer (thread id 0) before an allocation: target/total/base:capacity:free,...
    std::string tempState() {
#ifndef VERIF_NO_INTERNALS
        auto& storages = Access::temporal(em());
        if (storages.size() == 0) return "-";
        auto& ts = storages[ThreadId::make(0u)];
        std::ostringstream o;
        o << ts.target_chunk_size_ << "/" << ts.total_size_ << "/";
        for (size_t q = 0; q < ts.chunks_.size(); ++q) {
            o << (q ? "," : "") << reinterpret_cast<uintptr_t>(ts.chunks_[q].data.get()) << ":" << ts.chunks_[q].capacity
              << ":" << ts.chunks_[q].free_space;
        }
        if (ts.chunks_.empty()) o << "-";
        return o.str();
#else
        return "-";
#endif
    }

    void observeTemp(const char* how, Entity e, const CompDesc& c, const void* p, const std::string& pre) {
        out << "T " << how << " e=" << ordOf(e) << " c=" << c.name << " pre=" << pre;
        if (p == nullptr) { out << " null\n"; return; }
        const auto addr = reinterpret_cast<uintptr_t>(p);
#ifndef VERIF_NO_INTERNALS
        auto& storages = Access::temporal(em());
        int64_t t = -1, k = -1; uint64_t off = 0, cap = 0, base = 0;
        for (size_t s = 0; s < storages.size() && t < 0; ++s) {
            auto& ts = storages[ThreadId::make(static_cast<uint32_t>(s))];
            for (size_t q = 0; q < ts.chunks_.size(); ++q) {
                const auto b = reinterpret_cast<uintptr_t>(ts.chunks_[q].data.get());
                if (addr >= b && addr + c.size <= b + ts.chunks_[q].capacity) {
                    t = static_cast<int64_t>(s); k = static_cast<int64_t>(q); off = addr - b;
                    cap = ts.chunks_[q].capacity; base = b; break;
                }
            }
        }
        out << " t=" << t << " k=" << k << " o=" << off << " cap=" << cap << " b=" << base;
#endif
        out << " m=" << addr % 64 << "\n";
        std::memset(const_cast<void*>(p), pat(e, c.id.toInt()), c.size);   // the value the flush will move in
    }

    void flushErrors() {
        std::lock_guard<std::mutex> l{g_mutex};
        for (const auto& s : g_errors) out << "X " << s << "\n";
        g_errors.clear();
    }

    // ---- ops ----
    void opCreate(const std::string& names, uint32_t count) {
        const auto cs = parseNames(names);
        const auto mask = maskOf(cs);
        const size_t first = ents.size();
        ++epoch;
        for (uint32_t i = 0; i < count; ++i) {
            ents.push_back(em().create(mask, SharedComponentsInfo{}));
        }
        out << "create first=" << first << " n=" << count << "\n";
    }
    void opGet(size_t ord, const std::string& name, bool is_const) {
        const auto* c = comp(name);
        const Entity e = ents.at(ord);
        const void* p = nullptr;
        if (c->typed >= 0) {
            withTyped(c->typed, [&](auto t) {
                using X = typename decltype(t)::type;
                if (is_const) p = em().getComponent<const X>(e); else p = em().getComponent<X>(e);
            });
        } else {
            if (is_const) p = em().getComponent<true>(e, c->id); else p = em().getComponent<false>(e, c->id);
        }
        observe(is_const ? "cget" : "get", e, *c, p, !is_const);
    }
    void opAssign(size_t ord, const std::string& name, bool with_args) {
        const auto* c = comp(name);
        const Entity e = ents.at(ord);
        const bool locked = em().isLocked();
        if (!locked) ++epoch;
        const std::string pre = locked ? tempState() : std::string();
        void* p = nullptr;
        if (with_args && c->typed >= 0) {
            withTyped(c->typed, [&](auto t) {
                using X = typename decltype(t)::type;
                p = &em().assign<X>(e, Fill{pat(e, c->id.toInt())});
            });
        } else {
            p = em().assign(e, c->id);
        }
        if (locked) observeTemp(with_args ? "tassign" : "assign", e, *c, p, pre);
        else observe(with_args ? "tassign" : "assign", e, *c, p, true);
    }
    void opIter(const std::string& names_in, bool parallel) {
        // a trailing '?' marks an optional component (is_required = false: null where the archetype lacks it)
        std::string names;
        std::vector<bool> optional;
        {
            std::stringstream ss{names_in};
            std::string item;
            while (std::getline(ss, item, ',')) {
                const bool opt = !item.empty() && item.back() == '?';
                if (opt) item.pop_back();
                optional.push_back(opt);
                names += (names.empty() ? "" : ",") + item;
            }
        }
        const auto cs = parseNames(names);
        struct Rec { Entity first; uint32_t n; std::vector<const void*> ptrs; };
        std::vector<Rec> recs;
        std::mutex m;
        NonTemplateJob job;
        for (size_t i = 0; i < cs.size(); ++i) job.component_requests.push_back({cs[i]->id, i % 2 == 1, !optional[i]});
        job.require_entity = true;
        job.callback = [&](NonTemplateJob::ForEachArrayArgs args) {
            Rec r;
            r.n = args.count.toInt();
            r.first = args.entities != nullptr && r.n > 0 ? args.entities[0] : Entity{};
            for (size_t i = 0; i < cs.size(); ++i) {
                r.ptrs.push_back(args.components[i]);
                // touch every element of the array the way a job body does
                auto* bytes = static_cast<unsigned char*>(args.components[i]);
                for (uint32_t k = 0; bytes != nullptr && k < r.n; ++k) {
                    const unsigned char want = pat(args.entities[k], cs[i]->id.toInt());
                    bool good = true;
                    for (size_t b = 0; b < cs[i]->size; ++b) good = good && bytes[k * cs[i]->size + b] == want;
                    if (!good) {
                        std::lock_guard<std::mutex> l{g_mutex};
                        if (g_errors.size() < 8) g_errors.push_back("ITER-CONTENT-ERROR c=" + cs[i]->name);
                    }
                    if (i % 2 == 0) std::memset(bytes + k * cs[i]->size, want, cs[i]->size);
                }
            }
            std::lock_guard<std::mutex> l{m};
            recs.push_back(std::move(r));
        };
        job.run(*world, parallel ? JobRunMode::kParallel : JobRunMode::kCurrentThread);
        std::sort(recs.begin(), recs.end(), [&](const Rec& a, const Rec& b) { return ordOf(a.first) < ordOf(b.first); });
        uint32_t total = 0;
        for (const auto& r : recs) {
            total += r.n;
            for (size_t i = 0; i < cs.size(); ++i) observe("iter", r.first, *cs[i], r.ptrs[i], false, r.n);
        }
        out << "iter arrays=" << recs.size() << " entities=" << total << "\n";
    }
    void opTypedIter(const std::string& name) {
        const auto* c = comp(name);
        if (c == nullptr || c->typed < 0) { out << "titer skipped\n"; return; }
        uint32_t n = 0;
        withTyped(c->typed, [&](auto t) {
            using X = typename decltype(t)::type;
            std::vector<std::pair<Entity, const void*> > seen;
            em().forEach([&](Entity e, X& x) { seen.emplace_back(e, &x); }, JobRunMode::kCurrentThread);
            for (auto& s : seen) observe("titer", s.first, *c, s.second, true);
            n += static_cast<uint32_t>(seen.size());
            seen.clear();
            em().forEach([&](Entity e, const X& x) { seen.emplace_back(e, &x); }, JobRunMode::kCurrentThread);
            for (auto& s : seen) observe("ctiter", s.first, *c, s.second, false);
            n += static_cast<uint32_t>(seen.size());
        });
        out << "titer n=" << n << "\n";
    }
    void opSweep() {
        uint32_t n = 0;
        for (size_t ord = 0; ord < ents.size(); ++ord) {
            const Entity e = ents[ord];
            if (!em().isEntityValid(e)) continue;
            const Archetype* arch = em().getArchetypeOf(e);
            if (arch == nullptr) continue;
            for (const auto& c : comps) {
                if (!arch->hasComponent(c.id)) continue;
                observe("cget", e, c, em().getComponent<true>(e, c.id), false);
                observe("get", e, c, em().getComponent<false>(e, c.id), true);
                n += 2;
            }
        }
        out << "sweep n=" << n << "\n";
    }
    void opLayout() {
#ifndef VERIF_NO_INTERNALS
        std::vector<std::string> lines;
        for (uint32_t ai = 0; ai < em().getArchetypesCount(); ++ai) {
            const auto& arch = em().getArchetype(ArchetypeIndex::make(ai));
            const auto* st = dynamic_cast<const DefaultComponentDataStorage*>(Access::storage(arch));
            if (st == nullptr) continue;
            std::ostringstream l;
            l << "L a=" << archName(arch) << " cap=" << st->chunkCapacity().toInt() << " al=" << Peek::chunkAlign(*st)
              << " sz=" << Peek::chunkSize(*st) << " offs=";
            const auto n = Peek::getterCount(*st);
            for (size_t i = 0; i < n; ++i) l << (i ? "," : "") << Peek::offsetAt(*st, static_cast<uint32_t>(i));
            if (n == 0) l << "-";
            l << " sizes=";
            for (size_t i = 0; i < n; ++i) l << (i ? "," : "") << Peek::sizeAt(*st, static_cast<uint32_t>(i));
            if (n == 0) l << "-";
            const auto& chunks = Peek::chunks(*st);
            l << " pop=" << arch.size() << " nch=" << chunks.size() << " bm=";
            for (size_t k = 0; k < chunks.size(); ++k) {
                l << (k ? "," : "") << reinterpret_cast<uintptr_t>(chunks[ChunkIndex::make(static_cast<uint32_t>(k))]) % 64;
            }
            if (chunks.size() == 0) l << "-";
            // chunks are distinct allocations: check that their ranges do not overlap
            bool overlap = false;
            for (size_t x = 0; x < chunks.size(); ++x) for (size_t y = x + 1; y < chunks.size(); ++y) {
                const auto bx = reinterpret_cast<uintptr_t>(chunks[ChunkIndex::make(static_cast<uint32_t>(x))]);
                const auto by = reinterpret_cast<uintptr_t>(chunks[ChunkIndex::make(static_cast<uint32_t>(y))]);
                const auto sz = Peek::chunkSize(*st);
                if (!(bx + sz <= by || by + sz <= bx)) overlap = true;
            }
            if (overlap) l << " CHUNK-OVERLAP";
            lines.push_back(l.str());
        }
        std::sort(lines.begin(), lines.end());
        for (const auto& l : lines) out << l << "\n";
#endif
        out << "layout done\n";
    }

    void exec(const std::vector<std::string>& w) {
        const std::string& op = w[0];
        if (op == "cap") { mustache::verif::storage_chunk_capacity = static_cast<uint32_t>(std::stoul(w.at(1))); out << "ok\n"; }
        else if (op == "world") makeWorld(w.at(1));
        else if (op == "comp") registerComp(w.at(1), std::stoul(w.at(2)), std::stoul(w.at(3)), w.size() > 4 && w[4] == "typed");
        else if (op == "create") opCreate(w.at(1), static_cast<uint32_t>(std::stoul(w.at(2))));
        else if (op == "get") opGet(std::stoul(w.at(1)), w.at(2), false);
        else if (op == "cget") opGet(std::stoul(w.at(1)), w.at(2), true);
        else if (op == "assign") opAssign(std::stoul(w.at(1)), w.at(2), false);
        else if (op == "tassign") opAssign(std::stoul(w.at(1)), w.at(2), true);
        else if (op == "remove") { if (!em().isLocked()) ++epoch; em().removeComponent(ents.at(std::stoul(w.at(1))), comp(w.at(2))->id); out << "ok\n"; }
        else if (op == "destroy") { if (!em().isLocked()) ++epoch; em().destroyNow(ents.at(std::stoul(w.at(1)))); out << "ok\n"; }
        else if (op == "lock") { em().lock(); out << "ok\n"; }
        else if (op == "unlock") { ++epoch; em().unlock(); out << "ok\n"; }
        else if (op == "update") { ++epoch; world->update(); out << "ok\n"; }
        else if (op == "clear") { ++epoch; em().clear(); out << "ok\n"; }
        else if (op == "iter") opIter(w.at(1), w.size() > 2 && w[2] == "par");
        else if (op == "titer") opTypedIter(w.at(1));
        else if (op == "sweep") opSweep();
        else if (op == "layout") opLayout();
        else if (op == "end") { world.reset(); world2.reset(); out << "ok\n"; }
        else out << "bad-op\n";
    }
};

int main() {
    Driver d;
    std::string line;
    while (std::getline(std::cin, line)) {
        if (line.empty() || line[0] == '#') continue;
        std::stringstream ss{line};
        std::vector<std::string> w;
        std::string x;
        while (ss >> x) w.push_back(x);
        if (w.empty()) continue;
        try {
            d.exec(w);
        } catch (const std::exception& ex) {
            d.out << "error " << ex.what() << "\n";
        }
        d.flushErrors();
        std::cout << "> " << line << "\n" << d.out.str();
        d.out.str("");
        std::cout.flush();
    }
    d.world.reset();
    d.world2.reset();
#ifdef LAYOUT_WORSTCASE_ALLOC
    std::cout << "allocator skewed_total=" << g_skewed_total << " live=" << g_skewed_live << "\n";
#endif
    return 0;
}

// C06 harness: parallel jobs on a World whose dispatcher has a chosen number of workers; tasks write the
// components they are handed, issue deferred commands (assign / destroy / create) and trigger first-use
// registration of a component type.  Meant to be run under ThreadSanitizer (variant "tsan"): the check reads
// the sanitizer's report; the program itself prints per-run totals read back after run() returned.
//
// usage: parjob_driver <workers> <entities> <rounds> <seed> [inject-per-mille] [mode] [storage-chunk-capacity]
// mode bits: 1 deferred assign, 2 first-use registration inside tasks, 4 additionally a run-time described job
// (NonTemplateJob, what the C API is built on) in parallel mode over two archetypes that keep the requested
// component at DIFFERENT component indexes ({Bystander, Payload} and {Payload}); a small storage-chunk capacity
// makes every task walk several arrays.
#include <mustache/ecs/ecs.hpp>
#include <mustache/ecs/non_template_job.hpp>
#include <mustache/utils/dispatch.hpp>

#include <atomic>
#include <chrono>
#include <cstdio>
#include <cstdlib>
#include <memory>
#include <thread>
#include <vector>

using namespace mustache;

namespace mustache { namespace verif { extern uint32_t storage_chunk_capacity; } }

namespace {
struct Bystander { uint64_t value = 1000u; };   // registered before Payload: lower id, index 0 next to it
struct Payload { uint64_t value = 0u; };
struct Pos { uint64_t v = 0; };
struct Vel { uint64_t v = 1; };
struct Tag { uint32_t t = 0; };
struct Late0 { uint32_t x = 0; };
struct Late1 { uint32_t x = 0; };
struct Late2 { uint32_t x = 0; };

uint32_t g_inject = 0;
uint64_t g_seed = 1;
thread_local uint64_t tl_rng = 0;
void hook(int point, const void*, unsigned thread_id, int) {
    if (g_inject == 0) return;
    if (tl_rng == 0) tl_rng = g_seed * 0x9E3779B97F4A7C15ull ^ (thread_id + 1ull) * 0xBF58476D1CE4E5B9ull ^ 0x1234567ull;
    tl_rng ^= tl_rng << 13; tl_rng ^= tl_rng >> 7; tl_rng ^= tl_rng << 17;
    if (tl_rng % 1000u < g_inject) {
        if ((tl_rng >> 20) % 8u == 0u) std::this_thread::sleep_for(std::chrono::microseconds(20 + (tl_rng >> 24) % 100u));
        else std::this_thread::yield();
    }
    (void) point;
}
} // namespace

int main(int argc, char** argv) {
    const uint32_t workers = argc > 1 ? static_cast<uint32_t>(std::atoi(argv[1])) : 4u;
    const uint32_t entities = argc > 2 ? static_cast<uint32_t>(std::atoi(argv[2])) : 2000u;
    const uint32_t rounds = argc > 3 ? static_cast<uint32_t>(std::atoi(argv[3])) : 3u;
    g_seed = argc > 4 ? static_cast<uint64_t>(std::atoll(argv[4])) : 1u;
    g_inject = argc > 5 ? static_cast<uint32_t>(std::atoi(argv[5])) : 0u;
    const int mode = argc > 6 ? std::atoi(argv[6]) : 3; // bit 0: deferred assign/destroy, bit 1: first-use registration
    const uint32_t cap = argc > 7 ? static_cast<uint32_t>(std::atoi(argv[7])) : 0u;
    mustache::verif::storage_chunk_capacity = cap;
    mustache::verif::sched_hook = &hook;

    WorldContext ctx;
    ctx.dispatcher = std::make_shared<Dispatcher>(workers);
    World world{ctx};
    auto& em = world.entities();
    std::vector<Entity> all;
    for (uint32_t i = 0; i < entities; ++i) {
        Entity e = (i % 3u == 0u) ? em.create<Pos, Vel, Tag>() : em.create<Pos, Vel>();
        em.getComponent<Pos>(e)->v = i;
        all.push_back(e);
    }
    uint64_t expect_sum = 0;
    for (uint32_t i = 0; i < entities; ++i) expect_sum += i;

    // run-time described job over two layouts of the same component
    std::vector<Entity> with_both, with_single;
    ComponentId payload_id;
    if ((mode & 4) != 0) {
        (void) ComponentFactory::instance().registerComponent<Bystander>();
        payload_id = ComponentFactory::instance().registerComponent<Payload>();
        auto& arch_both = em.getArchetype<Bystander, Payload>();
        auto& arch_single = em.getArchetype<Payload>();
        for (uint32_t i = 0; i < entities; ++i) with_both.push_back(em.create(arch_both));
        for (uint32_t i = 0; i < entities; ++i) with_single.push_back(em.create(arch_single));
    }

    for (uint32_t round = 0; round < rounds; ++round) {
        std::atomic<uint64_t> visits{0};
        std::vector<std::atomic<uint32_t>> seen_tid(workers + 2);
        std::atomic<uint32_t> marked_early{0};
        world.update();
        em.forEach([&](Entity e, Pos& p, const Vel& v, const JobInvocationIndex& idx) {
            p.v += v.v;                       // plain write to the component the task was handed
            visits.fetch_add(1);
            const uint32_t tid = idx.thread_id.toInt();
            if (tid < seen_tid.size()) seen_tid[tid].fetch_add(1);
            if ((mode & 1) != 0) {
                if (e.id().toInt() % 7u == round % 7u && !em.hasComponent<Tag>(e)) em.assign<Tag>(e);   // deferred (locked)
                // deferred destruction from several tasks at once (takes effect at the next update()), next to readers
                if (e.id().toInt() % 11u == (round + 3u) % 11u) em.destroy(e);
                else if (e.id().toInt() % 11u == (round + 4u) % 11u && em.isMarkedForDestroy(e)) marked_early.fetch_add(1);
            }
            if ((mode & 2) != 0) {
                if (round == 0 && e.id().toInt() % 64u == 0u) (void) ComponentFactory::instance().registerComponent<Late0>();
                if (round == 1 && e.id().toInt() % 64u == 1u) (void) ComponentFactory::instance().registerComponent<Late1>();
                if (round == 2 && e.id().toInt() % 64u == 2u) (void) ComponentFactory::instance().registerComponent<Late2>();
            }
        }, JobRunMode::kParallel);
        // after run(): everything the tasks wrote must be visible here without further synchronisation
        uint64_t sum = 0, expect_alive_sum = 0;
        uint32_t alive = 0, marks_missing = 0;
        for (uint32_t i = 0; i < entities; ++i) {
            const Entity e = all[i];
            if (em.isEntityValid(e)) {
                sum += em.getComponent<const Pos>(e)->v; ++alive; expect_alive_sum += i;
                // every destroy() a task issued must have arrived (marked after the flush at unlock), nobody else is marked
                const bool should = (mode & 1) != 0 && e.id().toInt() % 11u == (round + 3u) % 11u;
                if (em.isMarkedForDestroy(e) != should) ++marks_missing;
            }
        }
        (void) expect_sum;
        uint32_t tids = 0;
        for (auto& c : seen_tid) if (c.load() > 0) ++tids;
        int ntj_ok = 1;
        unsigned long long ntj_tasks = 0;
        if ((mode & 4) != 0) {
            std::atomic<uint64_t> task_mask{0};
            NonTemplateJob job;
            job.component_requests.push_back(NonTemplateJob::ComponentRequest{payload_id, false, true});
            job.callback = [&](NonTemplateJob::ForEachArrayArgs args) {
                task_mask.fetch_or(1ull << (args.invocation_index.task_index.toInt() % 64u));
                auto payload = static_cast<Payload*>(args.components[0]);
                for (uint32_t i = 0; i < args.count.toInt(); ++i) {
                    ++payload[i].value;        // plain write to the array the task was handed
                }
            };
            job.run(world, JobRunMode::kParallel);
            for (uint64_t m = task_mask.load(); m != 0; m &= m - 1) ++ntj_tasks;
            for (Entity e : with_both) {
                if (em.getComponent<const Payload>(e)->value != round + 1u) ntj_ok = 0;
                if (em.getComponent<const Bystander>(e)->value != 1000u) ntj_ok = 0;
            }
            for (Entity e : with_single) {
                if (em.getComponent<const Payload>(e)->value != round + 1u) ntj_ok = 0;
            }
        }
        std::printf("round %u visits=%llu alive=%u sum_ok=%d threads_used=%u ntj_ok=%d ntj_tasks=%llu marks_wrong=%u marked_early=%u\n", round,
                    static_cast<unsigned long long>(visits.load()), alive,
                    sum == expect_alive_sum + static_cast<uint64_t>(alive) * (round + 1u) ? 1 : 0, tids, ntj_ok, ntj_tasks,
                    marks_missing, marked_early.load());
        std::fflush(stdout);
    }
    return 0;
}

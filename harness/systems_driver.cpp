// C14 harness: executes op lines on the real SystemManager / ASystem and prints one observation line per op.
//
// input (one op per line, '#' comments and blank lines ignored):
//   case <id>                                        fresh World (the previous one is destroyed silently)
//   group <g> <prio>                                 setGroupPriority(group g, prio)      (group 0 is "")
//   add <name> <pre> <group> <prio> <after> <before> addSystem(new instrumented system "s<name>"); <after>/<before>
//                                                    are csv lists of names or '-'; pre=1: user called create() first
//   remove <name>                                    removeSystem("s<name>")
//   init | update                                    World::systems().init() / World::update()
//   pause|resume|stop <name>                         findSystem("s<name>")-><op>(world)  (no-op when not found)
//   end                                              destroy the World (~SystemManager destroys the ordered systems)
// output: "<case> begin" once the case's World exists, then per op "<case> <op index in case> <outcome> <events>"
//   outcome: ok | invalid_state | cannot_reorder | exc:<msg> | aborted (std::terminate was called)
//   events : comma separated "<uid>:<callback>" in the order the callbacks ran, or '-';
//            uid = ordinal of the add op inside the case
#include <mustache/ecs/world.hpp>
#include <mustache/ecs/system.hpp>
#include <mustache/ecs/system_manager.hpp>
#include <mustache/utils/memory_manager.hpp>

#include <cstdio>
#include <cstdlib>
#include <exception>
#include <iostream>
#include <memory>
#include <sstream>
#include <string>
#include <unistd.h>
#include <vector>

namespace {
    std::vector<std::string> g_events;
    std::string g_case = "0";
    long g_op = -1;

    void logEvent(int uid, const char* cb) {
        g_events.push_back(std::to_string(uid) + ":" + cb);
    }

    std::string sysName(const std::string& n) { return "s" + n; }
    std::string groupName(const std::string& g) { return g == "0" ? std::string{} : "g" + g; }

    struct Sys : public mustache::ASystem {
        int uid;
        std::string nm;
        mustache::SystemConfig decl;

        Sys(int u, std::string n, mustache::SystemConfig d) : uid{u}, nm{std::move(n)}, decl{std::move(d)} {}

        std::string name() const noexcept override { return nm; }
        const char* nameCStr() const noexcept override { return nm.c_str(); }

        void onCreate(mustache::World&) override { logEvent(uid, "create"); }
        void onConfigure(mustache::World&, mustache::SystemConfig& config) override {
            logEvent(uid, "configure");
            config = decl;
        }
        void onStart(mustache::World&) override { logEvent(uid, "start"); }
        void onUpdate(mustache::World&) override { logEvent(uid, "update"); }
        void onPause(mustache::World&) override { logEvent(uid, "pause"); }
        void onStop(mustache::World&) override { logEvent(uid, "stop"); }
        void onResume(mustache::World&) override { logEvent(uid, "resume"); }
        void onDestroy(mustache::World&) override { logEvent(uid, "destroy"); }
    };

    std::string eventsText() {
        if (g_events.empty()) {
            return "-";
        }
        std::string r;
        for (size_t i = 0; i < g_events.size(); ++i) {
            if (i) r += ",";
            r += g_events[i];
        }
        return r;
    }

    void emit(const std::string& outcome) {
        std::cout << g_case << " " << g_op << " " << outcome << " " << eventsText() << std::endl;
        g_events.clear();
    }

    [[noreturn]] void onTerminate() {
        // an exception escaped a noexcept function (or similar): the process is gone
        std::string line = g_case + " " + std::to_string(g_op) + " aborted " + eventsText() + "\n";
        std::fputs(line.c_str(), stdout);
        std::fflush(stdout);
        _exit(3);
    }

    std::set<std::string> csvNames(const std::string& s) {
        std::set<std::string> r;
        if (s == "-" || s.empty()) return r;
        std::stringstream ss(s);
        std::string tok;
        while (std::getline(ss, tok, ',')) {
            if (!tok.empty()) r.insert(sysName(tok));
        }
        return r;
    }

    std::string sanitize(std::string m) {
        for (auto& c : m) {
            if (c == ' ' || c == '\n' || c == '\t') c = '_';
        }
        return m;
    }
}

int main() {
    std::set_terminate(onTerminate);
    std::unique_ptr<mustache::World> world;
    std::vector<std::shared_ptr<Sys> > objects;
    int next_uid = 0;

    auto fresh = [&] {
        world.reset();
        g_events.clear();
        objects.clear();
        next_uid = 0;
        mustache::WorldContext ctx;
        ctx.memory_manager = std::make_shared<mustache::MemoryManager>();
        world = std::make_unique<mustache::World>(ctx);
    };
    fresh();

    std::string line;
    while (std::getline(std::cin, line)) {
        std::stringstream ss(line);
        std::string op;
        if (!(ss >> op) || op[0] == '#') continue;
        if (op == "case") {
            ss >> g_case;
            g_op = -1;
            fresh();
            // the previous world is gone and the new one exists: whatever dies from here on dies in this case
            std::cout << g_case << " begin" << std::endl;
            continue;
        }
        ++g_op;
        if (!world) {
            emit("aborted");
            continue;
        }
        std::string outcome = "ok";
        try {
            if (op == "group") {
                std::string g; int p = 0;
                ss >> g >> p;
                world->systems().setGroupPriority(groupName(g), p);
            } else if (op == "add") {
                std::string n, g, after, before; int pre = 0, prio = 0;
                ss >> n >> pre >> g >> prio >> after >> before;
                mustache::SystemConfig cfg;
                cfg.update_after = csvNames(after);
                cfg.update_before = csvNames(before);
                cfg.update_group = groupName(g);
                cfg.priority = prio;
                auto sys = std::make_shared<Sys>(next_uid++, sysName(n), cfg);
                objects.push_back(sys);
                if (pre) {
                    sys->create(*world);
                }
                world->systems().addSystem(sys);
            } else if (op == "remove") {
                std::string n;
                ss >> n;
                world->systems().removeSystem(sysName(n));
            } else if (op == "init") {
                // as tests/system.cpp does; World::init() only reaches a manager that systems() already created
                world->systems().init();
            } else if (op == "update") {
                world->update();
            } else if (op == "pause" || op == "resume" || op == "stop") {
                std::string n;
                ss >> n;
                auto ptr = world->systems().findSystem(sysName(n));
                if (ptr) {
                    if (op == "pause") ptr->pause(*world);
                    else if (op == "resume") ptr->resume(*world);
                    else ptr->stop(*world);
                }
            } else if (op == "end") {
                world.reset();
            } else {
                outcome = "exc:unknown_op_" + op;
            }
        } catch (const std::exception& e) {
            const std::string m = e.what();
            if (m == "Invalid state") outcome = "invalid_state";
            else if (m == "Can not reorder systems") outcome = "cannot_reorder";
            else outcome = "exc:" + sanitize(m);
        }
        emit(outcome);
    }
    world.reset();
    return 0;
}

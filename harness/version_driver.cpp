// C07 / C11 harness: executes a history of world.update(), job runs, component accesses and structural
// changes (one op per line on stdin) on the REAL library and prints one canonical observation line per op.
// The Lean model's driver (`driver versions`) prints the same lines; tools/props/versions_common.py diffs.
//
//   job <j> req=<mask> write=<mask> check=<mask> [opt=<mask>] [kind=tpl|dyn] [af=<mask>] [cf=all|even|odd]  -> "job <j>"
//        af  : extraArchetypeFilterCheck vetoes archetypes having one of these components (constant predicate)
//        cf  : extraChunkFilterCheck accepts all / even / odd chunk indices (constant predicate)
//        tpl : PerEntityJob<T> whose operator() takes the required components (A..C), the written ones by
//              non-const reference (update mask derived by JobInfo), checkMask() overridden
//        dyn : NonTemplateJob (required / optional requests, const or not, version_check_mask)
//   chunkdefault <n>                 setDefaultArchetypeVersionChunkSize          -> "ok"
//   chunkfn <mask> <min> <max>       addChunkSizeFunction                         -> "ok"
//   dep <C> <mask>                   addDependency(C, mask)                       -> "ok"
//   create <mask>                    create(mask)     -> "created <e> cs=<chunkCapacity>" | "error <max> <min>"
//   assign <e> <C> | remove <e> <C>  typed assign<T> / removeComponent<T>
//                                     -> "ok cs=<n>" | "noop" | "selfmove" | "error <max> <min>"
//   destroy <e>                      destroyNow                                   -> "ok" | "noop"
//   getmut <e> <C> | getconst <e> <C> | dirty <e> <C>
//                                     -> "access 1 ver=<getWorldVersionOfLastComponentUpdate>" | "access 0"
//   update                           world.update()                               -> "update w=<version>"
//   run <j> [do <act> ; <act> ...]   the job's body (first callback of the run, i.e. while locked) performs the actions:
//        getmut|dirty|getconst <e> <C> immediately; create <mask> | assign|remove <e> <C> | destroy <e> through the
//        command buffer (applied when the run unlocks). Appends " do=<code>;<code>.." in written order:
//        a1|a0 access, c<ord>:<cs> created, ok structural change happened, no nothing happened, - body not run
//   run <j>          -> "run <j> n=<callbacks> sel=<total_entity_count of the filter> ents=<ordinals in processing order>
//                        blk=<mask:b-e,..;..> w=<version> last=<v|->"
//   dump             -> "dump w=<v> | A <mask> cs=<n> size=<n> ents=.. g=<C:v,..> c=<chunk:C:v,..> | ..."
//
// Entities are named by creation ordinal, components by the letters A..D. A malformed line aborts (exit 3).
#include <mustache/ecs/world.hpp>
#include <mustache/ecs/job.hpp>
#include <mustache/ecs/non_template_job.hpp>
#include <mustache/ecs/entity_manager.hpp>
#include <mustache/utils/memory_manager.hpp>

#include <cstdio>
#include <cstdlib>
#include <functional>
#include <iostream>
#include <map>
#include <memory>
#include <sstream>
#include <stdexcept>
#include <string>
#include <vector>

using namespace mustache;

static constexpr int kComps = 4;

template <int N>
struct Cmp {
    uint32_t value = 0u;
};
using CA = Cmp<0>;
using CB = Cmp<1>;
using CC = Cmp<2>;
using CD = Cmp<3>;

static ComponentId g_ids[kComps];

static ComponentIdMask maskOf(const std::string& s) {
    ComponentIdMask m;
    if (s == "-") return m;
    for (char ch : s) {
        if (ch < 'A' || ch >= 'A' + kComps) {
            std::fprintf(stderr, "bad mask %s\n", s.c_str());
            std::exit(3);
        }
        m.set(g_ids[ch - 'A'], true);
    }
    return m;
}

static std::string maskStr(const ComponentIdMask& m) {
    std::string s;
    for (int i = 0; i < kComps; ++i) {
        if (m.has(g_ids[i])) s.push_back(char('A' + i));
    }
    return s.empty() ? "-" : s;
}

// ------------------------------------------------------------------------------------------------
// processed-entity log
static std::vector<Entity> g_processed;
static std::function<void()> g_body;      // the body of the current run (performed once, at the first callback)
static bool g_body_done = false;

static inline void onCallback() {
    if (g_body && !g_body_done) {
        g_body_done = true;
        g_body();
    }
}

struct JobIface {
    ComponentIdMask af_deny;
    int cf = -1;                 // -1 all, 0 accept even chunks, 1 accept odd chunks
    bool archOk(const Archetype& a) const noexcept {
        return (a.componentMask().intersection(af_deny)).isEmpty();
    }
    bool chunkOk(ChunkIndex k) const noexcept { return cf < 0 || int(k.toInt() % 2u) == cf; }
    virtual ~JobIface() = default;
    virtual BaseJob& base() = 0;
    virtual WorldVersion last() const = 0;
    virtual const WorldFilterResult& result() const = 0;
};

template <typename D>
struct TplBase : public PerEntityJob<D>, public JobIface {
    ComponentIdMask check;
    ComponentIdMask checkMask() const noexcept override { return check; }
    bool extraArchetypeFilterCheck(const Archetype& a) const noexcept override { return archOk(a); }
    bool extraChunkFilterCheck(const Archetype&, ChunkIndex k) const noexcept override { return chunkOk(k); }
    BaseJob& base() override { return *this; }
    WorldVersion last() const override { return this->last_update_version_; }
    const WorldFilterResult& result() const override { return this->filter_result_; }
};

#define TPL_JOB(NAME, ...)                                                        \
    struct NAME : public TplBase<NAME> {                                           \
        void operator()(Entity e, __VA_ARGS__) { g_processed.push_back(e); onCallback(); } \
    };

// key: one character per component A,B,C: 'x' absent, lower case const, upper case written
TPL_JOB(J_axx, const CA&)
TPL_JOB(J_Axx, CA&)
TPL_JOB(J_xbx, const CB&)
TPL_JOB(J_xBx, CB&)
TPL_JOB(J_xxc, const CC&)
TPL_JOB(J_xxC, CC&)
TPL_JOB(J_abx, const CA&, const CB&)
TPL_JOB(J_aBx, const CA&, CB&)
TPL_JOB(J_Abx, CA&, const CB&)
TPL_JOB(J_ABx, CA&, CB&)
TPL_JOB(J_axc, const CA&, const CC&)
TPL_JOB(J_axC, const CA&, CC&)
TPL_JOB(J_Axc, CA&, const CC&)
TPL_JOB(J_AxC, CA&, CC&)
TPL_JOB(J_xbc, const CB&, const CC&)
TPL_JOB(J_xbC, const CB&, CC&)
TPL_JOB(J_xBc, CB&, const CC&)
TPL_JOB(J_xBC, CB&, CC&)
TPL_JOB(J_abc, const CA&, const CB&, const CC&)
TPL_JOB(J_abC, const CA&, const CB&, CC&)
TPL_JOB(J_aBc, const CA&, CB&, const CC&)
TPL_JOB(J_aBC, const CA&, CB&, CC&)
TPL_JOB(J_Abc, CA&, const CB&, const CC&)
TPL_JOB(J_AbC, CA&, const CB&, CC&)
TPL_JOB(J_ABc, CA&, CB&, const CC&)
TPL_JOB(J_ABC, CA&, CB&, CC&)

template <typename J>
static std::unique_ptr<JobIface> mk(const ComponentIdMask& check) {
    auto p = std::make_unique<J>();
    p->check = check;
    return p;
}

static std::unique_ptr<JobIface> makeTpl(const std::string& key, const ComponentIdMask& check) {
#define K(NAME) if (key == #NAME + 2) return mk<NAME>(check);
    K(J_axx) K(J_Axx) K(J_xbx) K(J_xBx) K(J_xxc) K(J_xxC) K(J_abx) K(J_aBx) K(J_Abx) K(J_ABx)
    K(J_axc) K(J_axC) K(J_Axc) K(J_AxC) K(J_xbc) K(J_xbC) K(J_xBc) K(J_xBC) K(J_abc) K(J_abC)
    K(J_aBc) K(J_aBC) K(J_Abc) K(J_AbC) K(J_ABc) K(J_ABC)
#undef K
    std::fprintf(stderr, "no templated job for %s\n", key.c_str());
    std::exit(3);
}

struct DynJob : public NonTemplateJob, public JobIface {
    bool extraArchetypeFilterCheck(const Archetype& a) const noexcept override { return archOk(a); }
    bool extraChunkFilterCheck(const Archetype&, ChunkIndex k) const noexcept override { return chunkOk(k); }
    BaseJob& base() override { return *this; }
    WorldVersion last() const override { return last_update_version_; }
    const WorldFilterResult& result() const override { return filter_result_; }
};

// ------------------------------------------------------------------------------------------------
struct Harness {
    World& world;
    EntityManager& em;
    std::vector<Entity> ents;                    // by ordinal
    std::map<uint32_t, uint32_t> id_to_ord;      // entity id -> ordinal of the live entity holding it
    std::vector<std::unique_ptr<JobIface> > jobs;

    explicit Harness(World& w) : world{w}, em{w.entities()} {}

    std::string csOf(Entity e) {
        auto* arch = em.getArchetypeOf(e);
        return arch ? std::to_string(arch->chunkCapacity().toInt()) : "?";
    }

    WorldVersion verOf(Entity e, int c) {
        switch (c) {
            case 0: return em.getWorldVersionOfLastComponentUpdate<CA>(e);
            case 1: return em.getWorldVersionOfLastComponentUpdate<CB>(e);
            case 2: return em.getWorldVersionOfLastComponentUpdate<CC>(e);
            default: return em.getWorldVersionOfLastComponentUpdate<CD>(e);
        }
    }

    bool hasComp(Entity e, int c) { return em.hasComponent(e, g_ids[c]); }

    static std::string errLine(const std::exception& ex) {
        const std::string msg = ex.what();
        unsigned a = 0, b = 0;
        if (std::sscanf(msg.c_str(), "Can not create archetype: %u < %u", &a, &b) == 2) {
            return "error " + std::to_string(a) + " " + std::to_string(b);
        }
        if (msg.find("to itself") != std::string::npos) return "selfmove";
        return "exception " + msg;
    }

    void doJob(std::istringstream& in) {
        std::string tok, req = "-", write = "-", check = "-", opt = "-", kind = "dyn", af = "-", cf = "all";
        int j = -1;
        in >> j;
        while (in >> tok) {
            const auto eq = tok.find('=');
            if (eq == std::string::npos) { std::exit(3); }
            const auto k = tok.substr(0, eq), v = tok.substr(eq + 1);
            if (k == "req") req = v; else if (k == "write") write = v; else if (k == "check") check = v;
            else if (k == "opt") opt = v; else if (k == "kind") kind = v; else if (k == "af") af = v;
            else if (k == "cf") cf = v; else std::exit(3);
        }
        if (j != int(jobs.size())) { std::fprintf(stderr, "job ordinal\n"); std::exit(3); }
        const auto req_m = maskOf(req), write_m = maskOf(write), check_m = maskOf(check), opt_m = maskOf(opt);
        if (kind == "tpl") {
            std::string key = "xxx";
            for (int c = 0; c < 3; ++c) {
                if (req_m.has(g_ids[c])) key[c] = write_m.has(g_ids[c]) ? char('A' + c) : char('a' + c);
            }
            jobs.push_back(makeTpl(key, check_m));
        } else {
            auto p = std::make_unique<DynJob>();
            for (int c = 0; c < kComps; ++c) {
                if (req_m.has(g_ids[c])) {
                    p->component_requests.push_back({g_ids[c], !write_m.has(g_ids[c]), true});
                } else if (opt_m.has(g_ids[c])) {
                    p->component_requests.push_back({g_ids[c], !write_m.has(g_ids[c]), false});
                }
            }
            p->version_check_mask = check_m;
            p->require_entity = true;
            p->callback = [](const NonTemplateJob::ForEachArrayArgs& args) {
                for (uint32_t i = 0; i < args.count.toInt(); ++i) g_processed.push_back(args.entities[i]);
                onCallback();
            };
            jobs.push_back(std::move(p));
        }
        jobs.back()->af_deny = maskOf(af);
        jobs.back()->cf = cf == "even" ? 0 : (cf == "odd" ? 1 : -1);
        std::printf("job %d\n", j);
    }

    void doChunkFn(const std::string& m, uint32_t mn, uint32_t mx) {
        const auto mask = maskOf(m);
        if (m == "A") em.addChunkSizeFunction<CA>(mn, mx);
        else if (m == "B") em.addChunkSizeFunction<CB>(mn, mx);
        else if (m == "AB") em.addChunkSizeFunction<CA, CB>(mn, mx);
        else {
            em.addChunkSizeFunction([mn, mx, mask](const ComponentIdMask& arch_mask) noexcept {
                ArchetypeChunkSize result;
                if (arch_mask.isMatch(mask)) {
                    result.min = mn;
                    result.max = mx;
                }
                return result;
            });
        }
        std::puts("ok");
    }

    void doCreate(const std::string& m) {
        try {
            const Entity e = em.create(maskOf(m), SharedComponentsInfo::null());
            const uint32_t ord = uint32_t(ents.size());
            ents.push_back(e);
            id_to_ord[e.id().toInt()] = ord;
            std::printf("created %u cs=%s\n", ord, csOf(e).c_str());
        } catch (const std::exception& ex) {
            std::puts(errLine(ex).c_str());
        }
    }

    void doAssign(uint32_t ord, int c) {
        const Entity e = ents.at(ord);
        if (!em.isEntityValid(e)) { std::puts("noop"); return; }   // contract: assign takes a valid handle
        try {
            switch (c) {
                case 0: em.assign<CA>(e); break;
                case 1: em.assign<CB>(e); break;
                case 2: em.assign<CC>(e); break;
                default: em.assign<CD>(e); break;
            }
            std::printf("ok cs=%s\n", csOf(e).c_str());
        } catch (const std::exception& ex) {
            std::puts(errLine(ex).c_str());
        }
    }

    void doRemove(uint32_t ord, int c) {
        const Entity e = ents.at(ord);
        if (!em.isEntityValid(e)) { std::puts("noop"); return; }
        const bool had = hasComp(e, c);
        const auto* before = em.getArchetypeOf(e);
        try {
            switch (c) {
                case 0: em.removeComponent<CA>(e); break;
                case 1: em.removeComponent<CB>(e); break;
                case 2: em.removeComponent<CC>(e); break;
                default: em.removeComponent<CD>(e); break;
            }
            // a dependent whose master is present cannot be removed: same archetype, nothing happens
            if (had && em.getArchetypeOf(e) != before) std::printf("ok cs=%s\n", csOf(e).c_str()); else std::puts("noop");
        } catch (const std::exception& ex) {
            std::puts(errLine(ex).c_str());
        }
    }

    void doDestroy(uint32_t ord) {
        const Entity e = ents.at(ord);
        const bool valid = em.isEntityValid(e);
        em.destroyNow(e);
        if (valid) id_to_ord.erase(e.id().toInt());
        std::puts(valid ? "ok" : "noop");
    }

    void doAccess(const std::string& op, uint32_t ord, int c) {
        const Entity e = ents.at(ord);
        bool found = false;
        if (op == "getmut") {
            void* p = nullptr;
            switch (c) {
                case 0: p = em.getComponent<CA>(e); break;
                case 1: p = em.getComponent<CB>(e); break;
                case 2: p = em.getComponent<CC>(e); break;
                default: p = em.getComponent<CD>(e); break;
            }
            found = p != nullptr;
            if (p) ++static_cast<Cmp<0>*>(p)->value;
        } else if (op == "getconst") {
            const void* p = nullptr;
            switch (c) {
                case 0: p = em.getComponent<const CA>(e); break;
                case 1: p = em.getComponent<const CB>(e); break;
                case 2: p = em.getComponent<const CC>(e); break;
                default: p = em.getComponent<const CD>(e); break;
            }
            found = p != nullptr;
        } else {
            found = em.isEntityValid(e) && hasComp(e, c);
            em.markDirty(e, g_ids[c]);
        }
        if (found) std::printf("access 1 ver=%u\n", verOf(e, c).toInt());
        else std::puts("access 0");
    }

    // ---- job bodies
    struct Act {
        std::string op, mask;
        uint32_t e = 0;
        int c = 0;
        std::string code = "-";
        Entity created;                 // deferred create: the handle returned while locked
        uint32_t ord = 0;
        bool was_valid = false;
        const Archetype* before = nullptr;
    };

    std::vector<Act> parseBody(std::istringstream& in) {
        std::vector<Act> acts;
        std::string rest, part;
        std::getline(in, rest);
        std::istringstream all{rest};
        while (std::getline(all, part, ';')) {
            std::istringstream a{part};
            Act act;
            if (!(a >> act.op)) continue;
            if (act.op == "create") { a >> act.mask; }
            else if (act.op == "destroy") { a >> act.e; }
            else { std::string c; a >> act.e >> c; if (c.size() != 1) std::exit(3); act.c = c[0] - 'A'; }
            acts.push_back(act);
        }
        return acts;
    }

    void performBody(std::vector<Act>& acts) {        // runs inside the job (entity manager locked)
        for (auto& a : acts) {
            const bool known = a.op == "create" || a.e < ents.size();
            const Entity e = (a.op != "create" && known) ? ents[a.e] : Entity{};
            if (a.op == "getmut" || a.op == "getconst" || a.op == "dirty") {
                bool found = false;
                if (known) {
                    if (a.op == "getmut") {
                        void* p = nullptr;
                        switch (a.c) {
                            case 0: p = em.getComponent<CA>(e); break;
                            case 1: p = em.getComponent<CB>(e); break;
                            case 2: p = em.getComponent<CC>(e); break;
                            default: p = em.getComponent<CD>(e); break;
                        }
                        found = p != nullptr;
                    } else if (a.op == "getconst") {
                        const void* p = nullptr;
                        switch (a.c) {
                            case 0: p = em.getComponent<const CA>(e); break;
                            case 1: p = em.getComponent<const CB>(e); break;
                            case 2: p = em.getComponent<const CC>(e); break;
                            default: p = em.getComponent<const CD>(e); break;
                        }
                        found = p != nullptr;
                    } else {
                        found = em.isEntityValid(e) && hasComp(e, a.c);
                        em.markDirty(e, g_ids[a.c]);
                    }
                }
                a.code = found ? "a1" : "a0";
            } else if (a.op == "create") {
                a.created = em.create(maskOf(a.mask), SharedComponentsInfo::null());   // buffered
                a.ord = uint32_t(ents.size());
                ents.push_back(a.created);
                id_to_ord[a.created.id().toInt()] = a.ord;
            } else {
                a.was_valid = known && em.isEntityValid(e);
                if (!a.was_valid) continue;               // contract: deferred commands take a valid handle
                a.before = em.getArchetypeOf(e);
                if (a.op == "assign") {
                    switch (a.c) {
                        case 0: em.assign<CA>(e); break;
                        case 1: em.assign<CB>(e); break;
                        case 2: em.assign<CC>(e); break;
                        default: em.assign<CD>(e); break;
                    }
                } else if (a.op == "remove") {
                    em.removeComponent(e, g_ids[a.c]);
                } else if (a.op == "destroy") {
                    em.destroyNow(e);
                } else {
                    std::exit(3);
                }
            }
        }
    }

    void finishBody(std::vector<Act>& acts) {         // after the run (command buffer applied)
        for (auto& a : acts) {
            if (a.op == "create") {
                a.code = em.isEntityValid(a.created) ? "c" + std::to_string(a.ord) + ":" + csOf(a.created) : "no";
            } else if (a.op == "assign" || a.op == "remove") {
                a.code = (a.was_valid && em.getArchetypeOf(ents[a.e]) != a.before) ? "ok" : "no";
            } else if (a.op == "destroy") {
                const bool gone = a.was_valid && !em.isEntityValid(ents[a.e]);
                if (gone) id_to_ord.erase(ents[a.e].id().toInt());
                a.code = gone ? "ok" : "no";
            }
        }
    }

    void doRun(int j, std::istringstream& in) {
        auto& job = *jobs.at(size_t(j));
        std::string kw;
        std::vector<Act> acts;
        bool has_body = false;
        if (in >> kw) {
            if (kw != "do") std::exit(3);
            acts = parseBody(in);
            has_body = true;
        }
        g_processed.clear();
        g_body_done = false;
        if (has_body) g_body = [this, &acts]() { performBody(acts); }; else g_body = nullptr;
        job.base().run(world, JobRunMode::kCurrentThread);
        g_body = nullptr;
        std::string ents_s, blk;
        for (const auto e : g_processed) {
            const auto it = id_to_ord.find(e.id().toInt());
            if (!ents_s.empty()) ents_s += ",";
            ents_s += it == id_to_ord.end() ? "?" : std::to_string(it->second);
        }
        if (has_body && g_body_done) finishBody(acts);
        // blocks of the last applyFilter (cleared at the start of the next one)
        const auto& res = job.result();
        for (const auto& item : res.filtered_archetypes) {
            if (!blk.empty()) blk += ";";
            blk += maskStr(item.archetype->componentMask()) + ":";
            bool first = true;
            for (const auto& b : item.blocks) {
                if (!first) blk += ",";
                first = false;
                blk += std::to_string(b.begin.toInt()) + "-" + std::to_string(b.end.toInt());
            }
        }
        const auto last = job.last();
        std::string do_s;
        if (has_body) {
            do_s = " do=";
            for (size_t i = 0; i < acts.size(); ++i) do_s += (i ? ";" : "") + acts[i].code;
        }
        std::printf("run %d n=%zu sel=%u ents=%s blk=%s w=%u last=%s%s\n", j, g_processed.size(),
                    res.total_entity_count,
                    ents_s.empty() ? "-" : ents_s.c_str(), blk.empty() ? "-" : blk.c_str(),
                    world.version().toInt(), last.isNull() ? "-" : std::to_string(last.toInt()).c_str(),
                    do_s.c_str());
    }

    void doDump() {
        std::string out = "dump w=" + std::to_string(world.version().toInt());
        const auto n = em.getArchetypesCount();
        for (size_t ai = 0; ai < n; ++ai) {
            auto& arch = em.getArchetype(ArchetypeIndex::make(ai));
            const auto cs = arch.chunkCapacity().toInt();
            out += " | A " + maskStr(arch.componentMask()) + " cs=" + std::to_string(cs) +
                   " size=" + std::to_string(arch.size());
            if (arch.size() == 0) continue;
            std::string es, g, c;
            for (const auto e : arch.entities()) {
                const auto it = id_to_ord.find(e.id().toInt());
                if (!es.empty()) es += ",";
                es += it == id_to_ord.end() ? "?" : std::to_string(it->second);
            }
            const auto& vs = arch.versionStorage();
            for (int k = 0; k < kComps; ++k) {
                if (!arch.hasComponent(g_ids[k])) continue;
                if (!g.empty()) g += ",";
                g += std::string(1, char('A' + k)) + ":" +
                     std::to_string(vs.getVersion(arch.getComponentIndex(g_ids[k])).toInt());
            }
            const uint32_t chunks = (arch.size() - 1) / cs + 1;
            for (uint32_t ch = 0; ch < chunks; ++ch) {
                for (int k = 0; k < kComps; ++k) {
                    if (!arch.hasComponent(g_ids[k])) continue;
                    if (!c.empty()) c += ",";
                    c += std::to_string(ch) + ":" + std::string(1, char('A' + k)) + ":" +
                         std::to_string(vs.getVersion(ChunkIndex::make(ch), arch.getComponentIndex(g_ids[k])).toInt());
                }
            }
            out += " ents=" + es + " g=" + (g.empty() ? "-" : g) + " c=" + (c.empty() ? "-" : c);
        }
        std::puts(out.c_str());
    }

    void line(const std::string& l) {
        std::istringstream in{l};
        std::string op;
        in >> op;
        if (op == "job") { doJob(in); return; }
        if (op == "chunkdefault") {
            uint32_t n = 0; in >> n;
            if (n == 0) { std::puts("noop"); return; }        // contract: default size >= 1 (never sent)
            em.setDefaultArchetypeVersionChunkSize(n);
            std::puts("ok");
            return;
        }
        if (op == "chunkfn") { std::string m; uint32_t mn = 0, mx = 0; in >> m >> mn >> mx; doChunkFn(m, mn, mx); return; }
        if (op == "create") { std::string m; in >> m; doCreate(m); return; }
        if (op == "assign" || op == "remove" || op == "getmut" || op == "getconst" || op == "dirty") {
            uint32_t e = 0; std::string c; in >> e >> c;
            if (c.size() != 1 || c[0] < 'A' || c[0] >= 'A' + kComps || e >= ents.size()) {
                if (e >= ents.size() && c.size() == 1) {       // never created: the model says noop / access 0
                    std::puts(op == "assign" || op == "remove" ? "noop" : "access 0");
                    return;
                }
                std::exit(3);
            }
            const int ci = c[0] - 'A';
            if (op == "assign") doAssign(e, ci); else if (op == "remove") doRemove(e, ci); else doAccess(op, e, ci);
            return;
        }
        if (op == "destroy") {
            uint32_t e = 0; in >> e;
            if (e >= ents.size()) { std::puts("noop"); return; }
            doDestroy(e);
            return;
        }
        if (op == "update") { world.update(); std::printf("update w=%u\n", world.version().toInt()); return; }
        if (op == "run") { int j = -1; in >> j; if (j < 0 || size_t(j) >= jobs.size()) std::exit(3); doRun(j, in); return; }
        if (op == "dep") {
            std::string c, m; in >> c >> m;
            if (c.size() != 1 || c[0] < 'A' || c[0] >= 'A' + kComps) std::exit(3);
            em.addDependency(g_ids[c[0] - 'A'], maskOf(m));
            std::puts("ok");
            return;
        }
        if (op == "dump") { doDump(); return; }
        std::fprintf(stderr, "bad op: %s\n", l.c_str());
        std::exit(3);
    }
};

int main() {
    g_ids[0] = ComponentFactory::instance().registerComponent<CA>();
    g_ids[1] = ComponentFactory::instance().registerComponent<CB>();
    g_ids[2] = ComponentFactory::instance().registerComponent<CC>();
    g_ids[3] = ComponentFactory::instance().registerComponent<CD>();

    WorldContext context;
    context.memory_manager = std::make_shared<MemoryManager>();
    context.dispatcher = std::make_shared<Dispatcher>(1u);
    {
        World world{context, WorldId::make(0)};
        world.dispatcher().setSingleThreadMode(true);
        Harness h{world};
        std::string l;
        while (std::getline(std::cin, l)) {
            const auto b = l.find_first_not_of(" \t\r");
            if (b == std::string::npos || l[b] == '#') continue;
            h.line(l.substr(b));
            std::fflush(stdout);
        }
        h.jobs.clear();
    }
    return 0;
}

// world_driver: executes an op file (DESIGN.md Appendix A) against the REAL library, in-process,
// and prints one canonical observation line per op (multi-line block for `dump`).
// Built by tools/vlib.py from /repo/src with ASan+UBSan and -DMUSTACHE_VERIF.
#include <mustache/ecs/world.hpp>
#include <mustache/ecs/entity_manager.hpp>
#include <mustache/utils/dispatch.hpp>
#include <mustache/ecs/job.hpp>

#include <algorithm>
#include <condition_variable>
#include <cstdint>
#include <cstdio>
#include <cstring>
#include <functional>
#include <iostream>
#include <map>
#include <memory>
#include <atomic>
#include <mutex>
#include <set>
#include <sstream>
#include <string>
#include <vector>

using namespace mustache;

namespace mustache { namespace verif { extern uint32_t storage_chunk_capacity; } }

#ifndef VERIF_NO_INTERNALS
namespace mustache { namespace verif {
struct Access {
    static const auto& entities(const EntityManager& m) { return m.entities_; }
    static uint32_t nextSlot(const EntityManager& m) { return m.next_slot_.toInt(); }
    static uint32_t emptySlots(const EntityManager& m) { return m.empty_slots_; }
    static uint32_t lockCounter(const EntityManager& m) { return m.lock_counter_; }
    static const auto& marked(const EntityManager& m) { return m.marked_for_delete_; }
    static size_t bufferCount(const EntityManager& m) { return m.temporal_storages_.size(); }
    static size_t bufferLen(const EntityManager& m, size_t i) {
        return m.temporal_storages_[ThreadId::make(static_cast<uint32_t>(i))].actions_.size();
    }
    static uint32_t locArch(const EntityManager& m, Entity e) { return m.locations_[e.id()].archetype.toInt(); }
    static uint32_t locIndex(const EntityManager& m, Entity e) { return m.locations_[e.id()].index.toInt(); }
    static bool hasLoc(const EntityManager& m, Entity e) { return m.locations_.has(e.id()); }
};
}}
using mustache::verif::Access;
#endif  // VERIF_NO_INTERNALS: a renamed private member must not raise an alarm: the internal observations are dropped

// ------------------------------------------------------------------------------------------------
// lifecycle instrumentation (C03): per (type, address) live/dead state machine
// ------------------------------------------------------------------------------------------------
static std::mutex g_life_mutex;
static std::map<char, std::set<const void*>> g_live;
static std::vector<std::string> g_life_errors;
static std::vector<std::string> g_callbacks;   // "assign F <handle value>" / "remove F <handle value>"

// per-op counts of the special members that ran (op line `events on`): constructions (default / value / copy),
// move constructions, (move) assignments, destructions
struct LifeCount { uint64_t construct = 0, move_construct = 0, move_assign = 0, destroy = 0; };
static std::map<char, LifeCount> g_life_count;
static bool g_events_on = false;

static void lifeError(const std::string& s) {
    g_life_errors.push_back(s);
}
static void onConstruct(char t, const void* p, const char* how, bool by_move = false) {
    std::lock_guard<std::mutex> l{g_life_mutex};
    if (by_move) ++g_life_count[t].move_construct; else ++g_life_count[t].construct;
    if (!g_live[t].insert(p).second) lifeError(std::string("construct-over-live ") + t + " via " + how);
}
static void onDestroy(char t, const void* p) {
    std::lock_guard<std::mutex> l{g_life_mutex};
    ++g_life_count[t].destroy;
    if (g_live[t].erase(p) != 1) lifeError(std::string("destroy-of-dead ") + t);
}
static void onAssign(char t) {
    std::lock_guard<std::mutex> l{g_life_mutex};
    ++g_life_count[t].move_assign;
}
static void resetLifeCounts() {
    std::lock_guard<std::mutex> l{g_life_mutex};
    g_life_count.clear();
}
static std::string evLine() {
    std::lock_guard<std::mutex> l{g_life_mutex};
    std::string s = "EV";
    for (char t : {'B', 'G'}) {
        const LifeCount& c = g_life_count[t];
        s += std::string(" ") + t + ":" + std::to_string(c.construct) + "/" + std::to_string(c.move_construct) + "/" +
             std::to_string(c.move_assign) + "/" + std::to_string(c.destroy);
    }
    return s + "\n";
}
static void onUse(char t, const void* p, const char* how) {
    std::lock_guard<std::mutex> l{g_life_mutex};
    if (g_live[t].count(p) != 1) lifeError(std::string("use-of-dead ") + t + " in " + how);
}

constexpr uint64_t kDefaultTok(char t) { return 1000u + static_cast<uint64_t>(t - 'A'); }

// ------------------------------------------------------------------------------------------------
// component catalogue. Registration order fixes the ids: A=0 B=1 ... H=7, shared S=0 T=1
// ------------------------------------------------------------------------------------------------
struct A { uint64_t tok; };                                   // trivial, 8 bytes
template <char L>
struct Heap {                                                  // non-trivial, owns heap memory
    uint64_t* p;
    Heap() : p{new uint64_t{kDefaultTok(L)}} { onConstruct(L, this, "default-ctor"); }
    explicit Heap(uint64_t t) : p{new uint64_t{t}} { onConstruct(L, this, "value-ctor"); }
    Heap(const Heap& o) : p{new uint64_t{*o.p}} { onUse(L, &o, "copy-ctor source"); onConstruct(L, this, "copy-ctor"); }
    Heap(Heap&& o) noexcept : p{o.p} { onUse(L, &o, "move-ctor source"); o.p = nullptr; onConstruct(L, this, "move-ctor", true); }
    Heap& operator=(const Heap& o) {
        onUse(L, this, "copy-assign dest"); onUse(L, &o, "copy-assign source"); onAssign(L);
        if (this != &o) { delete p; p = o.p ? new uint64_t{*o.p} : nullptr; } return *this;
    }
    Heap& operator=(Heap&& o) noexcept {
        onUse(L, this, "move-assign dest"); onUse(L, &o, "move-assign source"); onAssign(L);
        if (this != &o) { delete p; p = o.p; o.p = nullptr; } return *this;
    }
    ~Heap() { onDestroy(L, this); delete p; }
    uint64_t get() const { return p ? *p : 0xDEADull; }
};
using B = Heap<'B'>;
using G = Heap<'G'>;
struct alignas(64) C {                                         // over-aligned, default member init
    uint64_t tok = kDefaultTok('C');
    uint64_t pad[7] = {1, 2, 3, 4, 5, 6, 7};
    C() = default;
    explicit C(uint64_t t) : tok{t} {}
};
struct D {                                                     // empty, trivially default constructible, callbacks
    static void afterAssign(const D&, const Entity& e);       // (a type with callbacks but no constructor function)
    static void beforeRemove(const D&, const Entity& e);
};
struct E { uint64_t tok[512]; };                               // large (4096), trivial
struct F {                                                     // callbacks
    uint64_t tok = kDefaultTok('F');
    F() = default;
    explicit F(uint64_t t) : tok{t} {}
    static void afterAssign(const F&, const Entity& e) {
        std::lock_guard<std::mutex> l{g_life_mutex};
        g_callbacks.push_back("assign:F:" + std::to_string(e.value));
    }
    static void beforeRemove(const F&, const Entity& e) {
        std::lock_guard<std::mutex> l{g_life_mutex};
        g_callbacks.push_back("remove:F:" + std::to_string(e.value));
    }
};
inline void D::afterAssign(const D&, const Entity& e) {
    std::lock_guard<std::mutex> l{g_life_mutex};
    g_callbacks.push_back("assign:D:" + std::to_string(e.value));
}
inline void D::beforeRemove(const D&, const Entity& e) {
    std::lock_guard<std::mutex> l{g_life_mutex};
    g_callbacks.push_back("remove:D:" + std::to_string(e.value));
}
struct H { uint64_t tok = kDefaultTok('H'); H() = default; explicit H(uint64_t t) : tok{t} {} };

struct S : public TSharedComponentTag<S> {
    uint64_t v = 0;
    S() = default; explicit S(uint64_t x) : v{x} {}
    bool operator==(const S& o) const noexcept { return v == o.v; }
};
struct T : public TSharedComponentTag<T> {
    uint64_t v = 0;
    T() = default; explicit T(uint64_t x) : v{x} {}
    bool operator==(const T& o) const noexcept { return v == o.v; }
};
// U: equality is COARSER than byte identity (a bookkeeping field that `==` ignores and that differs in every instance the
// harness builds): "equal values share one instance" is decided by the type's operator==, not by its representation
inline uint64_t nextSharedNote() { static std::atomic<uint64_t> n{1}; return n.fetch_add(1); }
struct U : public TSharedComponentTag<U> {
    uint64_t v = 0;
    uint64_t note = nextSharedNote();
    U() = default; explicit U(uint64_t x) : v{x} {}
    bool operator==(const U& o) const noexcept { return v == o.v; }
};

template <typename X> struct Tag { using type = X; };

template <typename Fn>
static bool withComp(char c, Fn&& fn) {
    switch (c) {
        case 'A': fn(Tag<A>{}); return true;
        case 'B': fn(Tag<B>{}); return true;
        case 'C': fn(Tag<C>{}); return true;
        case 'D': fn(Tag<D>{}); return true;
        case 'E': fn(Tag<E>{}); return true;
        case 'F': fn(Tag<F>{}); return true;
        case 'G': fn(Tag<G>{}); return true;
        case 'H': fn(Tag<H>{}); return true;
        default: return false;
    }
}
template <typename Fn>
static bool withShared(char c, Fn&& fn) {
    switch (c) {
        case 'S': fn(Tag<S>{}); return true;
        case 'T': fn(Tag<T>{}); return true;
        case 'U': fn(Tag<U>{}); return true;
        default: return false;
    }
}

template <typename X> static std::string readTok(const X* p);
template <> std::string readTok<A>(const A* p) { return std::to_string(p->tok); }
template <> std::string readTok<B>(const B* p) { return std::to_string(p->get()); }
template <> std::string readTok<G>(const G* p) { return std::to_string(p->get()); }
template <> std::string readTok<C>(const C* p) {
    for (int i = 0; i < 7; ++i) if (p->pad[i] != static_cast<uint64_t>(i + 1)) return "corrupt";
    return std::to_string(p->tok);
}
template <> std::string readTok<D>(const D*) { return "0"; }
template <> std::string readTok<E>(const E* p) {
    for (int i = 1; i < 512; ++i) if (p->tok[i] != p->tok[0]) return "corrupt";
    return std::to_string(p->tok[0]);
}
template <> std::string readTok<F>(const F* p) { return std::to_string(p->tok); }
template <> std::string readTok<H>(const H* p) { return std::to_string(p->tok); }

static const char* kLetters = "ABCDEFGH";

static ComponentId compId(char c) {
    ComponentId id;
    withComp(c, [&](auto t) { id = ComponentFactory::instance().registerComponent<typename decltype(t)::type>(); });
    return id;
}
static SharedComponentId sharedId(char c) {
    SharedComponentId id;
    withShared(c, [&](auto t) { id = ComponentFactory::instance().registerSharedComponent<typename decltype(t)::type>(); });
    return id;
}

// ------------------------------------------------------------------------------------------------
// scripted threads: one agent task parked on every dispatcher worker
// ------------------------------------------------------------------------------------------------
struct Agents {
    std::mutex m;
    std::condition_variable cv;
    uint32_t arrived = 0, expected = 0;
    int target = -1;                 // thread id that has to run `fn`
    std::function<void()> fn;
    bool done = false, release = false, running = false;

    void start(Dispatcher& d) {
        expected = d.threadCount();
        arrived = 0; release = false; running = true; target = -1;
        for (uint32_t i = 0; i < expected; ++i) {
            d.addParallelTask([this](ThreadId tid) { loop(static_cast<int>(tid.toInt())); });
        }
        std::unique_lock<std::mutex> l{m};
        cv.wait(l, [this] { return arrived == expected; });
    }
    void loop(int tid) {
        std::unique_lock<std::mutex> l{m};
        ++arrived;
        cv.notify_all();
        cv.wait(l, [this] { return arrived == expected; });   // rendezvous: one agent per worker
        while (true) {
            cv.wait(l, [&] { return release || target == tid; });
            if (target == tid) {
                fn();
                target = -1; done = true;
                cv.notify_all();
                continue;
            }
            if (release) return;
        }
    }
    void runOn(int tid, std::function<void()> f) {
        std::unique_lock<std::mutex> l{m};
        fn = std::move(f); done = false; target = tid;
        cv.notify_all();
        cv.wait(l, [this] { return done; });
    }
    void stop(Dispatcher& d) {
        {
            std::unique_lock<std::mutex> l{m};
            release = true;
            cv.notify_all();
        }
        d.waitForParallelFinish();
        running = false;
    }
};

// ------------------------------------------------------------------------------------------------
// free-running parallel job (real dispatcher schedule): every task records what it did, per thread id
// ------------------------------------------------------------------------------------------------
struct RecOp { int kind; uint64_t target; uint64_t result; uint64_t tok; };   // 0 create E, 1 destroynow, 2 assign H
struct ParJob : public PerEntityJob<ParJob> {
    uint32_t tasks = 1;
    EntityManager* em = nullptr;
    std::map<uint64_t, size_t>* ordinal_of = nullptr;
    std::mutex m;
    std::vector<std::vector<RecOp>> log;            // thread id -> program order; sized before the run, no locking:
                                                    // a dispatcher thread id runs one task at a time
    uint64_t tok_base = 0;
    uint32_t creates = 0;                           // > 0: every visited entity only creates that many entities
    TasksCount taskCount(World&, uint32_t) const noexcept override { return TasksCount::make(tasks); }
    void operator()(Entity e, const A&, JobInvocationIndex idx) {
        if (creates > 0) {
            ComponentIdMask mask; mask.add(ComponentFactory::instance().registerComponent<E>());
            for (uint32_t k = 0; k < creates; ++k) {
                Entity n = em->create(mask, SharedComponentsInfo{});
                log[idx.thread_id.toInt()].push_back(RecOp{0, 0, n.value, 0});
            }
            return;
        }
        size_t ord = ordinal_of->at(e.value);       // read-only while the job runs
        RecOp r{3, e.value, 0, 0};
        switch (ord % 4) {
            case 0: {
                ComponentIdMask mask; mask.add(ComponentFactory::instance().registerComponent<E>());
                Entity n = em->create(mask, SharedComponentsInfo{});
                r = RecOp{0, 0, n.value, 0};
                break;
            }
            case 1: em->destroyNow(e); r.kind = 1; break;
            case 2:
                if (!em->hasComponent<H>(e)) { em->assign<H>(e, tok_base + ord); r.kind = 2; r.tok = tok_base + ord; }
                break;
            default: break;
        }
        if (r.kind != 3) {
            log[idx.thread_id.toInt()].push_back(r);
        }
    }
};

// ------------------------------------------------------------------------------------------------
struct Driver {
    std::shared_ptr<Dispatcher> dispatcher;
    std::unique_ptr<World> world;
    std::vector<Entity> issued;                 // ordinal -> handle
    std::map<uint64_t, size_t> ordinal_of;      // handle value -> ordinal (latest)
    Agents agents;
    uint32_t threads = 2;
    uint32_t world_id = 0;
    bool use_default_ctx = false;
    uint32_t lock_depth = 0;                    // mirrors lock()/unlock() calls made through this driver
    std::ostringstream out;

    EntityManager& em() { ensureWorld(); return world->entities(); }

    void ensureWorld() {
        if (world) return;
        if (use_default_ctx) {
            world = std::make_unique<World>(WorldId::make(world_id));
            return;
        }
        WorldContext ctx;
        ctx.memory_manager = std::make_shared<MemoryManager>();
        dispatcher = std::make_shared<Dispatcher>(threads);
        ctx.dispatcher = dispatcher;
        world = std::make_unique<World>(ctx, WorldId::make(world_id));
    }

    std::string hname(Entity e) {
        auto it = ordinal_of.find(e.value);
        if (it != ordinal_of.end()) return std::to_string(it->second);
        char buf[32]; std::snprintf(buf, sizeof buf, "raw:%llx", static_cast<unsigned long long>(e.value));
        return buf;
    }

    bool parseEntity(const std::string& s, Entity& e) {
        if (s == "null") { e = Entity{}; return true; }
        if (s.rfind("raw:", 0) == 0) {
            e = Entity::makeFromValue(std::stoull(s.substr(4), nullptr, 16)); return true;
        }
        try {
            size_t k = std::stoul(s);
            if (k >= issued.size()) return false;
            e = issued[k]; return true;
        } catch (...) { return false; }
    }

    ComponentIdMask parseMask(const std::string& s) {
        ComponentIdMask m;
        if (s == "-") return m;
        for (char c : s) if (c != ',') m.add(compId(c));
        return m;
    }

    std::string issue(Entity e) {
        size_t ord = issued.size();
        issued.push_back(e);
        ordinal_of[e.value] = ord;
        std::ostringstream o;
        o << "h " << ord << " id=" << e.id().toInt() << " ver=" << e.version().toInt() << " w=" << e.worldId().toInt();
        return o.str();
    }

    std::string drainSide() {
        std::lock_guard<std::mutex> l{g_life_mutex};
        std::string s;
        for (auto& c : g_callbacks) {
            // "assign:F:<value>" -> ordinal
            auto p = c.rfind(':');
            uint64_t v = std::stoull(c.substr(p + 1));
            s += " cb=" + c.substr(0, p + 1) + hname(Entity::makeFromValue(v));
        }
        g_callbacks.clear();
        for (auto& e : g_life_errors) s += " LIFECYCLE-ERROR[" + e + "]";
        g_life_errors.clear();
        return s;
    }

    static std::string errKind(const std::exception& ex) {
        std::string w = ex.what();
        if (w.find("to itself") != std::string::npos) return "err:self-move";
        if (w.find("Can not update locked") != std::string::npos) return "err:locked-update";
        if (w.find("Can not create archetype") != std::string::npos) return "err:bad-archetype";
        if (dynamic_cast<const std::bad_function_call*>(&ex)) return "err:bad-function";
        return "err:other";
    }

    // executes one (un-prefixed) op on the calling thread
    std::string exec(const std::vector<std::string>& w) {
        const std::string& op = w[0];
        auto& m = em();
        try {
            if (op == "create") {
                ComponentIdMask mask = parseMask(w.size() > 1 ? w[1] : "-");
                SharedComponentsInfo sh;
                for (size_t i = 2; i < w.size(); ++i) {
                    withShared(w[i][0], [&](auto t) {
                        using X = typename decltype(t)::type;
                        sh.add(ComponentFactory::instance().registerSharedComponent<X>(), std::make_shared<X>());
                    });
                }
                return issue(m.create(mask, sh));
            }
            if (op == "assign" || op == "assign0") {
                Entity e; if (!parseEntity(w[1], e)) return "bad-op";
                char c = w[2][0];
                bool ok = false;
                if (op == "assign") {
                    uint64_t tok = std::stoull(w[3]);
                    ok = withComp(c, [&](auto t) {
                        using X = typename decltype(t)::type;
                        if constexpr (std::is_same<X, D>::value) { m.assign<D>(e); }
                        else if constexpr (std::is_same<X, E>::value) {
                            E& r = m.assign<E>(e); for (auto& x : r.tok) x = tok;
                        }
                        else if constexpr (std::is_same<X, A>::value) { m.assign<A>(e, tok); }
                        else { m.assign<X>(e, tok); }
                    });
                } else {
                    ok = withComp(c, [&](auto t) { m.assign<typename decltype(t)::type>(e); });
                }
                return ok ? "ok" : "bad-op";
            }
            if (op == "remove") {
                Entity e; if (!parseEntity(w[1], e)) return "bad-op";
                bool ok = withComp(w[2][0], [&](auto t) { m.removeComponent<typename decltype(t)::type>(e); });
                return ok ? "ok" : "bad-op";
            }
            if (op == "build") {   // build <e|new> +C=tok ... +C ... -C ...   (at most 2 assigns, 2 removes)
                Entity e; bool is_new = (w[1] == "new");
                if (!is_new && !parseEntity(w[1], e)) return "bad-op";
                std::vector<std::pair<char, long long>> adds; std::vector<char> rems;
                for (size_t i = 2; i < w.size(); ++i) {
                    if (w[i][0] == '+') {
                        auto eq = w[i].find('=');
                        adds.push_back({w[i][1], eq == std::string::npos ? -1 : std::stoll(w[i].substr(eq + 1))});
                    } else if (w[i][0] == '-') rems.push_back(w[i][1]);
                }
                return build(is_new ? Entity{} : e, is_new, adds, rems);
            }
            if (op == "destroy") { Entity e; if (!parseEntity(w[1], e)) return "bad-op"; m.destroy(e); return "ok"; }
            if (op == "destroynow") { Entity e; if (!parseEntity(w[1], e)) return "bad-op"; m.destroyNow(e); return "ok"; }
            if (op == "clone") {
                Entity e; if (!parseEntity(w[1], e)) return "bad-op";
                Entity r = m.clone(e);
                if (r.isNull()) return "null";
                return issue(r);
            }
            if (op == "sassign") {
                Entity e; if (!parseEntity(w[1], e)) return "bad-op";
                uint64_t v = std::stoull(w[3]);
                bool ok = withShared(w[2][0], [&](auto t) { m.assign<typename decltype(t)::type>(e, v); });
                return ok ? "ok" : "bad-op";
            }
            if (op == "sremove") {
                Entity e; if (!parseEntity(w[1], e)) return "bad-op";
                bool r = false;
                bool ok = withShared(w[2][0], [&](auto t) { r = m.removeSharedComponent<typename decltype(t)::type>(e); });
                return ok ? (r ? "ret=1" : "ret=0") : "bad-op";
            }
            if (op == "cleararch") {
                ComponentIdMask mask = parseMask(w[1]);
                // clear the first archetype with exactly this mask (if it exists)
                for (uint32_t i = 0; i < m.getArchetypesCount(); ++i) {
                    auto& arch = m.getArchetype(ArchetypeIndex::make(i));
                    if (arch.componentMask() == mask) { m.clearArchetype(arch); return "ok"; }
                }
                return "none";
            }
            if (op == "clear") {
                if (m.isLocked()) return "bad-op";
                m.clear();
                return "cleared";
            }
            if (op == "createin") {
                uint32_t k = static_cast<uint32_t>(std::stoul(w[1]));
                if (k >= m.getArchetypesCount()) return "bad-op";
                return issue(m.create(m.getArchetype(ArchetypeIndex::make(k))));
            }
            if (op == "update") { m.update(); return "ok"; }
            if (op == "wupdate") { world->update(); return "ok"; }
            if (op == "lock") { m.lock(); ++lock_depth; return "ok"; }
            if (op == "unlock") {
                if (agents.running && lock_depth == 1) agents.stop(*dispatcher);
                if (lock_depth > 0) --lock_depth;
                bool r = m.unlock();
                return r ? "ret=1" : "ret=0";
            }
            if (op == "dep") {
                m.addDependency(compId(w[1][0]), parseMask(w[2]));
                return "ok";
            }
            if (op == "valid") { Entity e; if (!parseEntity(w[1], e)) return "bad-op"; return m.isEntityValid(e) ? "valid=1" : "valid=0"; }
            if (op == "has") {
                Entity e; if (!parseEntity(w[1], e)) return "bad-op";
                bool r = false;
                if (!withComp(w[2][0], [&](auto t) { r = m.hasComponent<typename decltype(t)::type>(e); }))
                    withShared(w[2][0], [&](auto t) { r = m.hasComponent<typename decltype(t)::type>(e); });
                return r ? "has=1" : "has=0";
            }
            if (op == "get" || op == "getmut") {
                Entity e; if (!parseEntity(w[1], e)) return "bad-op";
                std::string r = "bad-op";
                withComp(w[2][0], [&](auto t) {
                    using X = typename decltype(t)::type;
                    const X* p = (op == "get") ? m.getComponent<const X>(e) : m.getComponent<X>(e);
                    if (!p) { r = "val=null"; return; }
                    if (reinterpret_cast<uintptr_t>(p) % alignof(X) != 0) { r = "val=MISALIGNED"; return; }
                    r = "val=" + readTok<X>(p);
                });
                return r;
            }
            if (op == "archof") {
                Entity e; if (!parseEntity(w[1], e)) return "bad-op";
                Archetype* a = m.getArchetypeOf(e);
                return a ? "arch=" + std::to_string(a->id().toInt()) : "arch=null";
            }
            if (op == "markdirty") {
                Entity e; if (!parseEntity(w[1], e)) return "bad-op";
                m.markDirty(e, compId(w[2][0]));
                return "ok";
            }
            if (op == "marked") {
                Entity e; if (!parseEntity(w[1], e)) return "bad-op";
                return m.isMarkedForDestroy(e) ? "marked=1" : "marked=0";
            }
        } catch (const std::exception& ex) {
            return errKind(ex);
        }
        return "bad-op";
    }

    template <typename Bld>
    std::string buildRemoves(Bld&& b, const std::vector<char>& rems, size_t i) {
        if (i == rems.size()) {
            Entity r = b.end();
            return "E" + std::to_string(r.value);
        }
        std::string res = "bad-op";
        withComp(rems[i], [&](auto t) {
            using X = typename decltype(t)::type;
            res = buildRemoves(b.template remove<X>(), rems, i + 1);
        });
        return res;
    }
    template <int Depth = 0, typename Bld>
    std::string buildAdds(Bld&& b, const std::vector<std::pair<char, long long>>& adds, size_t i, const std::vector<char>& rems) {
        if (i == adds.size()) return buildRemoves(b, rems, 0);
        std::string res = "bad-op";
        if constexpr (Depth >= 2) { return res; } else {
        // restricted to the types with a uint64 constructor to bound template instantiation
        auto go = [&](auto t) {
            using X = typename decltype(t)::type;
            if (adds[i].second >= 0) {
                res = buildAdds<Depth + 1>(b.template assign<X>(static_cast<uint64_t>(adds[i].second)), adds, i + 1, rems);
            } else {
                res = buildAdds<Depth + 1>(b.template assign<X>(), adds, i + 1, rems);
            }
        };
        switch (adds[i].first) {
            case 'B': go(Tag<B>{}); break;
            case 'C': go(Tag<C>{}); break;
            case 'F': go(Tag<F>{}); break;
            case 'H': go(Tag<H>{}); break;
            default: break;
        }
        return res;
        }
    }
    std::string build(Entity e, bool is_new, const std::vector<std::pair<char, long long>>& adds, const std::vector<char>& rems) {
        if (adds.size() > 2 || rems.size() > 2) return "bad-op";
        auto& m = em();
        std::string r = buildAdds(m.begin(e), adds, 0, rems);
        if (r.size() > 1 && r[0] == 'E') {
            if (is_new) return issue(Entity::makeFromValue(std::stoull(r.substr(1))));
            return "ok";
        }
        return r;
    }

    void dump() {
        auto& m = em();
        out << "dump\n";
        // entities
        for (size_t ord = 0; ord < issued.size(); ++ord) {
            Entity e = issued[ord];
            out << "E " << ord;
            if (!m.isEntityValid(e)) { out << " valid=0\n"; continue; }
            out << " valid=1";
            Archetype* a = m.getArchetypeOf(e);
            if (!a) { out << " arch=- pos=- comps=- shared=-\n"; continue; }
#ifndef VERIF_NO_INTERNALS
            uint32_t pos = Access::locIndex(m, e);
            out << " arch=" << a->id().toInt() << " pos=" << pos << " comps=";
#else
            out << " arch=" << a->id().toInt() << " pos=? comps=";
#endif
            bool first = true;
            for (const char* c = kLetters; *c; ++c) {
                withComp(*c, [&](auto t) {
                    using X = typename decltype(t)::type;
                    if (m.hasComponent<X>(e)) {
                        const X* p = m.getComponent<const X>(e);
                        if (!first) out << ","; first = false;
                        out << *c << ":";
                        if (!p) out << "null";
                        else if (reinterpret_cast<uintptr_t>(p) % alignof(X) != 0) out << "MISALIGNED";
                        else out << readTok<X>(p);
                    }
                });
            }
            if (first) out << "-";
            out << " shared=";
            first = true;
            for (char c : {'S', 'T', 'U'}) {
                withShared(c, [&](auto t) {
                    using X = typename decltype(t)::type;
                    if (m.hasComponent<X>(e)) {
                        const X* p = m.getSharedComponent<X>(e);
                        if (!first) out << ","; first = false;
                        out << c << ":";
                        if (!p) out << "null"; else out << sharedClass(c, p) << "/" << p->v;
                    }
                });
            }
            if (first) out << "-";
            out << "\n";
        }
        // archetypes
        for (uint32_t i = 0; i < m.getArchetypesCount(); ++i) {
            auto& arch = m.getArchetype(ArchetypeIndex::make(i));
            out << "A " << i << " mask=";
            bool first = true;
            for (const char* c = kLetters; *c; ++c) {
                if (arch.hasComponent(compId(*c))) { if (!first) out << ","; first = false; out << *c; }
            }
            if (first) out << "-";
            out << " shared=";
            first = true;
            for (char c : {'S', 'T', 'U'}) {
                if (arch.hasComponent(sharedId(c))) {
                    if (!first) out << ","; first = false;
                    auto idx = arch.sharedComponentIndex(sharedId(c));
                    const SharedComponentTag* p = arch.getSharedComponent(idx);
                    out << c << ":";
                    if (!p) out << "null"; else out << sharedClass(c, p);
                }
            }
            if (first) out << "-";
            out << " size=" << arch.size() << " ents=";
            first = true;
            for (auto e : arch.entities()) { if (!first) out << ","; first = false; out << hname(e); }
            if (first) out << "-";
            out << "\n";
        }
#ifndef VERIF_NO_INTERNALS
        // id table
        out << "T slots=";
        const auto& ents = Access::entities(m);
        for (size_t i = 0; i < ents.size(); ++i) {
            Entity s = ents[EntityId::make(static_cast<uint32_t>(i))];
            if (i) out << ",";
            out << i << ":" << s.id().toInt() << ":" << s.version().toInt();
        }
        if (ents.size() == 0) out << "-";
        out << " next=" << Access::nextSlot(m) << " empty=" << Access::emptySlots(m)
            << " lock=" << Access::lockCounter(m) << " marked=";
        bool first = true;
        for (auto e : Access::marked(m)) { if (!first) out << ","; first = false; out << hname(e); }
        if (first) out << "-";
        out << "\n";
#endif
        // live instrumented instances
        {
            std::lock_guard<std::mutex> l{g_life_mutex};
            out << "L B=" << g_live['B'].size() << " G=" << g_live['G'].size() << "\n";
        }
        out << "end\n";
    }

    // parjob tasks=<n> tok=<base>: a real parallel job over the entities having A; prints the recorded per-thread
    // logs merged into ONE scripted interleaving (non-create ops in any order, creates in the order of the ids
    // they were given) so that the model can replay exactly what happened
    void parjob(const std::vector<std::string>& w) {
        auto& m = em();
        if (m.isLocked() || !dispatcher) { out << "bad-op\n"; return; }
        ParJob job;
        job.em = &m; job.ordinal_of = &ordinal_of;
        for (auto& x : w) {
            if (x.rfind("tasks=", 0) == 0) job.tasks = static_cast<uint32_t>(std::stoul(x.substr(6)));
            if (x.rfind("tok=", 0) == 0) job.tok_base = std::stoull(x.substr(4));
            if (x.rfind("creates=", 0) == 0) job.creates = static_cast<uint32_t>(std::stoul(x.substr(8)));
        }
        job.log.assign(dispatcher->threadCount() + 1, {});
        job.run(*world, JobRunMode::kParallel);
        out << "ok\n";                                   // the job's lock
        std::map<uint32_t, size_t> pos;
        while (true) {
            // any thread whose next op is not a create goes first; otherwise the create with the smallest id
            int pick = -1; uint64_t best = ~0ull;
            for (uint32_t tid = 0; tid < job.log.size(); ++tid) {
                auto& v = job.log[tid];
                size_t i = pos[tid];
                if (i >= v.size()) continue;
                if (v[i].kind != 0) { pick = static_cast<int>(tid); break; }
                uint64_t id = Entity::makeFromValue(v[i].result).id().toInt();
                if (id < best) { best = id; pick = static_cast<int>(tid); }
            }
            if (pick < 0) break;
            const RecOp& r = job.log[static_cast<uint32_t>(pick)][pos[static_cast<uint32_t>(pick)]++];
            if (r.kind == 0) {
                out << "X t" << pick << " create E\n" << issue(Entity::makeFromValue(r.result)) << "\n";
            } else if (r.kind == 1) {
                out << "X t" << pick << " destroynow " << hname(Entity::makeFromValue(r.target)) << "\nok\n";
            } else {
                out << "X t" << pick << " assign " << hname(Entity::makeFromValue(r.target)) << " H " << r.tok << "\nok\n";
            }
        }
        out << "ret=1" << drainSide() << "\n";            // the job's unlock (flush)
    }

    std::map<char, std::vector<const void*>> shared_seen;   // stable class numbers per shared type
    size_t sharedClass(char c, const void* p) {
        auto& v = shared_seen[c];
        for (size_t i = 0; i < v.size(); ++i) if (v[i] == p) return i;
        v.push_back(p);
        return v.size() - 1;
    }

    void line(const std::string& l) {
        std::istringstream is(l);
        std::vector<std::string> w; std::string x;
        while (is >> x) w.push_back(x);
        if (w.empty()) return;
        if (w[0] == "threads") { threads = static_cast<uint32_t>(std::stoul(w[1])); out << "ok\n"; return; }
        if (w[0] == "worldid") { world_id = static_cast<uint32_t>(std::stoul(w[1])); out << "ok\n"; return; }
        if (w[0] == "defaultctx") { use_default_ctx = true; out << "ok\n"; return; }
        if (w[0] == "storagecap") { mustache::verif::storage_chunk_capacity = static_cast<uint32_t>(std::stoul(w[1])); out << "ok\n"; return; }
        if (w[0] == "events") { g_events_on = (w.size() > 1 && w[1] == "on"); out << "ok\n"; return; }
        if (w[0] == "dump") { dump(); return; }
        if (w[0] == "parjob") { parjob(w); return; }
        if (w[0] == "teardown") {
            if (agents.running) agents.stop(*dispatcher);
            resetLifeCounts();
            world.reset();
            {
                std::lock_guard<std::mutex> l{g_life_mutex};
                out << "teardown live B=" << g_live['B'].size() << " G=" << g_live['G'].size();
                for (auto& e : g_life_errors) out << " LIFECYCLE-ERROR[" << e << "]";
                g_life_errors.clear();
                out << "\n";
            }
            if (g_events_on) out << evLine();
            return;
        }
        int tid = 0;
        if (w[0].size() >= 2 && w[0][0] == 't' && std::isdigit(static_cast<unsigned char>(w[0][1]))) {
            tid = std::stoi(w[0].substr(1));
            w.erase(w.begin());
            if (w.empty()) { out << "bad-op\n"; return; }
        }
        std::string r;
        resetLifeCounts();
        if (tid == 0) {
            r = exec(w);
        } else {
            ensureWorld();
            if (!dispatcher || static_cast<uint32_t>(tid) > dispatcher->threadCount() || !em().isLocked()) { out << "bad-op\n"; return; }
            if (!agents.running) agents.start(*dispatcher);
            agents.runOn(tid, [&] { r = exec(w); });
        }
        out << r << drainSide() << "\n";
        if (g_events_on) out << evLine();
    }
};

int main() {
    // fix the component ids: registration order
    for (const char* c = kLetters; *c; ++c) compId(*c);
    sharedId('S'); sharedId('T'); sharedId('U');
    Driver d;
    std::string l;
    while (std::getline(std::cin, l)) {
        if (l.empty() || l[0] == '#') continue;
        d.line(l);
        std::cout << d.out.str();
        std::cout.flush();
        d.out.str("");
    }
    if (d.agents.running) d.agents.stop(*d.dispatcher);
    d.world.reset();
    d.dispatcher.reset();
    return 0;
}

// worlds_driver: several worlds in ONE process (property C17). Executes an op file against the REAL library and
// prints one canonical observation line per op. Per-world ops are those of world_driver.cpp (DESIGN.md Appendix A):
// its `Driver` is reused unchanged, one instance per world.
//
//   world new [id=<n>|auto] [ctx=own|shared] [threads=<n>]   -> world <w> id=<id>   (w = creation ordinal, becomes current;
//         threads = workers of the world's PRIVATE dispatcher, default 1; the shared dispatcher has 2;
//         reuse=<w>: the World object is constructed AT THE ADDRESS the destroyed world <w> occupied (every world lives in a
//         raw storage block that outlives it: sequential worlds at one address, as with std::optional<World>::emplace))
//   world drop <w>                             -> dropped <w>
//   world churn <n> [ctx=own|shared]           -> churn n=<n> ids=<lo>..<hi> bad=<k>
//         n times: construct an automatically numbered world (it takes an ordinal; all n at ONE address; private
//         dispatchers cycle through 1,2,3 workers), create one entity, query it, record a creation in a locked section,
//         unlock, query it, destroy the world; lost = worlds whose deferred creation was not applied;
//         bad = number of those worlds whose own handle was rejected by their own isEntityValid
//   world reserve                              -> reserved id=<id>            (a bare World::nextWorldId())
//   use <w>                                    -> ok
//   validin <w> <e> | getin <w> <e> <C>        handle <e> of the CURRENT world presented to world <w>
//   in <w> <op> <e> [args]                     world_driver op <op> (assign, remove, destroy, destroynow, ...) executed on world
//                                              <w> with handle <e> of the CURRENT world (a foreign handle there)
//   dump | dumpall                             dump of the current / of every live world (without the process-global L line)
//   any other world_driver op                  on the current world
//
// After EVERY op the harness re-observes ALL live worlds through the public API (+ id table): a world other than the one
// operated on whose observation changed, a handle accepted by a world with a different id, or a freshly issued handle
// rejected by its own world print an `ORACLE ...` line (property oracle evaluated on the implementation).
#define main world_driver_main_unused
#include "world_driver.cpp"
#undef main

struct WorldSlot {
    std::unique_ptr<Driver> d;
    bool alive = false;
    uint32_t id = 0;
    std::string last;          // observation after the previous op
    void* block = nullptr;     // raw storage of the World object; kept after the world's destruction for `reuse=`
};

struct Worlds {
    std::vector<WorldSlot> ws;          // by creation ordinal; a dropped world keeps its (dead) slot
    std::vector<size_t> live;           // ordinals of the live worlds, ascending
    int cur = -1;
    std::shared_ptr<MemoryManager> shared_mm;
    std::shared_ptr<Dispatcher> shared_disp;
    std::ostringstream out;
    // measured amount of oracle work (printed as the last line, `stats ...`)
    size_t n_ops = 0, n_frame = 0, n_foreign = 0, n_own = 0, n_alien = 0, n_worlds = 0, max_live = 0, max_id = 0;

    WorldContext makeContext(bool shared, std::shared_ptr<Dispatcher>& disp, uint32_t threads) {
        WorldContext ctx;
        if (shared) {
            if (!shared_mm) shared_mm = std::make_shared<MemoryManager>();
            if (!shared_disp) shared_disp = std::make_shared<Dispatcher>(2);
            ctx.memory_manager = shared_mm;
            ctx.dispatcher = shared_disp;
        } else {
            ctx.memory_manager = std::make_shared<MemoryManager>();
            ctx.dispatcher = std::make_shared<Dispatcher>(threads);
        }
        disp = ctx.dispatcher;
        return ctx;
    }

    // everything the property fixes about one world, through the public API plus the id table
    static std::string observe(Driver& d) {
        auto& m = d.world->entities();
        std::ostringstream o;
        for (size_t ord = 0; ord < d.issued.size(); ++ord) {
            Entity e = d.issued[ord];
            o << "E" << ord;
            if (!m.isEntityValid(e)) { o << " dead\n"; continue; }
            for (const char* c = kLetters; *c; ++c) {
                withComp(*c, [&](auto t) {
                    using X = typename decltype(t)::type;
                    if (m.hasComponent<X>(e)) {
                        const X* p = m.getComponent<const X>(e);
                        o << " " << *c << ":" << (p ? readTok<X>(p) : std::string("null"));
                    }
                });
            }
            for (char c : {'S', 'T'}) {
                withShared(c, [&](auto t) {
                    using X = typename decltype(t)::type;
                    if (m.hasComponent<X>(e)) {
                        const X* p = m.getSharedComponent<X>(e);
                        o << " " << c << ":" << (p ? std::to_string(p->v) : std::string("null"));
                    }
                });
            }
            o << "\n";
        }
        for (uint32_t i = 0; i < m.getArchetypesCount(); ++i) {
            auto& arch = m.getArchetype(ArchetypeIndex::make(i));
            o << "A" << i << " n=" << arch.size() << " ents=";
            for (auto e : arch.entities()) o << e.value << ",";
            o << "\n";
        }
#ifndef VERIF_NO_INTERNALS
        const auto& ents = Access::entities(m);
        o << "T";
        for (size_t i = 0; i < ents.size(); ++i) {
            Entity s = ents[EntityId::make(static_cast<uint32_t>(i))];
            o << " " << s.value;
        }
        o << " next=" << Access::nextSlot(m) << " empty=" << Access::emptySlots(m) << " lock=" << Access::lockCounter(m)
          << " marked=" << Access::marked(m).size() << " buf=";
        for (size_t i = 0; i < Access::bufferCount(m); ++i) o << Access::bufferLen(m, i) << ",";
#endif
        o << " wid=" << d.world->id().toInt() << " ver=" << d.world->version().toInt() << "\n";
        return o.str();
    }

    static std::string firstDiff(const std::string& a, const std::string& b) {
        std::istringstream x(a), y(b);
        std::string l, r;
        while (true) {
            bool hx = static_cast<bool>(std::getline(x, l)), hy = static_cast<bool>(std::getline(y, r));
            if (!hx && !hy) return "-";
            if (!hx) l = "<none>";
            if (!hy) r = "<none>";
            if (l != r) return "`" + l + "` -> `" + r + "`";
        }
    }

    // the property oracle on the implementation; `operated` = ordinal of the world the op was addressed to (-1: none)
    void oracle(int operated) {
        ++n_ops;
        max_live = std::max(max_live, live.size());
        for (size_t k : live) {
            std::string now = observe(*ws[k].d);
            if (static_cast<int>(k) != operated) ++n_frame;
            if (static_cast<int>(k) != operated && now != ws[k].last) {
                out << "ORACLE frame: world " << k << " changed by an op on world " << operated << ": " << firstDiff(ws[k].last, now) << "\n";
            }
            ws[k].last = now;
        }
        for (size_t k : live) {
            // every handle a world keeps in its archetypes (and hands out when iterated) is its own and valid in it
            auto& m = ws[k].d->world->entities();
            for (uint32_t i = 0; i < m.getArchetypesCount(); ++i) {
                for (auto e : m.getArchetype(ArchetypeIndex::make(i)).entities()) {
                    ++n_alien;
                    if (e.worldId().toInt() != ws[k].id || !m.isEntityValid(e)) {
                        out << "ORACLE alien-handle: archetype " << i << " of world " << k << " (id " << ws[k].id << ") holds handle id="
                            << e.id().toInt() << " ver=" << e.version().toInt() << " w=" << e.worldId().toInt()
                            << " which is " << (m.isEntityValid(e) ? "valid" : "invalid") << " in it\n";
                    }
                }
            }
#ifndef VERIF_NO_INTERNALS
            // a locked world has a command buffer for the calling thread and for every worker of ITS dispatcher
            if (m.isLocked() && Access::bufferCount(m) < ws[k].d->dispatcher->threadCount() + 1u) {
                out << "ORACLE buffers: locked world " << k << " has " << Access::bufferCount(m) << " command buffers for a dispatcher of "
                    << ws[k].d->dispatcher->threadCount() << " workers\n";
            }
#endif
        }
        for (size_t a : live) {
            for (size_t b : live) {
                if (a == b || ws[a].id == ws[b].id) continue;
                auto& mb = ws[b].d->world->entities();
                for (size_t ord = 0; ord < ws[a].d->issued.size(); ++ord) {
                    ++n_foreign;
                    if (mb.isEntityValid(ws[a].d->issued[ord])) {
                        out << "ORACLE foreign-valid: handle " << ord << " of world " << a << " (id " << ws[a].id
                            << ") is accepted by world " << b << " (id " << ws[b].id << ")\n";
                    }
                }
            }
        }
    }

    // ---- storage blocks: a World is placement-constructed into a raw block that outlives it --------------------------
    std::vector<size_t> retained;       // dead ordinals whose block is still kept (bounded)
    static void* newBlock() { return ::operator new(sizeof(World), std::align_val_t(alignof(World))); }
    static void freeBlock(void* b) { if (b) ::operator delete(b, std::align_val_t(alignof(World))); }
    void* takeBlock(long reuse) {
        if (reuse >= 0 && static_cast<size_t>(reuse) < ws.size() && !ws[reuse].alive && ws[reuse].block) {
            void* b = ws[reuse].block;
            ws[reuse].block = nullptr;
            retained.erase(std::remove(retained.begin(), retained.end(), static_cast<size_t>(reuse)), retained.end());
            return b;
        }
        return newBlock();
    }

    std::string create(bool automatic, uint32_t id, bool shared, uint32_t threads = 1, long reuse = -1) {
        WorldSlot s;
        s.d = std::make_unique<Driver>();
        std::shared_ptr<Dispatcher> disp;
        WorldContext ctx = makeContext(shared, disp, threads);
        s.d->dispatcher = disp;
        s.d->threads = disp->threadCount();
        s.block = takeBlock(reuse);
        s.d->world.reset(automatic ? new (s.block) World(ctx) : new (s.block) World(ctx, WorldId::make(id)));
        s.alive = true;
        s.id = s.d->world->id().toInt();
        s.d->world_id = s.id;
        s.last = observe(*s.d);
        ++n_worlds;
        max_id = std::max<size_t>(max_id, s.id);
        // live worlds must carry pairwise different ids when this one was numbered automatically
        if (automatic) {
            for (size_t k : live) {
                if (ws[k].id == s.id) {
                    out << "ORACLE duplicate-id: automatically numbered world " << ws.size() << " got id " << s.id
                        << " which live world " << k << " carries\n";
                }
            }
        }
        ws.push_back(std::move(s));
        cur = static_cast<int>(ws.size()) - 1;
        live.push_back(static_cast<size_t>(cur));
        return "world " + std::to_string(cur) + " id=" + std::to_string(ws[cur].id);
    }

    void dropSlot(size_t k) {
        auto& s = ws[k];
        if (s.d->agents.running) s.d->agents.stop(*s.d->dispatcher);
        World* p = s.d->world.release();      // the storage block is ours, not the unique_ptr's
        p->~World();
        s.d->dispatcher.reset();
        s.d.reset();
        retained.push_back(k);
        if (retained.size() > 32) {
            freeBlock(ws[retained.front()].block);
            ws[retained.front()].block = nullptr;
            retained.erase(retained.begin());
        }
        s.last.clear();
        s.alive = false;
        live.erase(std::remove(live.begin(), live.end(), k), live.end());
        std::lock_guard<std::mutex> l{g_life_mutex};
        g_callbacks.clear();
    }

    static bool parseCtx(const std::vector<std::string>& w, size_t from, bool& shared, bool& automatic, uint32_t& id, uint32_t& threads, long& reuse) {
        for (size_t i = from; i < w.size(); ++i) {
            if (w[i] == "auto") automatic = true;
            else if (w[i].rfind("id=", 0) == 0) { automatic = false; id = static_cast<uint32_t>(std::stoul(w[i].substr(3))); }
            else if (w[i] == "ctx=own") shared = false;
            else if (w[i] == "ctx=shared") shared = true;
            else if (w[i].rfind("threads=", 0) == 0) threads = static_cast<uint32_t>(std::stoul(w[i].substr(8)));
            else if (w[i].rfind("reuse=", 0) == 0) reuse = std::stol(w[i].substr(6));
            else return false;
        }
        return true;
    }

    static std::string stripL(const std::string& s) {
        std::istringstream is(s);
        std::string l, r;
        while (std::getline(is, l)) if (l.rfind("L ", 0) != 0) r += l + "\n";
        return r;
    }

    bool liveIndex(const std::string& s, size_t& k) {
        try { k = std::stoul(s); } catch (...) { return false; }
        return k < ws.size() && ws[k].alive;
    }

    void line(const std::string& l) {
        std::istringstream is(l);
        std::vector<std::string> w; std::string x;
        while (is >> x) w.push_back(x);
        if (w.empty()) return;
        int operated = -1;
        if (w[0] == "world" && w.size() >= 2) {
            if (w[1] == "new") {
                bool shared = false, automatic = true; uint32_t id = 0, threads = 1; long reuse = -1;
                if (!parseCtx(w, 2, shared, automatic, id, threads, reuse) || threads < 1 || threads > 8) { out << "bad-op\n"; return; }
                out << create(automatic, id, shared, threads, reuse) << "\n";
                operated = cur;
            } else if (w[1] == "drop" && w.size() == 3) {
                size_t k;
                if (!liveIndex(w[2], k)) { out << "bad-op\n"; return; }
                dropSlot(k);
                if (cur == static_cast<int>(k)) cur = -1;
                out << "dropped " << k;
                {
                    std::lock_guard<std::mutex> lk{g_life_mutex};
                    for (auto& e : g_life_errors) out << " LIFECYCLE-ERROR[" << e << "]";
                    g_life_errors.clear();
                }
                out << "\n";
            } else if (w[1] == "churn" && w.size() >= 3) {
                bool shared = true, automatic = true; uint32_t id = 0, threads = 1; long reuse = -1;
                if (!parseCtx(w, 3, shared, automatic, id, threads, reuse) || !automatic) { out << "bad-op\n"; return; }
                size_t n = std::stoul(w[2]);
                uint32_t lo = 0xffffffffu, hi = 0; size_t bad = 0, lost = 0;
                int keep = cur;
                long prev = -1;
                for (size_t i = 0; i < n; ++i) {
                    create(true, 0, shared, 1 + static_cast<uint32_t>(i % 3), prev);
                    prev = static_cast<long>(ws.size()) - 1;
                    auto& s = ws.back();
                    lo = std::min(lo, s.id); hi = std::max(hi, s.id);
                    s.d->exec({"create", "-"});
                    auto& m = s.d->world->entities();
                    Entity e = s.d->issued.empty() ? Entity{} : s.d->issued.back();
                    ++n_own;
                    if (!m.isEntityValid(e) || e.worldId().toInt() != s.id) ++bad;
                    // a creation recorded in a locked section is applied to THIS world when it is unlocked
                    s.d->exec({"lock"});
                    s.d->exec({"create", "A"});
                    s.d->exec({"unlock"});
                    Entity e2 = s.d->issued.size() < 2 ? Entity{} : s.d->issued.back();
                    ++n_own;
                    if (!m.isEntityValid(e2) || e2.worldId().toInt() != s.id) ++lost;
                    dropSlot(ws.size() - 1);
                }
                cur = keep;
                if (n == 0) { lo = 0; hi = 0; }
                out << "churn n=" << n << " ids=" << lo << ".." << hi << " bad=" << bad << " lost=" << lost << "\n";
                if (bad) out << "ORACLE own-handle-invalid: " << bad << " of " << n << " freshly created worlds rejected the handle they had just issued\n";
                if (lost) out << "ORACLE deferred-lost: " << lost << " of " << n << " freshly created worlds did not apply the creation recorded in their locked section\n";
            } else if (w[1] == "reserve" && w.size() == 2) {
                out << "reserved id=" << World::nextWorldId().toInt() << "\n";
            } else { out << "bad-op\n"; return; }
            oracle(operated);
            return;
        }
        if (w[0] == "use" && w.size() == 2) {
            size_t k;
            if (!liveIndex(w[1], k)) { out << "bad-op\n"; return; }
            cur = static_cast<int>(k);
            out << "ok\n";
            oracle(-1);
            return;
        }
        if (w[0] == "dumpall") {
            for (size_t k : live) {
                out << "W " << k << " id=" << ws[k].id << "\n";
                ws[k].d->dump();
                out << stripL(ws[k].d->out.str());
                ws[k].d->out.str("");
            }
            out << "endall\n";
            oracle(-1);
            return;
        }
        if (cur < 0 || !ws[cur].alive) { out << "bad-op\n"; return; }
        Driver& d = *ws[cur].d;
        if ((w[0] == "validin" && w.size() == 3) || (w[0] == "getin" && w.size() == 4)) {
            size_t k; Entity e;
            if (!liveIndex(w[1], k) || !d.parseEntity(w[2], e)) { out << "bad-op\n"; return; }
            Driver& t = *ws[k].d;
            // the handle is presented to world k as a raw pattern (it was not issued there)
            char buf[40]; std::snprintf(buf, sizeof buf, "raw:%llx", static_cast<unsigned long long>(e.value));
            std::vector<std::string> q = w[0] == "validin" ? std::vector<std::string>{"valid", buf}
                                                           : std::vector<std::string>{"get", buf, w[3]};
            out << t.exec(q) << "\n";
            oracle(-1);            // a query changes no world, the queried one included
            return;
        }
        if (w[0] == "in" && w.size() >= 4) {
            size_t k; Entity e;
            if (!liveIndex(w[1], k) || !d.parseEntity(w[3], e)) { out << "bad-op\n"; return; }
            // the unguarded entry points (contract: valid handle) take a foreign handle only as a DEFERRED command
            const bool unguarded = w[2] == "assign" || w[2] == "assign0" || w[2] == "build" || w[2] == "sassign" || w[2] == "markdirty";
            if (unguarded && !ws[k].d->world->entities().isLocked()) { out << "bad-op\n"; return; }
            char buf[40]; std::snprintf(buf, sizeof buf, "raw:%llx", static_cast<unsigned long long>(e.value));
            std::string l2 = w[2] + " " + buf;
            for (size_t i = 4; i < w.size(); ++i) l2 += " " + w[i];
            Driver& t = *ws[k].d;
            t.line(l2);
            out << t.out.str();
            t.out.str("");
            oracle(static_cast<int>(k));
            return;
        }
        if (w[0] == "events" || w[0] == "parjob" || w[0] == "teardown" || w[0] == "worldid" || w[0] == "defaultctx" || w[0] == "threads" || w[0] == "storagecap") {
            out << "bad-op\n"; return;
        }
        const size_t before = d.issued.size();
        d.line(l);
        std::string r = d.out.str();
        d.out.str("");
        out << (w[0] == "dump" ? stripL(r) : r);
        // a handle issued outside a locked section is valid in its own world at once and carries the world's id
        auto& m = d.world->entities();
        if (d.issued.size() > before && !m.isLocked()) {
            Entity e = d.issued.back();
            ++n_own;
            if (!m.isEntityValid(e) || e.worldId().toInt() != ws[cur].id) {
                out << "ORACLE own-handle-invalid: world " << cur << " (id " << ws[cur].id << ") issued handle " << (d.issued.size() - 1)
                    << " (id=" << e.id().toInt() << " ver=" << e.version().toInt() << " w=" << e.worldId().toInt()
                    << ") and its own isEntityValid answers " << (m.isEntityValid(e) ? 1 : 0) << "\n";
            }
        }
        oracle(cur);
    }
};

int main() {
    for (const char* c = kLetters; *c; ++c) compId(*c);
    sharedId('S'); sharedId('T'); sharedId('U');
    Worlds W;
    std::string l;
    while (std::getline(std::cin, l)) {
        if (l.empty() || l[0] == '#') continue;
        W.line(l);
        std::cout << W.out.str();
        std::cout.flush();
        W.out.str("");
    }
    while (!W.live.empty()) W.dropSlot(W.live.back());
    for (auto& sl : W.ws) Worlds::freeBlock(sl.block);
    std::cout << "stats ops=" << W.n_ops << " worlds=" << W.n_worlds << " max_live=" << W.max_live << " max_id=" << W.max_id
              << " frame_checks=" << W.n_frame << " foreign_checks=" << W.n_foreign << " own_checks=" << W.n_own << " archetype_handle_checks=" << W.n_alien << "\n";
    return 0;
}

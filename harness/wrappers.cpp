// Thin extern "C" wrappers around the inline handle-packing and index-arithmetic functions of
// /repo/src (entity.hpp, id_deff.hpp). Each wrapper does nothing but call the real function.
// Compiled (a) to LLVM IR and translated to Lean by tools/ir2lean.py on every run (translator tie),
// (b) natively, to validate the translation differentially.
#include <mustache/ecs/entity.hpp>
#include <mustache/ecs/id_deff.hpp>
#include <cstdint>

using namespace mustache;

extern "C" {

uint64_t w_reset(uint32_t id, uint32_t version, uint32_t world) {
    Entity e;
    e.reset(EntityId::make(id), EntityVersion::make(version), WorldId::make(world));
    return e.value;
}
uint64_t w_ctor(uint32_t id, uint32_t version, uint32_t world) {
    return Entity{EntityId::make(id), EntityVersion::make(version), WorldId::make(world)}.value;
}
uint32_t w_id(uint64_t v) { return Entity::makeFromValue(v).id().toInt(); }
uint32_t w_version(uint64_t v) { return Entity::makeFromValue(v).version().toInt(); }
uint32_t w_world(uint64_t v) { return Entity::makeFromValue(v).worldId().toInt(); }
uint32_t w_isnull(uint64_t v) { return Entity::makeFromValue(v).isNull() ? 1u : 0u; }
uint32_t w_eq(uint64_t a, uint64_t b) { return Entity::makeFromValue(a) == Entity::makeFromValue(b) ? 1u : 0u; }
uint32_t w_ne(uint64_t a, uint64_t b) { return Entity::makeFromValue(a) != Entity::makeFromValue(b) ? 1u : 0u; }
uint32_t w_lt(uint64_t a, uint64_t b) { return Entity::makeFromValue(a) < Entity::makeFromValue(b) ? 1u : 0u; }
uint64_t w_next(uint64_t v) { return Entity::makeFromValue(v).makeEntityWithNextVersion().value; }
uint64_t w_incr(uint64_t v) { Entity e = Entity::makeFromValue(v); e.incrementVersion(); return e.value; }
uint64_t w_setversion(uint64_t v, uint32_t version) {
    Entity e = Entity::makeFromValue(v); e.setVersion(EntityVersion::make(version)); return e.value;
}
uint64_t w_resetid(uint64_t v, uint32_t id) {
    Entity e = Entity::makeFromValue(v); e.reset(EntityId::make(id)); return e.value;
}
uint64_t w_default() { return Entity{}.value; }

uint32_t w_align(uint32_t off, uint32_t a) { return ComponentOffset::make(off).alignAs(a).toInt(); }
uint32_t w_makealigned(uint32_t off, uint32_t a) {
    return ComponentOffset::makeAligned(ComponentOffset::make(off), a).toInt();
}
uint32_t w_div(uint32_t i, uint32_t cap) {
    return (ComponentStorageIndex::make(i) / ChunkCapacity::make(cap)).toInt();
}
uint32_t w_mod(uint32_t i, uint32_t cap) {
    return (ComponentStorageIndex::make(i) % ChunkCapacity::make(cap)).toInt();
}

}

import Mustache.Driver.EntityIR
import Mustache.Driver.World
import Mustache.Driver.WorldContract
import Mustache.Driver.Iter
import Mustache.Driver.Versions
import Mustache.Driver.Systems
import Mustache.Driver.Events
import Mustache.Driver.Dispatch
import Mustache.Driver.Layout
import Mustache.Driver.Worlds
import Mustache.Driver.CApi

/-! Line-protocol driver: `driver <model> [args]` reads ops on stdin, prints observations. -/
def main (args : List String) : IO UInt32 :=
  match args with
  | "entity" :: r   => Mustache.Driver.EntityIR.main r
  | "world" :: r    => Mustache.Driver.World.main r
  | "worldcontract" :: r => Mustache.Driver.WorldContract.main r
  | "iter" :: r     => Mustache.Driver.Iter.main r
  | "versions" :: r => Mustache.Driver.Versions.main r
  | "systems" :: r  => Mustache.Driver.Systems.main r
  | "events" :: r   => Mustache.Driver.Events.main r
  | "dispatch" :: r => Mustache.Driver.Dispatch.main r
  | "layout" :: r   => Mustache.Driver.Layout.main r
  | "worlds" :: r   => Mustache.Driver.Worlds.main r
  | "capi" :: r     => Mustache.Driver.CApi.main r
  | _ => do IO.eprintln "usage: driver <entity|world|iter|versions|systems|events|dispatch|layout|worlds>"; return 2

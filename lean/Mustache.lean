import Mustache.Basic.LineIO
import Mustache.Props.C04
import Mustache.Props.C15
import Mustache.Props.C07
import Mustache.Props.C11
import Mustache.Props.C14
import Mustache.Props.C08
import Mustache.Props.C16

import Mustache.Basic.LineIO

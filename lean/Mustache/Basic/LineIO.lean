/-! Line-protocol helpers shared by all model drivers (no Mathlib). -/
namespace Mustache

/-- Fold a state over the lines of stdin; `f` may print. -/
partial def foldStdin {σ : Type} (f : σ → String → IO σ) (init : σ) : IO σ := do
  let h ← IO.getStdin
  let rec loop (s : σ) : IO σ := do
    let line ← h.getLine
    if line.isEmpty then return s
    let l := line.trimAscii.toString
    if l.isEmpty || l.startsWith "#" then loop s
    else loop (← f s l)
  loop init

def words (l : String) : List String :=
  (l.splitOn " ").filter (· ≠ "")

def natList? (ws : List String) : Option (List Nat) :=
  ws.mapM String.toNat?

/-- "1,2,3" → [1,2,3]; "-" or "" → [] -/
def csvNats? (s : String) : Option (List Nat) :=
  if s = "-" || s = "" then some [] else (s.splitOn ",").mapM String.toNat?

def showCsv (l : List Nat) : String :=
  if l.isEmpty then "-" else ",".intercalate (l.map toString)

end Mustache

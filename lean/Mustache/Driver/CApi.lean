import Mustache.Basic.LineIO
import Mustache.Model.CApi
import Mustache.Driver.World
/-! `driver capi [cxx]`: runs the C-API model (`Model/CApi.lean`) on an op file of the C18 grammar and prints the
    observation lines of `harness/capi_driver.cpp` (entity lines of `dump`, one line per op, job logs).
    The function-table subset comes from the op file's `capi_flags <mask> <dv> [<L>=<mask>:<dv> ...]` line;
    with the argument `cxx` the component description is the C++ catalogue of `harness/world_driver.cpp` instead
    (the model of `harness/capi_ref_driver.cpp`, used for the positions whose value is indeterminate there). -/
namespace Mustache.Driver.CApi
open Mustache Mustache.Model Mustache.Model.CApi
open Mustache.Driver.World (St letterOf compOf parseMask showVal)

def sizes : List Nat := [8, 8, 64, 1, 4096, 8, 8, 8]
def aligns : List Nat := [8, 8, 64, 1, 8, 8, 8, 8]

/-- the harness's `TypeInfo` of letter `c` for a function subset (`mask` bits: 1 create, 2 copy, 4 move,
    8 move_constructor, 16 destroy) and default value on/off -/
def typeInfo (c : Nat) (mask : Nat) (dv : Bool) : TypeInfo :=
  { size := sizes.getD c 8, align := aligns.getD c 8
    create := mask.testBit 0, copy := mask.testBit 1, move := mask.testBit 2, moveCtor := mask.testBit 3,
    destroy := mask.testBit 4
    createTok := 1000 + c
    defaultValue := if dv then some (2000 + c) else none }   -- distinct from the constructor's token

structure CSt where
  s : St := {}
  flags : List (Nat × Bool) := List.replicate 8 (31, false)
  cxx : Bool := false
  cap : Nat := defaultStorageCap

def CSt.registry (cs : CSt) : Registry :=
  (cs.flags.zipIdx).map (fun p => typeInfo p.2 p.1.1 p.1.2)

def CSt.info (cs : CSt) : CompId → CompInfo :=
  if cs.cxx then Mustache.Driver.World.catalogue else infoOf cs.registry

def parseFlag (tok : String) : Option (Nat × Nat × Bool) :=
  match tok.toList with
  | ch :: '=' :: rest =>
    match (String.ofList rest).splitOn ":" with
    | [m, d] => do
      let c ← compOf ch
      let mk ← m.toNat?
      some (c, mk % 32, d != "0")
    | _ => none
  | _ => none

def kv (pre : String) (ws : List String) : Option String :=
  (ws.find? (·.startsWith pre)).map (fun w => (w.drop pre.length).toString)

def showVals (l : List Val) : String := ",".intercalate (l.map showVal)

def showCall (s : St) (c : JobCall) : String :=
  let ents := match c.entities with
    | none => "null"
    | some es => ",".intercalate (es.map s.hname)
  let comps := c.comps.map (fun p =>
    " " ++ letterOf p.1 ++ "=" ++ (match p.2 with | none => "-" | some vs => showVals vs))
  s!" | n={c.len} e={ents}" ++ String.join comps

/-- parallel mode: one record per entity in iteration order (what the harness prints sorted by entity index) -/
def showCallFlat (s : St) (c : JobCall) : String :=
  String.join ((List.range c.len).map (fun i =>
    let e := match c.entities with
      | none => "null"
      | some es => match es[i]? with | some h => s.hname h | none => "?"
    let comps := c.comps.map (fun p =>
      letterOf p.1 ++ "=" ++ (match p.2 with | none => "-" | some vs => showVal (vs.getD i none)))
    " | " ++ e ++ ":" ++ ",".intercalate comps))

def exec (cs : CSt) (ws : List String) : CSt × List String :=
  let info := cs.info
  let s := cs.s
  let w := s.w
  let ret := fun (w' : WM) (l : String) => ({ cs with s := { s with w := w' } }, [l])
  match ws with
  | [op, m] =>
    if op = "create" || op = "createb" then
      match parseMask m with
      | none => (cs, ["bad-op"])
      | some mask =>
        -- getArchetype(ComponentMask) resp. getArchetypeByBitsetMask, then createEntity(world, archetype)
        let am := if op = "create" then convertMask mask else bitsetMask (mask.foldl (fun b c => b ||| (1 <<< c)) 0)
        let (w, ai) := w.getArch am Shared.null
        let (w, h, _) := createAt info w 0 ai
        let (s', line) := { s with w := w }.issue h
        ({ cs with s := s' }, [line])
    else if op = "valid" then
      match s.entity m with
      | some h => (cs, [if w.isValid h then "valid=1" else "valid=0"])
      | none => (cs, ["bad-op"])
    else if op = "clone" then
      match s.entity m with
      | some h =>
        match w.clone h with
        | (w, some d) => let (s', line) := { s with w := w }.issue d; ({ cs with s := s' }, [line])
        | (w, none) => ret w "null"
      | none => (cs, ["bad-op"])
    else if op = "destroynow" || op = "destroy" then
      match s.entity m with
      | some h => let (w, _) := destroyAll info w 0 (op = "destroynow") [h]; ret w "ok"
      | none => (cs, ["bad-op"])
    else (cs, ["bad-op"])
  | ["creategroup", m, n] =>
    match parseMask m, n.toNat? with
    | some mask, some k =>
      let (w, ai) := w.getArch (convertMask mask) Shared.null
      let (w, hs, _) := createGroup info w 0 ai k
      let (s', lines) := hs.foldl (fun (acc : St × List String) h =>
        let (s', l) := acc.1.issue h; (s', acc.2 ++ [l])) ({ s with w := w }, [])
      ({ cs with s := s' }, lines)
    | _, _ => (cs, ["bad-op"])
  | ["assign", e, c, tok] =>
    match s.entity e, (c.toList.head?).bind compOf, tok.toNat? with
    | some h, some ci, some v =>
      let (w, r, p, _) := assignId info w 0 h ci true
      let w := store info w p v
      ret w (Mustache.Driver.World.resStr r)
    | _, _, _ => (cs, ["bad-op"])
  | ["assign0", e, c] =>
    match s.entity e, (c.toList.head?).bind compOf with
    | some h, some ci =>
      let (w, r, _, _) := assignId info w 0 h ci false
      ret w (Mustache.Driver.World.resStr r)
    | _, _ => (cs, ["bad-op"])
  | ["set", e, c, tok] =>
    match s.entity e, (c.toList.head?).bind compOf, tok.toNat? with
    | some h, some ci, some v =>
      match w.getComp h ci with
      | none => (cs, ["null"])
      | some _ => ret (store info w (.comp h ci) v) "ok"
    | _, _, _ => (cs, ["bad-op"])
  | ["remove", e, c] =>
    match s.entity e, (c.toList.head?).bind compOf with
    | some h, some ci => let (w, _) := removeUntyped info w 0 h ci; ret w "ok"
    | _, _ => (cs, ["bad-op"])
  | ["wupdate"] => let (w, r, _) := w.update info; ret w (Mustache.Driver.World.resStr r)
  | ["clear"] => let (w, _) := clear info w; ret w "ok"
  | ["lock"] => ret w.lock "ok"
  | ["unlock"] => let (w, r, _) := w.unlock info; ret w (if r then "ret=1" else "ret=0")
  | ["has", e, c] =>
    match s.entity e with
    | some h =>
      match (c.toList.head?).bind compOf with
      | some ci => (cs, [if w.hasComp h ci then "has=1" else "has=0"])
      | none => (cs, ["has=0"])
    | none => (cs, ["bad-op"])
  | [g, e, c] =>
    if g = "get" || g = "getmut" then
      match s.entity e, (c.toList.head?).bind compOf with
      | some h, some ci =>
        match w.getComp h ci with
        | none => (cs, ["val=null"])
        | some v => (cs, ["val=" ++ showVal v ++ (if g = "getmut" then " st=1" else " st=0")])
      | _, _ => (cs, ["bad-op"])
    else if g = "destroynow" || g = "destroy" then
      match [e, c].mapM s.entity with
      | some hs => let (w, _) := destroyAll info w 0 (g = "destroynow") hs; ret w "ok"
      | none => (cs, ["bad-op"])
    else (cs, ["bad-op"])
  | "foreach" :: rest =>
    let m := fun (pre : String) => match kv pre rest with | some v => parseMask v | none => some []
    match m "req=", m "opt=", m "const=" with
    | some req, some opt, some cst =>
      let ent := kv "ent=" rest != some "0"
      let par := kv "mode=" rest == some "par"
      let write : Option (CompId × Nat) := (kv "w=" rest).bind (fun v =>
        match v.splitOn ":" with
        | [c, b] => do some (← (c.toList.head?).bind compOf, ← b.toNat?)
        | _ => none)
      let args : List CJobArg :=
        req.map (fun c => ⟨c, true, cst.contains c⟩) ++
        (opt.filter (fun c => !req.contains c)).map (fun c => ⟨c, false, cst.contains c⟩)
      let d : JobDescriptor := { args := args, entityRequired := ent, write := write }
      let (w, o, _) := runNt info w cs.cap (makeJob d)
      match o with
      | none => ret w "job none"
      | some jo =>
        let dirty := if !ent || jo.dirty.isEmpty then "-" else String.join (jo.dirty.map letterOf)
        let head := s!"job size={jo.size}" ++ (if par then "" else s!" tasks={jo.tasks}") ++
          s!" mode={if par then "par" else "cur"} end=1 dirty={dirty}"
        let body := String.join (jo.calls.map (if par then showCallFlat s else showCall s))
        ret w (head ++ body)
    | _, _, _ => (cs, ["bad-op"])
  | op :: rest =>
    if (op = "destroynow" || op = "destroy") && !rest.isEmpty then
      match rest.mapM s.entity with
      | some hs => let (w, _) := destroyAll info w 0 (op = "destroynow") hs; ret w "ok"
      | none => (cs, ["bad-op"])
    else (cs, ["bad-op"])
  | _ => (cs, ["bad-op"])

def dump (cs : CSt) : List String := Id.run do
  let s := cs.s
  let w := s.w
  let mut out : List String := ["dump"]
  for ord in [0:s.issued.size] do
    let e := s.issued[ord]!
    if !w.isValid e then
      out := out ++ [s!"E {ord} valid=0"]
    else
      match (w.locOf e).arch with
      | none => out := out ++ [s!"E {ord} valid=1 arch=- pos=- comps=- shared=-"]
      | some ai =>
        let a := w.arch ai
        let row := a.rows.getD (w.locOf e).idx default
        let comps := (a.mask.zip row.vals).map (fun p => s!"{letterOf p.1}:{showVal p.2}")
        let compsS := if comps.isEmpty then "-" else ",".intercalate comps
        out := out ++ [s!"E {ord} valid=1 arch={ai} pos={(w.locOf e).idx} comps={compsS} shared=-"]
  return out ++ ["end"]

def step (cs : CSt) (line : String) : CSt × List String :=
  match words line with
  | "capi_flags" :: m :: d :: rest =>
    match m.toNat?, rest.mapM parseFlag with
    | some mk, some ovs =>
      let base := List.replicate 8 (mk % 32, d != "0")
      let flags := ovs.foldl (fun (fl : List (Nat × Bool)) o => fl.set o.1 (o.2.1, o.2.2)) base
      ({ cs with flags := flags }, ["ok"])
    | _, _ => (cs, ["bad-op"])
  | ["worldid", n] =>
    match n.toNat? with
    | some k => ({ cs with s := { cs.s with w := { cs.s.w with worldId := k } } }, ["ok"])
    | none => (cs, ["bad-op"])
  | ["storagecap", n] =>
    match n.toNat? with
    | some k => ({ cs with cap := if k = 0 then defaultStorageCap else k }, ["ok"])
    | none => (cs, ["bad-op"])
  | ["threads", _] => (cs, ["ok"])
  | ["defaultctx"] => (cs, ["ok"])
  | ["dump"] => (cs, dump cs)
  | ["teardown"] => (cs, ["teardown"])
  | [] => (cs, [])
  | ws => exec cs ws

def main (args : List String) : IO UInt32 := do
  let init : CSt := { cxx := args.contains "cxx" }
  let _ ← foldStdin (fun cs l => do
    let (cs', outs) := step cs l
    for o in outs do IO.println o
    pure cs') init
  return 0
end Mustache.Driver.CApi

import Mustache.Basic.LineIO
import Mustache.Model.Dispatcher

/-!
`driver dispatch trace` — reads the schedule-point trace logged by harness/dispatch_driver.cpp
(one event per line: `T <seq> <disp> <event> <thread> <arg>`), elaborates it into actions of
`Mustache.Dispatcher` and checks that they form a run of the model (`step` never returns `none`,
and the outcome of every worker critical section is the one the implementation reported).

`driver dispatch pfor` — lines `b e tc threads`: prints the model's `parallelFor` split.

Elaboration of events into actions is 1:1 except for three reads the implementation performs
without the mutex, whose linearisation point lies *before* the event that reports them:
* `kWaiterDone` (the waiter saw its exit condition): accepted if the condition held in the model at
  some point since the waiter's previous event (`spinExit` only changes the waiter's mode, so it
  commutes with the other threads' actions);
* `kWorkerExit` between `kShutdownBegin` and `kShutdownFlag`: `sdFlag` is placed just before it;
* a worker critical section that read `terminate == false` but is reported after `kShutdownFlag`
  (and necessarily before `kShutdownCleared`, which needs the mutex): evaluated before `sdFlag`.
These are counted as `floats` in the output.
-/
namespace Mustache.Driver.Dispatch
open Mustache.Dispatcher

structure DState where
  id : Nat
  s : State
  termPending : Bool := false
  exitOk : Bool := false
  events : Nat := 0
  actions : Nat := 0
  floats : Nat := 0
  rejected : Option String := none

def pcName : Pc → String
  | .idle => "idle"
  | .sleeping => "sleeping"
  | .woken => "woken"
  | .running t q => s!"running({t},{q})"
  | .relock q => s!"relock({q})"
  | .exited => "exited"

def modeName : Mode → String
  | .api => "api"
  | .inline => "inline"
  | .waitLoop q => s!"waitLoop({q})"
  | .spin q => s!"spin({q})"
  | .sdFlag => "sdFlag"
  | .sdCleared => "sdCleared"
  | .joining => "joining"
  | .destroyed => "destroyed"

def spinCond (s : State) : Bool :=
  match s.mode with
  | .spin q => if q = 0 then s.tw == s.n else !s.locked q
  | _ => false

def reject (d : DState) (why : String) : DState := { d with rejected := some why }

/-- apply one model action -/
def act (d : DState) (a : Action) (what : String) : DState :=
  match d.rejected with
  | some _ => d
  | none =>
    match step d.s a with
    | some s' => { d with s := s', actions := d.actions + 1 }
    | none => reject d s!"model action {what} not enabled (mode={modeName d.s.mode} tw={d.s.tw} terminate={d.s.terminate})"

def expectPc (d : DState) (th : Nat) (ok : Pc → Bool) (what : String) : DState :=
  match d.rejected with
  | some _ => d
  | none =>
    let p := pcAt d.s th
    if ok p then d else reject d s!"thread {th}: implementation reports {what}, model has {pcName p}"

inductive ScanOut
  | sleep | pop (q : Nat) | exit
deriving DecidableEq

def scanMatches (o : ScanOut) (p : Pc) : Bool :=
  match o, p with
  | .sleep, .sleeping => true
  | .pop q, .running _ q' => q == q'
  | .exit, .exited => true
  | _, _ => false

def scanName : ScanOut → String
  | .sleep => "sleep"
  | .pop q => s!"pop({q})"
  | .exit => "exit"

/-- worker critical section with reported outcome `o` -/
def scan (d : DState) (th : Nat) (o : ScanOut) : DState :=
  match d.rejected with
  | some _ => d
  | none =>
    -- place a pending `terminate = true` before an exit
    let d := if o = ScanOut.exit ∧ d.termPending ∧ !d.s.terminate then
        { (act d .sdFlag "sdFlag(floated)") with termPending := false, floats := d.floats + 1 } else d
    match step d.s (.wScan th) with
    | none => reject d s!"worker {th}: critical section not enabled, model pc {pcName (pcAt d.s th)}"
    | some s' =>
      if scanMatches o (pcAt s' th) then { d with s := s', actions := d.actions + 1 }
      else
        -- late report of a read of `terminate == false`
        if d.s.mode = Mode.sdFlag ∧ o ≠ ScanOut.exit then
          let pre := { d.s with terminate := false, mode := .api }
          match step pre (.wScan th) with
          | some s1 =>
            if scanMatches o (pcAt s1 th) then
              { d with s := { s1 with terminate := true, mode := .sdFlag }, actions := d.actions + 1, floats := d.floats + 1 }
            else reject d s!"worker {th}: implementation outcome {scanName o}, model outcome {pcName (pcAt s1 th)}"
          | none => reject d s!"worker {th}: critical section not enabled"
        else reject d s!"worker {th}: implementation outcome {scanName o}, model outcome {pcName (pcAt s' th)} (findQueue={findQueue d.s})"

def isRunningQ (q : Nat) : Pc → Bool
  | .running _ q' => q == q'
  | _ => false

def isRunningT (t : Nat) : Pc → Bool
  | .running t' _ => t == t'
  | _ => false

def handle (d : DState) (ev : String) (th arg : Nat) (argI : Int) : DState :=
  let d := { d with events := d.events + 1 }
  let d := match ev with
  | "X_createQueue" => act d (.createQueue argI) ev
  | "kCreateQueue" => if d.s.nq == arg then d else reject d s!"createQueue returned queue {arg}, model has {d.s.nq}"
  | "X_setSingle" => act d (.setSingle (arg != 0)) ev
  | "kSubmit" => act d (.submit arg) s!"submit({arg})"
  | "kSubmitNotified" => d
  | "kSubmitInline" => act d .submitInline ev
  | "X_waitBegin" => { (act d (.waitBegin arg) s!"waitBegin({arg})") with exitOk := false }
  | "kWaiterBeforeLock" =>
    -- `parallelFor` calls `waitForParallelFinish` itself: the call starts here
    if d.s.mode = Mode.api then { (act d (.waitBegin arg) s!"waitBegin({arg})") with exitOk := false } else d
  | "kWaiterAfterLock" => d
  | "kWaiterEmpty" => { (act d .waitEmpty ev) with exitOk := false }
  | "kWaiterPop" => expectPc (act d .waitPop ev) 0 (isRunningQ arg) s!"pop from queue {arg}"
  | "kWaiterBlocked" => act d .waitBlocked ev
  | "kWaiterRelocked" => act d (.relock 0) ev
  | "kWaiterSpin" => act d .spinRetry ev
  | "kWaiterDone" =>
    (match d.rejected with
     | some _ => d
     | none =>
      match step d.s .spinExit with
      | some s' => { d with s := s', actions := d.actions + 1 }
      | none =>
        match d.s.mode with
        | .spin _ =>
          if d.exitOk then { d with s := { d.s with mode := .api }, actions := d.actions + 1, floats := d.floats + 1 }
          else reject d s!"wait returned but the exit condition never held in the model since the helper loop ended (mode={modeName d.s.mode} tw={d.s.tw} n={d.s.n})"
        | _ => reject d s!"wait returned in mode {modeName d.s.mode}")
  | "X_waitReturn" => if d.s.mode = Mode.api then d else reject d s!"wait returned to the caller in mode {modeName d.s.mode}"
  | "kTaskBegin" => expectPc d th (isRunningQ arg) s!"task begin (queue {arg})"
  | "Body" => expectPc d th (isRunningT arg) s!"body of task {arg}"
  | "kTaskEnd" =>
    if th = 0 ∧ d.s.mode = Mode.inline then act (act d (.taskEnd 0) "inline taskEnd") (.relock 0) "inline relock"
    else act d (.taskEnd th) s!"taskEnd({th})"
  | "kWorkerBeforeLock" => d
  | "kWorkerAfterLock" => d
  | "kWorkerBeforeWait" => scan d th .sleep
  | "kWorkerAfterWake" => if pcAt d.s th = Pc.sleeping then act d (.wake th) s!"wake({th})" else d
  | "kWorkerPop" => scan d th (.pop arg)
  | "kWorkerRelocked" => act d (.relock th) s!"relock({th})"
  | "kWorkerExit" => scan d th .exit
  | "kShutdownBegin" => { d with termPending := true }
  | "kShutdownFlag" =>
    if d.s.terminate then { d with termPending := false } else { (act d .sdFlag ev) with termPending := false }
  | "kShutdownCleared" => act d .sdClear ev
  | "kShutdownNotified" => act d .sdNotify ev
  | "kShutdownJoined" => act d .sdJoin ev
  | _ => reject d s!"unknown event {ev}"
  match d.rejected with
  | some _ => d
  | none => if spinCond d.s then { d with exitOk := true } else d

def pendingTotal (s : State) : Nat :=
  ((List.range (s.nq + 1)).map (fun q => (s.jobs q).length)).foldl (· + ·) 0

def runningTotal (s : State) : Nat := s.pcs.countP (fun p => match p with | .running _ _ => true | _ => false)

structure TState where
  ds : List DState := []
  bad : Option String := none

def updateD (ds : List DState) (id : Nat) (f : DState → DState) : List DState :=
  ds.map (fun d => if d.id = id then f d else d)

def traceLine (st : TState) (l : String) : IO TState := do
  match words l with
  | ["T", seq, dId, ev, th, arg] =>
    match dId.toNat?, th.toNat?, arg.toInt? with
    | some dId, some th, some argI =>
      let arg := argI.toNat
      if ev = "X_new" then
        return { st with ds := st.ds ++ [{ id := dId, s := init arg }] }
      else
        match st.ds.find? (·.id = dId) with
        | none => return { st with bad := some s!"event for unknown dispatcher {dId} at seq {seq}" }
        | some d0 =>
          if d0.rejected.isSome then return st
          let d1 := handle d0 ev th arg argI
          let d1 := match d1.rejected with
            | some why => if d0.rejected.isNone then { d1 with rejected := some s!"seq={seq} event={ev} thread={th} arg={arg}: {why}" } else d1
            | none => d1
          return { st with ds := updateD st.ds dId (fun _ => d1) }
    | _, _, _ => return { st with bad := some s!"malformed trace line: {l}" }
  | _ => return { st with bad := some s!"malformed trace line: {l}" }

def traceMain : IO UInt32 := do
  let st ← foldStdin traceLine {}
  match st.bad with
  | some b => IO.println s!"error {b}"; return 1
  | none => pure ()
  let mut rc : UInt32 := 0
  for d in st.ds do
    match d.rejected with
    | some why =>
      IO.println s!"model {d.id} rejected {why}"
      rc := 3
    | none =>
      IO.println s!"model {d.id} accepted events={d.events} actions={d.actions} floats={d.floats} mode={modeName d.s.mode} submitted={d.s.nextId} started={d.s.started.length} done={d.s.done.length} dropped={d.s.dropped.length} pending={pendingTotal d.s} running={runningTotal d.s}"
  return rc

def showRanges (l : List (Nat × Nat)) : String :=
  " ".intercalate (l.map (fun r => s!"({r.1},{r.2})"))

def pforLine (_ : Unit) (l : String) : IO Unit := do
  match natList? (words l) with
  | some [b, e, tc, threads] =>
    let pinned := pforTaskCountPinned (e - b) tc threads
    let rs := pforRanges b e tc threads
    IO.println s!"pfor {b} {e} {tc} {threads} pinned_count={pinned} n={rs.length} {showRanges rs}"
  | _ => IO.println s!"error malformed pfor line: {l}"

def main (args : List String) : IO UInt32 :=
  match args with
  | ["trace"] => traceMain
  | ["pfor"] => do foldStdin pforLine (); return 0
  | _ => do IO.eprintln "usage: driver dispatch <trace|pfor>"; return 2

end Mustache.Driver.Dispatch

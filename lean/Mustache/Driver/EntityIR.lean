import Mustache.Basic.LineIO
namespace Mustache.Driver.EntityIR
/-- stub, replaced when the model lands -/
def main (_args : List String) : IO UInt32 := do
  IO.eprintln "driver: model EntityIR not built yet"
  return 2
end Mustache.Driver.EntityIR

import Mustache.Basic.LineIO
import Mustache.Gen.EntityIR
/-! `driver entity`: evaluates the GENERATED handle/index functions on argument lines
    `<fn> <arg>...` (decimal), one result per line — the Lean side of the translator's
    differential validation. -/
namespace Mustache.Driver.EntityIR
open Mustache Mustache.Gen

def b32 (n : Nat) : BitVec 32 := BitVec.ofNat 32 n
def b64 (n : Nat) : BitVec 64 := BitVec.ofNat 64 n

def eval (fn : String) (a : List Nat) : Option Nat :=
  match fn, a with
  | "w_reset", [i, v, w] => some (w_reset (b32 i) (b32 v) (b32 w)).toNat
  | "w_ctor", [i, v, w] => some (w_ctor (b32 i) (b32 v) (b32 w)).toNat
  | "w_id", [x] => some (w_id (b64 x)).toNat
  | "w_version", [x] => some (w_version (b64 x)).toNat
  | "w_world", [x] => some (w_world (b64 x)).toNat
  | "w_isnull", [x] => some (w_isnull (b64 x)).toNat
  | "w_eq", [x, y] => some (w_eq (b64 x) (b64 y)).toNat
  | "w_ne", [x, y] => some (w_ne (b64 x) (b64 y)).toNat
  | "w_lt", [x, y] => some (w_lt (b64 x) (b64 y)).toNat
  | "w_next", [x] => some (w_next (b64 x)).toNat
  | "w_incr", [x] => some (w_incr (b64 x)).toNat
  | "w_setversion", [x, v] => some (w_setversion (b64 x) (b32 v)).toNat
  | "w_resetid", [x, i] => some (w_resetid (b64 x) (b32 i)).toNat
  | "w_default", [] => some w_default.toNat
  | "w_align", [o, a] => if w_align_defined (b32 o) (b32 a) then some (w_align (b32 o) (b32 a)).toNat else none
  | "w_makealigned", [o, a] =>
      if w_makealigned_defined (b32 o) (b32 a) then some (w_makealigned (b32 o) (b32 a)).toNat else none
  | "w_div", [i, c] => if w_div_defined (b32 i) (b32 c) then some (w_div (b32 i) (b32 c)).toNat else none
  | "w_mod", [i, c] => if w_mod_defined (b32 i) (b32 c) then some (w_mod (b32 i) (b32 c)).toNat else none
  | _, _ => none

def main (_args : List String) : IO UInt32 := do
  let _ ← foldStdin (σ := Unit) (fun _ l => do
    match words l with
    | fn :: rest =>
      match natList? rest with
      | some a =>
        match eval fn a with
        | some r => IO.println s!"{r}"
        | none => IO.println "undefined"
      | none => IO.println "bad-op"
    | [] => pure ()) ()
  return 0
end Mustache.Driver.EntityIR

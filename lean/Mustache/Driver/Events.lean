import Mustache.Basic.LineIO
import Mustache.Model.Events
import Mustache.Spec.Events
/-!
Line-protocol driver of the event-manager model (C15). Reads the op file of
`harness/events_driver.cpp` on stdin; for every op prints

  `M <i> <op> <result> | [id=<n>] m<k>=<slot table> …`   — the model (same text as the harness line)
  `S <i> <op> <result>`                                   — the specification (property oracle)

An op outside the contract (`Model.Events.legal`) is reported as `illegal` and skipped by both.
A line `reset` ends the current history (`end` is printed) and starts a new one from the initial state,
so that many histories can be evaluated by one driver process.
-/
namespace Mustache.Driver.Events
open Mustache.Model.Events

def parseOp (l : String) : Option Op :=
  match Mustache.words l with
  | ["newManager"] => some .newManager
  | ["dropManager", m] => m.toNat?.map .dropManager
  | ["newReceiver", t] => t.toNat?.map .newReceiver
  | ["subscribeFn", m, t] => do some (.subscribeFn (← m.toNat?) (← t.toNat?))
  | ["subscribe", m, r] => do some (.subscribe (← m.toNat?) (← r.toNat?))
  | ["unsubscribe", r] => r.toNat?.map .unsubscribe
  | ["unsubscribeAt", m, r] => do some (.unsubscribeAt (← m.toNat?) (← r.toNat?))
  | ["dropReceiver", r] => r.toNat?.map .dropReceiver
  | ["post", m, t] => do some (.post (← m.toNat?) (← t.toNat?))
  | _ => none

def opName : Op → String
  | .newManager => "newManager"
  | .dropManager _ => "dropManager"
  | .newReceiver _ => "newReceiver"
  | .subscribeFn _ _ => "subscribeFn"
  | .subscribe _ _ => "subscribe"
  | .unsubscribe _ => "unsubscribe"
  | .unsubscribeAt _ _ => "unsubscribeAt"
  | .dropReceiver _ => "dropReceiver"
  | .post _ _ => "post"

def csv (l : List Nat) : String := ",".intercalate (l.map toString)

def showOut : Out → String
  | .mgr m => s!"m={m}"
  | .rcv r => s!"r={r}"
  | .ok => "ok"
  | .delivered l => "delivered=" ++ (if l.isEmpty then "-" else csv l)
  | .illegal => "illegal"
  | .ub => "UB"

/-- event type whose process-global id the harness reports after the op -/
def opType (s : State) : Op → Option TypeName
  | .subscribeFn _ T => some T
  | .post _ T => some T
  | .subscribe _ r => (s.rcvs[r]?).map (·.ty)
  | .unsubscribeAt _ r => (s.rcvs[r]?).map (·.ty)
  | _ => none

def showSlots (ids : List TypeName) (sl : Slots) : String :=
  if sl.isEmpty then "." else
    "/".intercalate ((List.range sl.length).map fun i =>
      match sl[i]? with
      | some (some l) =>
        (match ids[i]? with | some T => s!"E{T}:" | none => "E?:") ++ csv l
      | _ => "-")

def showInternals (s : State) (ty : Option TypeName) : String :=
  let idPart := match ty with
    | some T => (match idOf s.typeIds T with | some i => s!" id={i}" | none => " id=?")
    | none => ""
  let ms := (List.range s.mgrs.length).filterMap fun k =>
    match s.mgrs[k]? with
    | some mg => if mg.alive then some s!" m{k}={showSlots s.typeIds mg.slots}" else none
    | none => none
  idPart ++ String.join ms

structure DS where
  i : Nat := 0
  m : State := State.init
  sp : Mustache.Spec.Events.State := Mustache.Spec.Events.State.init
  bad : Bool := false

def main (_args : List String) : IO UInt32 := do
  let out ← IO.getStdout
  let fin ← Mustache.foldStdin (init := ({} : DS)) fun st l => do
    if l == "reset" then
      out.putStrLn "end"
      return { bad := st.bad }
    match parseOp l with
    | none =>
      IO.eprintln s!"events driver: cannot parse line: {l}"
      return { st with bad := true }
    | some op =>
      let name := opName op
      if !legal st.m op then
        out.putStrLn s!"M {st.i} {name} illegal"
        out.putStrLn s!"S {st.i} {name} illegal"
        return { st with i := st.i + 1 }
      let ty := opType st.m op
      let (m', o) := step st.m op
      let (sp', so) := Mustache.Spec.Events.step st.sp op
      out.putStrLn s!"M {st.i} {name} {showOut o} |{showInternals m' ty}"
      out.putStrLn s!"S {st.i} {name} {showOut so}"
      return { st with i := st.i + 1, m := m', sp := sp' }
  out.putStrLn "end"
  return (if fin.bad then 3 else 0)

end Mustache.Driver.Events

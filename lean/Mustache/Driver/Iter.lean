import Mustache.Basic.LineIO
import Mustache.Model.Iteration

/-! `driver iter`: evaluates the iteration model (C04) on configuration lines.

input, one configuration per line:
  `cfg id=<n> job=<plain|idx|ent|opt|shr|arr|nt|nts> mode=<current|parallel|single> T=<n|-> threads=<k>
       req=<csv> reqs=<csv> archs=<mask csv>/<shared csv>/<size>/<cs>/<cap>/<extra 0|1>/<pattern|->;...`
output: the observation lines of `harness/job_driver.cpp` (`R`, `B`, `K`, `A`, `I`, `end`). -/
namespace Mustache.Driver.Iter
open Mustache Mustache.Iteration

structure Cfg where
  id : Nat := 0
  job : String := "idx"
  mode : Mode := .current
  T : Option Nat := none
  threads : Nat := 3
  req : List Nat := []
  reqs : List Nat := []
  archs : List ArchCfg := []

def parsePattern (s : String) : Nat → Bool :=
  let bits : List Bool := if s = "-" then [] else s.toList.map (· == '1')
  fun ci => bits.getD ci false

def parseArch (s : String) : Option ArchCfg :=
  match s.splitOn "/" with
  | [m, sh, size, cs, cap, extra, pat] => do
    let m ← csvNats? m
    let sh ← csvNats? sh
    let size ← size.toNat?
    let cs ← cs.toNat?
    let cap ← cap.toNat?
    some ⟨m, sh, size, cs, cap, extra == "1", parsePattern pat⟩
  | _ => none

def parseKV (c : Cfg) (w : String) : Option Cfg :=
  match w.splitOn "=" with
  | ["id", v] => do some { c with id := (← v.toNat?) }
  | ["job", v] => some { c with job := v }
  | ["mode", v] =>
    match v with
    | "current" => some { c with mode := .current }
    | "parallel" => some { c with mode := .parallel }
    | "single" => some { c with mode := .single }
    | _ => none
  | ["T", v] => if v = "-" then some { c with T := none } else do some { c with T := some (← v.toNat?) }
  | ["threads", v] => do some { c with threads := (← v.toNat?) }
  | ["req", v] => do some { c with req := (← csvNats? v) }
  | ["reqs", v] => do some { c with reqs := (← csvNats? v) }
  | ["archs", v] => do
    let l ← ((v.splitOn ";").filter (· ≠ "")).mapM parseArch
    some { c with archs := l }
  | _ => none

def parseCfg (l : String) : Option Cfg :=
  match words l with
  | "cfg" :: rest => rest.foldlM parseKV {}
  | _ => none

def joinSp (l : List String) : String := " ".intercalate l

def showArr (task : Nat) (mine : List NtCall) : List String :=
  if mine.isEmpty then []
  else [s!"A {task} " ++ joinSp (mine.map fun r => s!"{r.arch},{r.first},{r.len},{r.eindex},{r.inTask}")]

def showInv (withIdx : Bool) (task : Nat) (mine : List Inv) : List String :=
  if mine.isEmpty then []
  else [s!"I {task} " ++ joinSp (mine.map fun r =>
    if withIdx then s!"{r.arch},{r.idx},{r.eindex},{r.inTask}" else s!"{r.arch},{r.idx},-,-")]

/-- `BaseJob::taskCount` (default) -/
def defaultTaskCount (total threads : Nat) : Nat := min total (threads + 1)

def runCfg (c : Cfg) : List String :=
  let fr := applyFilter c.req c.reqs c.archs 0
  let total := totalCount fr
  let tc := match c.T with
    | some t => t
    | none => defaultTaskCount total c.threads
  let outs := runJob c.mode fr tc
  if total < 1 then [s!"end {c.id}"]
  else
    let T := match c.mode with
      | .current => 1
      | _ => max 1 tc
    let blocks := fr.flatMap fun fa => fa.blocks.map fun b => s!"{fa.arch}:{b.b}-{b.e}"
    let arrayForm := c.job == "arr" || c.job == "nt" || c.job == "nts"
    [s!"R {c.id} total={total} T={T}", joinSp ("B" :: blocks)] ++
      outs.flatMap (fun t =>
        s!"K {t.id} {t.size}" ::
          (if arrayForm then showArr t.id (arraysNt t.id t.start t.arrays 0)
           else showInv (c.job != "plain") t.id (arraysInvs t.id t.start t.arrays 0))) ++
      [s!"end {c.id}"]

def main (_args : List String) : IO UInt32 := do
  let out ← IO.getStdout
  let _ ← foldStdin (fun (_ : Unit) l => do
    match parseCfg l with
    | some c => for s in runCfg c do out.putStrLn s
    | none => out.putStrLn "E bad configuration line\nend -1"
    return ()) ()
  out.flush
  return 0

end Mustache.Driver.Iter

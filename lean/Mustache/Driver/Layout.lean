import Mustache.Basic.LineIO
import Mustache.Model.Layout
/-! `driver layout`: the chunk-layout model and the command-buffer allocator model on query lines.

```
layout <first|largest> <cap> <size:align,size:align,...|->   -> layout al=<chunkAlign> sz=<chunkSize> offs=<csv> sizes=<csv>
                                                               (and makes this component list the current one)
addr <i> <j>                                                  -> addr k=<chunk> r=<offset inside the chunk>
treset                                                        -> ok          (fresh TemporalStorage)
tset <target> <total> <base:capacity:free,...|->              -> ok          (an observed TemporalStorage state)
talloc <new-chunk-address> <size> <align>                     -> talloc k=<chunk> o=<offset> cap=<chunk capacity>
tclear                                                        -> ok
```
-/
namespace Mustache.Driver.Layout
open Mustache Mustache.Model.Layout

structure St where
  cap : Nat := 1
  cs : List Comp := []
  t : TState := TState.init

def parseComps (s : String) : Option (List Comp) :=
  if s = "-" || s = "" then some []
  else (s.splitOn ",").mapM fun item =>
    match item.splitOn ":" with
    | [a, b] => do
      let x ← a.toNat?
      let y ← b.toNat?
      pure (⟨x, y⟩ : Comp)
    | _ => none

/-- `base:capacity:free,...` oldest chunk first (the order of the C++ vector) -/
def parseChunks (s : String) : Option (List TChunk) :=
  if s = "-" || s = "" then some []
  else (s.splitOn ",").mapM fun item =>
    match item.splitOn ":" with
    | [a, b, c] => do
      let x ← a.toNat?
      let y ← b.toNat?
      let z ← c.toNat?
      pure (⟨x, y, z⟩ : TChunk)
    | _ => none

def parseRule (s : String) : Option Rule :=
  if s = "first" then some .first else if s = "largest" then some .largest else none

def stepLine (st : St) (l : String) : IO St := do
  match words l with
  | ["layout", r, cap, comps] =>
    match parseRule r, cap.toNat?, parseComps comps with
    | some rule, some c, some cs =>
      let L := layout rule c cs
      IO.println s!"layout al={L.chunkAlign} sz={L.chunkSize} offs={showCsv (L.getters.map (·.offset))} sizes={showCsv (L.getters.map (·.size))}"
      return { st with cap := c, cs := cs }
    | _, _, _ => IO.println "bad-op"; return st
  | ["addr", i, j] =>
    match i.toNat?, j.toNat? with
    | some i, some j =>
      if st.cap = 0 then IO.println "undefined"
      else IO.println s!"addr k={j / st.cap} r={rel st.cap st.cs i (j % st.cap)}"
      return st
    | _, _ => IO.println "bad-op"; return st
  | ["treset"] => IO.println "ok"; return { st with t := TState.init }
  | ["tset", target, total, chunks] =>
    match target.toNat?, total.toNat?, parseChunks chunks with
    | some tg, some tot, some cs => IO.println "ok"; return { st with t := ⟨cs.reverse, tg, tot⟩ }
    | _, _, _ => IO.println "bad-op"; return st
  | ["tclear"] => IO.println "ok"; return { st with t := clear st.t }
  | ["talloc", nb, size, align] =>
    match nb.toNat?, size.toNat?, align.toNat? with
    | some nb, some size, some align =>
      let (t', r) := allocate st.t nb size align
      IO.println s!"talloc k={r.chunk} o={r.offset} cap={chunkCapacity t' r.chunk} b={chunkBase t' r.chunk}"
      return { st with t := t' }
    | _, _, _ => IO.println "bad-op"; return st
  | _ => IO.println "bad-op"; return st

def main (_args : List String) : IO UInt32 := do
  let _ ← foldStdin stepLine ({} : St)
  return 0
end Mustache.Driver.Layout

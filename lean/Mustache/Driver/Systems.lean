import Mustache.Basic.LineIO
import Mustache.Model.Systems
/-!
Driver `systems` (C14). Reads, per case,

    case <id>
    op <op line>                 (grammar of harness/systems_driver.cpp)
    impl <outcome> <events>      (what the implementation did on that op)

runs the model on the op, and judges the IMPLEMENTATION's observation:

* `outcome` : implementation outcome = model outcome (ok / invalid_state / cannot_reorder / aborted)
* `events`  : per object, the implementation's callbacks = the model's callbacks (the interleaving between
              objects is not compared: `std::sort` is not stable)
* `order`   : on `update`: the implementation's sequence of updated systems satisfies `validUpdateB` for the
              ordering problem of the last successful reorder, with "active" read off the implementation's
              own callbacks; every present system that is active was updated exactly once
* `life`    : every callback the implementation made is allowed after that object's previous callback
* `removed` : no callback on a removed object

Output, one line per op:
    <case> <idx> [MALFORMED ]outcome=<ok|DIFF> events=<ok|DIFF> order=<ok|BAD|na> life=<ok|BAD> removed=<ok|BAD> | model <outcome> <events by object>
(`MALFORMED`: the op adds a system under a name that is already registered — outside the contract)
-/
namespace Mustache.Driver.Systems
open Mustache Mustache.Systems

def cbName : Cb → String
  | .create => "create" | .configure => "configure" | .start => "start" | .update => "update"
  | .pause => "pause" | .stop => "stop" | .resume => "resume" | .destroy => "destroy"

def cbOfName? : String → Option Cb
  | "create" => some .create | "configure" => some .configure | "start" => some .start
  | "update" => some .update | "pause" => some .pause | "stop" => some .stop
  | "resume" => some .resume | "destroy" => some .destroy | _ => none

def outcomeName : Outcome → String
  | .ok => "ok" | .invalidState => "invalid_state" | .cannotReorder => "cannot_reorder" | .aborted => "aborted"

def parseOp (ws : List String) : Option Op :=
  match ws with
  | ["group", g, p] => do some (.setGroup (← g.toNat?) (← p.toInt?))
  | ["add", n, pre, g, p, after, before] => do
      some (.add (← n.toNat?) ((← pre.toNat?) != 0)
        { before := ← csvNats? before, after := ← csvNats? after, group := ← g.toNat?, prio := ← p.toInt? })
  | ["remove", n] => do some (.remove (← n.toNat?))
  | ["init"] => some .init
  | ["update"] => some .update
  | ["pause", n] => do some (.ext (← n.toNat?) .pause)
  | ["resume", n] => do some (.ext (← n.toNat?) .resume)
  | ["stop", n] => do some (.ext (← n.toNat?) .stop)
  | ["end"] => some .teardown
  | _ => none

def parseEvents (s : String) : Option (List Ev) :=
  if s = "-" || s = "" then some [] else
  (s.splitOn ",").mapM fun tok =>
    match tok.splitOn ":" with
    | [u, c] => do some ⟨← u.toNat?, ← cbOfName? c⟩
    | _ => none

/-- events grouped by object (ascending uid), order inside an object kept -/
def byObject (evs : List Ev) : List (Nat × List Cb) :=
  let uids := (evs.map (·.uid)).eraseDups.mergeSort (fun a b => decide (a ≤ b))
  uids.map fun u => (u, traceOf u evs)

def showByObject (evs : List Ev) : String :=
  let l := byObject evs
  if l.isEmpty then "-" else
  " ".intercalate (l.map fun (u, cs) => s!"{u}:" ++ "+".intercalate (cs.map cbName))

structure DState where
  m : Mgr := {}
  /-- last callback the IMPLEMENTATION made on each object -/
  implLast : List (Nat × Cb) := []
  caseId : String := "0"
  idx : Nat := 0
  pending : Option Op := none
  bad : Nat := 0

def implActive (last : List (Nat × Cb)) (u : Nat) : Bool :=
  match last.lookup u with
  | some .start | some .update | some .resume => true
  | _ => false

/-- feed the implementation's callbacks of one op through the per-object acceptor -/
def lifeStep (last : List (Nat × Cb)) (evs : List Ev) : List (Nat × Cb) × Bool :=
  evs.foldl (fun (acc : List (Nat × Cb) × Bool) e =>
    (setAssoc e.uid e.cb acc.1, acc.2 && allowedNext (acc.1.lookup e.uid) e.cb)) (last, true)

/-- the order oracle on one implementation `update` -/
def orderVerdict (m : Mgr) (last' : List (Nat × Cb)) (implEvs : List Ev) : Bool :=
  let us := (implEvs.filter (·.cb == .update)).map (·.uid)
  if m.dead || !m.wasInit then us.isEmpty else
  let nodes? := us.mapM fun u => m.snapSrc.find? (·.id == u)
  match nodes? with
  | none => false
  | some uns =>
    validUpdateB m.snapSrc (fun n => implActive last' n.id) uns
    && m.systems.all (fun s => !implActive last' s.uid || us.count s.uid == 1)

def judge (st : DState) (op : Op) (implOut : String) (implEvs : List Ev) : DState × String :=
  let (m', out, evs) := step st.m op
  let outcomeOk := outcomeName out == implOut
  let eventsOk := byObject evs == byObject implEvs
  let (last', lifeOk) := lifeStep st.implLast implEvs
  let removedOk := implEvs.all fun e => !m'.removed.contains e.uid
  let order :=
    match op with
    | .update => if implOut == "ok" then (if orderVerdict st.m last' implEvs then "ok" else "BAD") else "na"
    | _ => "na"
  let f := fun (b : Bool) (bad : String) => if b then "ok" else bad
  -- an op outside the contract (a second system under a registered name) makes the case meaningless
  let wf := if opWf st.m op then "" else "MALFORMED "
  let line := s!"{st.caseId} {st.idx} {wf}outcome={f outcomeOk "DIFF"} events={f eventsOk "DIFF"} order={order} " ++
    s!"life={f lifeOk "BAD"} removed={f removedOk "BAD"} | model {outcomeName out} {showByObject evs}"
  let nbad := (if outcomeOk && eventsOk && lifeOk && removedOk && order != "BAD" then 0 else 1)
  ({ st with m := m', implLast := last', idx := st.idx + 1, pending := none, bad := st.bad + nbad }, line)

def handle (st : DState) (l : String) : IO DState := do
  match words l with
  | ["case", id] => return { st with m := {}, implLast := [], caseId := id, idx := 0, pending := none }
  | "op" :: ws =>
    match parseOp ws with
    | some op => return { st with pending := some op }
    | none => do IO.println s!"{st.caseId} {st.idx} PARSE-ERROR op {l}"; return { st with bad := st.bad + 1 }
  | ["impl", out, evs] =>
    match st.pending, parseEvents evs with
    | some op, some implEvs => do
      let (st', line) := judge st op out implEvs
      IO.println line
      return st'
    | _, _ => do IO.println s!"{st.caseId} {st.idx} PARSE-ERROR impl {l}"; return { st with bad := st.bad + 1 }
  | _ => do IO.println s!"{st.caseId} {st.idx} PARSE-ERROR {l}"; return { st with bad := st.bad + 1 }

/-- `driver systems` : judge implementation observations (see the module doc). -/
def main (_args : List String) : IO UInt32 := do
  let st ← foldStdin handle {}
  (← IO.getStdout).flush
  return (if st.bad == 0 then 0 else 1)

end Mustache.Driver.Systems

import Mustache.Basic.LineIO
import Mustache.Model.Versions
/-!
Line-protocol driver of the version model (`driver versions`). Op grammar (shared with
`harness/version_driver.cpp`, see `tools/props/versions_common.py`):

```
job <j> req=<mask> write=<mask> check=<mask> [opt=<mask>] [kind=tpl|dyn] [af=<mask>] [cf=all|even|odd]
        af: archetypes having one of these components are vetoed by extraArchetypeFilterCheck
        cf: extraChunkFilterCheck accepts all / even / odd chunk indices
chunkdefault <n> | chunkfn <mask> <min> <max> | dep <C> <mask>
create <mask> | assign <e> <C> | remove <e> <C> | destroy <e>
getmut <e> <C> | getconst <e> <C> | dirty <e> <C>
update | run <j> [do <act> ; <act> ; ...] | dump
        act = getmut|dirty|getconst <e> <C> (immediate)  |  create <mask> | assign|remove <e> <C> | destroy <e>
              (through the command buffer, applied when the run unlocks)
```
A mask is a string of component letters `A`..`H` or `-`.
-/
namespace Mustache.Driver.Versions

open Mustache Mustache.Versions

def letterOf (c : Nat) : String := String.singleton (Char.ofNat (65 + c))

def showMask (m : List Nat) : String :=
  if m.isEmpty then "-" else String.join (m.map letterOf)

def parseMask (s : String) : Option (List Nat) :=
  if s = "-" then some []
  else s.toList.mapM (fun ch => if 'A' ≤ ch ∧ ch ≤ 'H' then some (ch.toNat - 65) else none)

def kv (ws : List String) (key : String) : Option String :=
  ws.findSome? (fun w => if w.startsWith (key ++ "=") then some (w.drop (key.length + 1)).toString else none)

def parseJob (ws : List String) : Option JobSpec := do
  let req ← (kv ws "req").bind parseMask
  let wr ← (kv ws "write").bind parseMask
  let ck ← (kv ws "check").bind parseMask
  let af ← ((kv ws "af").getD "-") |> parseMask
  let cf : Option Nat := match kv ws "cf" with
    | some "even" => some 1      -- accept even chunk indices: parity 1 is skipped
    | some "odd" => some 0
    | _ => none
  pure { req := normMask req, check := normMask ck, upd := normMask wr, afDeny := normMask af, cfSkip := cf }

def showVer (v : Nat) : String := toString v

def showLast (o : Option Nat) : String :=
  match o with
  | none => "-"
  | some v => toString v

def chunkVerOf (s : State) (e c : Nat) : String :=
  match locate s.archs e with
  | none => "?"
  | some (ai, i) =>
    match s.archs[ai]? with
    | none => "?"
    | some a => showVer (a.cst (i / a.cs) c)

def csOf (s : State) (e : Nat) : String :=
  match locate s.archs e with
  | none => "?"
  | some (ai, _) =>
    match s.archs[ai]? with
    | none => "?"
    | some a => toString a.cs

def showBlocks (s : State) (J : Job) : String :=
  let parts := s.archs.filterMap (fun a =>
    let bs := a.blocksOf J
    if bs.isEmpty then none
    else some (showMask a.mask ++ ":" ++ ",".intercalate (bs.map (fun p => s!"{p.1}-{p.2}"))))
  if parts.isEmpty then "-" else ";".intercalate parts

def showArch (a : Arch) : String :=
  let head := s!"A {showMask a.mask} cs={a.cs} size={a.ents.length}"
  if a.ents.isEmpty then head
  else
    let g := ",".intercalate (a.mask.map (fun c => s!"{letterOf c}:{a.gst c}"))
    let nChunks := (a.ents.length - 1) / a.cs + 1
    let cs := (List.range nChunks).flatMap (fun k => a.mask.map (fun c => s!"{k}:{letterOf c}:{a.cst k c}"))
    s!"{head} ents={showCsv a.ents} g={if g.isEmpty then "-" else g} c={if cs.isEmpty then "-" else ",".intercalate cs}"

def showDump (s : State) : String :=
  " | ".intercalate ([s!"dump w={s.w}"] ++ s.archs.map showArch)

/-- Driver-only re-tabulation. The model keeps stamps as functions, so a long history builds a tower of
closures (each `runJob` wraps the previous stamps, and evaluating one stamp re-evaluates the filter below
it). After every op the stamps are re-read on the only domain any operation or observation ever reads
(chunks in range × components of the archetype) and stored as tables; the ghost fields are never read by
the driver and are dropped. Printed observations are unchanged (and compared with the implementation). -/
def tabulate (a : Arch) : Arch :=
  let nChunks := if a.ents.isEmpty then 0 else (a.ents.length - 1) / a.cs + 1
  let g : List (Nat × Nat) := a.mask.map (fun c => (c, a.gst c))
  let t : Array (List (Nat × Nat)) :=
    (Array.range nChunks).map (fun k => a.mask.map (fun c => (c, a.cst k c)))
  { a with
      gst := fun c => (g.lookup c).getD nullVer
      cst := fun k c =>
        match t[k]? with
        | some row => (row.lookup c).getD nullVer
        | none => nullVer }

def normalize (s : State) : State :=
  { s with archs := s.archs.map tabulate, pending := fun _ _ _ => false, touched := fun _ _ _ => false }

/-- a body action and its short result code -/
def parseAct (ws : List String) : Option Op :=
  match ws with
  | ["create", m] => (parseMask m).map Op.create
  | ["destroy", e] => e.toNat?.map Op.destroyNow
  | [op, e, c] =>
    match e.toNat?, parseMask c with
    | some e, some [c] =>
      match op with
      | "assign" => some (.assign e c) | "remove" => some (.remove e c)
      | "getmut" => some (.getMut e c) | "getconst" => some (.getConst e c)
      | "dirty" => some (.markDirty e c) | _ => none
    | _, _ => none
  | _ => none

def actCode (s : State) (o : Out) : String :=
  match o with
  | .created e => s!"c{e}:{csOf s e}"
  | .ok => "ok"
  | .access true => "a1"
  | .access false => "a0"
  | _ => "no"

/-- run with a body: `State.hstep (.runDo j body)`, keeping the result of every action -/
def runBody (s : State) (body : List Op) : State × List (Op × String) :=
  (bodyOrder s.nextEnt body).foldl (fun (p : State × List (Op × String)) o =>
    let r := p.1.step o
    (r.1, p.2 ++ [(o, actCode r.1 r.2)])) (s, [])

def stepLine (st0 : State × Nat) (l : String) : IO (State × Nat) := do
  let st := (normalize st0.1, st0.2)
  let (s, nj) := st
  let ws := words l
  let bad : IO (State × Nat) := do IO.println s!"bad-op {l}"; return st
  match ws with
  | "job" :: _ => IO.println s!"job {nj}"; return (s, nj + 1)
  | ["chunkdefault", n] =>
    match n.toNat? with
    | some n => let r := s.step (.setDefault n); IO.println (if n = 0 then "noop" else "ok"); return (r.1, nj)
    | none => bad
  | ["dep", c, ds] =>
    match parseMask c, parseMask ds with
    | some [c], some ds => let r := s.step (.addDep c ds); IO.println "ok"; return (r.1, nj)
    | _, _ => bad
  | ["chunkfn", m, mn, mx] =>
    match parseMask m, mn.toNat?, mx.toNat? with
    | some m, some mn, some mx => let r := s.step (.addFn m mn mx); IO.println "ok"; return (r.1, nj)
    | _, _, _ => bad
  | ["create", m] =>
    match parseMask m with
    | some m =>
      let r := s.step (.create m)
      match r.2 with
      | .created e => IO.println s!"created {e} cs={csOf r.1 e}"
      | .error mx mn => IO.println s!"error {mx} {mn}"
      | _ => IO.println "?"
      return (r.1, nj)
    | none => bad
  | [op, e, c] =>
    match e.toNat?, parseMask c with
    | some e, some [c] =>
      let mop : Option Op :=
        match op with
        | "assign" => some (.assign e c) | "remove" => some (.remove e c)
        | "getmut" => some (.getMut e c) | "getconst" => some (.getConst e c)
        | "dirty" => some (.markDirty e c) | _ => none
      match mop with
      | none => bad
      | some o =>
        let r := s.step o
        match r.2 with
        | .ok => IO.println s!"ok cs={csOf r.1 e}"
        | .noop => IO.println "noop"
        | .selfMove => IO.println "selfmove"
        | .error mx mn => IO.println s!"error {mx} {mn}"
        | .access true => IO.println s!"access 1 ver={chunkVerOf r.1 e c}"
        | .access false => IO.println "access 0"
        | _ => IO.println "?"
        return (r.1, nj)
    | _, _ => bad
  | ["destroy", e] =>
    match e.toNat? with
    | some e =>
      let r := s.step (.destroyNow e)
      IO.println (match r.2 with | .ok => "ok" | _ => "noop")
      return (r.1, nj)
    | none => bad
  | ["update"] => let r := s.step .update; IO.println s!"update w={r.1.w}"; return (r.1, nj)
  | "run" :: j :: rest =>
    match j.toNat? with
    | some j =>
      match s.jobs[j]? with
      | none => bad
      | some J =>
        let acts : Option (List Op) :=
          match rest with
          | [] => some []
          | "do" :: ws => ((" ".intercalate ws).splitOn ";").mapM (fun a => parseAct (words a))
          | _ => none
        match acts with
        | none => bad
        | some body =>
          let blk := showBlocks s J
          let r := s.jobRun j
          let last := match r.1.jobs[j]? with | some J' => showLast J'.last | none => "-"
          -- `State.hstep (.runDo j body)`: the body runs only when something was selected
          let (s2, res) := if r.2.isEmpty then (r.1, []) else runBody r.1 body
          -- results in the order the actions were written
          let codes := body.map (fun o => match res.find? (fun p => p.1 == o) with
            | some p => p.2
            | none => if r.2.isEmpty then "-" else "no")
          let doS := if body.isEmpty then "" else " do=" ++ ";".intercalate codes
          IO.println s!"run {j} n={r.2.length} sel={r.2.length} ents={showCsv r.2} blk={blk} w={r.1.w} last={last}{doS}"
          return (s2, nj)
    | none => bad
  | ["dump"] => IO.println (showDump s); return st
  | _ => bad

partial def readAll (h : IO.FS.Stream) (acc : Array String) : IO (Array String) := do
  let line ← h.getLine
  if line.isEmpty then return acc
  let l := line.trimAscii.toString
  if l.isEmpty || l.startsWith "#" then readAll h acc else readAll h (acc.push l)

def main (_args : List String) : IO UInt32 := do
  let lines ← readAll (← IO.getStdin) #[]
  -- job objects do not interact with the world before their first run: collect the declarations first
  let specs := lines.toList.filterMap (fun l =>
    let ws := words l
    match ws with
    | "job" :: rest => parseJob rest
    | _ => none)
  let s0 := init { jobs := specs }
  let _ ← lines.foldlM stepLine (s0, 0)
  return 0

end Mustache.Driver.Versions

import Mustache.Basic.LineIO
import Mustache.Model.World
import Mustache.Spec.World
/-! `driver world`: runs the world model on an op file and prints the observation lines of
    `harness/world_driver.cpp` (same grammar, same canonical format). -/
namespace Mustache.Driver.World
open Mustache Mustache.Model

/-- the harness's component catalogue: A=0 … H=7 -/
def catalogue (c : CompId) : CompInfo :=
  match c with
  | 0 => ⟨false, none, none, false, false⟩            -- A trivial
  | 1 => ⟨true, some 1001, none, false, true⟩         -- B heap-owning, counted
  | 2 => ⟨true, some 1002, none, false, false⟩        -- C over-aligned
  | 3 => ⟨false, none, some 0, false, false⟩          -- D empty
  | 4 => ⟨false, none, none, false, false⟩            -- E large trivial
  | 5 => ⟨true, some 1005, none, true, false⟩         -- F callbacks
  | 6 => ⟨true, some 1006, none, false, true⟩         -- G heap-owning, counted
  | 7 => ⟨true, some 1007, none, false, false⟩        -- H
  | _ => ⟨false, none, none, false, false⟩

def letters : List Char := ['A', 'B', 'C', 'D', 'E', 'F', 'G', 'H']
def compOf (ch : Char) : Option CompId :=
  let i := letters.idxOf ch
  if i < letters.length then some i else none
def letterOf (c : CompId) : String := String.singleton (letters.getD c '?')
def sharedOf (ch : Char) : Option Nat := if ch = 'S' then some 0 else if ch = 'T' then some 1 else none
def sharedLetter (s : Nat) : String := if s = 0 then "S" else "T"

def parseMask (s : String) : Option Mask :=
  if s = "-" then some [] else
  (s.toList.filter (· ≠ ',')).foldlM (fun m ch => (compOf ch).map (Mask.insert m ·)) []

def showMask (m : Mask) : String :=
  if m.isEmpty then "-" else ",".intercalate (m.map letterOf)

structure St where
  w : WM := {}
  issued : Array Handle := #[]
  ordOf : List (Nat × Nat) := []             -- packed value ↦ latest ordinal
  seenS : List Nat := []                      -- instance ids in order of first appearance (class numbers), type S
  seenT : List Nat := []
  freshVals : List (Nat × Nat) := []          -- unpooled instances ↦ value

def St.hname (s : St) (h : Handle) : String :=
  match s.ordOf.find? (·.1 == h.value) with
  | some (_, o) => toString o
  | none => "raw:" ++ String.ofList (Nat.toDigits 16 h.value)

def St.issue (s : St) (h : Handle) : St × String :=
  let ord := s.issued.size
  ({ s with issued := s.issued.push h, ordOf := (h.value, ord) :: s.ordOf },
   s!"h {ord} id={h.id} ver={h.ver} w={h.world}")

def hexVal (s : String) : Option Nat :=
  s.toList.foldlM (fun n ch =>
    if ch.isDigit then some (n * 16 + (ch.toNat - '0'.toNat))
    else if 'a' ≤ ch ∧ ch ≤ 'f' then some (n * 16 + 10 + (ch.toNat - 'a'.toNat))
    else if 'A' ≤ ch ∧ ch ≤ 'F' then some (n * 16 + 10 + (ch.toNat - 'A'.toNat))
    else none) 0

def St.entity (s : St) (tok : String) : Option Handle :=
  if tok = "null" then some Handle.null
  else if tok.startsWith "raw:" then (hexVal (tok.drop 4).toString).map Handle.ofValue
  else match tok.toNat? with
    | some k => s.issued[k]?
    | none => none

def showCbs (s : St) (cbs : List Cb) : String :=
  String.join (cbs.map (fun cb => match cb with
    | .assign c e => s!" cb=assign:{letterOf c}:{s.hname e}"
    | .remove c e => s!" cb=remove:{letterOf c}:{s.hname e}"))

def showVal (v : Val) : String :=
  match v with | some t => toString t | none => "?"

def instValue (s : St) (sid inst : Nat) : Nat :=
  match s.w.pool.find? (·.1 == sid) with
  | some (_, l) =>
    match l.find? (·.2 == inst) with
    | some (v, _) => v
    | none => (match s.freshVals.find? (·.1 == inst) with | some (_, v) => v | none => 0)
  | none => (match s.freshVals.find? (·.1 == inst) with | some (_, v) => v | none => 0)

def St.classOf (s : St) (sid inst : Nat) : St × Nat :=
  let seen := if sid = 0 then s.seenS else s.seenT
  let i := seen.idxOf inst
  if i < seen.length then (s, i)
  else
    let seen' := seen ++ [inst]
    (if sid = 0 then { s with seenS := seen' } else { s with seenT := seen' }, seen.length)

def dump (s0 : St) : St × List String := Id.run do
  let mut s := s0
  let mut out : List String := ["dump"]
  let w := s.w
  for ord in [0:s.issued.size] do
    let e := s.issued[ord]!
    if !w.isValid e then
      out := out ++ [s!"E {ord} valid=0"]
    else
      match (w.locOf e).arch with
      | none => out := out ++ [s!"E {ord} valid=1 arch=- pos=- comps=- shared=-"]
      | some ai =>
        let a := w.arch ai
        let row := a.rows.getD (w.locOf e).idx default
        let comps := (a.mask.zip row.vals).map (fun p => s!"{letterOf p.1}:{showVal p.2}")
        let compsS := if comps.isEmpty then "-" else ",".intercalate comps
        let mut sh : List String := []
        for sid in [0, 1] do
          match a.shared.get? sid with
          | some inst =>
            let (s', k) := s.classOf sid inst
            s := s'
            sh := sh ++ [s!"{sharedLetter sid}:{k}/{instValue s sid inst}"]
          | none =>
            if a.shared.has sid then sh := sh ++ [s!"{sharedLetter sid}:null"]
        let shS := if sh.isEmpty then "-" else ",".intercalate sh
        out := out ++ [s!"E {ord} valid=1 arch={ai} pos={(w.locOf e).idx} comps={compsS} shared={shS}"]
  for ai in [0:w.archs.length] do
    let a := w.arch ai
    let mut sh : List String := []
    for sid in [0, 1] do
      if a.shared.has sid then
        match a.shared.get? sid with
        | some inst =>
          let (s', k) := s.classOf sid inst
          s := s'
          sh := sh ++ [s!"{sharedLetter sid}:{k}"]
        | none => sh := sh ++ [s!"{sharedLetter sid}:null"]
    let shS := if sh.isEmpty then "-" else ",".intercalate sh
    let ents := a.rows.map (fun r => s.hname r.ent)
    let entsS := if ents.isEmpty then "-" else ",".intercalate ents
    out := out ++ [s!"A {ai} mask={showMask a.mask} shared={shS} size={a.rows.length} ents={entsS}"]
  let slots := (w.slots.zipIdx).map (fun p => s!"{p.2}:{p.1.idf}:{p.1.ver}")
  let slotsS := if slots.isEmpty then "-" else ",".intercalate slots
  let marked := w.marked.map s.hname
  let markedS := if marked.isEmpty then "-" else ",".intercalate marked
  out := out ++ [s!"T slots={slotsS} next={w.next} empty={w.empty} lock={w.lockDepth} marked={markedS}"]
  out := out ++ [s!"L B={w.liveCount 1} G={w.liveCount 6}", "end"]
  return (s, out)

def resStr : Res → String
  | .ok => "ok" | .selfMove => "err:self-move" | .lockedUpdate => "err:locked-update"

/-- parse builder arguments `+C=tok`, `+C`, `-C` -/
def parseBuild (ws : List String) : Option (List (CompId × Option Nat) × Mask) :=
  ws.foldlM (fun (acc : List (CompId × Option Nat) × Mask) tok =>
    match tok.toList with
    | '+' :: ch :: rest =>
      (compOf ch).bind (fun c =>
        match rest with
        | [] => some (acc.1 ++ [(c, none)], acc.2)
        | '=' :: ds => (String.ofList ds).toNat?.map (fun t => (acc.1 ++ [(c, some t)], acc.2))
        | _ => none)
    | ['-', ch] => (compOf ch).map (fun c => (acc.1, Mask.insert acc.2 c))
    | _ => none) ([], [])

/-- executes one op (thread `t`), returns the new state and the observation line (without side notes) -/
def exec (s : St) (t : Nat) (ws : List String) : St × String :=
  let info := catalogue
  let w := s.w
  match ws with
  | "create" :: rest =>
    let maskS := rest.headD "-"
    match parseMask maskS with
    | none => (s, "bad-op")
    | some mask =>
      -- shared types named after the mask get a fresh default-valued instance each (makeSharedInfo)
      let (w, sh, fresh) := (rest.drop 1).foldl (fun (acc : WM × Shared × List (Nat × Nat)) tok =>
        match (tok.toList.head?).bind sharedOf with
        | some sid =>
          -- a creation's default-valued shared component goes through the value pool like any other value
          let (w', inst) := acc.1.poolGet sid 0
          (w', acc.2.1.add sid inst, acc.2.2)
        | none => acc) (w, Shared.null, [])
      let (w, h, cbs) := w.create info t mask sh
      let (s', line) := { s with w := w, freshVals := fresh ++ s.freshVals }.issue h
      (s', line ++ showCbs s' cbs)
  | ["assign", e, c, tok] =>
    match s.entity e, (c.toList.head?).bind compOf, tok.toNat? with
    | some h, some ci, some v =>
      let (w, r, cbs) := w.assign info t h ci (some v)
      ({ s with w := w }, resStr r ++ showCbs s cbs)
    | _, _, _ => (s, "bad-op")
  | ["assign0", e, c] =>
    match s.entity e, (c.toList.head?).bind compOf with
    | some h, some ci =>
      let (w, r, cbs) := w.assign info t h ci none
      ({ s with w := w }, resStr r ++ showCbs s cbs)
    | _, _ => (s, "bad-op")
  | ["remove", e, c] =>
    match s.entity e, (c.toList.head?).bind compOf with
    | some h, some ci =>
      let (w, cbs) := w.removeComp info t h ci
      ({ s with w := w }, "ok" ++ showCbs s cbs)
    | _, _ => (s, "bad-op")
  | "build" :: e :: rest =>
    match parseBuild rest with
    | none => (s, "bad-op")
    | some (adds, rems) =>
      if adds.length > 2 || rems.length > 2 then (s, "bad-op") else
      if e = "new" then
        if w.isLocked then
          -- createWithOutInit -> createLocked(null mask), then one assign command per argument
          let (w, h) := w.createLocked t [] Shared.null
          let (w, cbs) := adds.foldl (fun (acc : WM × List Cb) p =>
            let (w', _, c) := acc.1.assign info t h p.1 (match p.2 with | some v => some v | none => none)
            (w', acc.2 ++ c)) (w, [])
          let (s', line) := { s with w := w }.issue h
          (s', line ++ showCbs s' cbs)
        else
          let (w, h, cbs) := w.buildNewU info adds
          let (s', line) := { s with w := w }.issue h
          (s', line ++ showCbs s' cbs)
      else
        match s.entity e with
        | none => (s, "bad-op")
        | some h =>
          if w.isLocked then
            let (w, cbs) := adds.foldl (fun (acc : WM × List Cb) p =>
              let (w', _, c) := acc.1.assign info t h p.1 p.2
              (w', acc.2 ++ c)) (w, [])
            let w := rems.foldl (fun w c => (w.removeComp info t h c).1) w
            ({ s with w := w }, "ok" ++ showCbs s cbs)
          else
            let (w, r, cbs) := w.buildUpdateU info h adds rems
            ({ s with w := w }, resStr r ++ showCbs s cbs)
  | ["destroy", e] =>
    match s.entity e with
    | some h => ({ s with w := w.destroy t h }, "ok")
    | none => (s, "bad-op")
  | ["destroynow", e] =>
    match s.entity e with
    | some h => let (w, cbs) := w.destroyNow info t h; ({ s with w := w }, "ok" ++ showCbs s cbs)
    | none => (s, "bad-op")
  | ["clone", e] =>
    match s.entity e with
    | some h =>
      match w.clone h with
      | (w, some d) => { s with w := w }.issue d
      | (w, none) => ({ s with w := w }, "null")
    | none => (s, "bad-op")
  | ["sassign", e, sh, v] =>
    match s.entity e, (sh.toList.head?).bind sharedOf, v.toNat? with
    | some h, some sid, some val =>
      let (w, cbs) := w.sassign info h sid val
      ({ s with w := w }, "ok" ++ showCbs s cbs)
    | _, _, _ => (s, "bad-op")
  | ["sremove", e, sh] =>
    match s.entity e, (sh.toList.head?).bind sharedOf with
    | some h, some sid =>
      let (w, r, cbs) := w.sremove info h sid
      ({ s with w := w }, (if r then "ret=1" else "ret=0") ++ showCbs s cbs)
    | _, _ => (s, "bad-op")
  | ["cleararch", m] =>
    match parseMask m with
    | none => (s, "bad-op")
    | some mask =>
      let i := w.archs.findIdx (fun a => a.mask == mask)
      if i < w.archs.length then
        let (w, cbs) := w.clearArch info i
        ({ s with w := w }, "ok" ++ showCbs s cbs)
      else (s, "none")
  | ["update"] =>
    let (w, r, cbs) := w.update info
    ({ s with w := w }, resStr r ++ showCbs s cbs)
  | ["lock"] => ({ s with w := w.lock }, "ok")
  | ["unlock"] =>
    let (w, r, cbs) := w.unlock info
    ({ s with w := w }, (if r then "ret=1" else "ret=0") ++ showCbs s cbs)
  | ["dep", m, ds] =>
    match (m.toList.head?).bind compOf, parseMask ds with
    | some c, some extra => ({ s with w := { w with deps := addDependency w.deps c extra } }, "ok")
    | _, _ => (s, "bad-op")
  | ["valid", e] =>
    match s.entity e with
    | some h => (s, if w.isValid h then "valid=1" else "valid=0")
    | none => (s, "bad-op")
  | ["has", e, c] =>
    match s.entity e with
    | some h =>
      match (c.toList.head?).bind compOf, (c.toList.head?).bind sharedOf with
      | some ci, _ => (s, if w.hasComp h ci then "has=1" else "has=0")
      | none, some sid => (s, if w.hasShared h sid then "has=1" else "has=0")
      | none, none => (s, "has=0")
    | none => (s, "bad-op")
  | [g, e, c] =>
    if g = "get" || g = "getmut" then
      match s.entity e, (c.toList.head?).bind compOf with
      | some h, some ci =>
        match w.getComp h ci with
        | none => (s, "val=null")
        | some v => (s, "val=" ++ showVal v)
      | _, _ => (s, "bad-op")
    else if g = "markdirty" then
      match s.entity e with
      | some _ => (s, "ok")
      | none => (s, "bad-op")
    else (s, "bad-op")
  | ["archof", e] =>
    match s.entity e with
    | some h => (s, match w.archOf h with | some a => s!"arch={a}" | none => "arch=null")
    | none => (s, "bad-op")
  | ["marked", e] =>
    match s.entity e with
    | some h => (s, if w.marked.contains h then "marked=1" else "marked=0")
    | none => (s, "bad-op")
  | _ => (s, "bad-op")

def step (s : St) (line : String) : St × List String :=
  match words line with
  | ["threads", n] =>
    match n.toNat? with
    | some k => ({ s with w := { s.w with nthreads := k + 1 } }, ["ok"])
    | none => (s, ["bad-op"])
  | ["worldid", n] =>
    match n.toNat? with
    | some k => ({ s with w := { s.w with worldId := k } }, ["ok"])
    | none => (s, ["bad-op"])
  | ["defaultctx"] => (s, ["ok"])
  | ["storagecap", _] => (s, ["ok"])
  | ["dump"] => dump s
  | ["teardown"] => (s, ["teardown live B=0 G=0"])
  | [] => (s, [])
  | w0 :: rest =>
    let tid : Option Nat :=
      match w0.toList with
      | 't' :: ds => if ds.isEmpty then none else (String.ofList ds).toNat?
      | _ => none
    match tid with
    | some t =>
      if rest.isEmpty then (s, ["bad-op"])
      else if t ≠ 0 && (!(s.w.isLocked) || t ≥ s.w.nthreads) then (s, ["bad-op"])
      else let (s', l) := exec s t rest; (s', [l])
    | none => let (s', l) := exec s 0 (w0 :: rest); (s', [l])

/-! ## spec stream (`driver worldspec`): the property-level observations, entities by ordinal -/
section SpecStream
open Mustache.Spec

/-- ordinal named by an entity token: an ordinal, or the (latest) ordinal whose handle has that value -/
def St.ordinal (s : St) (tok : String) : Option Nat :=
  if tok = "null" then none
  else if tok.startsWith "raw:" then
    match (hexVal (tok.drop 4).toString) with
    | some v => (s.ordOf.find? (·.1 == (Handle.ofValue v).value)).bind (fun p => if v < 2^64 ∧ (Handle.ofValue v).value = v then some p.2 else none)
    | none => none
  else match tok.toNat? with
    | some k => if k < s.issued.size then some k else none
    | none => none

def showSCbs (cbs : List SCb) : String :=
  let strs := cbs.map (fun (cb : SCb) => (if cb.1 then " cb=assign:" else " cb=remove:") ++ letterOf cb.2.1 ++ ":" ++ toString cb.2.2)
  String.join (strs.toArray.qsort (· < ·)).toList

def specDump (ws : WS) (n : Nat) : List String := Id.run do
  let mut out : List String := ["dump"]
  for o in [0:n] do
    match ws.alive o with
    | none => out := out ++ [s!"E {o} valid=0"]
    | some e =>
      let comps := e.comps.map (fun p => s!"{letterOf p.1}:{showVal p.2}")
      let sh := ([0, 1].filterMap (fun sid => (e.shared.find? (·.1 == sid)).map (fun p => s!"{sharedLetter sid}:{p.2}")))
      out := out ++ [s!"E {o} valid=1 comps={if comps.isEmpty then "-" else ",".intercalate comps} shared={if sh.isEmpty then "-" else ",".intercalate sh}"]
  return out ++ ["end"]

def entityOps : List String :=
  ["assign", "assign0", "remove", "destroy", "destroynow", "clone", "sassign", "sremove", "valid", "has", "get",
   "getmut", "archof", "markdirty", "marked"]

def specExec (st : St) (ws : WS) (t : Nat) (ws_ : List String) : WS × String :=
  let info := catalogue
  let locked := ws.lockDepth > 0
  -- an entity token that names no issued handle is rejected by both drivers
  let badRef := match ws_ with
    | op :: e :: _ => (entityOps.contains op || (op == "build" && e != "new")) && (st.entity e).isNone
    | _ => false
  if badRef then (ws, "bad-op") else
  match ws_ with
  | "create" :: rest =>
    match parseMask (rest.headD "-") with
    | none => (ws, "bad-op")
    | some mask =>
      let sh := (rest.drop 1).filterMap (fun tok => ((tok.toList.head?).bind sharedOf).map (fun sid => (sid, 0)))
      if locked then
        let o := ws.ents.length
        ({ ws with ents := ws.ents ++ [none] }.push t (.create o mask sh), s!"h {o}")
      else
        let (ws, o, cbs) := ws.doCreate info mask sh
        (ws, s!"h {o}" ++ showSCbs cbs)
  | ["assign", e, c, tok] =>
    match (c.toList.head?).bind compOf, tok.toNat? with
    | some ci, some v =>
      let o := st.ordinal e
      if locked then (ws.push t (.assign o ci (storedVal info ci (some v))), "ok")
      else match o with
        | some k => let (ws, cbs) := ws.doAssign info k ci (storedVal info ci (some v)); (ws, "ok" ++ showSCbs cbs)
        | none => (ws, "ok")
    | _, _ => (ws, "bad-op")
  | ["assign0", e, c] =>
    match (c.toList.head?).bind compOf with
    | some ci =>
      let o := st.ordinal e
      if locked then (ws.push t (.assign o ci (storedVal info ci none)), "ok")
      else match o with
        | some k => let (ws, cbs) := ws.doAssign info k ci (storedVal info ci none); (ws, "ok" ++ showSCbs cbs)
        | none => (ws, "ok")
    | none => (ws, "bad-op")
  | ["remove", e, c] =>
    match (c.toList.head?).bind compOf with
    | some ci =>
      let o := st.ordinal e
      if locked then (ws.push t (.remove o ci), "ok")
      else match o with
        | some k => let (ws, cbs) := ws.doRemove info k ci; (ws, "ok" ++ showSCbs cbs)
        | none => (ws, "ok")
    | none => (ws, "bad-op")
  | "build" :: e :: rest =>
    match parseBuild rest with
    | none => (ws, "bad-op")
    | some (adds, rems) =>
      if adds.length > 2 || rems.length > 2 then (ws, "bad-op") else
      if e = "new" then
        if locked then
          let o := ws.ents.length
          let ws := { ws with ents := ws.ents ++ [none] }.push t (.create o [] [])
          let ws := adds.foldl (fun ws p => ws.push t (.assign (some o) p.1 (storedVal info p.1 p.2))) ws
          (ws, s!"h {o}")
        else
          let (ws, o, cbs) := ws.doBuildNew info adds
          (ws, s!"h {o}" ++ showSCbs cbs)
      else
        let o := st.ordinal e
        if locked then
          let ws := adds.foldl (fun ws p => ws.push t (.assign o p.1 (storedVal info p.1 p.2))) ws
          let ws := rems.foldl (fun ws c => ws.push t (.remove o c)) ws
          (ws, "ok")
        else match o with
          | some k =>
            match ws.doBuild info k adds rems with
            | some (ws, cbs) => (ws, "ok" ++ showSCbs cbs)
            | none => (ws, "err:self-move")
          | none => (ws, "ok")
  | ["destroy", e] =>
    let o := st.ordinal e
    if locked then (ws.push t (.destroy o), "ok")
    else match o with
      | some k => (if (ws.alive k).isSome then { ws with marked := insertNat ws.marked k } else ws, "ok")
      | none => (ws, "ok")
  | ["destroynow", e] =>
    let o := st.ordinal e
    if locked then (ws.push t (.destroyNow o), "ok")
    else match o with
      | some k => let (ws, cbs) := ws.doDestroy info k; (ws, "ok" ++ showSCbs cbs)
      | none => (ws, "ok")
  | ["clone", e] =>
    match st.ordinal e with
    | some k =>
      match ws.doClone k with
      | (ws, some o) => (ws, s!"h {o}")
      | (ws, none) => (ws, "null")
    | none => (ws, "null")
  | ["sassign", e, sh, v] =>
    match st.ordinal e, (sh.toList.head?).bind sharedOf, v.toNat? with
    | some k, some sid, some val =>
      match ws.alive k with
      | some ent => (ws.setEnt k (some { ent with shared := setShared ent.shared sid val }), "ok")
      | none => (ws, "ok")
    | _, _, _ => (ws, "ok")
  | ["sremove", e, sh] =>
    match st.ordinal e, (sh.toList.head?).bind sharedOf with
    | some k, some sid =>
      match ws.alive k with
      | some ent =>
        if ent.shared.any (·.1 == sid) then
          (ws.setEnt k (some { ent with shared := ent.shared.filter (·.1 != sid) }), "ret=1")
        else (ws, "ret=0")
      | none => (ws, "ret=0")
    | _, _ => (ws, "ret=0")
  | ["cleararch", m] =>
    match parseMask m with
    | some mask => let (ws, cbs) := ws.clearArch info mask; (ws, "ok" ++ showSCbs cbs)
    | none => (ws, "bad-op")
  | ["update"] =>
    if locked then (ws, "err:locked-update") else
    let (ws, cbs) := ws.update info
    (ws, "ok" ++ showSCbs cbs)
  | ["lock"] => (ws.lock, "ok")
  | ["unlock"] =>
    let (ws, r, cbs) := ws.unlock info
    (ws, (if r then "ret=1" else "ret=0") ++ showSCbs cbs)
  | ["dep", m, ds] =>
    match (m.toList.head?).bind compOf, parseMask ds with
    | some c, some extra => ({ ws with deps := addDependency ws.deps c extra }, "ok")
    | _, _ => (ws, "bad-op")
  | ["valid", e] => (ws, if ws.isAlive (st.ordinal e) then "valid=1" else "valid=0")
  | ["has", e, c] =>
    match st.ordinal e with
    | some k =>
      match ws.alive k with
      | some ent =>
        match (c.toList.head?).bind compOf, (c.toList.head?).bind sharedOf with
        | some ci, _ => (ws, if (compSet ent).contains ci then "has=1" else "has=0")
        | none, some sid => (ws, if ent.shared.any (·.1 == sid) then "has=1" else "has=0")
        | none, none => (ws, "has=0")
      | none => (ws, "has=0")
    | none => (ws, "has=0")
  | [g, e, c] =>
    if g = "get" || g = "getmut" then
      match st.ordinal e, (c.toList.head?).bind compOf with
      | some k, some ci =>
        match ws.alive k with
        | some ent =>
          match ent.comps.find? (·.1 == ci) with
          | some p => (ws, "val=" ++ showVal p.2)
          | none => (ws, "val=null")
        | none => (ws, "val=null")
      | _, _ => (ws, "val=null")
    else if g = "markdirty" then (ws, "ok")
    else (ws, "bad-op")
  | ["archof", e] => (ws, if ws.isAlive (st.ordinal e) then "arch=some" else "arch=null")
  | ["marked", _] => (ws, "marked=*")
  | _ => (ws, "bad-op")

def specStep (st : St) (ws : WS) (line : String) : WS × List String :=
  match words line with
  | ["threads", n] =>
    match n.toNat? with
    | some k => ({ ws with nthreads := k + 1 }, ["ok"])
    | none => (ws, ["bad-op"])
  | ["worldid", _] => (ws, ["ok"])
  | ["defaultctx"] => (ws, ["ok"])
  | ["storagecap", _] => (ws, ["ok"])
  | ["dump"] => (ws, specDump ws st.issued.size)
  | ["teardown"] => (ws, ["teardown"])
  | [] => (ws, [])
  | w0 :: rest =>
    let tid : Option Nat :=
      match w0.toList with
      | 't' :: ds => if ds.isEmpty then none else (String.ofList ds).toNat?
      | _ => none
    match tid with
    | some t =>
      if rest.isEmpty then (ws, ["bad-op"])
      else if t ≠ 0 && (!(ws.lockDepth > 0) || t ≥ ws.nthreads) then (ws, ["bad-op"])
      else let (ws', l) := specExec st ws t rest; (ws', [l])
    | none => let (ws', l) := specExec st ws 0 (w0 :: rest); (ws', [l])

def specMain : IO UInt32 := do
  let init : St := { w := { nthreads := 3 } }
  let ws0 : WS := { nthreads := 3 }
  let _ ← foldStdin (fun (p : St × WS) l => do
    -- the spec sees the handle table as it is BEFORE the op (ordinals of raw patterns), then the model advances
    let (ws', outs) := specStep p.1 p.2 l
    for o in outs do IO.println o
    let (st', _) := step p.1 l
    pure (st', ws')) (init, ws0)
  return 0
end SpecStream

def main (args : List String) : IO UInt32 := do
  if args == ["spec"] then return (← specMain)
  let init : St := { w := { nthreads := 3 } }       -- default `threads 2`
  let _ ← foldStdin (fun s l => do
    let (s', outs) := step s l
    for o in outs do IO.println o
    pure s') init
  return 0
end Mustache.Driver.World

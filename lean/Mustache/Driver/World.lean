import Mustache.Basic.LineIO
import Mustache.Model.WorldStep
import Mustache.Model.WorldClear
import Mustache.Model.Lifecycle
/-! `driver world`: runs the world model on an op file and prints the observation lines of
    `harness/world_driver.cpp` (same grammar, same canonical format). -/
namespace Mustache.Driver.World
open Mustache Mustache.Model

/-- the harness's component catalogue: A=0 … H=7 -/
def catalogue (c : CompId) : CompInfo :=
  match c with
  | 0 => ⟨false, none, none, false, false⟩            -- A trivial
  | 1 => ⟨true, some 1001, none, false, true⟩         -- B heap-owning, counted
  | 2 => ⟨true, some 1002, none, false, false⟩        -- C over-aligned
  | 3 => ⟨false, none, some 0, true, false⟩           -- D empty, trivially constructible, callbacks
  | 4 => ⟨false, none, none, false, false⟩            -- E large trivial
  | 5 => ⟨true, some 1005, none, true, false⟩         -- F callbacks
  | 6 => ⟨true, some 1006, none, false, true⟩         -- G heap-owning, counted
  | 7 => ⟨true, some 1007, none, false, false⟩        -- H
  | _ => ⟨false, none, none, false, false⟩

def letters : List Char := ['A', 'B', 'C', 'D', 'E', 'F', 'G', 'H']
def compOf (ch : Char) : Option CompId :=
  let i := letters.idxOf ch
  if i < letters.length then some i else none
def letterOf (c : CompId) : String := String.singleton (letters.getD c '?')
def sharedOf (ch : Char) : Option Nat :=
  if ch = 'S' then some 0 else if ch = 'T' then some 1 else if ch = 'U' then some 2 else none
def sharedLetter (s : Nat) : String := if s = 0 then "S" else if s = 1 then "T" else "U"

def parseMask (s : String) : Option Mask :=
  if s = "-" then some [] else
  (s.toList.filter (· ≠ ',')).foldlM (fun m ch => (compOf ch).map (Mask.insert m ·)) []

def showMask (m : Mask) : String :=
  if m.isEmpty then "-" else ",".intercalate (m.map letterOf)

structure St where
  w : WM := {}
  issued : Array Handle := #[]
  ordOf : List (Nat × Nat) := []             -- packed value ↦ latest ordinal
  seenS : List Nat := []                      -- instance ids in order of first appearance (class numbers), type S
  seenT : List Nat := []
  seenU : List Nat := []
  freshVals : List (Nat × Nat) := []          -- unpooled instances ↦ value
  ev : Bool := false                          -- `events on`: an `EV` line (lifecycle counts of B and G) after every op

def St.hname (s : St) (h : Handle) : String :=
  match s.ordOf.find? (·.1 == h.value) with
  | some (_, o) => toString o
  | none => "raw:" ++ String.ofList (Nat.toDigits 16 h.value)

def St.issue (s : St) (h : Handle) : St × String :=
  let ord := s.issued.size
  ({ s with issued := s.issued.push h, ordOf := (h.value, ord) :: s.ordOf },
   s!"h {ord} id={h.id} ver={h.ver} w={h.world}")

def hexVal (s : String) : Option Nat :=
  s.toList.foldlM (fun n ch =>
    if ch.isDigit then some (n * 16 + (ch.toNat - '0'.toNat))
    else if 'a' ≤ ch ∧ ch ≤ 'f' then some (n * 16 + 10 + (ch.toNat - 'a'.toNat))
    else if 'A' ≤ ch ∧ ch ≤ 'F' then some (n * 16 + 10 + (ch.toNat - 'A'.toNat))
    else none) 0

def St.entity (s : St) (tok : String) : Option Handle :=
  if tok = "null" then some Handle.null
  else if tok.startsWith "raw:" then (hexVal (tok.drop 4).toString).map Handle.ofValue
  else match tok.toNat? with
    | some k => s.issued[k]?
    | none => none

def showCbs (s : St) (cbs : List Cb) : String :=
  String.join (cbs.map (fun cb => match cb with
    | .assign c e => s!" cb=assign:{letterOf c}:{s.hname e}"
    | .remove c e => s!" cb=remove:{letterOf c}:{s.hname e}"))

def showVal (v : Val) : String :=
  match v with | some t => toString t | none => "?"

def instValue (s : St) (sid inst : Nat) : Nat :=
  match s.w.pool.find? (·.1 == sid) with
  | some (_, l) =>
    match l.find? (·.2 == inst) with
    | some (v, _) => v
    | none => (match s.freshVals.find? (·.1 == inst) with | some (_, v) => v | none => 0)
  | none => (match s.freshVals.find? (·.1 == inst) with | some (_, v) => v | none => 0)

def St.classOf (s : St) (sid inst : Nat) : St × Nat :=
  let seen := if sid = 0 then s.seenS else if sid = 1 then s.seenT else s.seenU
  let i := seen.idxOf inst
  if i < seen.length then (s, i)
  else
    let seen' := seen ++ [inst]
    (if sid = 0 then { s with seenS := seen' } else if sid = 1 then { s with seenT := seen' }
     else { s with seenU := seen' }, seen.length)

def dump (s0 : St) : St × List String := Id.run do
  let mut s := s0
  let mut out : List String := ["dump"]
  let w := s.w
  for ord in [0:s.issued.size] do
    let e := s.issued[ord]!
    if !w.isValid e then
      out := out ++ [s!"E {ord} valid=0"]
    else
      match (w.locOf e).arch with
      | none => out := out ++ [s!"E {ord} valid=1 arch=- pos=- comps=- shared=-"]
      | some ai =>
        let a := w.arch ai
        let row := a.rows.getD (w.locOf e).idx default
        let comps := (a.mask.zip row.vals).map (fun p => s!"{letterOf p.1}:{showVal p.2}")
        let compsS := if comps.isEmpty then "-" else ",".intercalate comps
        let mut sh : List String := []
        for sid in [0, 1, 2] do
          match a.shared.get? sid with
          | some inst =>
            let (s', k) := s.classOf sid inst
            s := s'
            sh := sh ++ [s!"{sharedLetter sid}:{k}/{instValue s sid inst}"]
          | none =>
            if a.shared.has sid then sh := sh ++ [s!"{sharedLetter sid}:null"]
        let shS := if sh.isEmpty then "-" else ",".intercalate sh
        out := out ++ [s!"E {ord} valid=1 arch={ai} pos={(w.locOf e).idx} comps={compsS} shared={shS}"]
  for ai in [0:w.archs.length] do
    let a := w.arch ai
    let mut sh : List String := []
    for sid in [0, 1, 2] do
      if a.shared.has sid then
        match a.shared.get? sid with
        | some inst =>
          let (s', k) := s.classOf sid inst
          s := s'
          sh := sh ++ [s!"{sharedLetter sid}:{k}"]
        | none => sh := sh ++ [s!"{sharedLetter sid}:null"]
    let shS := if sh.isEmpty then "-" else ",".intercalate sh
    let ents := a.rows.map (fun r => s.hname r.ent)
    let entsS := if ents.isEmpty then "-" else ",".intercalate ents
    out := out ++ [s!"A {ai} mask={showMask a.mask} shared={shS} size={a.rows.length} ents={entsS}"]
  let slots := (w.slots.zipIdx).map (fun p => s!"{p.2}:{p.1.idf}:{p.1.ver}")
  let slotsS := if slots.isEmpty then "-" else ",".intercalate slots
  let marked := w.marked.map s.hname
  let markedS := if marked.isEmpty then "-" else ",".intercalate marked
  out := out ++ [s!"T slots={slotsS} next={w.next} empty={w.empty} lock={w.lockDepth} marked={markedS}"]
  out := out ++ [s!"L B={w.liveCount 1} G={w.liveCount 6}", "end"]
  return (s, out)

def resStr : Res → String
  | .ok => "ok" | .selfMove => "err:self-move" | .lockedUpdate => "err:locked-update"

/-- parse builder arguments `+C=tok`, `+C`, `-C` -/
def parseBuild (ws : List String) : Option (List (CompId × Option Nat) × Mask) :=
  ws.foldlM (fun (acc : List (CompId × Option Nat) × Mask) tok =>
    match tok.toList with
    | '+' :: ch :: rest =>
      (compOf ch).bind (fun c =>
        match rest with
        | [] => some (acc.1 ++ [(c, none)], acc.2)
        | '=' :: ds => (String.ofList ds).toNat?.map (fun t => (acc.1 ++ [(c, some t)], acc.2))
        | _ => none)
    | ['-', ch] => (compOf ch).map (fun c => (acc.1, Mask.insert acc.2 c))
    | _ => none) ([], [])

/-- parse one op (thread `t` already stripped) with entity references resolved by `resolve` -/
def parseOp {ρ : Type} (resolve : String → Option ρ) (t : Nat) (ws : List String) : Option (Op ρ) :=
  let comp := fun (c : String) => (c.toList.head?).bind compOf
  let shr := fun (c : String) => (c.toList.head?).bind sharedOf
  match ws with
  | "create" :: rest =>
    (parseMask (rest.headD "-")).map (fun mask => .create t mask ((rest.drop 1).filterMap shr))
  | ["assign", e, c, tok] => do some (.assign t (← resolve e) (← comp c) (some (← tok.toNat?)))
  | ["assign0", e, c] => do some (.assign t (← resolve e) (← comp c) none)
  | ["remove", e, c] => do some (.remove t (← resolve e) (← comp c))
  | "build" :: e :: rest => do
    let (adds, rems) ← parseBuild rest
    if adds.length > 2 || rems.length > 2 then none
    else if e = "new" then some (.buildNew t adds)
    else some (.build t (← resolve e) adds rems)
  | ["destroy", e] => do some (.destroy t (← resolve e))
  | ["destroynow", e] => do some (.destroyNow t (← resolve e))
  | ["clone", e] => do some (.clone (← resolve e))
  | ["sassign", e, sh, v] => do some (.sassign (← resolve e) (← shr sh) (← v.toNat?))
  | ["sremove", e, sh] => do some (.sremove (← resolve e) (← shr sh))
  | ["cleararch", m] => (parseMask m).map .clearArch
  | ["update"] => some .update
  | ["lock"] => some .lock
  | ["unlock"] => some .unlock
  | ["dep", m, ds] => do some (.dep (← comp m) (← parseMask ds))
  | ["valid", e] => do some (.valid (← resolve e))
  | ["has", e, c] => do
    let r ← resolve e
    match comp c, shr c with
    | some ci, _ => some (.has r ci)
    | none, some sid => some (.hasShared r sid)
    | none, none => none
  | ["get", e, c] => do some (.get (← resolve e) (← comp c))
  | ["getmut", e, c] => do some (.get (← resolve e) (← comp c))
  | ["archof", e] => do some (.archOf (← resolve e))
  | _ => none

/-- executes one op (thread `t`) on the model through `WM.step`, returns the new state and the observation line -/
def exec (s : St) (t : Nat) (ws : List String) : St × String :=
  match ws with
  | ["markdirty", e, _] => (s, if (s.entity e).isSome then "ok" else "bad-op")
  | ["marked", e] =>
    match s.entity e with
    | some h => (s, if s.w.marked.contains h then "marked=1" else "marked=0")
    | none => (s, "bad-op")
  | ["clear"] =>
    if s.w.isLocked then (s, "bad-op") else
    let (w, cbs) := s.w.clearAll catalogue
    ({ s with w := w }, "cleared" ++ showCbs s cbs)
  | ["createin", k] =>
    match k.toNat? with
    | some ai =>
      if ai < s.w.archs.length then
        let (w, h, cbs) := s.w.createIn catalogue t ai
        let (s', line) := { s with w := w }.issue h
        (s', line ++ showCbs s' cbs)
      else (s, "bad-op")
    | none => (s, "bad-op")
  | _ =>
  match parseOp s.entity t ws with
  | none => (s, "bad-op")
  | some op =>
    let (w, out, cbs) := s.w.step catalogue op
    let s := { s with w := w }
    match out with
    | .created h => let (s', line) := s.issue h; (s', line ++ showCbs s' cbs)
    | .null => (s, "null")
    | .ok => (s, "ok" ++ showCbs s cbs)
    | .selfMove => (s, "err:self-move" ++ showCbs s cbs)
    | .lockedUpdate => (s, "err:locked-update")
    | .noArch => (s, "none")
    | .ret b => (s, (if b then "ret=1" else "ret=0") ++ showCbs s cbs)
    | .flag b =>
      (s, match op with
        | .valid _ => if b then "valid=1" else "valid=0"
        | _ => if b then "has=1" else "has=0")
    | .val v => (s, match v with | none => "val=null" | some x => "val=" ++ showVal x)
    | .arch _ => (s, match s.w.archOf (match op with | .archOf e => e | _ => Handle.null) with
        | some a => s!"arch={a}" | none => "arch=null")

/-- lifecycle events of the op `exec` is about to run, computed on the state BEFORE it (C03) -/
def execEvents (s : St) (t : Nat) (ws : List String) : List Event :=
  match ws with
  | ["markdirty", _, _] => []
  | ["marked", _] => []
  | ["clear"] => []
  | ["createin", _] => []
  | _ =>
    match parseOp s.entity t ws with
    | none => []
    | some op => s.w.events catalogue op

/-- `EV B:<constructs>/<move-constructs>/<move-assigns>/<destroys> G:…` -/
def evLine (evs : List Event) : String :=
  let f := fun (c : CompId) =>
    let n := evCount evs c
    s!"{letterOf c}:{n.1}/{n.2.1}/{n.2.2.1}/{n.2.2.2}"
  s!"EV {f 1} {f 6}"

def step (s : St) (line : String) : St × List String :=
  match words line with
  | ["events", m] => ({ s with ev := m == "on" }, ["ok"])
  | ["threads", n] =>
    match n.toNat? with
    | some k => ({ s with w := { s.w with nthreads := k + 1 } }, ["ok"])
    | none => (s, ["bad-op"])
  | ["worldid", n] =>
    match n.toNat? with
    | some k => ({ s with w := { s.w with worldId := k } }, ["ok"])
    | none => (s, ["bad-op"])
  | ["defaultctx"] => (s, ["ok"])
  | ["storagecap", _] => (s, ["ok"])
  | ["dump"] => dump s
  | ["teardown"] =>
    (s, "teardown live B=0 G=0" :: (if s.ev then [evLine s.w.teardownEvents] else []))
  | [] => (s, [])
  | w0 :: rest =>
    let tid : Option Nat :=
      match w0.toList with
      | 't' :: ds => if ds.isEmpty then none else (String.ofList ds).toNat?
      | _ => none
    match tid with
    | some t =>
      if rest.isEmpty then (s, ["bad-op"])
      else if t ≠ 0 && (!(s.w.isLocked) || t ≥ s.w.nthreads) then (s, ["bad-op"])
      else
        let (s', l) := exec s t rest
        (s', l :: (if s.ev then [evLine (execEvents s t rest)] else []))
    | none =>
      let (s', l) := exec s 0 (w0 :: rest)
      (s', l :: (if s.ev then [evLine (execEvents s 0 (w0 :: rest))] else []))

/-! ## spec stream (`driver worldspec`): the property-level observations, entities by ordinal -/
section SpecStream
open Mustache.Spec

/-- after `clear()` handle values are re-issued: an ordinal whose handle value was given to a later creation names that entity -/
def St.latest (st : St) (o : Nat) : Nat :=
  match st.issued[o]? with
  | some h => (match st.ordOf.find? (·.1 == h.value) with | some p => p.2 | none => o)
  | none => o

/-- ordinal named by an entity token: an ordinal, or the (latest) ordinal whose handle has that value -/
def St.ordinal (s : St) (tok : String) : Option Nat :=
  if tok = "null" then none
  else if tok.startsWith "raw:" then
    match (hexVal (tok.drop 4).toString) with
    | some v => (s.ordOf.find? (·.1 == (Handle.ofValue v).value)).bind (fun p => if v < 2^64 ∧ (Handle.ofValue v).value = v then some p.2 else none)
    | none => none
  else match tok.toNat? with
    | some k => if k < s.issued.size then some (s.latest k) else none
    | none => none

def showSCbs (cbs : List SCb) : String :=
  let strs := cbs.map (fun (cb : SCb) => (if cb.1 then " cb=assign:" else " cb=remove:") ++ letterOf cb.2.1 ++ ":" ++ toString cb.2.2)
  String.join (strs.toArray.qsort (· < ·)).toList

def specDump (st : St) (ws : WS) (n : Nat) : List String := Id.run do
  let mut out : List String := ["dump"]
  for o in [0:n] do
    match ws.alive (st.latest o) with
    | none => out := out ++ [s!"E {o} valid=0"]
    | some e =>
      let comps := e.comps.map (fun p => s!"{letterOf p.1}:{showVal p.2}")
      let sh := ([0, 1, 2].filterMap (fun sid => (e.shared.find? (·.1 == sid)).map (fun p => s!"{sharedLetter sid}:{p.2}")))
      out := out ++ [s!"E {o} valid=1 comps={if comps.isEmpty then "-" else ",".intercalate comps} shared={if sh.isEmpty then "-" else ",".intercalate sh}"]
  return out ++ ["end"]

def specExec (st : St) (ws : WS) (t : Nat) (ws_ : List String) : WS × String :=
  match ws_ with
  | ["markdirty", e, _] => (ws, if (st.entity e).isSome then "ok" else "bad-op")
  | ["marked", e] => (ws, if (st.entity e).isSome then "marked=*" else "bad-op")
  | ["clear"] =>
    if ws.lockDepth > 0 then (ws, "bad-op") else
    -- every entity is destroyed (one beforeRemove per callback-bearing component); pending destroys name dead entities now
    let cbs := (ws.ents.zipIdx).flatMap (fun p => match p.1 with
      | some e => cbDiff catalogue p.2 (compSet e) []
      | none => [])
    ({ ws with ents := ws.ents.map (fun _ => none), marked := [] }, "cleared" ++ showSCbs cbs)
  | ["createin", k] =>
    match k.toNat? with
    | some ai =>
      if ai < st.w.archs.length then
        -- `create(Archetype&)` means: create with that archetype's component set and shared values
        let a := st.w.arch ai
        let sh := (a.shared.ids.zip a.shared.data).map (fun p => (p.1, instValue st p.1 p.2))
        if ws.lockDepth > 0 then
          let o := ws.ents.length
          ({ ws with ents := ws.ents ++ [none] }.push t (.create o a.mask sh), s!"h {o}")
        else
          let (ws, o, cbs) := ws.doCreate catalogue a.mask sh
          (ws, s!"h {o}" ++ showSCbs cbs)
      else (ws, "bad-op")
    | none => (ws, "bad-op")
  | _ =>
  -- an entity token that names no issued handle is rejected by both drivers; otherwise it resolves to an ordinal or to
  -- "a handle nobody was issued" (`none`)
  match parseOp (fun tok => if (st.entity tok).isSome then some (st.ordinal tok) else none) t ws_ with
  | none => (ws, "bad-op")
  | some op =>
    let (ws, out, cbs) := ws.step catalogue op
    (ws, match out with
      | .created o => s!"h {o}" ++ showSCbs cbs
      | .null => "null"
      | .ok => "ok" ++ showSCbs cbs
      | .selfMove => "err:self-move"
      | .lockedUpdate => "err:locked-update"
      | .noArch => "ok"
      | .ret b => (if b then "ret=1" else "ret=0") ++ showSCbs cbs
      | .flag b => (match op with
        | .valid _ => if b then "valid=1" else "valid=0"
        | _ => if b then "has=1" else "has=0")
      | .val v => (match v with | none => "val=null" | some x => "val=" ++ showVal x)
      | .arch b => if b then "arch=some" else "arch=null")

def specStep (st : St) (ws : WS) (line : String) : WS × List String :=
  match words line with
  | ["threads", n] =>
    match n.toNat? with
    | some k => ({ ws with nthreads := k + 1 }, ["ok"])
    | none => (ws, ["bad-op"])
  | ["worldid", _] => (ws, ["ok"])
  | ["defaultctx"] => (ws, ["ok"])
  | ["storagecap", _] => (ws, ["ok"])
  | ["events", _] => (ws, ["ok"])
  | ["dump"] => (ws, specDump st ws st.issued.size)
  | ["teardown"] => (ws, ["teardown"])
  | [] => (ws, [])
  | w0 :: rest =>
    let tid : Option Nat :=
      match w0.toList with
      | 't' :: ds => if ds.isEmpty then none else (String.ofList ds).toNat?
      | _ => none
    match tid with
    | some t =>
      if rest.isEmpty then (ws, ["bad-op"])
      else if t ≠ 0 && (!(ws.lockDepth > 0) || t ≥ ws.nthreads) then (ws, ["bad-op"])
      else let (ws', l) := specExec st ws t rest; (ws', [l])
    | none => let (ws', l) := specExec st ws 0 (w0 :: rest); (ws', [l])

def specMain : IO UInt32 := do
  let init : St := { w := { nthreads := 3 } }
  let ws0 : WS := { nthreads := 3 }
  let _ ← foldStdin (fun (p : St × WS) l => do
    -- the spec sees the handle table as it is BEFORE the op (ordinals of raw patterns), then the model advances
    let (ws', outs) := specStep p.1 p.2 l
    for o in outs do IO.println o
    let (st', _) := step p.1 l
    pure (st', ws')) (init, ws0)
  return 0
end SpecStream

def main (args : List String) : IO UInt32 := do
  if args == ["spec"] then return (← specMain)
  let init : St := { w := { nthreads := 3 } }       -- default `threads 2`
  let _ ← foldStdin (fun s l => do
    let (s', outs) := step s l
    for o in outs do IO.println o
    pure s') init
  return 0
end Mustache.Driver.World

import Mustache.Driver.World
/-! `driver worldcontract`: runs the world model over an op file and prints the 0-based index of the first op line that
    leaves the documented contract (DESIGN.md 3.3) — an UNGUARDED entry point (assign, builder edit, shared assign)
    applied unlocked to a handle that is not valid at that moment, or a `cleararch` of a component set that an archetype
    with shared values has (also an empty one) — or `-1`. The generator cannot know which raw
    handle patterns alias live entities (ids are handed out by the library); the model, which is tied to the
    library, can. Histories are truncated before such an op, never "repaired". -/
namespace Mustache.Driver.WorldContract
open Mustache Mustache.Model Mustache.Driver.World

def violates (s : St) (ws : List String) : Bool :=
  match parseOp s.entity 0 ws with
  | some (.assign _ e c _) => !s.w.isLocked && (!s.w.isValid e || s.w.hasComp e c)
  | some (.build _ e adds _) => !s.w.isLocked && (!s.w.isValid e || adds.any (fun p => s.w.hasComp e p.1))
  | some (.sassign e _ _) => !s.w.isValid e
  -- clearArchetype is addressed by component set: it is only well defined when no archetype of that set carries shared values
  | some (.clearArch mask) => s.w.archs.any (fun a => a.mask == mask && !a.shared.ids.isEmpty)
  | _ => false

def stripThread (ws : List String) : List String :=
  match ws with
  | w0 :: rest =>
    (match w0.toList with
     | 't' :: ds => if !ds.isEmpty && (String.ofList ds).toNat?.isSome then rest else ws
     | _ => ws)
  | [] => []

def main (_args : List String) : IO UInt32 := do
  let init : St := { w := { nthreads := 3 } }
  let r ← foldStdin (fun (p : St × Nat × Option Nat) l => do
    let (s, n, found) := p
    if found.isSome then return p
    if violates s (stripThread (words l)) then return (s, n + 1, some n)
    let (s', _) := step s l
    return (s', n + 1, none)) (init, 0, none)
  match r.2.2 with
  | some n => IO.println s!"{n}"
  | none => IO.println "-1"
  return 0
end Mustache.Driver.WorldContract

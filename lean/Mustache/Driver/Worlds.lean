import Mustache.Basic.LineIO
import Mustache.Model.Worlds
import Mustache.Driver.World
/-! `driver worlds`: runs the process model (`Model/Worlds.lean`) on an op file and prints the observation lines of
    `harness/worlds_driver.cpp`. Per-world ops are executed by the world driver's `step` (imported) on the `WM` stored in
    the process model, through `POp.onWorld`. -/
namespace Mustache.Driver.Worlds
open Mustache Mustache.Model

structure DSt where
  p : Proc := {}
  side : List (Nat × World.St) := []     -- per live world: the world driver's bookkeeping (issued handles, names, classes)
  cur : Option Nat := none

def DSt.sideOf (s : DSt) (k : Nat) : World.St :=
  match s.side.find? (·.1 == k) with
  | some (_, st) => st
  | none => {}

def DSt.setSide (s : DSt) (k : Nat) (st : World.St) : DSt :=
  { s with side := if s.side.any (·.1 == k) then s.side.map (fun p => if p.1 == k then (k, st) else p) else s.side ++ [(k, st)] }

/-- the world driver's state of world `k`: bookkeeping + the model's current `WM` -/
def DSt.worldSt (s : DSt) (k : Nat) : Option World.St :=
  (s.p.world? k).map (fun e => { s.sideOf k with w := e.wm })

/-- the effect of one world-driver line on a world's `WM`, given the driver's bookkeeping `side` for that world: the
    world driver's own `step` (imported). No operation of a world changes the id it stamps into handles
    (`Props.C17.world_ops_preserve_id` for `WM.step`); the guard makes that hold for this function by construction,
    whatever the world driver's line grammar grows into: a line that re-stamped the world would be ignored here and
    show up as a difference against the implementation. -/
def lineEffect (side : World.St) (line : String) (wm : WM) : WM :=
  let w' := (World.step { side with w := wm } line).1.w
  if w'.worldId = wm.worldId then w' else wm

/-- the process operation a world-driver line on world `k` amounts to -/
def lineOp (side : World.St) (k : Nat) (line : String) : POp := .onWorld k (lineEffect side line)

/-- run one world-driver line on world `k` through `POp.onWorld` -/
def DSt.onWorld (s : DSt) (k : Nat) (line : String) : DSt × List String :=
  match s.worldSt k with
  | none => (s, ["bad-op"])
  | some st =>
    let (st', outs) := World.step st line
    let p' := s.p.step (lineOp (s.sideOf k) k line)
    ({ s with p := p' }.setSide k st', outs)

/-- `[auto|id=<n>] [ctx=own|shared] [threads=<n>]` → (shared, explicit id, workers of the private dispatcher) -/
def parseCtx (ws : List String) : Option (Bool × Option Nat × Nat) :=
  ws.foldlM (fun (acc : Bool × Option Nat × Nat) tok =>
    if tok = "auto" then some (acc.1, none, acc.2.2)
    else if tok = "ctx=own" then some (false, acc.2.1, acc.2.2)
    else if tok = "ctx=shared" then some (true, acc.2.1, acc.2.2)
    else if tok.startsWith "id=" then (tok.drop 3).toString.toNat?.map (fun n => (acc.1, some n, acc.2.2))
    else if tok.startsWith "reuse=" then (tok.drop 6).toString.toNat?.map (fun _ => acc)   -- an address: not modelled
    else if tok.startsWith "threads=" then (tok.drop 8).toString.toNat?.map (fun n => (acc.1, acc.2.1, n))
    else none) (false, none, 1)

def DSt.create (s : DSt) (shared : Bool) (id : Option Nat) : DSt × Nat × Nat :=
  let k := s.p.nextSlot
  let p' := match id with
    | none => s.p.step (.newAuto shared)
    | some n => s.p.step (.newExplicit n shared)
  let wid := match p'.world? k with | some e => e.id | none => 0
  ({ s with p := p', cur := some k }.setSide k {}, k, wid)

def DSt.drop (s : DSt) (k : Nat) : DSt :=
  { s with p := s.p.step (.drop k), side := s.side.filter (·.1 != k), cur := if s.cur == some k then none else s.cur }

def stripL (ls : List String) : List String := ls.filter (fun l => !l.startsWith "L ")

def step (s : DSt) (line : String) : DSt × List String :=
  match words line with
  | [] => (s, [])
  | "world" :: "new" :: rest =>
    match parseCtx rest with
    | none => (s, ["bad-op"])
    | some (shared, id, threads) =>
      if threads < 1 || threads > 8 then (s, ["bad-op"]) else
      let (s', k, wid) := s.create shared id
      -- a private dispatcher of `threads` workers: one command buffer per worker plus the calling thread's
      let s' := if shared then s' else (s'.onWorld k s!"threads {threads}").1
      (s', [s!"world {k} id={wid}"])
  | ["world", "drop", ks] =>
    match ks.toNat? with
    | some k => if (s.p.world? k).isSome then (s.drop k, [s!"dropped {k}"]) else (s, ["bad-op"])
    | none => (s, ["bad-op"])
  | "world" :: "churn" :: ns :: rest =>
    match ns.toNat?, parseCtx ("ctx=shared" :: rest) with
    | some n, some (shared, none, _) => Id.run do
      let mut st := s
      let mut lo := 0
      let mut hi := 0
      let mut bad := 0
      let mut lost := 0
      let keep := s.cur
      for i in [0:n] do
        let (s1, k, wid) := st.create shared none
        lo := if i = 0 then wid else min lo wid
        hi := max hi wid
        let (s2, _) := s1.onWorld k "create -"
        let ok := match s2.worldSt k with
          | some ws =>
            match ws.issued[0]? with
            | some h => ws.w.isValid h.seen && h.seen.world == wid
            | none => false
          | none => false
        if !ok then bad := bad + 1
        -- a creation recorded in a locked section is applied to this world when it is unlocked
        let (s3, _) := s2.onWorld k "lock"
        let (s4, _) := s3.onWorld k "create A"
        let (s5, _) := s4.onWorld k "unlock"
        let ok2 := match s5.worldSt k with
          | some ws =>
            match ws.issued[1]? with
            | some h => ws.w.isValid h.seen && h.seen.world == wid
            | none => false
          | none => false
        if !ok2 then lost := lost + 1
        st := s5.drop k
      return ({ st with cur := keep }, [s!"churn n={n} ids={lo}..{hi} bad={bad} lost={lost}"])
    | _, _ => (s, ["bad-op"])
  | ["world", "reserve"] =>
    let (p', r) := s.p.nextWorldId
    ({ s with p := p' }, [s!"reserved id={r}"])
  | "world" :: _ => (s, ["bad-op"])
  | ["use", ks] =>
    match ks.toNat? with
    | some k => if (s.p.world? k).isSome then ({ s with cur := some k }, ["ok"]) else (s, ["bad-op"])
    | none => (s, ["bad-op"])
  | ["dumpall"] => Id.run do
    let mut st := s
    let mut out : List String := []
    for e in s.p.worlds do
      let (s', ls) := st.onWorld e.slot "dump"
      st := s'
      out := out ++ [s!"W {e.slot} id={e.id}"] ++ stripL ls
    return (st, out ++ ["endall"])
  | w0 :: rest =>
    match s.cur with
    | none => (s, ["bad-op"])
    | some c =>
      if w0 = "validin" || w0 = "getin" then
        match rest, s.worldSt c with
        | ks :: es :: more, some cst =>
          match ks.toNat?, cst.entity es with
          | some k, some h =>
            match s.p.world? k with
            | none => (s, ["bad-op"])
            | some t =>
              -- the handle reaches world k as its packed 64-bit value
              let h' := h.seen
              if w0 = "validin" && more.isEmpty then (s, [if t.wm.isValid h' then "valid=1" else "valid=0"])
              else match more with
                | [cs] =>
                  if w0 = "getin" then
                    match (cs.toList.head?).bind World.compOf with
                    | some ci => (s, [match t.wm.getComp h' ci with | none => "val=null" | some v => "val=" ++ World.showVal v])
                    | none => (s, ["bad-op"])
                  else (s, ["bad-op"])
                | _ => (s, ["bad-op"])
          | _, _ => (s, ["bad-op"])
        | _, _ => (s, ["bad-op"])
      else if w0 = "in" then
        match rest, s.worldSt c with
        | ks :: op :: es :: more, some cst =>
          match ks.toNat?, cst.entity es with
          | some k, some h =>
            -- the unguarded entry points (contract: valid handle) take a foreign handle only as a DEFERRED command
            let unguarded := ["assign", "assign0", "build", "sassign", "markdirty"].contains op
            let locked := match s.p.world? k with | some t => t.wm.isLocked | none => false
            if (s.p.world? k).isNone || (unguarded && !locked) then (s, ["bad-op"]) else
            let raw := "raw:" ++ String.ofList (Nat.toDigits 16 h.seen.value)
            s.onWorld k (" ".intercalate (op :: raw :: more))
          | _, _ => (s, ["bad-op"])
        | _, _ => (s, ["bad-op"])
      else if ["events", "parjob", "teardown", "worldid", "defaultctx", "threads", "storagecap"].contains w0 then (s, ["bad-op"])
      else
        let (s', outs) := s.onWorld c line
        (s', if w0 = "dump" then stripL outs else outs)

def main (_args : List String) : IO UInt32 := do
  let _ ← foldStdin (fun s l => do
    let (s', outs) := step s l
    for o in outs do IO.println o
    pure s') ({} : DSt)
  return 0
end Mustache.Driver.Worlds

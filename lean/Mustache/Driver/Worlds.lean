import Mustache.Basic.LineIO
namespace Mustache.Driver.Worlds
/-- stub, replaced when the model lands -/
def main (_args : List String) : IO UInt32 := do
  IO.eprintln "driver: model Worlds not built yet"
  return 2
end Mustache.Driver.Worlds

import Mustache.Model.World
import Mustache.Model.Iteration
/-! # C API model (C18)

`/repo/src/mustache/c_api.cpp` is a thin layer over the C++ interface: every entry point converts its arguments
(`converter::convert`) and calls ONE function of `World` / `EntityManager` / `NonTemplateJob` (or a loop of them).
This file has three parts.

1. `TypeInfo` / `convert` / `Registry`: the run-time component description of `c_api.h` and the `ComponentInfo`
   `convert(const TypeInfo&)` builds from it (absent function = empty `std::function`; `default_value` copied when non-null),
   projected to the `CompInfo` the world model is parametrised by.
2. The operations of the C++ interface the C layer calls that `Model/World.lean` (typed-template oriented) does not have
   yet: `create(Archetype&)`, the untyped `assign<_SkipConstructor>(Entity, ComponentId)`, the UNTYPED
   `removeComponent(Entity, ComponentId)` (no validity guard), `clear()`, a store through a returned pointer, and
   `NonTemplateJob::run` (on top of the iteration model of C04).  `XOp` / `xstep` = the C++ interface as an op language.
3. `COp` / `cstep`: each C entry point, written by following c_api.cpp line by line.

Core Lean only (linked into the driver). -/
namespace Mustache.Model.CApi
open Mustache.Model

/-! ## 1. type descriptions -/

/-- `TypeInfo` of c_api.h. The five optional functions are present/absent flags: what the user functions do with the
    bytes is a parameter of the model (a constructor writes `createTok`; copy / move preserve the token). -/
structure TypeInfo where
  size : Nat
  align : Nat
  create : Bool := false
  copy : Bool := false
  move : Bool := false
  moveCtor : Bool := false
  destroy : Bool := false
  createTok : Nat := 0                  -- the token `functions.create` writes
  defaultValue : Option Nat := none     -- the token stored in `default_value` (`none` = nullptr)
deriving Repr, DecidableEq, Inhabited

/-- `converter::convert(const TypeInfo&)` followed by what `ArchetypeOperationHelper` makes of the result:
    a constructor entry if `create` is set, else a `create_with_value` entry if a default value was given, else nothing;
    `after_assign` / `before_remove` can not be expressed in the C table (no callbacks); a component too small to hold a
    token reads as the constant 0 (the harness's encoding of the empty type). -/
def convert (ti : TypeInfo) : CompInfo :=
  { hasCtor := ti.create || ti.defaultValue.isSome
    dflt := if ti.create then some ti.createTok else ti.defaultValue
    fixed := if ti.size < 8 then some 0 else none
    callbacks := false
    counted := false }

/-- the process-wide `ComponentFactory` registry (distinct names) -/
abbrev Registry := List TypeInfo

/-- `registerComponent(TypeInfo)`: the next free id -/
def registerComponent (r : Registry) (ti : TypeInfo) : Registry × CompId := (r ++ [ti], r.length)

def plain : CompInfo := ⟨false, none, none, false, false⟩

def infoOf (r : Registry) (c : CompId) : CompInfo :=
  match r[c]? with
  | some ti => convert ti
  | none => plain

/-! ## 2. the C++ interface the C layer is wired to -/

variable (info : CompId → CompInfo)

/-- where a `void*` handed to the user points: a component of a stored entity, or a temporary parked in thread `t`'s
    command buffer (command number `k`) -/
inductive Ptr where
  | null
  | comp (e : Handle) (c : CompId)
  | temp (t : Nat) (k : Nat) (c : CompId)
deriving Repr, DecidableEq, Inhabited

/-- `EntityManager::create(Archetype&)` -/
def createAt (w : WM) (t : Nat) (ai : Nat) : WM × Handle × List Cb :=
  if w.isLocked then
    let a := w.arch ai
    let (w, h) := w.createLocked t a.mask a.shared
    (w, h, [])
  else
    let (w, h) := w.allocId
    let (w, cbs) := w.archInsert info ai h []
    (w, h, cbs)

/-- value a component has when its constructor is skipped -/
def rawVal (c : CompId) : Val :=
  match (info c).fixed with
  | some f => some f
  | none => none

/-- `EntityManager::assign<_SkipConstructor>(Entity, ComponentId)` (public: `assign(e,id)` / `assignWithoutInit(e,id)`);
    contract: `e` valid, component absent. Returns the pointer handed back. -/
def assignId (w : WM) (t : Nat) (e : Handle) (c : CompId) (skip : Bool) : WM × Res × Ptr × List Cb :=
  if w.isLocked then
    let k := (w.buffers.getD t []).length
    let stored : Val := if skip then rawVal info c else defaultVal info c
    let w := w.pushCmd t (.assign e c stored)
    let w := if (info c).counted then { w with temps := addTemp w.temps c } else w
    (w, .ok, .temp t k c, [])
  else
    let l := w.locOf e
    match l.arch with
    | none => (w, .ok, .null, [])
    | some pi =>
      let pa := w.arch pi
      let mask := Mask.insert pa.mask c
      let (w, ti) := w.getArch mask pa.shared
      match w.externalMove info ti e pi l.idx (if skip then mask else []) with
      | none => (w, .selfMove, .null, [])
      | some (w, cbs) => (w, .ok, .comp e c, cbs)

/-- set the stored value of component `c` of the (located) entity `e` -/
def setComp (w : WM) (e : Handle) (c : CompId) (v : Val) : WM :=
  let l := w.locOf e
  match l.arch with
  | none => w
  | some ai =>
    let a := w.arch ai
    match a.mask.indexOf? c with
    | none => w
    | some ci =>
      let row := a.rows.getD l.idx default
      w.setArch ai { a with rows := a.rows.set l.idx { row with vals := row.vals.set ci v } }

/-- the user stores token `tok` through a pointer the interface returned -/
def store (w : WM) (p : Ptr) (tok : Nat) : WM :=
  match p with
  | .null => w
  | .comp e c => setComp w e c (match (info c).fixed with | some f => some f | none => some tok)
  | .temp t k c =>
    let buf := w.buffers.getD t []
    match buf[k]? with
    | some (.assign e c' _) =>
      if c' = c then
        let v : Val := match (info c).fixed with | some f => some f | none => some tok
        { w with buffers := w.buffers.set t (buf.set k (.assign e c v)) }
      else w
    | _ => w

/-- the UNTYPED `EntityManager::removeComponent(Entity, ComponentId)`: no validity guard (contract: `e` valid) -/
def removeUntyped (w : WM) (t : Nat) (e : Handle) (c : CompId) : WM × List Cb :=
  if w.isLocked then (w.pushCmd t (.remove e c), [])
  else
    let l := w.locOf e
    match l.arch with
    | none => (w, [])
    | some pi =>
      let pa := w.arch pi
      if !pa.mask.contains c then (w, []) else
      let (w, ti) := w.getArch (Mask.erase pa.mask c) pa.shared
      match w.externalMove info ti e pi l.idx [] with
      | none => (w, [])
      | some (w, cbs) => (w, cbs)

/-- `EntityManager::clear()`: id table and locations emptied, every archetype cleared (beforeRemove fires per member) -/
def clear (w : WM) : WM × List Cb :=
  let cbs := w.archs.flatMap (fun a =>
    a.rows.flatMap (fun r => (a.mask.filter (fun c => (info c).callbacks)).map (Cb.remove · r.ent)))
  ({ w with slots := [], locs := [], next := 0, empty := 0,
            archs := w.archs.map (fun a => { a with rows := [] }) }, cbs)

/-! ### NonTemplateJob -/

structure JobArg where
  comp : CompId
  isRequired : Bool
  isConst : Bool
deriving Repr, DecidableEq, Inhabited

/-- the fields of `NonTemplateJob` the run depends on -/
structure NtJob where
  requests : List JobArg
  versionCheck : Mask
  requireEntity : Bool
  /-- user callback: store `writeBase + entity_index` into this component of every delivered entity -/
  write : Option (CompId × Nat) := none
deriving Repr, Inhabited

/-- one callback invocation as the user sees it: the entity array (`none` = null pointer) and per request the
    component array (`none` = null pointer: optional component the archetype lacks) -/
structure JobCall where
  len : Nat
  eindex : Nat
  entities : Option (List Handle)
  comps : List (CompId × Option (List Val))
deriving Repr, Inhabited

structure JobOut where
  size : Nat                       -- JobSize passed to onJobBegin / onJobEnd
  tasks : Nat
  dirty : List CompId              -- requested, present in the first entity's archetype, not const
  calls : List JobCall
deriving Repr, Inhabited

def defaultVersionChunk : Nat := 1024
def defaultStorageCap : Nat := 16384

def archCfgs (w : WM) (cap : Nat) : List Iteration.ArchCfg :=
  w.archs.map (fun a => ⟨a.mask, a.shared.ids, a.rows.length, defaultVersionChunk, cap, true, fun _ => true⟩)

/-- `NonTemplateJob::applyFilter` + `BaseJob::run(kCurrentThread)` + `singleTask`: the calls in order -/
def ntCallsOf (w : WM) (cap : Nat) (job : NtJob) : List Iteration.NtCall :=
  let req := (job.requests.filter (·.isRequired)).map (·.comp)
  let fr := Iteration.applyFilter req [] (archCfgs w cap) 0
  Iteration.ntCalls (Iteration.runJob .current fr 1)

def jobSize (w : WM) (cap : Nat) (job : NtJob) : Nat :=
  let req := (job.requests.filter (·.isRequired)).map (·.comp)
  Iteration.totalCount (Iteration.applyFilter req [] (archCfgs w cap) 0)

/-- the user callback's stores for one call -/
def applyWrites (w : WM) (job : NtJob) (call : Iteration.NtCall) : WM :=
  match job.write with
  | none => w
  | some (c, base) =>
    (List.range call.len).foldl (fun w i =>
      let row := (w.arch call.arch).rows.getD (call.first + i) default
      store info w (.comp row.ent c) (base + call.eindex + i)) w

/-- what one call delivers (read after the callback's own stores) -/
def deliver (w : WM) (job : NtJob) (call : Iteration.NtCall) : JobCall :=
  let a := w.arch call.arch
  let rows := (a.rows.drop call.first).take call.len
  { len := call.len, eindex := call.eindex
    entities := if job.requireEntity then some (rows.map (·.ent)) else none
    comps := job.requests.map (fun r =>
      (r.comp, match a.mask.indexOf? r.comp with
        | some ci => some (rows.map (fun row => row.vals.getD ci none))
        | none => none)) }

/-- `NonTemplateJob::run(world, kCurrentThread)`: nothing when no entity matches; else version bump, onJobBegin,
    lock, the calls, unlock (flush), onJobEnd -/
def runNt (w : WM) (cap : Nat) (job : NtJob) : WM × Option JobOut × List Cb :=
  let size := jobSize w cap job
  if size < 1 then (w, none, []) else
  let calls := ntCallsOf w cap job
  let w := w.lock
  let (w, outs) := calls.foldl (fun (acc : WM × List JobCall) call =>
    let w := applyWrites info acc.1 job call
    (w, acc.2 ++ [deliver w job call])) (w, [])
  let (w, _, cbs) := w.unlock info
  let dirty := match calls.head? with
    | none => []
    | some c0 =>
      let m := (w.arch c0.arch).mask
      (job.requests.filter (fun r => m.contains r.comp && !r.isConst)).map (·.comp)
  (w, some ⟨size, 1, dirty, outs⟩, cbs)

/-! ### the C++ interface as an op language -/

inductive XOp where
  | getArchetype (mask : Mask)                               -- EntityManager::getArchetype(mask, SharedComponentsInfo::null())
  | createAt (arch : Nat)                                    -- EntityManager::create(Archetype&)
  | assign (e : Handle) (c : CompId) (skipCtor : Bool)       -- EntityManager::assign / assignWithoutInit (Entity, ComponentId)
  | store (p : Ptr) (tok : Nat)                              -- user store through a returned pointer
  | hasComponent (e : Handle) (c : CompId)                   -- EntityManager::hasComponent(Entity, ComponentId)
  | getComponent (e : Handle) (c : CompId) (isConst : Bool)  -- EntityManager::getComponent<_Const>(Entity, ComponentId)
  | removeUntyped (e : Handle) (c : CompId)                  -- EntityManager::removeComponent(Entity, ComponentId)
  | destroyNow (e : Handle)
  | destroy (e : Handle)
  | update                                                   -- World::update()
  | clear                                                    -- EntityManager::clear()
  | runJob (job : NtJob)                                     -- NonTemplateJob::run(world, kCurrentThread)
deriving Repr, Inhabited

/-- what a call returns to the user -/
inductive Out where
  | unit
  | arch (i : Nat)
  | handle (h : Handle)
  | ptr (p : Ptr) (r : Res)
  | bool (b : Bool)
  | val (v : Option Val)            -- `none` = null pointer
  | res (r : Res)
  | job (o : Option JobOut)
deriving Repr, Inhabited

/-- one call of the C++ interface on thread `t`; `cap` = storage-chunk capacity (a build constant) -/
def xstep (cap t : Nat) (w : WM) (op : XOp) : WM × Out × List Cb :=
  match op with
  | .getArchetype mask => let (w, i) := w.getArch mask Shared.null; (w, .arch i, [])
  | .createAt ai => let (w, h, cbs) := createAt info w t ai; (w, .handle h, cbs)
  | .assign e c skip => let (w, r, p, cbs) := assignId info w t e c skip; (w, .ptr p r, cbs)
  | .store p tok => (store info w p tok, .unit, [])
  | .hasComponent e c => (w, .bool (w.hasComp e c), [])
  | .getComponent e c _ => (w, .val (w.getComp e c), [])
  | .removeUntyped e c => let (w, cbs) := removeUntyped info w t e c; (w, .unit, cbs)
  | .destroyNow e => let (w, cbs) := w.destroyNow info t e; (w, .unit, cbs)
  | .destroy e => (w.destroy t e, .unit, [])
  | .update => let (w, r, cbs) := w.update info; (w, .res r, cbs)
  | .clear => let (w, cbs) := clear info w; (w, .unit, cbs)
  | .runJob job => let (w, o, cbs) := runNt info w cap job; (w, .job o, cbs)

/-- a sequence of calls; outputs and callback logs in order -/
def xrun (cap t : Nat) (w : WM) : List XOp → WM × List Out × List Cb
  | [] => (w, [], [])
  | op :: rest =>
    let (w1, o, cb) := xstep info cap t w op
    let (w2, os, cbs) := xrun cap t w1 rest
    (w2, o :: os, cb ++ cbs)

/-! ## 3. the C entry points (c_api.cpp) -/

/-- `JobArgInfo` -/
structure CJobArg where
  componentId : CompId
  isRequired : Bool
  isConst : Bool
deriving Repr, DecidableEq, Inhabited

/-- `JobDescriptor` (callback = the harness's logging / storing callback) -/
structure JobDescriptor where
  args : List CJobArg
  checkUpdate : List CompId := []
  entityRequired : Bool := true
  write : Option (CompId × Nat) := none
deriving Repr, Inhabited

/-- `converter::convert(const JobArgInfo&)` -/
def convertArg (a : CJobArg) : JobArg := ⟨a.componentId, a.isRequired, a.isConst⟩

/-- `converter::convert(const ComponentMask&)`: set every listed id -/
def convertMask (ids : List CompId) : Mask := Mask.ofList ids

/-- the loop of `getArchetypeByBitsetMask`: bit `i < 64` of `bits` selects component `i` -/
def bitsetMask (bits : Nat) : Mask := (List.range 64).filter (fun i => bits.testBit i)

/-- `makeJob(JobDescriptor)`: requests converted one by one, `check_update` ids set in the version mask,
    `entity_required` copied (see patches/fix-c18-job-entity-required.diff: the pinned tree dropped it) -/
def makeJob (d : JobDescriptor) : NtJob :=
  { requests := d.args.map convertArg
    versionCheck := d.checkUpdate.foldl Mask.insert []
    requireEntity := d.entityRequired
    write := d.write }

inductive COp where
  | getArchetype (ids : List CompId)
  | getArchetypeByBitsetMask (bits : Nat)
  | createEntity (arch : Nat)
  | createEntityGroup (arch : Nat) (count : Nat)
  | assignComponent (e : Handle) (c : CompId)
  | assignComponentWithoutInit (e : Handle) (c : CompId)
  | store (p : Ptr) (tok : Nat)
  | hasComponent (e : Handle) (c : CompId)
  | getComponent (e : Handle) (c : CompId) (isConst : Bool)
  | removeComponent (e : Handle) (c : CompId)
  | destroyEntities (es : List Handle) (now : Bool)
  | updateWorld
  | clearWorldEntities
  | runJob (d : JobDescriptor)           -- makeJob; runJob(job, world, kCurrentThread); destroyJob
deriving Repr, Inhabited

/-- `createWorld(id)` -/
def createWorld (id : Nat) : WM := { worldId := id }

/-- `createEntityGroup`: `count` times `entities.create(archetype)`, handles stored in order -/
def createGroup (w : WM) (t ai : Nat) : Nat → WM × List Handle × List Cb
  | 0 => (w, [], [])
  | n + 1 =>
    let (w1, h, cb) := createAt info w t ai
    let (w2, hs, cbs) := createGroup w1 t ai n
    (w2, h :: hs, cb ++ cbs)

/-- `destroyEntities`: the array in order, `destroyNow` or `destroy` -/
def destroyAll (w : WM) (t : Nat) (now : Bool) : List Handle → WM × List Cb
  | [] => (w, [])
  | e :: es =>
    if now then
      let (w1, cb) := w.destroyNow info t e
      let (w2, cbs) := destroyAll w1 t now es
      (w2, cb ++ cbs)
    else destroyAll (w.destroy t e) t now es

/-- outputs of a C call: a group creation returns several handles -/
def cstep (r : Registry) (cap t : Nat) (w : WM) (op : COp) : WM × List Out × List Cb :=
  let info := infoOf r
  match op with
  | .getArchetype ids => let (w, i) := w.getArch (convertMask ids) Shared.null; (w, [.arch i], [])
  | .getArchetypeByBitsetMask bits => let (w, i) := w.getArch (bitsetMask bits) Shared.null; (w, [.arch i], [])
  | .createEntity ai => let (w, h, cbs) := createAt info w t ai; (w, [.handle h], cbs)
  | .createEntityGroup ai n => let (w, hs, cbs) := createGroup info w t ai n; (w, hs.map .handle, cbs)
  | .assignComponent e c => let (w, r, p, cbs) := assignId info w t e c false; (w, [.ptr p r], cbs)
  | .assignComponentWithoutInit e c => let (w, r, p, cbs) := assignId info w t e c true; (w, [.ptr p r], cbs)
  | .store p tok => (store info w p tok, [.unit], [])
  | .hasComponent e c => (w, [.bool (w.hasComp e c)], [])
  | .getComponent e c _ => (w, [.val (w.getComp e c)], [])
  | .removeComponent e c => let (w, cbs) := removeUntyped info w t e c; (w, [.unit], cbs)
  | .destroyEntities es now => let (w, cbs) := destroyAll info w t now es; (w, es.map (fun _ => .unit), cbs)
  | .updateWorld => let (w, r, cbs) := w.update info; (w, [.res r], cbs)
  | .clearWorldEntities => let (w, cbs) := clear info w; (w, [.unit], cbs)
  | .runJob d => let (w, o, cbs) := runNt info w cap (makeJob d); (w, [.job o], cbs)

def crun (r : Registry) (cap t : Nat) (w : WM) : List COp → WM × List Out × List Cb
  | [] => (w, [], [])
  | op :: rest =>
    let (w1, o, cb) := cstep r cap t w op
    let (w2, os, cbs) := crun r cap t w1 rest
    (w2, o ++ os, cb ++ cbs)

/-- the sequence of C++ calls a C call stands for -/
def translate : COp → List XOp
  | .getArchetype ids => [.getArchetype (convertMask ids)]
  | .getArchetypeByBitsetMask bits => [.getArchetype (bitsetMask bits)]
  | .createEntity ai => [.createAt ai]
  | .createEntityGroup ai n => List.replicate n (.createAt ai)
  | .assignComponent e c => [.assign e c false]
  | .assignComponentWithoutInit e c => [.assign e c true]
  | .store p tok => [.store p tok]
  | .hasComponent e c => [.hasComponent e c]
  | .getComponent e c k => [.getComponent e c k]
  | .removeComponent e c => [.removeUntyped e c]
  | .destroyEntities es now => es.map (fun e => if now then .destroyNow e else .destroy e)
  | .updateWorld => [.update]
  | .clearWorldEntities => [.clear]
  | .runJob d => [.runJob (makeJob d)]

end Mustache.Model.CApi

/-!
# Version-chunk size of a new archetype (C11)

Mirrors the resolution code of `EntityManager::getArchetype` (entity_manager.cpp:44-70):

```
auto min = archetype_chunk_size_info_.min_size;   // always 0 (no setter)
auto max = archetype_chunk_size_info_.max_size;   // always 0
for (func : get_chunk_size_functions_) {
    size = func(arch_mask);                       // {0,0} when the function does not apply
    if (min == 0 || size.min > min) min = size.min;
    if (max == 0 || (size.max > 0 && size.max < max)) max = size.max;
}
chunk_size = default_size;
if (max > 0 && max < min) throw "Can not create archetype: max < min";   // max == 0: no maximum
if (chunk_size < min) chunk_size = min;
if (max > 0 && chunk_size > max) chunk_size = max;
```
Core Lean only (linked into the driver).
-/
namespace Mustache.ChunkSize

/-- result of one chunk-size function on the archetype's mask (`ArchetypeChunkSize`) -/
structure Size where
  min : Nat
  max : Nat
deriving Repr, DecidableEq

/-- one loop iteration on `min` -/
def foldMin (m : Nat) (s : Size) : Nat := if m = 0 ∨ s.min > m then s.min else m

/-- one loop iteration on `max` (0 = "no maximum so far") -/
def foldMax (M : Nat) (s : Size) : Nat := if M = 0 ∨ (s.max > 0 ∧ s.max < M) then s.max else M

inductive Res where
  | ok (size : Nat)
  | error (max min : Nat)     -- the two numbers of the exception message
deriving Repr, DecidableEq

/-- `getArchetype`'s chunk-size computation; `fs` = the results of the registered functions, in
registration order, on the new archetype's mask. -/
def resolve (dflt : Nat) (fs : List Size) : Res :=
  let mn := fs.foldl foldMin 0
  let mx := fs.foldl foldMax 0
  if mx > 0 ∧ mx < mn then .error mx mn
  else
    let c := if dflt < mn then mn else dflt
    .ok (if mx > 0 ∧ c > mx then mx else c)

/-! ## Specification vocabulary -/

/-- the largest minimum (0 when there is none) -/
def maxMin (fs : List Size) : Nat := (fs.map (·.min)).foldl max 0

/-- least element of a non-empty list given as head + tail -/
def least (x : Nat) (xs : List Nat) : Nat := xs.foldl min x

/-- the smallest non-zero maximum (0 when every maximum is 0, i.e. there is none) -/
def minMax (fs : List Size) : Nat :=
  match (fs.map (·.max)).filter (· ≠ 0) with
  | [] => 0
  | x :: xs => least x xs

/-- the default clamped from below by `lo` and, when `hi ≠ 0`, from above by `hi` -/
def clamp (dflt lo hi : Nat) : Nat :=
  let c := max dflt lo
  if hi = 0 then c else min c hi

/-- a chunk-size function as registered through `addChunkSizeFunction<ARGS...>(min, max)`:
applies to the archetypes whose mask contains `mask` -/
structure ChunkFn where
  mask : List Nat
  min : Nat
  max : Nat
deriving Repr, DecidableEq

def ChunkFn.eval (f : ChunkFn) (archMask : List Nat) : Size :=
  if f.mask.all (archMask.contains ·) then ⟨f.min, f.max⟩ else ⟨0, 0⟩

def resolveFor (dflt : Nat) (fns : List ChunkFn) (archMask : List Nat) : Res :=
  resolve dflt (fns.map (·.eval archMask))

end Mustache.ChunkSize

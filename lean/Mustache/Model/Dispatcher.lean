/-!
# Model of `mustache::Dispatcher` (src/mustache/utils/dispatch.cpp, dispatch.hpp)

A transition system over *atomic actions*.  Every critical section of the C++ code runs under
`Data::mutex`, so it is one action; the code between two critical sections (running a job,
spinning) is split at the points where another thread can observe a difference.

Threads: thread `0` is the external thread (submitter / waiter / destructor, one per dispatcher
by contract), threads `1..n` are the workers (`ThreadId::make(i + 1)` in the constructor).
Queues: queue `0` is `parallel_jobs`, queue `k + 1` is `extra.array[k]` (a serial queue).
Tasks are numbered in submission order (`nextId`), which is also the FIFO order inside a queue.

Ghost fields (`tq`, `runner`, `owner`, `cur`, `started`, `done`, `dropped`, `waitSnap`, `synced`) record history only; no guard reads them.

The model follows the behaviour the property demands and the repaired code has: the helping
waiter does not pop a serial queue that is busy (`waitBlocked`), `threads_waiting`/`terminate`
are read atomically.  Core Lean only.
-/
namespace Mustache.Dispatcher

/-- function update -/
def upd {α : Type} (f : Nat → α) (k : Nat) (v : α) : Nat → α := fun i => if i = k then v else f i

@[simp] theorem upd_same {α : Type} (f : Nat → α) (k : Nat) (v : α) : upd f k v k = v := by simp [upd]
@[simp] theorem upd_ne {α : Type} (f : Nat → α) {k i : Nat} (v : α) (h : i ≠ k) : upd f k v i = f i := by
  simp [upd, h]
theorem upd_apply {α : Type} (f : Nat → α) (k i : Nat) (v : α) : upd f k v i = if i = k then v else f i := rfl

/-- Program counter of a thread (threadTask, lines 114-156; for thread 0: the job-running part of `wait`). -/
inductive Pc
  | idle                      -- worker: top of the loop, outside the mutex; thread 0: not running a job
  | sleeping                  -- inside `jobs_available.wait`, counted in `threads_waiting`
  | woken                     -- left the wait set (notify / spurious), still counted, needs the mutex
  | running (t q : Nat)       -- popped job `t` of queue `q`, mutex released, job not yet finished
  | relock (q : Nat)          -- job finished, about to re-lock and call `onTaskEnd` of queue `q`
  | exited                    -- left `threadTask`
deriving DecidableEq, Repr, Inhabited

/-- What the external thread is doing. -/
inductive Mode
  | api                       -- between API calls
  | inline                    -- `addJob` in single-thread mode: running the job itself
  | waitLoop (q : Nat)        -- `wait(queue)`: helper loop (lines 160-176)
  | spin (q : Nat)            -- `wait(queue)`: final spin (lines 177-189)
  | sdFlag                    -- destructor: `terminate = true` done
  | sdCleared                 -- destructor: `clear()` done
  | joining                   -- destructor: `notify_all` done, joining
  | destroyed
deriving DecidableEq, Repr, Inhabited

structure State where
  n : Nat                     -- number of workers
  pcs : List Pc               -- length n + 1; index = thread id
  mode : Mode
  jobs : Nat → List Nat       -- FIFO contents (task ids)
  locked : Nat → Bool         -- `JobState::kLocked` (serial queues only)
  prio : Nat → Int
  nq : Nat                    -- number of serial queues
  tw : Nat                    -- `threads_waiting`
  terminate : Bool
  single : Bool
  nextId : Nat
  -- ghost
  tq : Nat → Nat              -- queue a task was submitted to
  runner : Nat → Nat          -- thread that popped a task
  owner : Nat → Nat           -- thread that last made a serial queue busy
  cur : Nat → Nat             -- task last popped from a queue
  started : List Nat          -- tasks in the order they were popped
  done : List Nat             -- tasks in the order they finished
  dropped : List Nat          -- tasks removed by `clear()` in the destructor
  waitSnap : Nat              -- `nextId` when the current / last `wait` was called
  synced : List Nat           -- finished tasks whose effects the last parallel barrier handed to the external thread

def init (n : Nat) : State :=
  { n := n, pcs := List.replicate (n + 1) Pc.idle, mode := .api, jobs := fun _ => [], locked := fun _ => false,
    prio := fun _ => 0, nq := 0, tw := 0, terminate := false, single := false, nextId := 0,
    tq := fun _ => 0, runner := fun _ => 0, owner := fun _ => 0, cur := fun _ => 0, started := [], done := [], dropped := [], waitSnap := 0, synced := [] }

inductive Action
  -- external thread
  | createQueue (p : Int)
  | setSingle (b : Bool)
  | submit (q : Nat)          -- `addParallelTask` (q = 0, not single-thread mode) / `async` (q > 0)
  | submitInline              -- `addParallelTask` in single-thread mode
  | waitBegin (q : Nat)
  | waitPop                   -- helper loop: pop + onTaskBegin
  | waitBlocked               -- helper loop: serial queue busy, retry later (spin action)
  | waitEmpty                 -- helper loop: queue empty (or terminate) -> spin phase
  | spinRetry                 -- spin phase: condition read as false (spin action)
  | spinExit                  -- spin phase: condition true, `wait` returns
  | sdFlag | sdClear | sdNotify | sdJoin
  -- workers (th ≥ 1)
  | wScan (th : Nat)          -- critical section: findQueue, then sleep / pop / exit
  | wake (th : Nat)           -- leave the wait set (notify_one / spurious)
  -- any thread
  | taskEnd (th : Nat)        -- the job returns
  | relock (th : Nat)         -- re-lock, onTaskEnd
deriving DecidableEq, Repr

/-- `JobQueue::isOk` -/
def isOk (s : State) (q : Nat) : Bool := !s.locked q && !(s.jobs q).isEmpty

/-- `by_priority` is a multimap iterated in ascending key order, equal keys in insertion order -/
def better (s : State) (a b : Nat) : Bool := s.prio a < s.prio b || (s.prio a == s.prio b && a < b)

def pickStep (s : State) (acc : Option Nat) (q : Nat) : Option Nat :=
  match acc with
  | none => some q
  | some b => if better s q b then some q else some b

def pickMin (s : State) (l : List Nat) : Option Nat := l.foldl (pickStep s) none

def serialIds (s : State) : List Nat := (List.range s.nq).map (· + 1)

/-- `Data::findQueue` -/
def findQueue (s : State) : Option Nat :=
  if isOk s 0 then some 0 else pickMin s ((serialIds s).filter (isOk s))

/-- program counter of thread `th` (`exited` outside the thread table) -/
def pcAt (s : State) (th : Nat) : Pc := (s.pcs[th]?).getD .exited

/-- the program counter says: this thread keeps queue `q` busy -/
def holdsPc (q : Nat) : Pc → Bool
  | .running _ q' => q' == q
  | .relock q' => q' == q
  | _ => false

def isWaiting : Pc → Bool
  | .sleeping => true
  | .woken => true
  | _ => false

/-- `onTaskBegin` / `onTaskEnd`: only serial queues (q ≠ 0) change state -/
def lockQ (s : State) (q : Nat) : Nat → Bool := fun i => if i = q ∧ q ≠ 0 then true else s.locked i
def unlockQ (s : State) (q : Nat) : Nat → Bool := fun i => if i = q ∧ q ≠ 0 then false else s.locked i

/-- pop the head `t` of queue `q` (rest `r`) on thread `th`; `onTaskBegin` -/
def doPop (s : State) (th q t : Nat) (r : List Nat) : State :=
  { s with pcs := s.pcs.set th (.running t q), jobs := upd s.jobs q r, locked := lockQ s q,
           started := s.started ++ [t], runner := upd s.runner t th, owner := upd s.owner q th,
           cur := upd s.cur q t }

/-- body of the worker's critical section once the mutex is held and `threads_waiting` is adjusted -/
def scanBody (s : State) (th : Nat) : State :=
  if s.terminate then { s with pcs := s.pcs.set th .exited }
  else match findQueue s with
    | none => { s with pcs := s.pcs.set th .sleeping, tw := s.tw + 1 }
    | some q => match s.jobs q with
      | [] => { s with pcs := s.pcs.set th .idle }   -- unreachable: `isOk` implies non-empty
      | t :: r => doPop s th q t r

def wakeAll (l : List Pc) : List Pc := l.map (fun p => if p = .sleeping then .woken else p)

/-- a parallel barrier hands the effects of every finished task to the waiter -/
def syncedAfter (s : State) (q : Nat) : List Nat := if q = 0 then s.done else s.synced

def allExited (s : State) : Bool := (s.pcs.drop 1).all (· = .exited)

def step (s : State) : Action → Option State
  | .createQueue p =>
    if s.mode = .api then some { s with nq := s.nq + 1, prio := upd s.prio (s.nq + 1) p } else none
  | .setSingle b =>
    if s.mode = .api then some { s with single := b } else none
  | .submit q =>
    if s.mode = .api ∧ q ≤ s.nq ∧ (q = 0 → s.single = false) then
      some { s with jobs := upd s.jobs q (s.jobs q ++ [s.nextId]), nextId := s.nextId + 1, tq := upd s.tq s.nextId q }
    else none
  | .submitInline =>
    if s.mode = .api ∧ s.single = true then
      some { s with mode := .inline, pcs := s.pcs.set 0 (.running s.nextId 0), nextId := s.nextId + 1,
                    tq := upd s.tq s.nextId 0, started := s.started ++ [s.nextId],
                    runner := upd s.runner s.nextId 0 }
    else none
  | .waitBegin q =>
    if s.mode = .api ∧ q ≤ s.nq then some { s with mode := .waitLoop q, waitSnap := s.nextId } else none
  | .waitPop =>
    match s.mode with
    | .waitLoop q =>
      if s.pcs[0]? = some .idle ∧ s.terminate = false ∧ s.locked q = false then
        match s.jobs q with
        | [] => none
        | t :: r => some (doPop s 0 q t r)
      else none
    | _ => none
  | .waitBlocked =>
    match s.mode with
    | .waitLoop q =>
      if s.pcs[0]? = some .idle ∧ s.terminate = false ∧ s.locked q = true ∧ s.jobs q ≠ [] then some s else none
    | _ => none
  | .waitEmpty =>
    match s.mode with
    | .waitLoop q =>
      if s.pcs[0]? = some .idle ∧ (s.terminate = true ∨ s.jobs q = []) then some { s with mode := .spin q } else none
    | _ => none
  | .spinRetry =>
    match s.mode with
    | .spin _ => some s
    | _ => none
  | .spinExit =>
    match s.mode with
    | .spin q =>
      if (q = 0 → s.tw = s.n) ∧ (q ≠ 0 → s.locked q = false) then
        some { s with mode := .api, synced := syncedAfter s q }
      else none
    | _ => none
  | .sdFlag =>
    if s.mode = .api then some { s with mode := .sdFlag, terminate := true } else none
  | .sdClear =>
    if s.mode = .sdFlag then
      some { s with mode := .sdCleared, dropped := s.dropped ++ s.jobs 0, jobs := upd s.jobs 0 [] }
    else none
  | .sdNotify =>
    if s.mode = .sdCleared then some { s with mode := .joining, pcs := wakeAll s.pcs } else none
  | .sdJoin =>
    if s.mode = .joining ∧ allExited s = true then some { s with mode := .destroyed } else none
  | .wScan th =>
    if th = 0 then none else
    match s.pcs[th]? with
    | some .idle => some (scanBody s th)
    | some .woken => some (scanBody { s with tw := s.tw - 1 } th)
    | _ => none
  | .wake th =>
    match s.pcs[th]? with
    | some .sleeping => some { s with pcs := s.pcs.set th .woken }
    | _ => none
  | .taskEnd th =>
    match s.pcs[th]? with
    | some (.running t q) => some { s with pcs := s.pcs.set th (.relock q), done := s.done ++ [t] }
    | _ => none
  | .relock th =>
    match s.pcs[th]? with
    | some (.relock q) =>
      some { s with pcs := s.pcs.set th .idle, locked := unlockQ s q,
                    mode := if th = 0 ∧ s.mode = .inline then .api else s.mode }
    | _ => none

/-- run a schedule; `none` if some action is not enabled -/
def runFrom (s : State) : List Action → Option State
  | [] => some s
  | a :: as => match step s a with
    | none => none
    | some s' => runFrom s' as

def accepts (n : Nat) (sch : List Action) : Bool := (runFrom (init n) sch).isSome

/-- states reachable from `init n` -/
inductive Reachable (n : Nat) : State → Prop
  | init : Reachable n (init n)
  | step {s s' : State} (a : Action) : Reachable n s → step s a = some s' → Reachable n s'

/-- actions that make no progress by themselves (busy-wait iterations, spurious wake-ups) -/
def Action.isSpin : Action → Bool
  | .waitBlocked => true
  | .spinRetry => true
  | .wake _ => true
  | _ => false

/-! ## `parallelFor` index split (dispatch.hpp:68-89, with the zero-task-count guard) -/

/-- effective task count -/
def pforTaskCount (size tc threads : Nat) : Nat :=
  if tc < 1 then (if (if size < threads then size else threads) < 1 then 1 else (if size < threads then size else threads))
  else tc

/-- the pinned code's task count (no guard): `0` means the division `size / task_count` is undefined -/
def pforTaskCountPinned (size tc threads : Nat) : Nat :=
  if tc < 1 then (if size < threads then size else threads) else tc

def pforSizes (size tc : Nat) : List Nat :=
  (List.range tc).map (fun k => if k < size - tc * (size / tc) then size / tc + 1 else size / tc)

def pforRangesFrom (b : Nat) : List Nat → List (Nat × Nat)
  | [] => []
  | sz :: r => (b, b + sz) :: pforRangesFrom (b + sz) r

/-- `[task_begin, task_end)` of every task, in submission order -/
def pforRanges (b e tc threads : Nat) : List (Nat × Nat) :=
  pforRangesFrom b (pforSizes (e - b) (pforTaskCount (e - b) tc threads))

def rangeItems (r : Nat × Nat) : List Nat := List.range' r.1 (r.2 - r.1)

end Mustache.Dispatcher

import Mustache.Model.Dispatcher

/-!
# Access table of the dispatcher model (C06, lock discipline)

For every atomic action: the thread that performs it and the shared variables it reads / writes,
each with the protection under which the access happens:
* `mutex m` — with mutex `m` held (`0` = `Dispatcher::Data::mutex`, `1` = the component registry's mutex),
* `atomic`  — a `std::atomic` operation,
* `owned`   — a plain access, legal only for the variable's current owner; ownership is handed from
  thread to thread along the submit→pop edge (both under the mutex) and the task-end→barrier edge
  (the worker's `++threads_waiting` after its task, read atomically by the waiter).

The table follows the repaired code (`threads_waiting`, `terminate` atomic; serial-queue state read under
the mutex).  It is validated against the code by ThreadSanitizer runs (tools/props/c06.py), not proved.
-/
namespace Mustache.Dispatcher

inductive Var
  | queue (q : Nat)          -- jobs and busy flag of queue `q`, and the queue tables
  | threadsWaiting
  | terminate
  | singleThread
  | taskData (t : Nat)       -- the job object of task `t` and the user data handed over with it / returned by it
  | tempStorage (th : Nat)   -- `EntityManager::temporal_storages_[th]`, indexed by the thread id the task observes
  | lockCounter              -- `EntityManager::lock_counter_`: written by the job driver around a run, read by tasks
  | nextEntityId             -- `std::atomic` id reservation used by deferred creates
  | registry                 -- component-type registry (first-use registration under its own mutex)
deriving DecidableEq, Repr

inductive Prot
  | mutex (m : Nat)
  | atomic
  | owned
deriving DecidableEq, Repr

structure Access where
  var : Var
  write : Bool
  prot : Prot
deriving DecidableEq, Repr

/-- the thread that performs an action (0 = external thread) -/
def Action.thread : Action → Nat
  | .wScan th => th
  | .wake th => th
  | .taskEnd th => th
  | .relock th => th
  | _ => 0

/-- the protection under which each variable is accessed, everywhere -/
def discipline : Var → Prot
  | .queue _ => .mutex 0
  | .threadsWaiting => .atomic
  | .terminate => .atomic
  | .singleThread => .owned
  | .taskData _ => .owned
  | .tempStorage _ => .owned
  | .lockCounter => .owned
  | .nextEntityId => .atomic
  | .registry => .mutex 1

def waitQueue (s : State) : Nat :=
  match s.mode with
  | .waitLoop q => q
  | .spin q => q
  | _ => 0

/-- what the body of a task does (collapsed into the action that ends it): its own job object and
hand-over data, the command buffer of the thread id it observes, the lock state, id reservation,
first-use registration -/
def bodyAccesses (t th : Nat) : List Access :=
  [⟨.taskData t, true, .owned⟩, ⟨.tempStorage th, true, .owned⟩, ⟨.lockCounter, false, .owned⟩,
   ⟨.nextEntityId, true, .atomic⟩, ⟨.registry, true, .mutex 1⟩]

def allQueues (s : State) (write : Bool) : List Access :=
  (List.range (s.nq + 1)).map (fun q => ⟨.queue q, write, .mutex 0⟩)

def accesses (s : State) : Action → List Access
  | .createQueue _ => [⟨.queue (s.nq + 1), true, .mutex 0⟩]
  | .setSingle _ => [⟨.singleThread, true, .owned⟩]
  | .submit q => [⟨.singleThread, false, .owned⟩, ⟨.taskData s.nextId, true, .owned⟩, ⟨.queue q, true, .mutex 0⟩]
  | .submitInline => [⟨.singleThread, false, .owned⟩, ⟨.taskData s.nextId, true, .owned⟩]
  | .waitBegin _ => []
  | .waitPop => [⟨.terminate, false, .atomic⟩, ⟨.queue (waitQueue s), true, .mutex 0⟩]
  | .waitBlocked => [⟨.terminate, false, .atomic⟩, ⟨.queue (waitQueue s), false, .mutex 0⟩]
  | .waitEmpty => [⟨.terminate, false, .atomic⟩, ⟨.queue (waitQueue s), false, .mutex 0⟩]
  | .spinRetry => if waitQueue s = 0 then [⟨.threadsWaiting, false, .atomic⟩] else [⟨.queue (waitQueue s), false, .mutex 0⟩]
  | .spinExit => if waitQueue s = 0 then [⟨.threadsWaiting, false, .atomic⟩] else [⟨.queue (waitQueue s), false, .mutex 0⟩]
  | .sdFlag => [⟨.terminate, true, .atomic⟩]
  | .sdClear => [⟨.queue 0, true, .mutex 0⟩]
  | .sdNotify => []
  | .sdJoin => []
  | .wScan _ => [⟨.terminate, false, .atomic⟩, ⟨.threadsWaiting, true, .atomic⟩] ++ allQueues s true
  | .wake _ => []
  | .taskEnd th =>
    match s.pcs[th]? with
    | some (.running t _) => bodyAccesses t th
    | _ => []
  | .relock th =>
    match s.pcs[th]? with
    | some (.relock q) => [⟨.queue q, true, .mutex 0⟩]
    | _ => []

/-! ## ownership of plainly accessed data -/

/-- the effects of finished task `t` have been handed to the external thread -/
def Synced (s : State) (t : Nat) : Prop := s.runner t = 0 ∨ t ∈ s.synced

/-- the external thread is between calls and nothing is pending or running -/
def ExtQuiet (s : State) : Prop := s.mode = .api ∧ ∀ t, t < s.nextId → t ∈ s.done ∨ t ∈ s.dropped

/-- thread `th` owns the data of task `t` -/
def OwnsTask (s : State) (th t : Nat) : Prop :=
  (s.nextId ≤ t ∧ th = 0) ∨
  (∃ q, s.pcs[th]? = some (Pc.running t q)) ∨
  (th = 0 ∧ t ∈ s.done ∧ Synced s t)

/-- thread `o` owns the command buffer of thread id `th` -/
def OwnsTemp (s : State) (o th : Nat) : Prop :=
  (o = th ∧ ∃ t q, s.pcs[th]? = some (Pc.running t q)) ∨
  (o = 0 ∧ th = 0) ∨
  (o = 0 ∧ ExtQuiet s ∧ ∀ t, t ∈ s.done → s.runner t = th → Synced s t)

/-- the external thread may write the lock state: nobody can be reading it and every earlier reader is ordered before -/
def ExtOwnsLock (s : State) : Prop := ExtQuiet s ∧ ∀ t, t ∈ s.done → Synced s t

end Mustache.Dispatcher

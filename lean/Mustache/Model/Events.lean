/-!
# Model of `mustache::EventManager` (src/mustache/ecs/event_manager.hpp / .cpp)

Follows the C++ data structures:

* `typeIds`  — the process-global registry `type_map` / `next_event_id` of `event_manager.cpp`:
  the id of an event type is its position in the list = order of first use in the process;
* per manager `slots : List (Option (List Rcv))` — `subscriptions_`, a vector of
  `unique_ptr<AReceivers>` indexed by the process-global id (`none` = null pointer),
  grown with `std::vector::resize` on first use of a type *in that manager*;
* per receiver `home` — the `weak_ptr<EventManager> events_` of `Receiver<T>`
  (set by `subscribe_`, never cleared; "expired" iff that manager is dead).

Everything is a total function. Accesses that are undefined behaviour in C++
(`subscriptions_[id]` out of bounds, or a null slot dereferenced) are explicit: `withSlot`
returns `none` and the step reports `Out.ub`. `Props/C15.lean` proves that this never happens.
-/
namespace Mustache.Model.Events

abbrev TypeName := Nat
abbrev Rcv := Nat
abbrev MgrId := Nat

/-! ## process-global type registry -/

/-- `type_map.find(name)`: the id of a registered type. -/
def idOf : List TypeName → TypeName → Option Nat
  | [], _ => none
  | x :: xs, T => if x = T then some 0 else (idOf xs T).map (· + 1)

/-- `EventManager::registerEventType(const std::string&)`: find, or append with id `next_event_id`. -/
def register (ids : List TypeName) (T : TypeName) : List TypeName × Nat :=
  match idOf ids T with
  | some i => (ids, i)
  | none => (ids ++ [T], ids.length)

/-! ## slot table of one manager -/

abbrev Slots := List (Option (List Rcv))

/-- `std::vector::resize(n)` — it truncates when `n` is smaller than the size. -/
def resize (sl : Slots) (n : Nat) : Slots :=
  sl.take n ++ List.replicate (n - sl.length) none

/-- `ArrayWrapper::has(id)`: `size() > id`. -/
def has (sl : Slots) (id : Nat) : Bool := id < sl.length

/-- the slot-creation part of `registerEventType<T>()`:
```
if (!subscriptions_.has(id)) subscriptions_.resize(id + 1);
if (!subscriptions_[id])     subscriptions_[id].reset(new Receivers<T>{});
``` -/
def ensureSlot (sl : Slots) (id : Nat) : Slots :=
  let sl1 := if has sl id then sl else resize sl (id + 1)
  match sl1[id]? with
  | some (some _) => sl1
  | _ => sl1.set id (some [])

/-- receivers stored in slot `id` (empty for a null or absent slot) — used by the abstraction only. -/
def slotList (sl : Slots) (id : Nat) : List Rcv :=
  match sl[id]? with
  | some (some l) => l
  | _ => []

/-! ## state -/

structure Mgr where
  alive : Bool
  slots : Slots
deriving Repr, DecidableEq

structure RcvInfo where
  ty : TypeName
  alive : Bool
  /-- target of `events_` (the manager of the last `subscribe_`) -/
  home : Option MgrId
deriving Repr, DecidableEq

structure State where
  typeIds : List TypeName
  mgrs : List Mgr
  rcvs : List RcvInfo
deriving Repr, DecidableEq

def State.init : State := ⟨[], [], []⟩

inductive Op where
  | newManager
  | dropManager (m : MgrId)
  | newReceiver (T : TypeName)
  | subscribeFn (m : MgrId) (T : TypeName)
  | subscribe (m : MgrId) (r : Rcv)
  | unsubscribe (r : Rcv)
  | unsubscribeAt (m : MgrId) (r : Rcv)
  | dropReceiver (r : Rcv)
  | post (m : MgrId) (T : TypeName)
deriving Repr, DecidableEq

inductive Out where
  | mgr (m : MgrId)
  | rcv (r : Rcv)
  | ok
  | delivered (l : List Rcv)
  /-- the op is outside the contract (see `legal`); the model leaves the state unchanged -/
  | illegal
  /-- the C++ code would index `subscriptions_` out of bounds or dereference a null slot -/
  | ub
deriving Repr, DecidableEq

def mgrAlive (s : State) (m : MgrId) : Bool :=
  match s.mgrs[m]? with
  | some mg => mg.alive
  | none => false

def rcvAlive (s : State) (r : Rcv) : Bool :=
  match s.rcvs[r]? with
  | some ri => ri.alive
  | none => false

/-- receivers a manager holds for type `T` (abstraction of its slot table; `[]` for a dead manager,
an unregistered type, a null or absent slot) -/
def lookupIn (ids : List TypeName) (mg : Mgr) (T : TypeName) : List Rcv :=
  if mg.alive then
    match idOf ids T with
    | some id => slotList mg.slots id
    | none => []
  else []

/-- receivers the manager `m` holds for type `T` (`[]` for an unknown manager) -/
def lookup (s : State) (m : MgrId) (T : TypeName) : List Rcv :=
  match s.mgrs[m]? with
  | some mg => lookupIn s.typeIds mg T
  | none => []

/-- `r` is in the list of the manager its `events_` points to -/
def subscribedAtHome (s : State) (r : Rcv) : Bool :=
  match s.rcvs[r]? with
  | some ri =>
    match ri.home with
    | some m => (lookup s m ri.ty).contains r
    | none => false
  | none => false

/-- Contract of the API (everything else is use-after-free in C++, or leaves a dangling pointer):
managers and receivers named by an op exist and are alive; `subscribe_` is given a receiver that
is not subscribed at the moment. -/
def legal (s : State) : Op → Bool
  | .newManager => true
  | .dropManager m => mgrAlive s m
  | .newReceiver _ => true
  | .subscribeFn m _ => mgrAlive s m
  | .subscribe m r => mgrAlive s m && rcvAlive s r && !subscribedAtHome s r
  | .unsubscribe r => rcvAlive s r
  | .unsubscribeAt m r => mgrAlive s m && rcvAlive s r
  | .dropReceiver r => rcvAlive s r
  | .post m _ => mgrAlive s m

/-- `id = registerEventType<T>(); f(*subscriptions_[id])` on manager `m`:
registers `T` process-wide if new, creates the slot in `m` if absent, then reads/updates the
receiver list stored there. Returns the new state, the id and the list found.
`none` = undefined behaviour in C++ (`subscriptions_[id]` out of range or null). -/
def withSlot (s : State) (m : MgrId) (T : TypeName) (f : List Rcv → List Rcv) :
    Option (State × Nat × List Rcv) :=
  match s.mgrs[m]? with
  | none => none
  | some mg =>
    let reg := register s.typeIds T
    let sl := ensureSlot mg.slots reg.2
    match sl[reg.2]? with
    | some (some l) =>
      some ({ s with typeIds := reg.1, mgrs := s.mgrs.set m { mg with slots := sl.set reg.2 (some (f l)) } },
            reg.2, l)
    | _ => none

/-- `EventManager::subscribe_<T>(sub)`: `sub->events_ = this; receivers.push_back(sub)` -/
def doSubscribe (s : State) (m : MgrId) (r : Rcv) (ri : RcvInfo) : Option State :=
  match withSlot s m ri.ty (· ++ [r]) with
  | some (s1, _, _) => some { s1 with rcvs := s1.rcvs.set r { ri with home := some m } }
  | none => none

/-- `EventManager::unsubscribe<T>(sub)`: `Receivers<T>::remove` erases the first match -/
def doUnsubscribeAt (s : State) (m : MgrId) (r : Rcv) (ri : RcvInfo) : Option State :=
  match withSlot s m ri.ty (·.erase r) with
  | some (s1, _, _) => some s1
  | none => none

/-- `Receiver<T>::unsubscribe()`: `if (auto e = events_.lock()) e->unsubscribe(this);` -/
def doUnsubscribe (s : State) (r : Rcv) (ri : RcvInfo) : Option State :=
  match ri.home with
  | some m => if mgrAlive s m then doUnsubscribeAt s m r ri else some s
  | none => some s

def orUb : Option State → Out → State → State × Out
  | some s', o, _ => (s', o)
  | none, _, s => (s, .ub)

/-- one API call within the contract -/
def exec (s : State) : Op → State × Out
  | .newManager => ({ s with mgrs := s.mgrs ++ [⟨true, []⟩] }, .mgr s.mgrs.length)
  | .dropManager m =>
    -- ~EventManager: the control block of `shared_from_this_` dies (weak_ptrs expire), the table is freed
    ({ s with mgrs := s.mgrs.set m ⟨false, []⟩ }, .ok)
  | .newReceiver T => ({ s with rcvs := s.rcvs ++ [⟨T, true, none⟩] }, .rcv s.rcvs.length)
  | .subscribeFn m T =>
    let r := s.rcvs.length
    let ri : RcvInfo := ⟨T, true, none⟩
    orUb (doSubscribe { s with rcvs := s.rcvs ++ [ri] } m r ri) (.rcv r) s
  | .subscribe m r =>
    match s.rcvs[r]? with
    | some ri => orUb (doSubscribe s m r ri) .ok s
    | none => (s, .illegal)
  | .unsubscribe r =>
    match s.rcvs[r]? with
    | some ri => orUb (doUnsubscribe s r ri) .ok s
    | none => (s, .illegal)
  | .unsubscribeAt m r =>
    match s.rcvs[r]? with
    | some ri => orUb (doUnsubscribeAt s m r ri) .ok s
    | none => (s, .illegal)
  | .dropReceiver r =>
    -- ~Receiver: unsubscribe(), then the object is gone
    match s.rcvs[r]? with
    | some ri =>
      match doUnsubscribe s r ri with
      | some s1 => ({ s1 with rcvs := s1.rcvs.set r { ri with alive := false } }, .ok)
      | none => (s, .ub)
    | none => (s, .illegal)
  | .post m T =>
    -- `Receivers<T>::onEvent`: invoke every stored receiver, in order
    match withSlot s m T id with
    | some (s1, _, l) => (s1, .delivered l)
    | none => (s, .ub)

/-- one API call (the state is unchanged by an op outside the contract) -/
def step (s : State) (op : Op) : State × Out :=
  if legal s op then exec s op else (s, .illegal)

/-- run a history, collecting the outputs -/
def runFrom (s : State) : List Op → State × List Out
  | [] => (s, [])
  | op :: t => ((runFrom (step s op).1 t).1, (step s op).2 :: (runFrom (step s op).1 t).2)

def run (h : List Op) : State × List Out := runFrom State.init h

/-- every op of the history is within the contract at the moment it is issued -/
def legalFrom (s : State) : List Op → Bool
  | [] => true
  | op :: t => legal s op && legalFrom (step s op).1 t

def Legal (h : List Op) : Prop := legalFrom State.init h = true

instance (h : List Op) : Decidable (Legal h) := by unfold Legal; infer_instance

end Mustache.Model.Events

import Mustache.Model.World
/-! # Id table (`Tab`): the part of the world model WM that decides handle validity

`Tab` keeps exactly the fields of `WM` that `isEntityValid`, `createWithOutInit`, `createLocked`,
`releaseEntityIdUnsafe`, the slot installation of `applyCommandPack`, `clearArchetype` and `onLock`
read or write in `entities_` / `next_slot_` / `empty_slots_` / `next_entity_id_`. Every operation
below is the id-table effect of the WM operation named in its comment, expression by expression;
`Proofs/IdTableRefine.lean` proves `(WM-op w).tab = Tab-op w.tab` for each of them. Core Lean only. -/
namespace Mustache.Model

structure Tab where
  worldId : Nat := 0
  slots : List Slot := []
  next : Nat := 0
  empty : Nat := 0
  lockDepth : Nat := 0
  nextEntityId : Nat := 0
deriving DecidableEq, Repr, Inhabited

/-- the null pattern `ensureId` fills gap slots with (a default-constructed `Entity`) -/
def Slot.gap : Slot := ⟨2^30 - 1, 2^24 - 1⟩

/-- `WM.isValid` -/
def Tab.valid (t : Tab) (h : Handle) : Bool :=
  !h.isNull && h.world == t.worldId &&
  match t.slots[h.id]? with
  | some s => s.ver == h.ver && s.idf == h.id
  | none => false

/-- `WM.allocId` (`createWithOutInit`, unlocked branch) -/
def Tab.alloc (t : Tab) : Tab × Handle :=
  if t.empty = 0 then
    let id := t.slots.length
    ({ t with slots := t.slots ++ [⟨id, 0⟩] }, ⟨id, 0, t.worldId⟩)
  else
    match t.slots[t.next]? with
    | some s =>
      ({ t with slots := t.slots.set t.next ⟨t.next, s.ver⟩, next := s.idf, empty := t.empty - 1 },
       ⟨t.next, s.ver, t.worldId⟩)
    | none => (t, Handle.null)

/-- `WM.ensureId` -/
def Tab.ensureId (t : Tab) (id : Nat) : Tab :=
  { t with slots := t.slots ++ List.replicate (id + 1 - t.slots.length) ⟨2^30 - 1, 2^24 - 1⟩ }

/-- `WM.release` (`releaseEntityIdUnsafe`) -/
def Tab.release (t : Tab) (h : Handle) : Tab :=
  let t := if h.id < t.slots.length then t else t.ensureId h.id
  { t with slots := t.slots.set h.id ⟨if t.empty ≠ 0 then t.next else h.id + 1, (h.ver + 1) % 2^24⟩,
           next := h.id, empty := t.empty + 1 }

/-- safe `destroyNow`, unlocked (`WM.destroyNowU`) -/
def Tab.destroyNow (t : Tab) (h : Handle) : Tab :=
  if !t.valid h then t else t.release h

/-- `WM.createLocked`: the id / version choice -/
def Tab.reserve (t : Tab) : Tab × Handle :=
  let id := t.nextEntityId
  let ver := match t.slots[id]? with
    | some s => (s.ver + 1) % 2^24
    | none => 0
  ({ t with nextEntityId := id + 1 }, ⟨id, ver, t.worldId⟩)

/-- slot installation of a create command in `WM.applyPack` -/
def Tab.install (t : Tab) (e : Handle) : Tab :=
  let t := t.ensureId e.id
  { t with slots := t.slots.set e.id ⟨e.id, e.ver⟩ }

/-- one step of the fold of `WM.clearArch` -/
def Tab.clear1 (t : Tab) (e : Handle) : Tab :=
  { t with slots := t.slots.set e.id ⟨if t.empty ≠ 0 then t.next else e.id + 1, (e.ver + 1) % 2^24⟩,
           next := e.id, empty := t.empty + 1 }

/-- `WM.clearArch` over the handles of the rows of the archetype -/
def Tab.clearList (t : Tab) (hs : List Handle) : Tab := hs.foldl Tab.clear1 t

/-- `WM.lock` -/
def Tab.lock (t : Tab) : Tab :=
  let t := { t with lockDepth := t.lockDepth + 1 }
  if t.lockDepth = 1 then { t with nextEntityId := t.slots.length } else t

/-- the depth bookkeeping of `WM.unlock` (the flush follows when the result has depth 0) -/
def Tab.unlockDepth (t : Tab) : Tab :=
  if t.lockDepth > 0 then { t with lockDepth := t.lockDepth - 1 } else t

/-- `WM.update`: checked `destroyNow` of every marked handle, in the order of the set -/
def Tab.destroyAll (t : Tab) (hs : List Handle) : Tab := hs.foldl Tab.destroyNow t

end Mustache.Model

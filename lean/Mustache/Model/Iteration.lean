/-!
# Iteration model (C04, reused by C06)

Pure functions over `Nat` mirroring the nested cursors the job machinery of mustache uses to
hand entities to a job:

* `blocks`               – `filterArchetype`            (src/mustache/ecs/base_job.cpp:11-50)
* `matchArch/applyFilter`– `apply`                      (src/mustache/ecs/base_job.cpp:52-83)
* `taskSize`             – `TaskGroup::updateTaskSize`  (src/mustache/ecs/task_view.hpp:154-156,181-186)
* `TG.advance/TG.tasks`  – `TaskGroup::operator++`      (task_view.hpp:158-175) and the range-for over it
* `AG.make/inc/pieces`   – `ArchetypeGroup`             (task_view.hpp:95-142)
* `AV.seek/make/updateBlock/next/arrays` – `ArrayView`  (task_view.hpp:19-93)
* `distToChunkEnd`       – `DefaultComponentDataStorage::distToChunkEnd`
* `unrolled`             – `PerEntityJob::forEachArrayGenerated` (job.hpp:65-117)
* `ntArrays`             – `NonTemplateJob::singleTask` index bookkeeping (non_template_job.cpp:36-51)

Loops are structural recursion on a fuel argument; `Proofs/Iteration*.lean` show that the fuel
handed in by the callers always suffices (every array / piece has length ≥ 1).
Vector accesses are `getD … default`; the proofs establish that every index used is in range.
Core Lean only (this file is linked into the driver).
-/
namespace Mustache.Iteration

/-! ## Blocks (`WorldFilterResult::EntityBlock`) -/

structure Block where
  b : Nat
  e : Nat
deriving Repr, DecidableEq, Inhabited

/-- entity indices of a block, ascending -/
def Block.range (x : Block) : List Nat := List.range' x.b (x.e - x.b)

/-- `ArchetypeFilterResult::addBlock`: empty blocks are dropped -/
def addBlock (x : Block) (rest : List Block) : List Block :=
  if x.e - x.b > 0 then x :: rest else rest

/-- The chunk loop of `filterArchetype`. `n` = chunks still to visit, `ci` = chunk index,
    `cur = some blk` ⇔ `is_prev_match` (with the block being extended). The blocks pushed by the
    rest of the loop are returned in push order. -/
def blocksGo (size cs : Nat) (changed : Nat → Bool) : Nat → Nat → Option Block → List Block
  | 0, _, none => []
  | 0, _, some blk => addBlock ⟨blk.b, min size blk.e⟩ []          -- clip the last block
  | n + 1, ci, cur =>
    if changed ci then
      let b := match cur with
        | none => ci * cs
        | some blk => blk.b
      blocksGo size cs changed n (ci + 1) (some ⟨b, (ci + 1) * cs⟩)
    else
      match cur with
      | none => blocksGo size cs changed n (ci + 1) none
      | some blk => addBlock blk (blocksGo size cs changed n (ci + 1) none)

/-- `filterArchetype` for an archetype of `size` entities with version-chunk size `cs`;
    chunks `0 ..= lastChunkIndex = (size-1)/cs`. -/
def blocks (size cs : Nat) (changed : Nat → Bool) : List Block :=
  blocksGo size cs changed ((size - 1) / cs + 1) 0 none

/-! ## Archetypes and the world filter -/

structure ArchCfg where
  mask : List Nat            -- ids of the archetype's components
  shared : List Nat          -- ids of its shared components
  size : Nat                 -- population
  cs : Nat                   -- version-chunk size
  cap : Nat                  -- storage-chunk capacity
  extra : Bool               -- extraArchetypeFilterCheck ∧ archetype-level version check
  changed : Nat → Bool       -- extraChunkFilterCheck ∧ per-chunk version check

/-- `WorldFilterResult::ArchetypeFilterResult` (+ what `ArrayView` reads from the archetype) -/
structure FA where
  arch : Nat
  size : Nat
  cap : Nat
  blocks : List Block
  count : Nat
deriving Repr, Inhabited

def isMatch (req mask : List Nat) : Bool := req.all fun c => mask.contains c

def matchArch (req reqShared : List Nat) (a : ArchCfg) : Bool :=
  decide (a.size > 0) && isMatch req a.mask && isMatch reqShared a.shared && a.extra

def blocksCount (bl : List Block) : Nat := (bl.map fun x => x.e - x.b).sum

/-- what one archetype contributes to `filtered_archetypes` -/
def filterOne (req reqShared : List Nat) (i : Nat) (a : ArchCfg) : List FA :=
  if matchArch req reqShared a then
    let bl := blocks a.size a.cs a.changed
    if blocksCount bl > 0 then [⟨i, a.size, a.cap, bl, blocksCount bl⟩] else []
  else []

/-- `apply`: archetypes in index order starting at index `i` -/
def applyFilter (req reqShared : List Nat) : List ArchCfg → Nat → List FA
  | [], _ => []
  | a :: rest, i => filterOne req reqShared i a ++ applyFilter req reqShared rest (i + 1)

def totalCount (fr : List FA) : Nat := (fr.map FA.count).sum

/-! ## Tasks -/

structure TaskInfo where
  size : Nat
  id : Nat
  firstArch : Nat
  firstEntity : Nat
deriving Repr, DecidableEq, Inhabited

/-- `updateTaskSize` with `ept_ = total / T`, `tasks_with_extra_item_ = total - T * ept_` -/
def taskSize (total T id : Nat) : Nat :=
  if id < total - T * (total / T) then total / T + 1 else total / T

/-- the `while (num_entities_to_iterate != 0)` loop of `TaskGroup::operator++` -/
def advanceLoop (fr : List FA) : Nat → Nat → Nat → Nat → Nat × Nat
  | 0, _, a, e => (a, e)
  | fuel + 1, num, a, e =>
    if num = 0 then (a, e)
    else
      let free := (fr.getD a default).count - e
      if free > num then (a, e + num)
      else advanceLoop fr fuel (num - free) (a + 1) 0

def TG.first (total T : Nat) : TaskInfo := ⟨taskSize total T 0, 0, 0, 0⟩

def TG.advance (fr : List FA) (total T : Nat) (t : TaskInfo) : TaskInfo :=
  let p := advanceLoop fr t.size t.size t.firstArch t.firstEntity
  ⟨taskSize total T (t.id + 1), t.id + 1, p.1, p.2⟩

/-- range-for over `TaskGroup::make(filter_result, T)`: the `TaskInfo` each task is built from -/
def TG.tasks (fr : List FA) (total T : Nat) : Nat → TaskInfo → List TaskInfo
  | 0, _ => []
  | fuel + 1, t => if t.id = T then [] else t :: TG.tasks fr total T fuel (TG.advance fr total T t)

def runTasks (fr : List FA) (T : Nat) : List TaskInfo :=
  TG.tasks fr (totalCount fr) T T (TG.first (totalCount fr) T)

/-! ## ArchetypeGroup -/

structure AG where
  cur : Nat        -- current_size
  dist : Nat       -- dist_to_end
  a : Nat          -- archetype_index
  e : Nat          -- first_entity
deriving Repr, Inhabited

/-- constructor. The index guard is the repaired form (`patches/fix-c04-archetype-group-oob.diff`);
    the pinned tree tested `!filtered_archetypes->empty()` and so read one element past the end
    for the empty tasks that exist when there are more tasks than entities. -/
def AG.make (fr : List FA) (t : TaskInfo) : AG :=
  if t.firstArch < fr.length then
    ⟨min t.size ((fr.getD t.firstArch default).count - t.firstEntity), t.size, t.firstArch, t.firstEntity⟩
  else ⟨0, t.size, t.firstArch, t.firstEntity⟩

def AG.inc (fr : List FA) (g : AG) : AG :=
  let dist := g.dist - g.cur
  if dist > 0 then ⟨min dist (fr.getD (g.a + 1) default).count, dist, g.a + 1, 0⟩
  else ⟨0, dist, g.a, g.e⟩

/-- one step of the range-for over an `ArchetypeGroup` -/
structure Piece where
  a : Nat          -- index into filtered_archetypes
  e : Nat          -- first entity (filtered index inside the archetype)
  size : Nat       -- current_size
deriving Repr, DecidableEq, Inhabited

def AG.pieces (fr : List FA) : Nat → AG → List Piece
  | 0, _ => []
  | fuel + 1, g => if g.dist = 0 then [] else ⟨g.a, g.e, g.cur⟩ :: AG.pieces fr fuel (g.inc fr)

def taskPieces (fr : List FA) (t : TaskInfo) : List Piece :=
  AG.pieces fr t.size (AG.make fr t)

/-! ## ArrayView -/

/-- `DefaultComponentDataStorage::distToChunkEnd` (storage size = archetype population) -/
def distToChunkEnd (size cap idx : Nat) : Nat :=
  min (if size > idx then size - idx else 0) (cap - idx % cap)

structure AV where
  cur : Nat            -- current_block_
  idx : Nat            -- global_index_ (entity index inside the archetype)
  arraySize : Nat
  distEnd : Nat        -- dist_to_end_
  distBlockEnd : Nat
deriving Repr, Inhabited

def AV.updateBlock (fa : FA) (v : AV) : AV :=
  if v.distEnd > 0 then
    let dbe := (fa.blocks.getD v.cur default).e - v.idx
    let v1 : AV :=
      if dbe = 0 then
        let blk := fa.blocks.getD (v.cur + 1) default
        { v with cur := v.cur + 1, idx := v.idx + (blk.b - v.idx), distBlockEnd := blk.e - blk.b }
      else { v with distBlockEnd := dbe }
    { v1 with arraySize := min v1.distBlockEnd (min (distToChunkEnd fa.size fa.cap v1.idx) v1.distEnd) }
  else v

/-- the `while (count > 0)` loop of `ArrayView::make` -/
def AV.seek (bl : List Block) : Nat → Nat → Nat → Nat × Nat
  | 0, bi, count => (bi, count)
  | fuel + 1, bi, count =>
    if count > 0 then
      let blk := bl.getD bi default
      if count > blk.e - blk.b then AV.seek bl fuel (bi + 1) (count - (blk.e - blk.b)) else (bi, count)
    else (bi, count)

def AV.make (fa : FA) (firstEntity size : Nat) : AV :=
  let p := AV.seek fa.blocks firstEntity 0 firstEntity
  let first := (fa.blocks.getD p.1 default).b + p.2
  AV.updateBlock fa ⟨p.1, first, 0, min size (fa.size - first), 0⟩

def AV.next (fa : FA) (v : AV) : AV :=
  AV.updateBlock fa { v with distEnd := v.distEnd - v.arraySize, idx := v.idx + v.arraySize }

/-- range-for over an `ArrayView`: `(first entity index, array size)` -/
def AV.arrays (fa : FA) : Nat → AV → List (Nat × Nat)
  | 0, _ => []
  | fuel + 1, v => if v.distEnd = 0 then [] else (v.idx, v.arraySize) :: AV.arrays fa fuel (v.next fa)

structure Arr where
  arch : Nat
  first : Nat
  len : Nat
deriving Repr, DecidableEq, Inhabited

def Arr.expand (x : Arr) : List (Nat × Nat) := (List.range' x.first x.len).map fun i => (x.arch, i)

def pieceArrays (fr : List FA) (p : Piece) : List Arr :=
  let fa := fr.getD p.a default
  (AV.arrays fa p.size (AV.make fa p.e p.size)).map fun x => ⟨fa.arch, x.1, x.2⟩

/-- all arrays handed out inside one task (`singleTask`) -/
def taskArrays (fr : List FA) (t : TaskInfo) : List Arr :=
  (taskPieces fr t).flatMap (pieceArrays fr)

/-! ## The unrolled invocation loop -/

/-- body of the `for (i < count / 4)` loop: four invocations per round, `base` = pointer offset,
    `ii` = running entity index. Yields `(offset inside the array, entity index)` per invocation. -/
def unrolledLoop : Nat → Nat → Nat → List (Nat × Nat)
  | 0, _, _ => []
  | n + 1, base, ii =>
    (base, ii) :: (base + 1, ii + 1) :: (base + 2, ii + 2) :: (base + 3, ii + 3) ::
      unrolledLoop n (base + 4) (ii + 4)

/-- the `tails[4]` table -/
def unrolledTail (k base ii : Nat) : List (Nat × Nat) :=
  match k with
  | 0 => []
  | 1 => [(base, ii)]
  | 2 => [(base, ii), (base + 1, ii + 1)]
  | 3 => [(base, ii), (base + 1, ii + 1), (base + 2, ii + 2)]
  | _ => []

/-- `forEachArrayGenerated(count)` started with entity index `ii` -/
def unrolled (count ii : Nat) : List (Nat × Nat) :=
  unrolledLoop (count / 4) 0 ii ++ unrolledTail (count % 4) (4 * (count / 4)) (ii + 4 * (count / 4))

/-! ## A whole run -/

inductive Mode where
  | current      -- JobRunMode::kCurrentThread
  | parallel     -- JobRunMode::kParallel
  | single       -- kParallel on a dispatcher in single-thread mode (same tasks, run one after another)
deriving Repr, DecidableEq, Inhabited

structure TaskOut where
  id : Nat               -- invocation_index.task_index
  size : Nat             -- task.taskSize()
  start : Nat            -- invocation_index.entity_index the task starts with
  arrays : List Arr
deriving Repr, Inhabited

/-- the loop of `runParallel` / `runCurrentThread`: `k` = `invocation_index.task_index`,
    `start` = `invocation_index.entity_index`; `bump` says whether `entity_index` is advanced by the
    task size (`runParallel` does, `runCurrentThread` has a single task and does not). -/
def assignStarts (fr : List FA) (bump : Bool) : List TaskInfo → Nat → Nat → List TaskOut
  | [], _, _ => []
  | t :: rest, k, start =>
    ⟨k, t.size, start, taskArrays fr t⟩ ::
      assignStarts fr bump rest (k + 1) (if bump then start + t.size else start)

/-- `BaseJob::run` after `applyFilter`: `taskCount` = what the (possibly overridden) virtual returns -/
def runJob (mode : Mode) (fr : List FA) (taskCount : Nat) : List TaskOut :=
  if totalCount fr < 1 then []
  else match mode with
    | .current => assignStarts fr false (runTasks fr 1) 0 0
    | _ => assignStarts fr true (runTasks fr (max 1 taskCount)) 0 0

/-- one call of the user function of a typed `PerEntityJob` taking `JobInvocationIndex` -/
structure Inv where
  task : Nat
  arch : Nat
  idx : Nat          -- entity index inside the archetype
  eindex : Nat       -- invocation_index.entity_index
  inTask : Nat       -- invocation_index.entity_index_in_task
deriving Repr, DecidableEq, Inhabited

/-- invocations of one task: arrays in order, `n` = entities of the task already visited -/
def arraysInvs (task start : Nat) : List Arr → Nat → List Inv
  | [], _ => []
  | x :: rest, n =>
    (unrolled x.len n).map (fun p => ⟨task, x.arch, x.first + p.1, start + p.2, p.2⟩) ++
      arraysInvs task start rest (n + x.len)

def invocations (outs : List TaskOut) : List Inv :=
  outs.flatMap fun t => arraysInvs t.id t.start t.arrays 0

/-- one callback of a `NonTemplateJob` (array form) -/
structure NtCall where
  task : Nat
  arch : Nat
  first : Nat
  len : Nat
  eindex : Nat
  inTask : Nat
deriving Repr, DecidableEq, Inhabited

def arraysNt (task start : Nat) : List Arr → Nat → List NtCall
  | [], _ => []
  | x :: rest, n => ⟨task, x.arch, x.first, x.len, start + n, n⟩ :: arraysNt task start rest (n + x.len)

def ntCalls (outs : List TaskOut) : List NtCall :=
  outs.flatMap fun t => arraysNt t.id t.start t.arrays 0

/-! ## Reference (what the property says must be visited) -/

/-- entity indices of one archetype that pass the chunk filter, ascending -/
def selectedOf (a : ArchCfg) : List Nat :=
  (List.range a.size).filter fun j => a.changed (j / a.cs)

/-- the selected sequence: per matching archetype (index order, starting at `i`), ascending -/
def selected (req reqShared : List Nat) : List ArchCfg → Nat → List (Nat × Nat)
  | [], _ => []
  | a :: rest, i =>
    (if matchArch req reqShared a then (selectedOf a).map (fun j => (i, j)) else []) ++
      selected req reqShared rest (i + 1)

end Mustache.Iteration

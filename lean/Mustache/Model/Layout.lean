/-!
# Chunk layout of `DefaultComponentDataStorage` and the command-buffer allocator (C10)

Mirrors `/repo/src/mustache/ecs/default_component_data_storage.cpp` (constructor, `getDataUnsafe`):

```
auto offset = ComponentOffset::make(0u);
mask.forEachItem([&](ComponentId id) {                     // ascending component id
    const auto& info = ComponentFactory::instance().componentInfo(id);
    <chunk_align_ rule>                                    // see `Rule`
    getter.offset = offset.alignAs(info.align);            // (offset - 1 + align) / align * align
    getter.size   = info.size;
    component_getter_info_.push_back(getter);
    offset = getter.offset.add(chunk_capacity_ * info.size);
});
chunk_size_ = offset.alignAs(chunk_align_);
if (chunk_size_ == 0) chunk_size_ = chunk_align_;          // only zero-sized components: one alignment unit
...
chunk = memory_manager_->allocate(chunk_size_, chunk_align_);              // allocateChunk
ptr   = chunks_[index / chunk_capacity_] + info.offset + info.size * (index % chunk_capacity_)
```

and `TemporalStorage::allocate(size, align)` of `temporal_storage.cpp`.

Natural numbers throughout; the 32-bit arithmetic of the code agrees with it as long as nothing
overflows (bridge theorems `alignUp_eq_generated`, `split_index` in `Props/C10.lean` are about the
GENERATED `Mustache.Gen.w_align / w_div / w_mod`). Core Lean only (linked into the driver).
-/
namespace Mustache.Model.Layout

/-- size and alignment of one component type (`ComponentInfo::size`, `::align`) -/
structure Comp where
  size : Nat
  align : Nat
deriving Repr, DecidableEq

/-- `ComponentOffset::alignAs`: `(off - 1 + a) / a * a` -/
def alignUp (off a : Nat) : Nat := (off + a - 1) / a * a

/-- `ComponentDataGetter` -/
structure Getter where
  offset : Nat
  size : Nat
deriving Repr, DecidableEq

/-- how `chunk_align_` is chosen: `first` is the rule of the pinned tree (the component visited while the
running offset is still 0), `largest` the repaired rule (largest member alignment). -/
inductive Rule where
  | first
  | largest
deriving Repr, DecidableEq

/-- loop state of the constructor -/
structure Build where
  offset : Nat
  chunkAlign : Nat
  getters : List Getter
deriving Repr

def Build.init : Build := ⟨0, 0, []⟩

/-- one iteration of `mask.forEachItem` -/
def step (rule : Rule) (cap : Nat) (b : Build) (c : Comp) : Build :=
  let ca := match rule with
    | .first => if b.offset = 0 then c.align else b.chunkAlign
    | .largest => max b.chunkAlign c.align
  let o := alignUp b.offset c.align
  { offset := o + cap * c.size, chunkAlign := ca, getters := b.getters ++ [⟨o, c.size⟩] }

def build (rule : Rule) (cap : Nat) (cs : List Comp) : Build := cs.foldl (step rule cap) Build.init

/-- `chunk_size_` from the running end offset: rounded up to the chunk alignment; a chunk of zero-sized
components only still gets one alignment unit, so that it has an address -/
def roundChunk (e chunkAlign : Nat) : Nat :=
  if alignUp e chunkAlign = 0 then chunkAlign else alignUp e chunkAlign

/-- the finished storage description -/
structure Layout where
  cap : Nat
  getters : List Getter
  chunkSize : Nat
  chunkAlign : Nat
deriving Repr

/-- `DefaultComponentDataStorage::DefaultComponentDataStorage(mask, …)` for the components `cs`
(in id order) and storage-chunk capacity `cap`; an empty mask leaves everything 0 -/
def layout (rule : Rule) (cap : Nat) (cs : List Comp) : Layout :=
  let b := build rule cap cs
  { cap := cap, getters := b.getters, chunkAlign := b.chunkAlign,
    chunkSize := if cs.isEmpty then 0 else roundChunk b.offset b.chunkAlign }

/-! ## Recursive reading of the same fold (what the theorems are stated about) -/

/-- offset of column `i` when the running offset before the list is `e` -/
def offsetOf (cap : Nat) : Nat → List Comp → Nat → Nat
  | e, [], _ => e
  | e, c :: _, 0 => alignUp e c.align
  | e, c :: cs, i + 1 => offsetOf cap (alignUp e c.align + cap * c.size) cs i

/-- running offset after the whole list -/
def endOf (cap : Nat) : Nat → List Comp → Nat
  | e, [] => e
  | e, c :: cs => endOf cap (alignUp e c.align + cap * c.size) cs

/-- the getters pushed for the list -/
def colsFrom (cap : Nat) : Nat → List Comp → List Getter
  | _, [] => []
  | e, c :: cs => ⟨alignUp e c.align, c.size⟩ :: colsFrom cap (alignUp e c.align + cap * c.size) cs

/-- the repaired rule as a function of the component list: the largest alignment -/
def maxAlign (cs : List Comp) : Nat := cs.foldl (fun m c => max m c.align) 0

/-- the pinned rule as a function of the component list and the capacity: the alignment of the last
component visited while the running offset is 0 (the first one, or a later one when everything before it
has size 0) -/
def firstAlign (cap : Nat) : Nat → Nat → List Comp → Nat
  | _, ca, [] => ca
  | e, ca, c :: cs =>
    firstAlign cap (alignUp e c.align + cap * c.size) (if e = 0 then c.align else ca) cs

/-- size of a chunk for a given chunk alignment -/
def chunkSizeOf (cap : Nat) (cs : List Comp) (chunkAlign : Nat) : Nat :=
  roundChunk (endOf cap 0 cs) chunkAlign

/-- offset of slot `k` of column `i` relative to the chunk base (`info.offset + info.size * k`) -/
def rel (cap : Nat) (cs : List Comp) (i k : Nat) : Nat :=
  offsetOf cap 0 cs i + k * (cs.getD i ⟨0, 0⟩).size

/-- `getDataUnsafe(component i, index j)`: `chunks_[j / cap] + offset_i + (j % cap) * size_i` -/
def addr (cap : Nat) (cs : List Comp) (base : Nat → Nat) (i j : Nat) : Nat :=
  base (j / cap) + rel cap cs i (j % cap)

/-! ## `TemporalStorage::allocate` (command buffer)

`chunks` holds the `DataChunk`s NEWEST FIRST (`chunks_.back()` is the head); chunk `k` of the C++ vector is
element `length - 1 - k`. `base` is the address of `data.get()`; the address of a new chunk is an input
(`nb`): it is whatever `new std::byte[size]` returns. -/

structure TChunk where
  base : Nat
  capacity : Nat
  free : Nat
deriving Repr, DecidableEq

structure TState where
  chunks : List TChunk
  target : Nat
  total : Nat
deriving Repr

def TState.init : TState := ⟨[], 4096, 0⟩

def TChunk.used (c : TChunk) : Nat := c.capacity - c.free

/-- bytes to skip so that the next free byte of the chunk is aligned -/
def padding (align : Nat) (c : TChunk) : Nat :=
  if align < 2 then 0 else (align - (c.base + c.used) % align) % align

/-- does the request fit the newest chunk? -/
def fits (s : TState) (size align : Nat) : Bool :=
  match s.chunks with
  | [] => false
  | c :: _ => !(c.free < size + padding align c)

/-- result of one allocation: index of the chunk in the C++ vector, offset inside it -/
structure TRes where
  chunk : Nat
  offset : Nat
  size : Nat
deriving Repr, DecidableEq

/-- state after the "open a new chunk if needed" part -/
def ensure (s : TState) (nb size align : Nat) : TState :=
  if fits s size align then s
  else
    let required := size + align
    let target := if s.target < required then required else s.target
    { s with target := target, chunks := ⟨nb, target, target⟩ :: s.chunks }

def allocate (s : TState) (nb size align : Nat) : TState × TRes :=
  let s1 := ensure s nb size align
  match s1.chunks with
  | [] => (s1, ⟨0, 0, size⟩)          -- unreachable: `ensure` leaves a chunk
  | c :: rest =>
    let pad := padding align c
    let off := c.used + pad
    ({ s1 with chunks := { c with free := c.free - (size + pad) } :: rest, total := s1.total + (size + pad) },
     ⟨rest.length, off, size⟩)

/-- `TemporalStorage::clear` -/
def clear (s : TState) : TState :=
  { chunks := match s.chunks with
      | [c] => [{ c with free := c.capacity }]
      | _ => [],
    target := s.total, total := 0 }

/-- a request: the address a fresh chunk would get, size, alignment -/
structure TReq where
  nb : Nat
  size : Nat
  align : Nat
deriving Repr

/-- a whole locked section: the allocations of one thread's buffer, in order -/
def runAllocs : TState → List TReq → TState × List TRes
  | s, [] => (s, [])
  | s, r :: rs =>
    let (s1, x) := allocate s r.nb r.size r.align
    let (s2, xs) := runAllocs s1 rs
    (s2, x :: xs)

/-- address of the chunk with C++ index `k` -/
def chunkBase (s : TState) (k : Nat) : Nat :=
  (s.chunks.getD (s.chunks.length - 1 - k) ⟨0, 0, 0⟩).base

def chunkCapacity (s : TState) (k : Nat) : Nat :=
  (s.chunks.getD (s.chunks.length - 1 - k) ⟨0, 0, 0⟩).capacity

/-! ## population bookkeeping of the storage (`reserve`, `emplace`, `decrSize`, `clear`)

```
void reserve(size_t n)  { while (chunk_size_ > 0u && capacity() < n) allocateChunk(); }   // capacity() = cap * chunks_.size()
void emplace(index pos) { reserve(pos + 1); if (size_ < pos + 1) size_ = pos + 1; }
void decrSize()         { --size_; }
void clear(bool free)   { if (free) { free every chunk; chunks_.clear(); } size_ = 0; }
``` -/

structure Store where
  cap : Nat
  chunkSize : Nat
  nchunks : Nat
  size : Nat
deriving Repr, DecidableEq

/-- the `while` loop of `reserve`, at most `fuel` iterations -/
def reserveFuel : Nat → Store → Nat → Store
  | 0, s, _ => s
  | f + 1, s, n =>
    if s.chunkSize > 0 ∧ s.cap * s.nchunks < n then reserveFuel f { s with nchunks := s.nchunks + 1 } n else s

/-- `reserve(n)`: `n` iterations are enough whenever the capacity is positive -/
def Store.reserve (s : Store) (n : Nat) : Store := reserveFuel n s n

inductive SOp where
  | emplace (pos : Nat)
  | decr
  | clear (free : Bool)
deriving Repr, DecidableEq

def Store.step (s : Store) : SOp → Store
  | .emplace pos =>
    let s1 := s.reserve (pos + 1)
    { s1 with size := if s1.size < pos + 1 then pos + 1 else s1.size }
  | .decr => { s with size := s.size - 1 }
  | .clear free => { s with size := 0, nchunks := if free then 0 else s.nchunks }

def Store.run (s : Store) (ops : List SOp) : Store := ops.foldl Store.step s

end Mustache.Model.Layout

import Mustache.Model.WorldStep
/-! # Lifecycle event model (C03): which constructor / move / destructor calls one API call performs

Slots: `(archetype index, component id, row index)` for instances stored in an archetype column, and
`(thread, sequence number)` (tagged with the component id) for temporaries parked in a command buffer
(`TemporalStorage::actions_[seq].ptr` of the buffer of thread `thread`).

`WM.events info w op` lists, in the order the C++ performs them, the lifecycle calls of the API call `op`
issued on state `w` (archetype.cpp: insert 179-205, externalMove 147-177, remove 272-297 + internalMove
227-253 + callDestructor 111-117, clear 304-326, cloneEntity 207-225; entity_manager.hpp: assignUnique,
initComponent, updateComponents/initComponents; entity_manager.cpp: applyCommandPack 298-440, applyStorage
485-515; temporal_storage.cpp 5-26).

DECISION: events are listed for EVERY component of a mask, i.e. as if the type had all four functions
(create, move-constructor, move-assignment, destroy). For a type that lacks one (trivially constructible /
destructible) the corresponding call is a no-op or a `memcpy` in the code, the event then only marks begin /
end of the lifetime of the value in that slot. The instrumented types of the harness (`counted`: B, G) have all
four, and for them the per-call counts are compared with the implementation (`EV` lines).
Core Lean only. -/
namespace Mustache.Model

inductive LSlot where
  | stored (arch : Nat) (c : CompId) (row : Nat)
  | temp (thread : Nat) (seq : Nat) (c : CompId)
deriving DecidableEq, Repr

def LSlot.comp : LSlot → CompId
  | .stored _ c _ => c
  | .temp _ _ c => c

inductive Event where
  | construct (s : LSlot)                 -- default / value constructor in place
  | copyConstruct (dst src : LSlot)       -- clone
  | moveConstruct (dst src : LSlot)
  | moveAssign (dst src : LSlot)
  | destroy (s : LSlot)
deriving DecidableEq, Repr

/-- the slot an event writes / ends -/
def Event.dst : Event → LSlot
  | .construct s => s | .copyConstruct d _ => d | .moveConstruct d _ => d | .moveAssign d _ => d | .destroy s => s

/-! ## the per-slot automaton: dead → live → dead -/

/-- the set of live slots -/
abbrev SlotState := LSlot → Bool

def SlotState.empty : SlotState := fun _ => false
def SlotState.set (s : SlotState) (x : LSlot) (b : Bool) : SlotState := fun y => if y = x then b else s y

/-- construct only over a dead slot; destroy, move-from, copy-from, move-assign-to only on live slots;
a moved-from instance stays live until it is destroyed -/
def acceptStep (s : SlotState) : Event → Option SlotState
  | .construct x => if s x then none else some (s.set x true)
  | .copyConstruct d x => if s x && !s d then some (s.set d true) else none
  | .moveConstruct d x => if s x && !s d then some (s.set d true) else none
  | .moveAssign d x => if s d && s x then some s else none
  | .destroy x => if s x then some (s.set x false) else none

def accepts (s : SlotState) : List Event → Option SlotState
  | [] => some s
  | e :: es => (acceptStep s e).bind (fun s' => accepts s' es)

/-! ## the live-slot set a world state implies -/

/-- stored instances: one per row and component of the archetype's mask -/
def storedLive (w : WM) : SlotState
  | .stored a c i => (w.arch a).mask.contains c && decide (i < (w.arch a).rows.length)
  | .temp _ _ _ => false

/-- parked temporaries: one per recorded assign command -/
def tempLive (bufs : List (List Cmd)) : SlotState
  | .temp t k c =>
    match (bufs.getD t [])[k]? with
    | some (.assign _ c' _) => c' == c
    | _ => false
  | .stored _ _ _ => false

/-- `{(a,c,i) | c ∈ mask a ∧ i < rows a} ∪ parked temporaries` -/
def slotsOf (w : WM) : SlotState := fun s => storedLive w s || tempLive w.buffers s

/-! ## archetype primitives, on (index, mask, size) -/

/-- `Archetype::insert(entity, skip)`: the new row is `n`; nothing is constructed when `skip == mask` -/
def insertEvents (ai : Nat) (mask : Mask) (n : Nat) (skip : Mask) : List Event :=
  if skip == mask then [] else
  (mask.filter (fun c => !skip.contains c)).map (fun c => .construct (.stored ai c n))

/-- `Archetype::remove` of row `idx` of an archetype with `len` rows: the last row is destroyed in place,
any other row is move-assigned from the last row, whose instances are then destroyed -/
def removeEvents (ai : Nat) (mask : Mask) (idx len : Nat) : List Event :=
  if idx = len - 1 then mask.map (fun c => .destroy (.stored ai c idx))
  else mask.map (fun c => .moveAssign (.stored ai c idx) (.stored ai c (len - 1))) ++
       mask.map (fun c => .destroy (.stored ai c (len - 1)))

/-- the loop of `Archetype::externalMove`: new row `n` of target `t`, in component-index order -/
def moveInEvents (t : Nat) (tm : Mask) (n : Nat) (p : Nat) (pm : Mask) (i : Nat) (skip : Mask) : List Event :=
  (tm.filter (fun c => pm.contains c || !skip.contains c)).map (fun c =>
    if pm.contains c then .moveConstruct (.stored t c n) (.stored p c i) else .construct (.stored t c n))

/-- `Archetype::clear`: component-major -/
def clearEvents (ai : Nat) (mask : Mask) (n : Nat) : List Event :=
  mask.flatMap (fun c => (List.range n).map (fun i => .destroy (.stored ai c i)))

/-- `Archetype::cloneEntity`: new row `n` copy-constructed from row `idx` -/
def cloneEvents (ai : Nat) (mask : Mask) (n idx : Nat) : List Event :=
  mask.map (fun c => .copyConstruct (.stored ai c n) (.stored ai c idx))

/-- destruction of the temporaries of one command buffer (`applyStorage` 507-514, `~TemporalStorage`) -/
def tempDestroyEvents (t : Nat) (buf : List Cmd) : List Event :=
  buf.zipIdx.filterMap (fun ck => match ck.1 with
    | .assign _ c _ => some (.destroy (.temp t ck.2 c))
    | _ => none)

def WM.archInsertEvents (w : WM) (ai : Nat) (skip : Mask) : List Event :=
  insertEvents ai (w.arch ai).mask (w.arch ai).rows.length skip

def WM.archRemoveEvents (w : WM) (ai idx : Nat) : List Event :=
  match (w.arch ai).rows[idx]? with
  | none => []
  | some _ => removeEvents ai (w.arch ai).mask idx (w.arch ai).rows.length

def WM.externalMoveEvents (w : WM) (target prev prevIdx : Nat) (skip : Mask) : List Event :=
  if target = prev then [] else
  moveInEvents target (w.arch target).mask (w.arch target).rows.length prev (w.arch prev).mask prevIdx skip ++
    w.archRemoveEvents prev prevIdx

def WM.destroyNowUEvents (w : WM) (h : Handle) : List Event :=
  if !w.isValid h then [] else
  match (w.locOf h).arch with
  | some ai => w.archRemoveEvents ai (w.locOf h).idx
  | none => []

def WM.clearArchEvents (w : WM) (ai : Nat) : List Event :=
  clearEvents ai (w.arch ai).mask (w.arch ai).rows.length

variable (info : CompId → CompInfo)

/-! ## API calls -/

/-- `assign<C>(e, args…)` / `assign<C>(e)`; locked: the temporary is command number `|buffer t|` of thread `t` -/
def WM.assignEvents (w : WM) (t : Nat) (e : Handle) (c : CompId) (v : Option Nat) : List Event :=
  if w.isLocked then [.construct (.temp t (w.buffers.getD t []).length c)]
  else
    let l := w.locOf e
    match l.arch with
    | none => []
    | some pi =>
      let pa := w.arch pi
      let mask := Mask.insert pa.mask c
      let (w1, ti) := w.getArch mask pa.shared
      if ti = pi then [] else
      w1.externalMoveEvents ti pi l.idx (if v.isSome then mask else []) ++
        (if v.isSome && (w1.arch ti).mask.contains c then
          [.construct (.stored ti c (w1.arch ti).rows.length)] else [])

def WM.removeCompEvents (w : WM) (e : Handle) (c : CompId) : List Event :=
  if w.isLocked then [] else if !w.isValid e then [] else
  let l := w.locOf e
  match l.arch with
  | none => []
  | some pi =>
    let pa := w.arch pi
    if !pa.mask.contains c then [] else
    let (w1, ti) := w.getArch (Mask.erase pa.mask c) pa.shared
    w1.externalMoveEvents ti pi l.idx []

/-- the in-place constructions of the builder arguments (`initComponent`), in call order -/
def initEvents (ti : Nat) (tm : Mask) (idx : Nat) (adds : List (CompId × Option Nat)) : List Event :=
  (adds.filter (fun p => tm.contains p.1)).map (fun p => .construct (.stored ti p.1 idx))

def WM.buildUpdateEvents (w : WM) (e : Handle) (adds : List (CompId × Option Nat)) (rems : Mask) : List Event :=
  let l := w.locOf e
  match l.arch with
  | none => []
  | some pi =>
    let pa := w.arch pi
    let addMask := Mask.ofList (adds.map (·.1))
    let mask := Mask.diff (Mask.union addMask pa.mask) rems
    let sh := Shared.null.merge pa.shared
    let (w1, ti) := w.getArch mask sh
    if ti = pi then [] else
    w1.externalMoveEvents ti pi l.idx addMask ++ initEvents ti (w1.arch ti).mask (w1.arch ti).rows.length adds

def WM.buildNewEvents (w : WM) (adds : List (CompId × Option Nat)) : List Event :=
  let w := (w.allocId).1        -- `createWithOutInit` comes first (it does not touch the archetypes)
  if adds.isEmpty then
    let (w1, ai) := w.getArch [] Shared.null
    w1.archInsertEvents ai []
  else
    let mask := Mask.ofList (adds.map (·.1))
    let (w1, ai) := w.getArch mask Shared.null
    w1.archInsertEvents ai mask ++ initEvents ai (w1.arch ai).mask (w1.arch ai).rows.length adds

/-- a run of locked `assign` calls on thread `t` (builder under lock) -/
def WM.assignRunEvents (w : WM) (t : Nat) (e : Handle) (adds : List (CompId × Option Nat)) : List Event :=
  (adds.foldl (fun (acc : WM × List Event) p =>
    ((acc.1.assign info t e p.1 p.2).1, acc.2 ++ acc.1.assignEvents t e p.1 p.2)) (w, [])).2

def WM.sharedMoveEvents (w : WM) (e : Handle) (sh : Shared → Shared) : List Event :=
  let l := w.locOf e
  match l.arch with
  | none => []
  | some pi =>
    let pa := w.arch pi
    let (w1, ti) := w.getArch pa.mask (sh pa.shared)
    w1.externalMoveEvents ti pi l.idx []

/-! ## the deferred path -/

/-- the folding state of `applyCommandPack` together with the buffer index of the assign command that
supplies each value (`value_source`) and the events performed so far -/
structure PackLife where
  w : WM
  p : PackSt
  srcIdx : List (CompId × Nat) := []
  evs : List Event := []

def packLifeStep (e : Handle) (isCreate : Bool) (acc : PackLife) (ck : Cmd × Nat) : PackLife :=
  if acc.p.dead then acc else
  match ck.1 with
  | .destroyNow _ =>
    if isCreate then { acc with w := acc.w.release e, p := { acc.p with dead := true } }
    else { acc with w := (acc.w.destroyNowU info e).1, p := { acc.p with dead := true },
                    evs := acc.evs ++ acc.w.destroyNowUEvents e }
  | .create .. => acc
  | .destroy h => { acc with w := { acc.w with marked := insertSorted acc.w.marked h } }
  | .remove _ c =>
    if acc.p.final.contains c then
      let next := closedMask acc.w.deps (Mask.erase acc.p.final c)
      if next.contains c then { acc with p := { acc.p with final := next } }
      else { acc with p := { acc.p with final := next, replaced := Mask.insert acc.p.replaced c,
                                        src := acc.p.src.filter (·.1 != c) },
                      srcIdx := acc.srcIdx.filter (·.1 != c) }
    else acc
  | .assign _ c v =>
    let src := acc.p.src.filter (·.1 != c) ++ [(c, v)]
    let srcIdx := acc.srcIdx.filter (·.1 != c) ++ [(c, ck.2)]
    if acc.p.final.contains c then
      { acc with p := { acc.p with replaced := Mask.insert acc.p.replaced c, src := src }, srcIdx := srcIdx }
    else
      { acc with p := { acc.p with final := closedMask acc.w.deps (Mask.insert acc.p.final c), src := src },
                 srcIdx := srcIdx }

/-- the archetype a pack ends in, as in `WM.applyPack`: an existing entity whose component set did not change stays in
its archetype (no lookup); otherwise `getArchetype` of the final set -/
def packTargetArch (e : Handle) (isCreate : Bool) (initial : Mask) (sh : Shared) (w : WM) (p : PackSt) : WM × Nat :=
  let stay : Option Nat := if isCreate || !(initial == p.final) then none else (w.locOf e).arch
  match stay with
  | some pi => (w, pi)
  | none => w.getArch p.final sh

/-- the second half of `applyCommandPack`: the single insertion / move, the stale instances, the supplied values.
The entity's row afterwards (`locations_[entity.id()].index`) is the new last row of the target when it was inserted
or moved, else the row it is in. -/
def packFinishEvents (t : Nat) (e : Handle) (isCreate : Bool) (initial : Mask) (sh : Shared) (st : PackLife) :
    List Event :=
  if st.p.dead then st.evs else
  let p := st.p
  let supplied := Mask.ofList (p.src.map (·.1))
  let g : WM × Nat := packTargetArch e isCreate initial sh st.w p
  let w := g.1
  let ti := g.2
  let tm := (w.arch ti).mask
  let moved : List Event × Nat :=
    if isCreate then (w.archInsertEvents ti supplied, (w.arch ti).rows.length)
    else
      match (w.locOf e).arch with
      | some pi => if pi = ti || initial == p.final then ([], (w.locOf e).idx) else
          (w.externalMoveEvents ti pi (w.locOf e).idx supplied, (w.arch ti).rows.length)
      | none => ([], (w.locOf e).idx)
  let idx := moved.2
  let stale := (p.final.filter (fun c => p.replaced.contains c && initial.contains c)).filter
    (fun c => !(isCreate && supplied.contains c) && tm.contains c)
  let evs2 := stale.flatMap (fun c =>
    Event.destroy (.stored ti c idx) :: (if supplied.contains c then [] else [Event.construct (.stored ti c idx)]))
  let evs3 := (st.srcIdx.filter (fun ck => tm.contains ck.1)).map (fun ck =>
    Event.moveConstruct (.stored ti ck.1 idx) (.temp t ck.2 ck.1))
  st.evs ++ moved.1 ++ evs2 ++ evs3

/-- `applyCommandPack` on the commands `off, off+1, …` of the buffer of thread `t` -/
def WM.packEvents (w : WM) (t off : Nat) (pack : List Cmd) : List Event :=
  match pack with
  | [] => []
  | first :: rest =>
    let e := first.entity
    let isCreate := match first with | .create .. => true | _ => false
    let start : Option (WM × Mask × Shared) :=
      match first with
      | .create _ m sh =>
        let w := w.ensureId e.id
        some ({ w with slots := w.slots.set e.id ⟨e.id, e.ver⟩ }, m, sh)
      | _ =>
        if !w.isValid e then none else
        match (w.locOf e).arch with
        | none => none
        | some ai => some (w, (w.arch ai).mask, (w.arch ai).shared)
    match start with
    | none => []
    | some (w1, initial0, sh) =>
      let initial := if isCreate then closedMask w1.deps initial0 else initial0
      let body := if isCreate then rest.zipIdx (off + 1) else pack.zipIdx off
      packFinishEvents t e isCreate initial sh
        (body.foldl (packLifeStep info e isCreate) { w := w1, p := { final := initial } })

/-- the packs of one buffer, in log order; returns the state after them -/
def WM.packsEvents (w : WM) (t : Nat) : Nat → List (List Cmd) → WM × List Event
  | _, [] => (w, [])
  | off, p :: ps =>
    let r := WM.packsEvents (w.applyPack info p).1 t (off + p.length) ps
    (r.1, w.packEvents info t off p ++ r.2)

/-- `onUnlock`: per buffer (thread-id order) its packs, then the destruction of its temporaries -/
def WM.flushEvents (w : WM) : List Event :=
  let bufs := w.buffers
  let w := { w with buffers := bufs.map (fun _ => []) }
  (bufs.zipIdx.foldl (fun (acc : WM × List Event) bt =>
    let r := acc.1.packsEvents info bt.2 0 (packs bt.1)
    (r.1, acc.2 ++ r.2 ++ tempDestroyEvents bt.2 bt.1)) (w, [])).2

/-- world teardown (`~EntityManager`: the archetypes in index order, then the command buffers) -/
def WM.teardownEvents (w : WM) : List Event :=
  (List.range w.archs.length).flatMap (fun ai => w.clearArchEvents ai) ++
  w.buffers.zipIdx.flatMap (fun bt => tempDestroyEvents bt.2 bt.1)

/-- the lifecycle events of one API call issued on state `w` -/
def WM.events (w : WM) : Op Handle → List Event
  | .create _ mask shared =>
    let (w, sh) := shared.foldl (fun (acc : WM × Shared) sid =>
      let (w', inst) := acc.1.poolGet sid 0
      (w', acc.2.add sid inst)) (w, Shared.null)
    if w.isLocked then [] else
    let (w1, ai) := w.getArch mask sh
    w1.archInsertEvents ai []
  | .assign t e c v => w.assignEvents t e c v
  | .remove _ e c => w.removeCompEvents e c
  | .buildNew t adds =>
    if w.isLocked then
      let (w1, h) := w.createLocked t [] Shared.null
      w1.assignRunEvents info t h adds
    else w.buildNewEvents adds
  | .build t e adds rems =>
    if w.isLocked then w.assignRunEvents info t e adds
    else w.buildUpdateEvents e adds rems
  | .destroy _ _ => []
  | .destroyNow _ e => if w.isLocked then [] else w.destroyNowUEvents e
  | .clone e =>
    if !w.isValid e then [] else
    match (w.locOf e).arch with
    | none => []
    | some ai => cloneEvents ai (w.arch ai).mask (w.arch ai).rows.length (w.locOf e).idx
  | .sassign e sid v =>
    match (w.locOf e).arch with
    | none => []
    | some _ =>
      let (w0, inst) := w.poolGet sid v
      w0.sharedMoveEvents e (fun s => s.add sid inst)
  | .sremove e sid =>
    if !w.isValid e then [] else
    match (w.locOf e).arch with
    | none => []
    | some pi => if !(w.arch pi).shared.has sid then [] else w.sharedMoveEvents e (fun s => s.remove sid)
  | .clearArch mask =>
    let i := w.archs.findIdx (fun a => a.mask == mask)
    if i < w.archs.length then w.clearArchEvents i else []
  | .update =>
    if w.isLocked then [] else
    (w.marked.foldl (fun (acc : WM × List Event) h =>
      ((acc.1.destroyNowU info h).1, acc.2 ++ acc.1.destroyNowUEvents h)) (w, [])).2
  | .lock => []
  | .unlock =>
    let w := if w.lockDepth > 0 then { w with lockDepth := w.lockDepth - 1 } else w
    if w.lockDepth = 0 then w.flushEvents info else []
  | .dep _ _ => []
  | .valid _ => []
  | .has _ _ => []
  | .hasShared _ _ => []
  | .get _ _ => []
  | .archOf _ => []

/-! ## counts per component type (the `EV` line of the drivers) -/

/-- (constructs incl. copy-constructs, move-constructs, move-assigns, destroys) of component `c` -/
def evCount (evs : List Event) (c : CompId) : Nat × Nat × Nat × Nat :=
  evs.foldl (fun n e =>
    if e.dst.comp != c then n else
    match e with
    | .construct _ => (n.1 + 1, n.2)
    | .copyConstruct _ _ => (n.1 + 1, n.2)
    | .moveConstruct _ _ => (n.1, n.2.1 + 1, n.2.2)
    | .moveAssign _ _ => (n.1, n.2.1, n.2.2.1 + 1, n.2.2.2)
    | .destroy _ => (n.1, n.2.1, n.2.2.1, n.2.2.2 + 1)) (0, 0, 0, 0)

end Mustache.Model

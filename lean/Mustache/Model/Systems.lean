import Mustache.Spec.Systems
/-!
# Model of `SystemManager` / `ASystem` (src/mustache/ecs/system_manager.cpp, system.cpp)

Follows the C++ data structures: `systems_info` (insertion order, holds the configs),
`ordered_systems` (object identities), `group_priorities`, `system_by_name`, `was_init`.
Objects (`shared_ptr<ASystem>`) are identified by `uid` = ordinal of the `addSystem` call.
User callbacks are assumed not to throw and not to call back into the manager.
-/
namespace Mustache.Systems

/-! ## `ASystem` : state machine with guards (system.cpp:10-96) -/

inductive St
  | uninit | inited | configured | stopped | active | paused
deriving DecidableEq, Repr

/-- The public transition functions of `ASystem`. -/
inductive Tr
  | create | configure | start | update | pause | stop | resume | destroy
deriving DecidableEq, Repr

/-- `ASystem::<t>()` in state `s`: `none` = `checkState` threw "Invalid state" (no callback ran, state
unchanged); otherwise the new state and the callbacks that ran. -/
def St.apply : Tr → St → Option (St × List Cb)
  | .create, .uninit => some (.inited, [.create])
  | .configure, .inited => some (.configured, [.configure])
  | .start, .configured => some (.active, [.start])
  | .update, .active => some (.active, [.update])
  | .pause, .active => some (.paused, [.pause])
  | .stop, .paused => some (.stopped, [.stop])
  | .resume, .paused => some (.active, [.resume])
  -- destroy has no guard: pauses if active, stops if paused, then onDestroy
  | .destroy, .active => some (.uninit, [.pause, .stop, .destroy])
  | .destroy, .paused => some (.uninit, [.stop, .destroy])
  | .destroy, _ => some (.uninit, [.destroy])
  | _, _ => none

/-! ## manager state -/

structure Config where
  before : List Name
  after : List Name
  group : Nat
  prio : Int
deriving DecidableEq, Repr

def Config.default : Config := ⟨[], [], 0, 0⟩

/-- `SystemManager::Data::SystemInfo` plus the object it points to. -/
structure SysInfo where
  uid : Nat
  name : Name
  /-- what the system's `onConfigure` writes into the config -/
  decl : Config
  /-- `SystemInfo::config` (default-constructed until `configure` ran) -/
  config : Config
  st : St
deriving Repr

/-- an observed callback: which object, which callback -/
structure Ev where
  uid : Nat
  cb : Cb
deriving DecidableEq, Repr

inductive Outcome
  | ok
  | invalidState     -- std::runtime_error("Invalid state")
  | cannotReorder    -- std::runtime_error("Can not reorder systems")
  | aborted          -- exception inside a noexcept function: std::terminate
deriving DecidableEq, Repr

structure Mgr where
  wasInit : Bool := false
  systems : List SysInfo := []
  ordered : List Nat := []
  groups : List (Nat × Int) := []
  byName : List (Name × Nat) := []
  nextUid : Nat := 0
  /-- the process was terminated -/
  dead : Bool := false
  /-- ghost: identities removed so far -/
  removed : List Nat := []
  /-- ghost: the ordering problem solved by the last successful `reorderSystems` … -/
  snapSrc : List Node := []
  /-- … and its solution (`ordered = snap.map id`) -/
  snap : List Node := []
deriving Repr

def Mgr.empty : Mgr := {}

/-! ## calls on one system -/

/-- systems, callbacks observed so far (in order), and whether an exception is propagating -/
structure Run where
  ss : List SysInfo
  evs : List Ev := []
  ok : Bool := true
deriving Repr

def applyAt (u : Nat) (t : Tr) : List SysInfo → Option (List SysInfo × List Ev)
  | [] => some ([], [])
  | s :: rest =>
    if s.uid = u then
      match s.st.apply t with
      | none => none
      | some (st', cbs) =>
        let s' := if t = .configure then { s with st := st', config := s.decl } else { s with st := st' }
        some (s' :: rest, cbs.map (Ev.mk u))
    else
      match applyAt u t rest with
      | none => none
      | some (rest', evs) => some (s :: rest', evs)

/-- `system->t(world)` on object `u`, unless an exception is already propagating. -/
def Run.call (r : Run) (u : Nat) (t : Tr) : Run :=
  if !r.ok then r else
  match applyAt u t r.ss with
  | none => { r with ok := false }
  | some (ss', evs) => { r with ss := ss', evs := r.evs ++ evs }

def stateOf (ss : List SysInfo) (u : Nat) : Option St :=
  (ss.find? (fun s => s.uid == u)).map (·.st)

/-! ## `reorderSystems` (system_manager.cpp:111-175) -/

def groupPrio (groups : List (Nat × Int)) (g : Nat) : Int :=
  match groups.lookup g with
  | some p => p
  | none => 0

def toNode (groups : List (Nat × Int)) (s : SysInfo) : Node :=
  { id := s.uid, name := s.name, before := s.config.before, after := s.config.after,
    gprio := groupPrio groups s.config.group, prio := s.config.prio }

/-- `update_after` of `n` after every present system's `update_before` was folded in. -/
def effAfter (ns : List Node) (n : Node) : List Name :=
  n.after ++ (ns.filter (fun p => p.before.contains n.name)).map (·.name)

/-- the copy that is sorted and consumed: each present system with its effective `update_after` -/
def foldBefore (ns : List Node) : List (Node × List Name) :=
  ns.map fun n => (n, effAfter ns n)

/-- comparator of the sort: `a` may stand before `b` (descending (group priority, priority)) -/
def keyGe (a b : Node × List Name) : Bool := keyLe b.1 a.1

/-- the sort (insertion sort: `std::sort` promises no particular order of equal keys either) -/
def insertDesc (x : Node × List Name) : List (Node × List Name) → List (Node × List Name)
  | [] => [x]
  | y :: ys => if keyGe x y then x :: y :: ys else y :: insertDesc x ys

def sortDesc : List (Node × List Name) → List (Node × List Name)
  | [] => []
  | x :: xs => insertDesc x (sortDesc xs)

def canPlace (unplaced : List Name) (p : Node × List Name) : Bool :=
  p.2.all fun d => !unplaced.contains d

/-- first placeable entry and the list with that entry erased -/
def pick (unplaced : List Name) :
    List (Node × List Name) → Option ((Node × List Name) × List (Node × List Name))
  | [] => none
  | p :: ps =>
    if canPlace unplaced p then some (p, ps)
    else match pick unplaced ps with
      | none => none
      | some (q, rest) => some (q, p :: rest)

/-- the `while (!systems_cpy.empty())` loop; `none` = "Can not reorder systems" -/
def placeLoop : Nat → List (Node × List Name) → Option (List Node)
  | _, [] => some []
  | 0, _ :: _ => none
  | fuel + 1, x :: xs =>
    match pick ((x :: xs).map (·.1.name)) (x :: xs) with
    | none => none
    | some (p, rest) =>
      match placeLoop fuel rest with
      | none => none
      | some o => some (p.1 :: o)

def reorder (ns : List Node) : Option (List Node) :=
  placeLoop ns.length (sortDesc (foldBefore ns))

def Mgr.nodes (m : Mgr) : List Node := m.systems.map (toNode m.groups)

/-- `reorderSystems()`; `none` = it threw (nothing was assigned). -/
def Mgr.reorder (m : Mgr) : Option Mgr :=
  match Systems.reorder m.nodes with
  | none => none
  | some o => some { m with ordered := o.map (·.id), snapSrc := m.nodes, snap := o }

/-! ## manager operations -/

/-- lifecycle calls the user makes himself on a registered system -/
inductive ExtTr
  | pause | resume | stop
deriving DecidableEq, Repr

def ExtTr.toTr : ExtTr → Tr
  | .pause => .pause
  | .resume => .resume
  | .stop => .stop

inductive Op
  /-- `addSystem(make_shared<S>())` where `S` is named `name` and declares `decl`;
      `pre` = the user had already called `create()` on it -/
  | add (name : Name) (pre : Bool) (decl : Config)
  | remove (name : Name)
  | init
  | update
  | setGroup (g : Nat) (p : Int)
  /-- the user calls `findSystem(name)->pause()/resume()/stop()` -/
  | ext (name : Name) (t : ExtTr)
  /-- `~SystemManager` -/
  | teardown
deriving Repr

def setAssoc {β : Type} (k : Nat) (v : β) : List (Nat × β) → List (Nat × β)
  | [] => [(k, v)]
  | (k', v') :: rest => if k' = k then (k, v) :: rest else (k', v') :: setAssoc k v rest

def eraseAssoc {β : Type} (k : Nat) : List (Nat × β) → List (Nat × β)
  | [] => []
  | (k', v') :: rest => if k' = k then rest else (k', v') :: eraseAssoc k rest

/-- `init()`: configure the created ones (in `systems_info` order) -/
def configureAll (r : Run) : Run :=
  (r.ss.map (·.uid)).foldl
    (fun r u => if stateOf r.ss u = some .inited then r.call u .configure else r) r

/-- `init()`: start the configured ones (in order) -/
def startAll (ordered : List Nat) (r : Run) : Run :=
  ordered.foldl (fun r u => if stateOf r.ss u = some .configured then r.call u .start else r) r

/-- `update()`: start late-comers, update the active ones -/
def updateAll (ordered : List Nat) (r : Run) : Run :=
  ordered.foldl
    (fun r u =>
      let r1 := if stateOf r.ss u = some .configured then r.call u .start else r
      if stateOf r1.ss u = some .active then r1.call u .update else r1) r

def destroyAll (ordered : List Nat) (r : Run) : Run :=
  ordered.foldl (fun r u => r.call u .destroy) r

def outcomeOf (r : Run) : Outcome := if r.ok then .ok else .invalidState

/-- the new object after its `onCreate`: with `pre` the user called `create()` himself before handing the
object over, otherwise `addSystem` does because the object is still `kUninit` -/
def addRun (m : Mgr) (name : Name) (pre : Bool) (decl : Config) : Run :=
  let u := m.nextUid
  let s : SysInfo := { uid := u, name := name, decl := decl, config := Config.default, st := .uninit }
  let r : Run := { ss := m.systems ++ [s] }
  let r := if pre then r.call u .create else r
  if stateOf r.ss u = some .uninit then r.call u .create else r

def step (m : Mgr) : Op → Mgr × Outcome × List Ev
  | .add name pre decl =>
    if m.dead then (m, .aborted, []) else
    let u := m.nextUid
    let r := addRun m name pre decl
    let m1 := { m with systems := r.ss, nextUid := u + 1, byName := setAssoc name u m.byName }
    if !m.wasInit then (m1, outcomeOf r, r.evs) else
    let r := r.call u .configure
    let m2 := { m1 with systems := r.ss }
    if !r.ok then (m2, .invalidState, r.evs) else
    match m2.reorder with
    | none => (m2, .cannotReorder, r.evs)
    | some m3 => (m3, .ok, r.evs)
  | .remove name =>
    if m.dead then (m, .aborted, []) else
    match m.byName.lookup name with
    | none => (m, .ok, [])
    | some u =>
      let m1 := { m with ordered := m.ordered.filter (· ≠ u)
                         systems := m.systems.filter (·.uid ≠ u)
                         byName := eraseAssoc name m.byName
                         removed := u :: m.removed }
      match m1.reorder with
      | none => ({ m1 with dead := true }, .aborted, [])   -- removeSystem is noexcept
      | some m2 => (m2, .ok, [])
  | .init =>
    if m.dead then (m, .aborted, []) else
    if m.wasInit then (m, .ok, []) else
    let r := configureAll { ss := m.systems }
    let m1 := { m with wasInit := true, systems := r.ss }
    if !r.ok then (m1, .invalidState, r.evs) else
    match m1.reorder with
    | none => (m1, .cannotReorder, r.evs)
    | some m2 =>
      let r := startAll m2.ordered r
      ({ m2 with systems := r.ss }, outcomeOf r, r.evs)
  | .update =>
    if m.dead then (m, .aborted, []) else
    if !m.wasInit then (m, .ok, []) else
    let r := updateAll m.ordered { ss := m.systems }
    ({ m with systems := r.ss }, outcomeOf r, r.evs)
  | .setGroup g p =>
    if m.dead then (m, .aborted, []) else
    ({ m with groups := setAssoc g p m.groups }, .ok, [])
  | .ext name t =>
    if m.dead then (m, .aborted, []) else
    match m.byName.lookup name with
    | none => (m, .ok, [])
    | some u =>
      let r := (Run.mk m.systems [] true).call u t.toTr
      ({ m with systems := r.ss }, outcomeOf r, r.evs)
  | .teardown =>
    if m.dead then (m, .aborted, []) else
    let r := destroyAll m.ordered { ss := m.systems }
    ({ m with systems := r.ss, dead := true }, outcomeOf r, r.evs)

/-- run a history; the observation of every op is kept -/
def run : Mgr → List Op → Mgr × List (Outcome × List Ev)
  | m, [] => (m, [])
  | m, op :: ops =>
    let (m1, out, evs) := step m op
    let (m2, obs) := run m1 ops
    (m2, (out, evs) :: obs)

/-- all callbacks of a history, in order -/
def allEvents (obs : List (Outcome × List Ev)) : List Ev :=
  obs.flatMap (·.2)

/-- the callbacks object `u` saw -/
def traceOf (u : Nat) (evs : List Ev) : List Cb :=
  (evs.filter (fun e => e.uid == u)).map (·.cb)

/-- identities that received `onUpdate`, in sequence -/
def updatesOf (evs : List Ev) : List Nat :=
  (evs.filter (fun e => e.cb == .update)).map (·.uid)

/-- an op is well-formed in `m`: a system is added only under a name no registered system has
(the manager indexes systems by name; `System<T>::systemName()` is the type name) -/
def opWf (m : Mgr) : Op → Bool
  | .add name _ _ => !(m.systems.map (·.name)).contains name
  | _ => true

/-- well-formed history: every op is well-formed in the state it is issued in -/
def wfFrom : Mgr → List Op → Bool
  | _, [] => true
  | m, op :: ops => opWf m op && wfFrom (step m op).1 ops

end Mustache.Systems

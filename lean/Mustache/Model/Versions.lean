import Mustache.Model.ChunkSize
/-!
# Version stamps and version-filtered jobs (C07, C11)

Executable model of
* `World::version_` (`w`), `EntityManager::worldVersion()` (`stampVer`),
* `VersionStorage` of every archetype: `chunk_versions_` (`cst`), `global_versions_` (`gst`),
* `BaseJob::last_update_version_`, `checkMask()`, `updateMask()`, the required mask,
* `BaseJob::applyFilter` / `apply` / `filterArchetype` / `run` (base_job.cpp),
* the stamps taken by `getComponent<T>` (mutable), `markDirty`, `Archetype::pushBack`/`insert`,
  `Archetype::remove`/`internalMove`.

`State.live = true` is the semantics of the repaired tree (`worldVersion()` returns the live
`world_.version()`); `live = false` is the pinned tree (a copy refreshed only by `update()`), kept so that
the defect is itself a statement about this model.

Ghost state (not read by any operation): `pending j e c` — "(e,c) was written / e arrived / e was relocated
since job j last processed e"; `touched j a k` — "version chunk k of archetype a saw a write of a component
checked by j, an arrival or a departure since j last processed it".

Core Lean only (linked into the driver).
-/
namespace Mustache.Versions

open Mustache.ChunkSize (ChunkFn Res resolveFor)

/-- world versions, component ids and entity ordinals are natural numbers (notations, so that
arithmetic tactics see `Nat`) -/
scoped notation "Ver" => Nat
scoped notation "Comp" => Nat
scoped notation "Ent" => Nat

/-- `WorldVersion::null()`: the default-constructed value of fresh stamp slots -/
def nullVer : Ver := 4294967295

structure Arch where
  mask : List Comp
  cs   : Nat                    -- `VersionStorage::chunk_size_`
  ents : List Ent               -- `Archetype::entities_` (dense, swap-remove)
  cst  : Nat → Comp → Ver       -- chunk → component → stamp
  gst  : Comp → Ver             -- archetype-level stamp

structure Job where
  req   : List Comp             -- `filter_result_.mask`
  check : List Comp             -- `checkMask()`
  upd   : List Comp             -- `updateMask()`
  last  : Option Ver            -- `last_update_version_` (none = null)
  /-- `extraArchetypeFilterCheck`: a constant predicate of the archetype — here "has none of these" -/
  afDeny : List Comp := []
  /-- `extraChunkFilterCheck`: a constant predicate of the chunk index — here "index parity ≠ p" -/
  cfSkip : Option Nat := none

structure State where
  w       : Ver                 -- `World::version_`
  mgr     : Ver                 -- `EntityManager::world_version_` (pinned tree only)
  live    : Bool
  archs   : List Arch
  jobs    : List Job
  nextEnt : Nat
  dflt    : Nat                 -- `archetype_chunk_size_info_.default_size`
  fns     : List ChunkFn        -- `get_chunk_size_functions_`
  deps    : List (Comp × List Comp)   -- `dependencies_` (addDependency calls, in order)
  pending : Nat → Ent → Comp → Bool
  touched : Nat → Nat → Nat → Bool

/-- `EntityManager::worldVersion()` -/
def State.stampVer (s : State) : Ver := if s.live then s.w else s.mgr

/-- a job as declared: masks only (it has not run yet) -/
structure JobSpec where
  req   : List Comp
  check : List Comp
  upd   : List Comp
  afDeny : List Comp := []
  cfSkip : Option Nat := none
deriving Repr, DecidableEq

def JobSpec.toJob (sp : JobSpec) : Job := ⟨sp.req, sp.check, sp.upd, none, sp.afDeny, sp.cfSkip⟩

structure Config where
  jobs : List JobSpec
  live : Bool := true
  mgr0 : Ver := 0               -- pinned tree: the uninitialised value read by the constructor

def init (cfg : Config) : State :=
  { w := 0, mgr := cfg.mgr0, live := cfg.live, archs := [], jobs := cfg.jobs.map (·.toJob), nextEnt := 0,
    dflt := 1024, fns := [], deps := [], pending := fun _ _ _ => false, touched := fun _ _ _ => false }

/-! ## Entity lookup (`locations_`) -/

def posIn : List Ent → Ent → Option Nat
  | [], _ => none
  | x :: xs, e => if x = e then some 0 else (posIn xs e).map (· + 1)

/-- (archetype index, row index) of an entity -/
def locate : List Arch → Ent → Option (Nat × Nat)
  | [], _ => none
  | a :: r, e =>
    match posIn a.ents e with
    | some i => some (0, i)
    | none => (locate r e).map (fun p => (p.1 + 1, p.2))

def findArch : List Arch → List Comp → Option Nat
  | [], _ => none
  | a :: r, m => if a.mask = m then some 0 else (findArch r m).map (· + 1)

/-! ## Archetype-level primitives -/

/-- `VersionStorage::setVersion(version, chunk)`: every component of the chunk and every global stamp.
(The model stamps all component ids; only those of the archetype's mask are ever read.) -/
def Arch.stampChunk (a : Arch) (k : Nat) (v : Ver) : Arch :=
  { a with cst := fun k' c => if k' = k then v else a.cst k' c, gst := fun _ => v }

/-- `VersionStorage::setVersion(version, chunk, component)` -/
def Arch.stampComp (a : Arch) (k : Nat) (c : Comp) (v : Ver) : Arch :=
  { a with cst := fun k' c' => if k' = k ∧ c' = c then v else a.cst k' c',
           gst := fun c' => if c' = c then v else a.gst c' }

/-- `Archetype::pushBack` (+ the second `emplace` of `insert`): stamp the new row's chunk, append -/
def Arch.push (a : Arch) (e : Ent) (v : Ver) : Arch :=
  { a.stampChunk (a.ents.length / a.cs) v with ents := a.ents ++ [e] }

/-- `Archetype::remove(entity, index)`: last row → pop + stamp its chunk; otherwise `internalMove`
(last row moved into the hole, both chunks stamped) -/
def Arch.swapRemove (a : Arch) (i : Nat) (v : Ver) : Arch :=
  let l := a.ents.length - 1
  if i = l then
    { a.stampChunk (i / a.cs) v with ents := a.ents.dropLast }
  else
    match a.ents[l]? with
    | none => a
    | some x =>
      { (a.stampChunk (l / a.cs) v).stampChunk (i / a.cs) v with ents := (a.ents.set i x).dropLast }

/-! ## Job filter -/

/-- `makeComponentMask`: the components of `m` the archetype has -/
def Arch.fmask (a : Arch) (m : List Comp) : List Comp := m.filter (a.mask.contains ·)

/-- the test of both `checkAndSet` overloads -/
def Job.matchSt (J : Job) (fcheck : List Comp) (st : Comp → Ver) : Bool :=
  match J.last with
  | none => true
  | some L => fcheck.isEmpty || fcheck.any (fun c => decide (L < st c))

/-- `arch.isMatch(mask) && job.extraArchetypeFilterCheck(arch)`: the archetype has every required component
and passes the job's (constant) archetype filter -/
def Job.reqOk (J : Job) (a : Arch) : Bool :=
  J.req.all (a.mask.contains ·) && !J.afDeny.any (a.mask.contains ·)

/-- `job.extraChunkFilterCheck(arch, chunk)`: a constant predicate of the chunk index -/
def Job.chunkOk (J : Job) (k : Nat) : Bool :=
  match J.cfSkip with
  | none => true
  | some p => k % 2 != p

/-- `arch.size() > 0 && arch.isMatch(mask) && job.extraArchetypeFilterCheck(arch)` -/
def Job.matchesArch (J : Job) (a : Arch) : Bool := !a.ents.isEmpty && J.reqOk a

def Arch.gMatch (a : Arch) (J : Job) : Bool := J.matchSt (a.fmask J.check) a.gst
def Arch.cMatch (a : Arch) (J : Job) (k : Nat) : Bool := J.matchSt (a.fmask J.check) (a.cst k)

/-- `filterArchetype` is entered -/
def Arch.active (a : Arch) (J : Job) : Bool := J.matchesArch a && a.gMatch J

/-- the per-chunk test of `filterArchetype`: the user's chunk filter FIRST, and only then `checkAndSet`
(which stamps): a vetoed chunk is neither processed nor stamped -/
def Arch.sel (a : Arch) (J : Job) (k : Nat) : Bool := J.chunkOk k && a.cMatch J k

/-- chunk `k` is visited by the loop (`k ≤ lastChunkIndex`) and passes its check -/
def Arch.procChunk (a : Arch) (J : Job) (k : Nat) : Bool :=
  a.active J && decide (k * a.cs < a.ents.length) && a.sel J k

/-- the chunk loop of `filterArchetype`: `n` chunks left, next chunk `k`,
state `(is_prev_match, block.begin, block.end)` and the blocks added so far -/
def blkLoop (cs : Nat) (m : Nat → Bool) :
    Nat → Nat → Bool → Nat → Nat → List (Nat × Nat) → Bool × Nat × Nat × List (Nat × Nat)
  | 0, _, prev, b, e, acc => (prev, b, e, acc)
  | n + 1, k, prev, b, e, acc =>
    if m k then blkLoop cs m n (k + 1) true (if prev then b else k * cs) ((k + 1) * cs) acc
    else blkLoop cs m n (k + 1) false b e (if prev ∧ b < e then acc ++ [(b, e)] else acc)

/-- blocks `[begin, end)` of one archetype; the last one clipped to the population; `addBlock` drops
empty blocks -/
def blocks (cs size : Nat) (m : Nat → Bool) : List (Nat × Nat) :=
  match blkLoop cs m ((size - 1) / cs + 1) 0 false 0 0 [] with
  | (prev, b, e, acc) => if prev ∧ b < min size e then acc ++ [(b, min size e)] else acc

def blockIdx (bs : List (Nat × Nat)) : List Nat := bs.flatMap (fun p => List.range' p.1 (p.2 - p.1))

def Arch.blocksOf (a : Arch) (J : Job) : List (Nat × Nat) :=
  if a.active J then blocks a.cs a.ents.length (a.sel J) else []

def Arch.processed (a : Arch) (J : Job) : List Ent :=
  (blockIdx (a.blocksOf J)).filterMap (a.ents[·]?)

/-- the stamps left by `checkAndSet` at both levels -/
def Arch.runJob (a : Arch) (J : Job) (cur : Ver) : Arch :=
  if a.active J then
    { a with gst := fun c => if (a.fmask J.upd).contains c then cur else a.gst c,
             cst := fun k c => if a.procChunk J k && (a.fmask J.upd).contains c then cur else a.cst k c }
  else a

def overlaps (xs ys : List Comp) : Bool := xs.any (ys.contains ·)

/-- the check mask of job `j` (empty when there is no such job) -/
def checkOf (jobs : List Job) (j : Nat) : List Comp :=
  match jobs[j]? with
  | some J => J.check
  | none => []

/-! ## Operations -/

inductive Op where
  | update
  | run (j : Nat)
  | getMut (e : Ent) (c : Comp)
  | markDirty (e : Ent) (c : Comp)
  | getConst (e : Ent) (c : Comp)
  | create (mask : List Comp)
  | assign (e : Ent) (c : Comp)
  | remove (e : Ent) (c : Comp)
  | destroyNow (e : Ent)
  | setDefault (n : Nat)
  | addFn (mask : List Comp) (min max : Nat)
  | addDep (c : Comp) (ds : List Comp)
deriving Repr, DecidableEq

inductive Out where
  | none
  | ran (ents : List Ent)                 -- entities processed, in iteration order
  | access (found : Bool)                 -- component pointer non-null
  | created (e : Ent)
  | ok
  | noop                                   -- silently ignored by the implementation
  | error (max min : Nat)                  -- "Can not create archetype: max < min"
  | selfMove                               -- "Moving from archetype … to itself"
deriving Repr, DecidableEq

/-- `World::update()`: bump the version; `EntityManager::update()` refreshes its copy -/
def State.worldUpdate (s : State) : State := { s with w := s.w + 1, mgr := s.w + 1 }

/-- `BaseJob::run`: `cur = world.version()`; archetype-level then chunk-level check-and-set;
`last := cur` and `++world.version` iff some entity is selected -/
def State.jobRun (s : State) (j : Nat) : State × List Ent :=
  match s.jobs[j]? with
  | none => (s, [])
  | some J =>
    let cur := s.w
    let procs := s.archs.flatMap (·.processed J)
    let work := !procs.isEmpty
    ({ s with
        archs := s.archs.map (·.runJob J cur)
        jobs := if work then s.jobs.set j { J with last := some cur } else s.jobs
        w := if work then cur + 1 else cur
        pending := fun j' e c =>
          if procs.contains e then (if j' = j then false else s.pending j' e c || J.upd.contains c)
          else s.pending j' e c
        touched := fun j' ai k =>
          match s.archs[ai]? with
          | none => s.touched j' ai k
          | some a =>
            if a.procChunk J k then
              (if j' = j then false
               else s.touched j' ai k ||
                 overlaps (a.fmask J.upd) (checkOf s.jobs j'))
            else s.touched j' ai k },
     procs)

/-- mutable `getComponent` / `markDirty` on the row `(ai, i)` -/
def State.writeAt (s : State) (ai i : Nat) (e : Ent) (c : Comp) : State :=
  match s.archs[ai]? with
  | none => s
  | some a =>
    { s with
        archs := s.archs.modify ai (fun a => a.stampComp (i / a.cs) c s.stampVer)
        pending := fun j' e' c' => if e' = e ∧ c' = c then true else s.pending j' e' c'
        touched := fun j' ai' k =>
          if ai' = ai ∧ k = i / a.cs ∧ (checkOf s.jobs j').contains c = true
          then true else s.touched j' ai' k }

/-- an entity arrives in archetype `ai` (create / insert / externalMove target) -/
def State.arrive (s : State) (ai : Nat) (e : Ent) : State :=
  match s.archs[ai]? with
  | none => s
  | some a =>
    { s with
        archs := s.archs.modify ai (fun a => a.push e s.w)
        pending := fun j' e' c' => if e' = e then true else s.pending j' e' c'
        touched := fun j' ai' k =>
          if ai' = ai ∧ k = a.ents.length / a.cs then true else s.touched j' ai' k }

/-- the row `(ai, i)` leaves its archetype (destroyNow / externalMove source); the last row is relocated
into the hole -/
def State.depart (s : State) (ai i : Nat) : State :=
  match s.archs[ai]? with
  | none => s
  | some a =>
    let l := a.ents.length - 1
    { s with
        archs := s.archs.modify ai (fun a => a.swapRemove i s.w)
        pending := fun j' e' c' =>
          if i ≠ l ∧ a.ents[l]? = some e' then true else s.pending j' e' c'
        touched := fun j' ai' k =>
          if ai' = ai ∧ (k = i / a.cs ∨ k = l / a.cs) then true else s.touched j' ai' k }

def insertSorted (c : Comp) : List Comp → List Comp
  | [] => [c]
  | x :: xs => if c < x then c :: x :: xs else if c = x then x :: xs else x :: insertSorted c xs

def normMask (m : List Comp) : List Comp := m.foldl (fun acc c => insertSorted c acc) []

/-- one round of `getExtraComponents`: add the declared dependencies of every component of `m` -/
def closeStep (deps : List (Comp × List Comp)) (m : List Comp) : List Comp :=
  normMask (m ++ m.flatMap (fun c => (deps.filter (·.1 = c)).flatMap (·.2)))

/-- `mask.merge(getExtraComponents(mask))`: closure under the declared dependencies (the loop of
`getExtraComponents` runs to a fixed point; with component ids `A..H` eight rounds reach it) -/
def closeMask (deps : List (Comp × List Comp)) (m : List Comp) : List Comp :=
  (List.range 8).foldl (fun acc _ => closeStep deps acc) (normMask m)

/-- `EntityManager::getArchetype(mask)`: the archetype of the dependency-closed mask — an existing one, or a
new one whose chunk size is resolved from the functions applied to the CLOSED mask -/
def State.getArchClosed (s : State) (m : List Comp) : Except (Nat × Nat) (State × Nat) :=
  match findArch s.archs m with
  | some ai => .ok (s, ai)
  | none =>
    match resolveFor s.dflt s.fns m with
    | .error mx mn => .error (mx, mn)
    | .ok cs =>
      .ok ({ s with archs := s.archs ++ [{ mask := m, cs := cs, ents := [],
                                            cst := fun _ _ => nullVer, gst := fun _ => nullVer }] },
           s.archs.length)

def State.getArch (s : State) (m0 : List Comp) : Except (Nat × Nat) (State × Nat) :=
  s.getArchClosed (closeMask s.deps m0)

/-- `externalMove`: push into the target, then `remove` from the source. The two archetypes differ, so the
model's order (leave, then arrive) yields the same state. When the closed target mask is the entity's own
archetype nothing moves: `removeComponent` of a dependent whose master is present returns silently, `assign`
of a component the entity already has (and whose dependencies it has) throws "… to itself" (`same`). -/
def State.moveTo (s : State) (ai i : Nat) (e : Ent) (m : List Comp) (same : Out) : State × Out :=
  match s.getArch m with
  | .error (mx, mn) => (s, .error mx mn)
  | .ok (s1, aj) => if aj = ai then (s1, same) else ((s1.depart ai i).arrive aj e, .ok)

def State.step (s : State) : Op → State × Out
  | .update => (s.worldUpdate, .none)
  | .run j => let r := s.jobRun j; (r.1, .ran r.2)
  | .getMut e c | .markDirty e c =>
    match locate s.archs e with
    | none => (s, .access false)
    | some (ai, i) =>
      match s.archs[ai]? with
      | none => (s, .access false)
      | some a => if a.mask.contains c then (s.writeAt ai i e c, .access true) else (s, .access false)
  | .getConst e c =>
    match locate s.archs e with
    | none => (s, .access false)
    | some (ai, _) =>
      match s.archs[ai]? with
      | none => (s, .access false)
      | some a => (s, .access (a.mask.contains c))
  | .create m =>
    match s.getArch (normMask m) with
    | .error (mx, mn) => (s, .error mx mn)
    | .ok (s1, ai) =>
      -- `createWithOutInit` hands out the next ordinal, then `Archetype::insert`
      (({ s1 with nextEnt := s1.nextEnt + 1 } : State).arrive ai s1.nextEnt, .created s1.nextEnt)
  | .assign e c =>
    match locate s.archs e with
    | none => (s, .noop)
    | some (ai, i) =>
      match s.archs[ai]? with
      | none => (s, .noop)
      | some a => s.moveTo ai i e (insertSorted c a.mask) .selfMove
  | .remove e c =>
    match locate s.archs e with
    | none => (s, .noop)
    | some (ai, i) =>
      match s.archs[ai]? with
      | none => (s, .noop)
      | some a =>
        if a.mask.contains c then s.moveTo ai i e (a.mask.filter (· ≠ c)) .noop else (s, .noop)
  | .destroyNow e =>
    match locate s.archs e with
    | none => (s, .noop)
    | some (ai, i) => (s.depart ai i, .ok)
  | .setDefault n => if n = 0 then (s, .noop) else ({ s with dflt := n }, .ok)
  | .addFn m mn mx => ({ s with fns := s.fns ++ [⟨normMask m, mn, mx⟩] }, .ok)
  | .addDep c ds => ({ s with deps := s.deps ++ [(c, ds)] }, .ok)

def State.exec (s : State) (ops : List Op) : State := ops.foldl (fun s op => (s.step op).1) s

/-- the state after a history, from an empty world -/
def run (cfg : Config) (ops : List Op) : State := (init cfg).exec ops

/-! ## Job bodies that modify the world

`BaseJob::run` (when the filter selected something): `++world.version`, `lock()`, the body, `unlock()`.
A body may obtain components for writing / mark them dirty (immediately, stamped with the live — already
bumped — version) and may create / assign / remove / destroy through the command buffer, which is applied
at `unlock()`, still at the same version. So a run with a body is the run followed by the body's immediate
accesses and then its deferred commands (each entity gets at most one deferred command per body and none
is addressed to an entity the body itself creates, so every command pack is a single command with its
unlocked meaning). A run that selects nothing never calls the body. -/

inductive HOp where
  | plain (o : Op)
  | runDo (j : Nat) (body : List Op)
deriving Repr

def Op.immediate : Op → Bool
  | .getMut _ _ | .markDirty _ _ | .getConst _ _ => true
  | _ => false

/-- the entity a deferred command is addressed to -/
def Op.target : Op → Option Ent
  | .assign e _ | .remove e _ | .destroyNow e => some e
  | _ => none

/-- the operations a body contributes, in the order they take effect. `n` = number of entities created
before the body started: a deferred command addressed to an entity that the same body creates is outside the
contract (the handle is not valid while locked) and is dropped. -/
def bodyOrder (n : Nat) (body : List Op) : List Op :=
  body.filter (·.immediate) ++
    body.filter (fun o => !o.immediate && (match o.target with | some e => decide (e < n) | none => true))

def State.hstep (s : State) : HOp → State × Out
  | .plain o => s.step o
  | .runDo j body =>
    let r := s.jobRun j
    if r.2.isEmpty then (r.1, .ran []) else (r.1.exec (bodyOrder r.1.nextEnt body), .ran r.2)

def State.hexec (s : State) (hops : List HOp) : State := hops.foldl (fun s h => (s.hstep h).1) s

def hrun (cfg : Config) (hops : List HOp) : State := (init cfg).hexec hops

end Mustache.Versions

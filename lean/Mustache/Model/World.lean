/-! # World model (WM): executable model of `EntityManager` + `Archetype` bookkeeping

Follows the C++ data structures of /repo/src/mustache/ecs (entity_manager.hpp/.cpp, archetype.cpp,
temporal_storage.cpp, component_mask.hpp): id table with intrusive free list, locations, dense
archetype rows with swap-remove, per-thread command buffers, dependency closure, shared-value pool.
Component values are opaque tokens (`Option Nat`, `none` = never written / indeterminate).
Core Lean only. Tied to the code by `driver world` vs `harness/world_driver.cpp`. -/
namespace Mustache.Model

abbrev CompId := Nat
abbrev Val := Option Nat
/-- sorted duplicate-free list of component ids (a `ComponentIdMask`) -/
abbrev Mask := List CompId

structure Handle where
  id : Nat
  ver : Nat
  world : Nat
deriving DecidableEq, Repr, Inhabited

/-- the all-ones pattern -/
def Handle.null : Handle := ⟨2^30 - 1, 2^24 - 1, 2^10 - 1⟩
def Handle.isNull (h : Handle) : Bool := h == Handle.null
/-- packed 64-bit value (C16 layout) — only used for ordering `marked_for_delete_` -/
def Handle.value (h : Handle) : Nat := h.id + h.world * 2^30 + h.ver * 2^40
def Handle.ofValue (v : Nat) : Handle := ⟨v % 2^30, v / 2^40 % 2^24, v / 2^30 % 2^10⟩

structure Slot where
  idf : Nat   -- own id when live, next free id when free
  ver : Nat
deriving DecidableEq, Repr, Inhabited

structure Loc where
  arch : Option Nat
  idx : Nat
deriving DecidableEq, Repr, Inhabited

structure Row where
  ent : Handle
  vals : List Val            -- aligned with the archetype's mask (component-index order)
deriving DecidableEq, Repr, Inhabited

/-- `SharedComponentsInfo`: parallel lists of shared ids and instance ids (the mask is the set of ids) -/
structure Shared where
  ids : List Nat
  data : List Nat
deriving DecidableEq, Repr, Inhabited

structure Arch where
  mask : Mask
  shared : Shared
  rows : List Row
deriving Repr, Inhabited

inductive Cmd where
  | create (e : Handle) (mask : Mask) (shared : Shared)
  | destroyNow (e : Handle)
  | destroy (e : Handle)
  | remove (e : Handle) (c : CompId)
  | assign (e : Handle) (c : CompId) (v : Val)
deriving Repr, Inhabited

def Cmd.entity : Cmd → Handle
  | .create e _ _ => e | .destroyNow e => e | .destroy e => e | .remove e _ => e | .assign e _ _ => e

/-- static description of the component catalogue of the harness -/
structure CompInfo where
  hasCtor : Bool        -- non-trivially default constructible: default value is `dflt`
  dflt : Val            -- value after default construction (`none` = indeterminate)
  fixed : Option Nat    -- a component whose read value is constant (empty type)
  callbacks : Bool      -- has afterAssign / beforeRemove
  counted : Bool        -- instrumented live-instance counting

structure WM where
  worldId : Nat := 0
  slots : List Slot := []
  next : Nat := 0
  empty : Nat := 0
  locs : List Loc := []
  archs : List Arch := []
  deps : List (CompId × Mask) := []
  pool : List (Nat × List (Nat × Nat)) := []     -- shared id ↦ [(value, instance id)]
  nextInst : Nat := 0
  lockDepth : Nat := 0
  nextEntityId : Nat := 0
  nthreads : Nat := 1                             -- number of command buffers handed out at lock time
  buffers : List (List Cmd) := []
  marked : List Handle := []                      -- sorted by packed value, duplicate-free (std::set)
  temps : List (CompId × Nat) := []               -- live buffered temporaries per counted component (C03)
deriving Inhabited

/-! ## masks -/

def Mask.insert (m : Mask) (c : CompId) : Mask :=
  match m with
  | [] => [c]
  | x :: xs => if c < x then c :: x :: xs else if c = x then x :: xs else x :: Mask.insert xs c

def Mask.union (a b : Mask) : Mask := b.foldl Mask.insert a
def Mask.erase (m : Mask) (c : CompId) : Mask := m.filter (· ≠ c)
def Mask.has (m : Mask) (c : CompId) : Bool := m.contains c
def Mask.diff (a b : Mask) : Mask := a.filter (fun c => !b.contains c)
def Mask.ofList (l : List CompId) : Mask := l.foldl Mask.insert []
def Mask.indexOf? (m : Mask) (c : CompId) : Option Nat :=
  let i := m.idxOf c
  if i < m.length then some i else none

/-! ## dependency closure (`getExtraComponents`) -/

def depsOf (deps : List (CompId × Mask)) (c : CompId) : Mask :=
  match deps.find? (·.1 == c) with
  | some (_, m) => m
  | none => []

/-- one round of the do-while loop: union of the dependencies of every member of `cur` into `result` -/
def closureRound (deps : List (CompId × Mask)) (result cur : Mask) : Mask :=
  cur.foldl (fun r c => Mask.union r (depsOf deps c)) result

/-- the fixpoint loop with explicit fuel (a mask has at most 128 members; each productive round adds one) -/
def closureLoop (deps : List (CompId × Mask)) : Nat → Mask → Mask → Mask
  | 0, result, _ => result
  | fuel + 1, result, cur =>
    let r := closureRound deps result cur
    if r == result then r else closureLoop deps fuel r r

def extraComponents (deps : List (CompId × Mask)) (mask : Mask) : Mask :=
  if deps.isEmpty then [] else closureLoop deps 130 [] mask

/-- `addDependency`: stores old ∪ extra ∪ closure(extra) -/
def addDependency (deps : List (CompId × Mask)) (c : CompId) (extra : Mask) : List (CompId × Mask) :=
  let nw := Mask.union (depsOf deps c) (Mask.union extra (extraComponents deps extra))
  if deps.any (·.1 == c) then deps.map (fun p => if p.1 == c then (c, nw) else p)
  else deps ++ [(c, nw)]

/-! ## shared info -/

def Shared.null : Shared := ⟨[], []⟩
def Shared.has (s : Shared) (id : Nat) : Bool := s.ids.contains id
def Shared.indexOf? (s : Shared) (id : Nat) : Option Nat :=
  let i := s.ids.idxOf id
  if i < s.ids.length then some i else none
def Shared.get? (s : Shared) (id : Nat) : Option Nat :=
  match s.indexOf? id with
  | some i => s.data[i]?
  | none => none
/-- entries are kept ordered by shared-type id (the canonical descriptor `getArchetype` builds) -/
def Shared.add (s : Shared) (id inst : Nat) : Shared :=
  match s.indexOf? id with
  | some i => { s with data := s.data.set i inst }
  | none =>
    let k := (s.ids.filter (· < id)).length
    ⟨s.ids.take k ++ [id] ++ s.ids.drop k, s.data.take k ++ [inst] ++ s.data.drop k⟩
def Shared.remove (s : Shared) (id : Nat) : Shared :=
  match s.indexOf? id with
  | some i => ⟨s.ids.eraseIdx i, s.data.eraseIdx i⟩
  | none => s
/-- `this.merge(oth)`: oth's entries first, then this's (fixed code copies ids and data alike) -/
def Shared.merge (s oth : Shared) : Shared :=
  (s.ids.zip s.data).foldl (fun r p => r.add p.1 p.2) oth

/-! ## id table -/

def WM.isValid (w : WM) (h : Handle) : Bool :=
  !h.isNull && h.world == w.worldId &&
  match w.slots[h.id]? with
  | some s => s.ver == h.ver && s.idf == h.id     -- a live slot stores its own id, a free slot the next free id
  | none => false

def WM.isLocked (w : WM) : Bool := w.lockDepth > 0

/-- `createWithOutInit`, unlocked branch -/
def WM.allocId (w : WM) : WM × Handle :=
  if w.empty = 0 then
    let id := w.slots.length
    ({ w with slots := w.slots ++ [⟨id, 0⟩], locs := w.locs ++ [⟨none, 0⟩] }, ⟨id, 0, w.worldId⟩)
  else
    match w.slots[w.next]? with
    | some s =>
      ({ w with slots := w.slots.set w.next ⟨w.next, s.ver⟩, locs := w.locs.set w.next ⟨none, 0⟩,
                next := s.idf, empty := w.empty - 1 }, ⟨w.next, s.ver, w.worldId⟩)
    | none => (w, Handle.null)     -- unreachable on reachable states (C01 invariant)

/-- grow `slots`/`locs` so that index `id` exists (gap slots are null handles) -/
def WM.ensureId (w : WM) (id : Nat) : WM :=
  { w with slots := w.slots ++ List.replicate (id + 1 - w.slots.length) ⟨2^30 - 1, 2^24 - 1⟩,
           locs := w.locs ++ List.replicate (id + 1 - w.locs.length) ⟨none, 0⟩ }

/-- `releaseEntityIdUnsafe` -/
def WM.release (w : WM) (h : Handle) : WM :=
  let w := if h.id < w.slots.length then w else w.ensureId h.id
  { w with slots := w.slots.set h.id ⟨if w.empty ≠ 0 then w.next else h.id + 1, (h.ver + 1) % 2^24⟩,
           next := h.id, empty := w.empty + 1 }

def WM.setLoc (w : WM) (h : Handle) (a : Option Nat) (i : Nat) : WM :=
  if h.id = 2^30 - 1 then w else { w with locs := w.locs.set h.id ⟨a, i⟩ }

def WM.locOf (w : WM) (h : Handle) : Loc := w.locs.getD h.id ⟨none, 0⟩

/-! ## archetypes -/

def WM.findArch (w : WM) (mask : Mask) (sh : Shared) : Option Nat :=
  let i := w.archs.findIdx (fun a => a.mask == mask && a.shared.data == sh.data)
  if i < w.archs.length then some i else none

/-- `getArchetype(mask, shared)`: widen by the dependency closure, look up, create when absent -/
def WM.getArch (w : WM) (mask : Mask) (sh : Shared) : WM × Nat :=
  let am := Mask.union mask (extraComponents w.deps mask)
  match w.findArch am sh with
  | some i => (w, i)
  | none => ({ w with archs := w.archs ++ [⟨am, sh, []⟩] }, w.archs.length)

def WM.arch (w : WM) (i : Nat) : Arch := w.archs.getD i ⟨[], Shared.null, []⟩
def WM.setArch (w : WM) (i : Nat) (a : Arch) : WM := { w with archs := w.archs.set i a }

variable (info : CompId → CompInfo)

def defaultVal (c : CompId) : Val :=
  match (info c).fixed with
  | some v => some v
  | none => if (info c).hasCtor then (info c).dflt else none

/-- callback log entries produced by an operation -/
inductive Cb where
  | assign (c : CompId) (e : Handle)
  | remove (c : CompId) (e : Handle)
deriving Repr

/-- `Archetype::remove`: beforeRemove callbacks for `mask \ skip`, swap-remove, fix locations -/
def WM.archRemove (w : WM) (ai : Nat) (idx : Nat) (skipOnRemove : Mask) : WM × List Cb :=
  let a := w.arch ai
  match a.rows[idx]? with
  | none => (w, [])
  | some row =>
    let cbs := (a.mask.filter (fun c => (info c).callbacks && !skipOnRemove.contains c)).map (Cb.remove · row.ent)
    let last := a.rows.length - 1
    if idx = last then
      let w := w.setArch ai { a with rows := a.rows.dropLast }
      (w.setLoc row.ent none (2^32 - 1), cbs)
    else
      let lastRow := a.rows.getD last default
      let w := w.setArch ai { a with rows := (a.rows.set idx lastRow).dropLast }
      let w := w.setLoc row.ent none (2^32 - 1)
      (w.setLoc lastRow.ent (some ai) idx, cbs)

/-- `Archetype::insert(entity, skip)` into archetype `ai` -/
def WM.archInsert (w : WM) (ai : Nat) (e : Handle) (skip : Mask) : WM × List Cb :=
  let a := w.arch ai
  let skipAll := skip == a.mask
  let vals := a.mask.map (fun c => if skipAll || skip.contains c then (match (info c).fixed with | some v => some v | none => none)
                                   else defaultVal info c)
  let cbs := if skipAll then [] else
    (a.mask.filter (fun c => (info c).callbacks && !skip.contains c)).map (Cb.assign · e)
  let w := w.setArch ai { a with rows := a.rows ++ [⟨e, vals⟩] }
  (w.setLoc e (some ai) a.rows.length, cbs)

/-- `Archetype::externalMove(entity, prev, prev_index, skip_constructor)`; `none` = "to itself" exception -/
def WM.externalMove (w : WM) (target : Nat) (e : Handle) (prev : Nat) (prevIdx : Nat) (skip : Mask) :
    Option (WM × List Cb) :=
  if target = prev then none else
  let ta := w.arch target
  let pa := w.arch prev
  let prow := pa.rows.getD prevIdx default
  let vals := ta.mask.map (fun c =>
    match pa.mask.indexOf? c with
    | some i => prow.vals.getD i none
    | none =>
      if skip.contains c then (match (info c).fixed with | some v => some v | none => none)
      else defaultVal info c)
  let cbsA := (ta.mask.filter (fun c => !pa.mask.contains c && (info c).callbacks && !skip.contains c)).map (Cb.assign · e)
  let newIdx := ta.rows.length
  let w := w.setArch target { ta with rows := ta.rows ++ [⟨e, vals⟩] }
  let (w, cbsR) := w.archRemove info prev prevIdx ta.mask
  some (w.setLoc e (some target) newIdx, cbsA ++ cbsR)

/-! ## marked set (std::set<Entity> ordered by packed value) -/

def insertSorted (l : List Handle) (h : Handle) : List Handle :=
  match l with
  | [] => [h]
  | x :: xs => if h.value < x.value then h :: x :: xs else if h.value = x.value then x :: xs
               else x :: insertSorted xs h

/-! ## unlocked operations -/

/-- safe `destroyNow`, unlocked -/
def WM.destroyNowU (w : WM) (h : Handle) : WM × List Cb :=
  if !w.isValid h then (w, []) else
  let l := w.locOf h
  let (w, cbs) := match l.arch with
    | some ai => w.archRemove info ai l.idx []
    | none => (w, [])
  (w.release h, cbs)

def WM.pushCmd (w : WM) (t : Nat) (c : Cmd) : WM :=
  { w with buffers := w.buffers.set t (w.buffers.getD t [] ++ [c]) }

/-- `createLocked` -/
def WM.createLocked (w : WM) (t : Nat) (mask : Mask) (sh : Shared) : WM × Handle :=
  let id := w.nextEntityId
  let ver := match w.slots[id]? with
    | some s => (s.ver + 1) % 2^24
    | none => 0
  let h : Handle := ⟨id, ver, w.worldId⟩
  ({ w with nextEntityId := id + 1 }.pushCmd t (.create h mask sh), h)

/-- `create(mask, shared)` -/
def WM.create (w : WM) (t : Nat) (mask : Mask) (sh : Shared) : WM × Handle × List Cb :=
  if w.isLocked then
    let (w, h) := w.createLocked t mask sh
    (w, h, [])
  else
    let (w, ai) := w.getArch mask sh
    let (w, h) := w.allocId
    let (w, cbs) := w.archInsert info ai h []
    (w, h, cbs)

inductive Res where
  | ok
  | selfMove
  | lockedUpdate
deriving Repr, DecidableEq

def addTemp (temps : List (CompId × Nat)) (c : CompId) : List (CompId × Nat) :=
  if temps.any (·.1 == c) then temps.map (fun p => if p.1 == c then (c, p.2 + 1) else p) else temps ++ [(c, 1)]

/-- `assign<C>(e, tok)` (`v = some tok`) or `assign<C>(e)` (`v = none`: default construction); contract: `e` valid -/
def WM.assign (w : WM) (t : Nat) (e : Handle) (c : CompId) (v : Option Nat) : WM × Res × List Cb :=
  let stored : Val := match (info c).fixed with
    | some f => some f
    | none => match v with
      | some tok => some tok
      | none => defaultVal info c
  if w.isLocked then
    let w := w.pushCmd t (.assign e c stored)
    let w := if (info c).counted then { w with temps := addTemp w.temps c } else w
    -- a deferred assignment fires afterAssign when it is applied at unlock
    (w, .ok, [])
  else
    let l := w.locOf e
    match l.arch with
    | none => (w, .ok, [])     -- outside the contract (every valid entity has an archetype)
    | some pi =>
      let pa := w.arch pi
      let mask := Mask.insert pa.mask c
      let (w, ti) := w.getArch mask pa.shared
      match w.externalMove info ti e pi l.idx (if v.isSome then mask else []) with
      | none => (w, .selfMove, [])
      | some (w, cbs) =>
        let l' := w.locOf e
        let ta := w.arch ti
        let w := match v, ta.mask.indexOf? c with
          | some _, some ci =>
            let row := ta.rows.getD l'.idx default
            w.setArch ti { ta with rows := ta.rows.set l'.idx { row with vals := row.vals.set ci stored } }
          | _, _ => w
        (w, .ok, cbs ++ (if (info c).callbacks && v.isSome then [Cb.assign c e] else []))

/-- typed safe `removeComponent<C>(e)` -/
def WM.removeComp (w : WM) (t : Nat) (e : Handle) (c : CompId) : WM × List Cb :=
  if w.isLocked then (w.pushCmd t (.remove e c), [])
  else if !w.isValid e then (w, [])
  else
    let l := w.locOf e
    match l.arch with
    | none => (w, [])
    | some pi =>
      let pa := w.arch pi
      if !pa.mask.contains c then (w, []) else
      let (w, ti) := w.getArch (Mask.erase pa.mask c) pa.shared
      match w.externalMove info ti e pi l.idx [] with
      | none => (w, [])          -- same archetype (dependent of a present master): no effect
      | some (w, cbs) => (w, cbs)

def WM.destroy (w : WM) (t : Nat) (e : Handle) : WM :=
  if w.isLocked then w.pushCmd t (.destroy e)
  else if w.isValid e then { w with marked := insertSorted w.marked e }
  else w          -- a handle that is not alive is not queued

def WM.destroyNow (w : WM) (t : Nat) (e : Handle) : WM × List Cb :=
  if w.isLocked then (w.pushCmd t (.destroyNow e), []) else w.destroyNowU info e

/-- `update()` -/
def WM.update (w : WM) : WM × Res × List Cb :=
  if w.isLocked then (w, .lockedUpdate, []) else
  let (w, cbs) := w.marked.foldl (fun (acc : WM × List Cb) h =>
    let (w', c) := acc.1.destroyNowU info h
    (w', acc.2 ++ c)) (w, [])
  ({ w with marked := [] }, .ok, cbs)

/-- `clearArchetype` of archetype `ai` -/
def WM.clearArch (w : WM) (ai : Nat) : WM × List Cb :=
  let a := w.arch ai
  let cbs := a.rows.flatMap (fun r => (a.mask.filter (fun c => (info c).callbacks)).map (Cb.remove · r.ent))
  let w := a.rows.foldl (fun (w : WM) r =>
    let w := { w with locs := w.locs.set r.ent.id ⟨none, (w.locOf r.ent).idx⟩ }
    { w with slots := w.slots.set r.ent.id ⟨if w.empty ≠ 0 then w.next else r.ent.id + 1, (r.ent.ver + 1) % 2^24⟩,
             next := r.ent.id, empty := w.empty + 1 }) w
  (w.setArch ai { a with rows := [] }, cbs)

/-- `clone(e)`; unlocked only (contract) -/
def WM.clone (w : WM) (e : Handle) : WM × Option Handle :=
  if !w.isValid e then (w, none) else
  let l := w.locOf e
  match l.arch with
  | none => (w, none)
  | some ai =>
    let (w, h) := w.allocId
    let a := w.arch ai
    let row := a.rows.getD l.idx default
    let w := w.setArch ai { a with rows := a.rows ++ [⟨h, row.vals⟩] }
    (w.setLoc h (some ai) a.rows.length, some h)

/-! ## shared components -/

/-- `getCreatedSharedComponent`: first pooled instance with an equal value wins, else a new instance -/
def WM.poolGet (w : WM) (sid : Nat) (value : Nat) : WM × Nat :=
  let entries := match w.pool.find? (·.1 == sid) with
    | some (_, l) => l
    | none => []
  match entries.find? (·.1 == value) with
  | some (_, inst) => (w, inst)
  | none =>
    let inst := w.nextInst
    let entries' := entries ++ [(value, inst)]
    let pool' := if w.pool.any (·.1 == sid) then w.pool.map (fun p => if p.1 == sid then (sid, entries') else p)
                 else w.pool ++ [(sid, entries')]
    ({ w with pool := pool', nextInst := inst + 1 }, inst)

/-- a fresh (unpooled) instance, as `makeSharedInfo` creates for `create<…, S>()` -/
def WM.freshInst (w : WM) : WM × Nat := ({ w with nextInst := w.nextInst + 1 }, w.nextInst)

/-- `assignShared(e, value)`; contract: `e` valid, unlocked -/
def WM.sassign (w : WM) (e : Handle) (sid : Nat) (value : Nat) : WM × List Cb :=
  let l := w.locOf e
  match l.arch with
  | none => (w, [])
  | some pi =>
    let (w, inst) := w.poolGet sid value
    let pa := w.arch pi
    let sh := pa.shared.add sid inst
    let (w, ti) := w.getArch pa.mask sh
    match w.externalMove info ti e pi l.idx [] with
    | none => (w, [])
    | some (w, cbs) => (w, cbs)

/-- safe `removeSharedComponent<S>(e)`; returns the C++ return value -/
def WM.sremove (w : WM) (e : Handle) (sid : Nat) : WM × Bool × List Cb :=
  if !w.isValid e then (w, false, []) else
  let l := w.locOf e
  match l.arch with
  | none => (w, false, [])
  | some pi =>
    let pa := w.arch pi
    if !pa.shared.has sid then (w, false, []) else
    let (w, ti) := w.getArch pa.mask (pa.shared.remove sid)
    match w.externalMove info ti e pi l.idx [] with
    | none => (w, false, [])
    | some (w, cbs) => (w, true, cbs)

/-! ## builder -/

/-- `begin(e)….end()` on an existing entity, unlocked: `adds` in call order with optional constructor token -/
def WM.buildUpdateU (w : WM) (e : Handle) (adds : List (CompId × Option Nat)) (rems : Mask) : WM × Res × List Cb :=
  let l := w.locOf e
  match l.arch with
  | none => (w, .ok, [])
  | some pi =>
    let pa := w.arch pi
    let addMask := Mask.ofList (adds.map (·.1))
    let mask := Mask.diff (Mask.union addMask pa.mask) rems
    let sh := Shared.null.merge pa.shared
    let (w, ti) := w.getArch mask sh
    match w.externalMove info ti e pi l.idx addMask with
    | none => (w, .selfMove, [])
    | some (w, cbs) =>
      let l' := w.locOf e
      -- initComponent for every builder argument, in call order
      let (w, cbs2) := adds.foldl (fun (acc : WM × List Cb) (p : CompId × Option Nat) =>
        let w := acc.1
        let ta := w.arch ti
        match ta.mask.indexOf? p.1 with
        | none => acc
        | some ci =>
          let row := ta.rows.getD l'.idx default
          let v : Val := match (info p.1).fixed with
            | some f => some f
            | none => match p.2 with
              | some tok => some tok
              | none => defaultVal info p.1
          let w := w.setArch ti { ta with rows := ta.rows.set l'.idx { row with vals := row.vals.set ci v } }
          (w, acc.2 ++ (if (info p.1).callbacks then [Cb.assign p.1 e] else []))) (w, [])
      (w, .ok, cbs ++ cbs2)

/-- builder creating a new entity, unlocked -/
def WM.buildNewU (w : WM) (adds : List (CompId × Option Nat)) : WM × Handle × List Cb :=
  let (w, h) := w.allocId
  if adds.isEmpty then
    -- `apply` with no arguments: create() of the empty archetype
    let (w, ai) := w.getArch [] Shared.null
    let (w, cbs) := w.archInsert info ai h []
    (w, h, cbs)
  else
    let mask := Mask.ofList (adds.map (·.1))
    let (w, ai) := w.getArch mask Shared.null
    let (w, cbs) := w.archInsert info ai h mask
    let l' := w.locOf h
    let (w, cbs2) := adds.foldl (fun (acc : WM × List Cb) (p : CompId × Option Nat) =>
      let w := acc.1
      let ta := w.arch ai
      match ta.mask.indexOf? p.1 with
      | none => acc
      | some ci =>
        let row := ta.rows.getD l'.idx default
        let v : Val := match (info p.1).fixed with
          | some f => some f
          | none => match p.2 with
            | some tok => some tok
            | none => defaultVal info p.1
        let w := w.setArch ai { ta with rows := ta.rows.set l'.idx { row with vals := row.vals.set ci v } }
        (w, acc.2 ++ (if (info p.1).callbacks then [Cb.assign p.1 h] else []))) (w, [])
    (w, h, cbs ++ cbs2)

/-! ## lock / unlock / flush -/

def WM.lock (w : WM) : WM :=
  let w := { w with lockDepth := w.lockDepth + 1 }
  if w.lockDepth = 1 then
    { w with buffers := w.buffers ++ List.replicate (w.nthreads - w.buffers.length) [],
             nextEntityId := w.slots.length }
  else w

/-- split a buffer into packs of consecutive commands on one entity -/
def packs : List Cmd → List (List Cmd)
  | [] => []
  | c :: cs =>
    match packs cs with
    | [] => [[c]]
    | (p :: ps) =>
      match p with
      | [] => [c] :: ps
      | d :: _ =>
        -- a creation always opens a new pack
        let dCreate := match d with | .create .. => true | _ => false
        if c.entity = d.entity && !dCreate then (c :: p) :: ps else [c] :: p :: ps

def closedMask (deps : List (CompId × Mask)) (m : Mask) : Mask := Mask.union m (extraComponents deps m)

/-- folding state of `applyCommandPack`: component set after each command (closed under the dependencies),
    components removed/re-assigned on the way, and which assign command supplies which value -/
structure PackSt where
  final : Mask
  replaced : Mask := []
  src : List (CompId × Val) := []      -- in order of the supplying assign commands
  dead : Bool := false

/-- `applyCommandPack` -/
def WM.applyPack (w : WM) (pack : List Cmd) : WM × List Cb :=
  match pack with
  | [] => (w, [])
  | first :: rest =>
    let e := first.entity
    let isCreate := match first with | .create .. => true | _ => false
    -- initial mask / shared, slot installation
    let start : Option (WM × Mask × Shared) :=
      match first with
      | .create _ m sh =>
        let w := w.ensureId e.id
        some ({ w with slots := w.slots.set e.id ⟨e.id, e.ver⟩ }, m, sh)
      | _ =>
        if !w.isValid e then none else
        match (w.locOf e).arch with
        | none => none
        | some ai => some (w, (w.arch ai).mask, (w.arch ai).shared)
    match start with
    | none => (w, [])              -- target not alive at this point: the whole pack is skipped
    | some (w, initial0, sh) =>
      -- a creation goes through an archetype lookup (closed set); an existing entity starts from the set it really
      -- has: its archetype may predate a dependency declaration
      let initial := if isCreate then closedMask w.deps initial0 else initial0
      let body := if isCreate then rest else pack
      let step := fun (acc : WM × PackSt × List Cb) (c : Cmd) =>
        let (w, p, cbs) := acc
        if p.dead then acc else
        match c with
        | .destroyNow _ =>
          if isCreate then (w.release e, { p with dead := true }, cbs)
          else let (w', cb) := w.destroyNowU info e; (w', { p with dead := true }, cbs ++ cb)
        | .create .. => acc        -- "Create command should be first": exception in the code, excluded by construction
        | .destroy h => ({ w with marked := insertSorted w.marked h }, p, cbs)
        | .remove _ c =>
          if p.final.contains c then
            let next := closedMask w.deps (Mask.erase p.final c)
            if next.contains c then (w, { p with final := next }, cbs)
            else (w, { p with final := next, replaced := Mask.insert p.replaced c, src := p.src.filter (·.1 != c) }, cbs)
          else acc
        | .assign _ c v =>
          let src := p.src.filter (·.1 != c) ++ [(c, v)]
          if p.final.contains c then (w, { p with replaced := Mask.insert p.replaced c, src := src }, cbs)
          else (w, { p with final := closedMask w.deps (Mask.insert p.final c), src := src }, cbs)
      let (w, p, cbs) := body.foldl step (w, { final := initial }, [])
      if p.dead then (w, cbs) else
      let supplied := Mask.ofList (p.src.map (·.1))
      -- an existing entity whose component set did not change stays where it is: no archetype lookup (its archetype
      -- may predate a dependency declaration, and the closed set would then name a different archetype)
      let stay : Option Nat := if isCreate || !(initial == p.final) then none else (w.locOf e).arch
      let (w, ti) := match stay with
        | some pi => (w, pi)
        | none => w.getArch p.final sh
      let moved : WM × List Cb :=
        if isCreate then w.archInsert info ti e supplied
        else
          let l := w.locOf e
          match l.arch with
          | some pi => if pi = ti || initial == p.final then (w, []) else
              match w.externalMove info ti e pi l.idx supplied with
              | some r => r
              | none => (w, [])
          | none => (w, [])
      let (w, cbs1) := moved
      let l' := w.locOf e
      let setVal := fun (w : WM) (c : CompId) (v : Val) =>
        let ta := w.arch ti
        match ta.mask.indexOf? c with
        | none => w
        | some k =>
          let row := ta.rows.getD l'.idx default
          w.setArch ti { ta with rows := ta.rows.set l'.idx { row with vals := row.vals.set k v } }
      -- components removed on the way and present again: the carried-over instance is replaced
      let stale := (p.final.filter (fun c => p.replaced.contains c && initial.contains c)).filter
        (fun c => !(isCreate && supplied.contains c) && (w.arch ti).mask.contains c)
      let (w, cbs2) := stale.foldl (fun (acc : WM × List Cb) c =>
        let cbR := if (info c).callbacks then [Cb.remove c e] else []
        if supplied.contains c then (acc.1, acc.2 ++ cbR)
        else (setVal acc.1 c (defaultVal info c), acc.2 ++ cbR ++ (if (info c).callbacks then [Cb.assign c e] else []))) (w, [])
      -- move-construct the supplied values
      let (w, cbs3) := p.src.foldl (fun (acc : WM × List Cb) (cv : CompId × Val) =>
        if (w.arch ti).mask.contains cv.1 then
          (setVal acc.1 cv.1 cv.2, acc.2 ++ (if (info cv.1).callbacks then [Cb.assign cv.1 e] else []))
        else acc) (w, [])
      (w, cbs ++ cbs1 ++ cbs2 ++ cbs3)

/-- `onUnlock`: buffers in thread-id order, packs in log order; then the temporaries are destroyed -/
def WM.flush (w : WM) : WM × List Cb :=
  let bufs := w.buffers
  let w := { w with buffers := bufs.map (fun _ => []) }
  let (w, cbs) := bufs.foldl (fun (acc : WM × List Cb) buf =>
    (packs buf).foldl (fun (acc : WM × List Cb) p =>
      let (w', c) := acc.1.applyPack info p
      (w', acc.2 ++ c)) acc) (w, [])
  ({ w with temps := [] }, cbs)

def WM.unlock (w : WM) : WM × Bool × List Cb :=
  let w := if w.lockDepth > 0 then { w with lockDepth := w.lockDepth - 1 } else w
  if w.lockDepth = 0 then
    let (w, cbs) := w.flush info
    (w, true, cbs)
  else (w, false, [])

/-! ## queries -/

def WM.hasComp (w : WM) (e : Handle) (c : CompId) : Bool :=
  w.isValid e && match (w.locOf e).arch with
    | some ai => (w.arch ai).mask.contains c
    | none => false

def WM.hasShared (w : WM) (e : Handle) (sid : Nat) : Bool :=
  w.isValid e && match (w.locOf e).arch with
    | some ai => (w.arch ai).shared.has sid
    | none => false

/-- `getComponent<const C>(e)`: `none` = null pointer, `some v` = the stored token -/
def WM.getComp (w : WM) (e : Handle) (c : CompId) : Option Val :=
  if !w.isValid e then none else
  let l := w.locOf e
  match l.arch with
  | none => none
  | some ai =>
    let a := w.arch ai
    match a.mask.indexOf? c with
    | none => none
    | some ci => some ((a.rows.getD l.idx default).vals.getD ci none)

def WM.archOf (w : WM) (e : Handle) : Option Nat :=
  if !w.isValid e then none else (w.locOf e).arch

/-- live instances of a counted component: one per (row, component) plus the buffered temporaries -/
def WM.liveCount (w : WM) (c : CompId) : Nat :=
  (w.archs.foldl (fun n a => if a.mask.contains c then n + a.rows.length else n) 0) +
  (match w.temps.find? (·.1 == c) with | some (_, k) => k | none => 0)

end Mustache.Model

import Mustache.Model.World
/-! `EntityManager::clear()` and `EntityManager::create(Archetype&)` — two public entry points outside the operation type
    `Op` of `Model/WorldStep.lean` (so outside the refinement theorem): `clear()` resets the id table, hence handles are
    re-issued from (0, 0) and C01 cannot hold across it by construction. They are modelled and tied to the code like
    everything else, and the spec oracle judges them (an ordinal whose handle value is re-issued names the new entity). -/
namespace Mustache.Model

variable (info : CompId → CompInfo)

/-- `EntityManager::clear()`: id table and locations emptied, every archetype cleared (beforeRemove callbacks, destructors);
    the pending-destroy set, the shared-value pool, the dependencies and the archetypes themselves stay -/
def WM.clearAll (w : WM) : WM × List Cb :=
  let cbs := w.archs.flatMap (fun a =>
    a.rows.flatMap (fun r => (a.mask.filter (fun c => (info c).callbacks)).map (Cb.remove · r.ent)))
  ({ w with slots := [], locs := [], next := 0, empty := 0,
            archs := w.archs.map (fun a => { a with rows := [] }) }, cbs)

/-- `create(Archetype&)` of archetype index `ai` -/
def WM.createIn (w : WM) (t : Nat) (ai : Nat) : WM × Handle × List Cb :=
  let a := w.arch ai
  if w.isLocked then
    let (w, h) := w.createLocked t a.mask a.shared
    (w, h, [])
  else
    -- the archetype may predate a dependency declaration: the entity goes where a lookup of its component set leads now
    let (w, ti) := if w.deps.isEmpty then (w, ai) else w.getArch a.mask a.shared
    let (w, h) := w.allocId
    let (w, cbs) := w.archInsert info ti h []
    (w, h, cbs)

end Mustache.Model

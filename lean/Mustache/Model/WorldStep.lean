import Mustache.Model.World
import Mustache.Spec.World
/-! # One-step semantics of the world model and of the world spec over a common operation type

`Op ρ` is the API-level operation alphabet of the harness (DESIGN.md Appendix A) with entity references of
type `ρ`: handles for the model (`WM.step`), optional creation ordinals for the spec (`WS.step`).
The line-protocol driver only parses a line into an `Op` and prints the `Out`: everything that is compared with
the implementation goes through these two functions, so theorems about `WM.step`/`WS.step` are theorems about
what is tested against the code. -/
namespace Mustache.Model

inductive Op (ρ : Type) where
  | create (t : Nat) (mask : Mask) (shared : List Nat)        -- shared: type ids, default value 0 each
  | assign (t : Nat) (e : ρ) (c : CompId) (v : Option Nat)    -- `none` = default construction
  | remove (t : Nat) (e : ρ) (c : CompId)
  | buildNew (t : Nat) (adds : List (CompId × Option Nat))
  | build (t : Nat) (e : ρ) (adds : List (CompId × Option Nat)) (rems : Mask)
  | destroy (t : Nat) (e : ρ)
  | destroyNow (t : Nat) (e : ρ)
  | clone (e : ρ)
  | sassign (e : ρ) (sid value : Nat)
  | sremove (e : ρ) (sid : Nat)
  | clearArch (mask : Mask)
  | update
  | lock
  | unlock
  | dep (c : CompId) (extra : Mask)
  | valid (e : ρ)
  | has (e : ρ) (c : CompId)
  | hasShared (e : ρ) (sid : Nat)
  | get (e : ρ) (c : CompId)
  | archOf (e : ρ)
deriving Repr

/-- result of a step; `β` = what a creation returns (handle / ordinal) -/
inductive Out (β : Type) where
  | created (b : β)
  | null                       -- clone of an invalid handle
  | ok
  | selfMove                   -- "Moving from archetype … to itself"
  | lockedUpdate               -- "Can not update locked EntityManager"
  | noArch                     -- clearArch: no archetype with that component set
  | ret (b : Bool)             -- unlock / removeSharedComponent return value
  | flag (b : Bool)            -- valid / has
  | val (v : Option Val)       -- get: `none` = null pointer
  | arch (present : Bool)      -- archOf
deriving Repr

def Op.mapRef {ρ σ : Type} (f : ρ → σ) : Op ρ → Op σ
  | .create t m s => .create t m s
  | .assign t e c v => .assign t (f e) c v
  | .remove t e c => .remove t (f e) c
  | .buildNew t a => .buildNew t a
  | .build t e a r => .build t (f e) a r
  | .destroy t e => .destroy t (f e)
  | .destroyNow t e => .destroyNow t (f e)
  | .clone e => .clone (f e)
  | .sassign e s v => .sassign (f e) s v
  | .sremove e s => .sremove (f e) s
  | .clearArch m => .clearArch m
  | .update => .update
  | .lock => .lock
  | .unlock => .unlock
  | .dep c x => .dep c x
  | .valid e => .valid (f e)
  | .has e c => .has (f e) c
  | .hasShared e s => .hasShared (f e) s
  | .get e c => .get (f e) c
  | .archOf e => .archOf (f e)

variable (info : CompId → CompInfo)

def resOut {β : Type} : Res → Out β
  | .ok => .ok | .selfMove => .selfMove | .lockedUpdate => .lockedUpdate

/-- one API call on the world model -/
def WM.step (w : WM) : Op Handle → WM × Out Handle × List Cb
  | .create t mask shared =>
    -- the creation's default-valued shared components go through the value pool (canonical descriptor)
    let (w, sh) := shared.foldl (fun (acc : WM × Shared) sid =>
      let (w', inst) := acc.1.poolGet sid 0
      (w', acc.2.add sid inst)) (w, Shared.null)
    let (w, h, cbs) := w.create info t mask sh
    (w, .created h, cbs)
  | .assign t e c v =>
    let (w, r, cbs) := w.assign info t e c v
    (w, resOut r, cbs)
  | .remove t e c =>
    let (w, cbs) := w.removeComp info t e c
    (w, .ok, cbs)
  | .buildNew t adds =>
    if w.isLocked then
      -- createWithOutInit -> createLocked(null mask), then one assign command per builder argument
      let (w, h) := w.createLocked t [] Shared.null
      let (w, cbs) := adds.foldl (fun (acc : WM × List Cb) p =>
        let (w', _, c) := acc.1.assign info t h p.1 p.2
        (w', acc.2 ++ c)) (w, [])
      (w, .created h, cbs)
    else
      let (w, h, cbs) := w.buildNewU info adds
      (w, .created h, cbs)
  | .build t e adds rems =>
    if w.isLocked then
      let (w, cbs) := adds.foldl (fun (acc : WM × List Cb) p =>
        let (w', _, c) := acc.1.assign info t e p.1 p.2
        (w', acc.2 ++ c)) (w, [])
      let w := rems.foldl (fun w c => (w.removeComp info t e c).1) w
      (w, .ok, cbs)
    else
      let (w, r, cbs) := w.buildUpdateU info e adds rems
      (w, resOut r, cbs)
  | .destroy t e => (w.destroy t e, .ok, [])
  | .destroyNow t e =>
    let (w, cbs) := w.destroyNow info t e
    (w, .ok, cbs)
  | .clone e =>
    match w.clone e with
    | (w, some d) => (w, .created d, [])
    | (w, none) => (w, .null, [])
  | .sassign e sid v =>
    let (w, cbs) := w.sassign info e sid v
    (w, .ok, cbs)
  | .sremove e sid =>
    let (w, r, cbs) := w.sremove info e sid
    (w, .ret r, cbs)
  | .clearArch mask =>
    let i := w.archs.findIdx (fun a => a.mask == mask)
    if i < w.archs.length then
      let (w, cbs) := w.clearArch info i
      (w, .ok, cbs)
    else (w, .noArch, [])
  | .update =>
    let (w, r, cbs) := w.update info
    (w, resOut r, cbs)
  | .lock => (w.lock, .ok, [])
  | .unlock =>
    let (w, r, cbs) := w.unlock info
    (w, .ret r, cbs)
  | .dep c extra => ({ w with deps := addDependency w.deps c extra }, .ok, [])
  | .valid e => (w, .flag (w.isValid e), [])
  | .has e c => (w, .flag (w.hasComp e c), [])
  | .hasShared e sid => (w, .flag (w.hasShared e sid), [])
  | .get e c => (w, .val (w.getComp e c), [])
  | .archOf e => (w, .arch (w.archOf e).isSome, [])

end Mustache.Model

namespace Mustache.Spec
open Mustache.Model

variable (info : CompId → CompInfo)

/-- one API call on the abstract spec; entity references are creation ordinals (`none` = a handle nobody was issued) -/
def WS.step (s : WS) : Op (Option Nat) → WS × Out Nat × List SCb
  | .create t mask shared =>
    let sh := shared.map (fun sid => (sid, 0))
    if s.lockDepth > 0 then
      let o := s.ents.length
      ({ s with ents := s.ents ++ [none] }.push t (.create o mask sh), .created o, [])
    else
      let (s, o, cbs) := s.doCreate info mask sh
      (s, .created o, cbs)
  | .assign t e c v =>
    let sv := storedVal info c v
    if s.lockDepth > 0 then (s.push t (.assign e c sv), .ok, [])
    else match e with
      | some k => let (s, cbs) := s.doAssign info k c sv; (s, .ok, cbs)
      | none => (s, .ok, [])
  | .remove t e c =>
    if s.lockDepth > 0 then (s.push t (.remove e c), .ok, [])
    else match e with
      | some k => let (s, cbs) := s.doRemove info k c; (s, .ok, cbs)
      | none => (s, .ok, [])
  | .buildNew t adds =>
    if s.lockDepth > 0 then
      let o := s.ents.length
      let s := { s with ents := s.ents ++ [none] }.push t (.create o [] [])
      let s := adds.foldl (fun s p => s.push t (.assign (some o) p.1 (storedVal info p.1 p.2))) s
      (s, .created o, [])
    else
      let (s, o, cbs) := s.doBuildNew info adds
      (s, .created o, cbs)
  | .build t e adds rems =>
    if s.lockDepth > 0 then
      let s := adds.foldl (fun s p => s.push t (.assign e p.1 (storedVal info p.1 p.2))) s
      let s := rems.foldl (fun s c => s.push t (.remove e c)) s
      (s, .ok, [])
    else match e with
      | some k =>
        match s.doBuild info k adds rems with
        | some (s, cbs) => (s, .ok, cbs)
        | none => (s, .selfMove, [])
      | none => (s, .ok, [])
  | .destroy t e =>
    if s.lockDepth > 0 then (s.push t (.destroy e), .ok, [])
    else match e with
      | some k => (if (s.alive k).isSome then { s with marked := insertNat s.marked k } else s, .ok, [])
      | none => (s, .ok, [])
  | .destroyNow t e =>
    if s.lockDepth > 0 then (s.push t (.destroyNow e), .ok, [])
    else match e with
      | some k => let (s, cbs) := s.doDestroy info k; (s, .ok, cbs)
      | none => (s, .ok, [])
  | .clone e =>
    match e with
    | some k =>
      match s.doClone k with
      | (s, some o) => (s, .created o, [])
      | (s, none) => (s, .null, [])
    | none => (s, .null, [])
  | .sassign e sid v =>
    match e with
    | some k =>
      match s.alive k with
      | some ent =>
        -- the entity goes through an archetype lookup: its component set is closed under the dependencies declared so far
        let before := compSet ent
        let after := closed s.deps before
        (s.setEnt k (some { comps := rebuild info ent.comps after [], shared := setShared ent.shared sid v }), .ok,
         cbDiff info k before after)
      | none => (s, .ok, [])
    | none => (s, .ok, [])
  | .sremove e sid =>
    match e with
    | some k =>
      match s.alive k with
      | some ent =>
        if ent.shared.any (·.1 == sid) then
          let before := compSet ent
          let after := closed s.deps before
          (s.setEnt k (some { comps := rebuild info ent.comps after [], shared := ent.shared.filter (·.1 != sid) }), .ret true,
           cbDiff info k before after)
        else (s, .ret false, [])
      | none => (s, .ret false, [])
    | none => (s, .ret false, [])
  | .clearArch mask =>
    let (s, cbs) := s.clearArch info mask
    (s, .ok, cbs)
  | .update =>
    if s.lockDepth > 0 then (s, .lockedUpdate, []) else
    let (s, cbs) := s.update info
    (s, .ok, cbs)
  | .lock => (s.lock, .ok, [])
  | .unlock =>
    let (s, r, cbs) := s.unlock info
    (s, .ret r, cbs)
  | .dep c extra => ({ s with deps := addDependency s.deps c extra }, .ok, [])
  | .valid e => (s, .flag (s.isAlive e), [])
  | .has e c =>
    (s, .flag (match e with
      | some k => (match s.alive k with | some ent => (compSet ent).contains c | none => false)
      | none => false), [])
  | .hasShared e sid =>
    (s, .flag (match e with
      | some k => (match s.alive k with | some ent => ent.shared.any (·.1 == sid) | none => false)
      | none => false), [])
  | .get e c =>
    (s, .val (match e with
      | some k => (match s.alive k with
        | some ent => (ent.comps.find? (·.1 == c)).map (·.2)
        | none => none)
      | none => none), [])
  | .archOf e => (s, .arch (s.isAlive e), [])

end Mustache.Spec

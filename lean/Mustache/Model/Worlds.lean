import Mustache.Model.WorldStep
/-! # Process model (C17): several worlds in one process

The process-global part of /repo/src/mustache/ecs/world.cpp — the world-id allocator — together with the
finite collection of live worlds, each carrying its own world model `WM` (Model/World.lean, imported, not copied).

The allocator is modelled as the FIXED code works (patches/fix-c17-world-id-recycle.diff):

* `reserved_world_ids` : ids handed out by `World::nextWorldId()` and not yet given back,
* `live_world_ids`     : ids of the live worlds (here: the `id` fields of `worlds`),
* `nextWorldId()`      : `r = 0; while (reserved.count(r) || live.count(r)) ++r; reserved.insert(r); return r;`
* `World::World`       : `live.insert(id_)`,
* `World::~World`      : `live.erase(one id_)`; when no live world carries `id_` any more, `reserved.erase(id_)`.

Core Lean only. Tied to the code by `driver worlds` vs `harness/worlds_driver.cpp`. -/
namespace Mustache.Model

/-- the loop `while (used.count(r)) ++r;` started at `n`, with explicit fuel -/
def leastFreeFrom (used : List Nat) : Nat → Nat → Nat
  | 0, n => n
  | fuel + 1, n => if used.contains n then leastFreeFrom used fuel (n + 1) else n

/-- smallest natural number not in `used` (`used.length + 1` iterations always suffice: `Proofs/Worlds.lean`) -/
def leastFree (used : List Nat) : Nat := leastFreeFrom used (used.length + 1) 0

/-- one live world -/
structure WEntry where
  slot : Nat          -- creation ordinal: the name of the world in op files (never reused)
  id : Nat            -- `World::id_`
  auto : Bool         -- ghost: the id came from `nextWorldId()` as the constructor's default argument
  sharedCtx : Bool    -- the world uses the process-wide shared dispatcher + memory manager
  wm : WM
deriving Inhabited

structure Proc where
  reserved : List Nat := []
  worlds : List WEntry := []        -- live worlds, in creation order
  nextSlot : Nat := 0
deriving Inhabited

inductive POp where
  | newAuto (shared : Bool)                    -- `World w{ctx};`
  | newExplicit (id : Nat) (shared : Bool)     -- `World w{ctx, WorldId::make(id)};`
  | reserve                                    -- a bare `World::nextWorldId()`
  | drop (slot : Nat)                          -- `~World`
  | onWorld (slot : Nat) (f : WM → WM)         -- any operation of the world-model on the world named `slot`

def Proc.liveIds (p : Proc) : List Nat := p.worlds.map (·.id)

def Proc.world? (p : Proc) (slot : Nat) : Option WEntry := p.worlds.find? (·.slot == slot)

/-- `World::nextWorldId()` -/
def Proc.nextWorldId (p : Proc) : Proc × Nat :=
  let r := leastFree (p.reserved ++ p.liveIds)
  ({ p with reserved := r :: p.reserved }, r)

/-- a freshly constructed world: empty entity manager stamped with the world id -/
def freshWM (id : Nat) (shared : Bool) : WM := { worldId := id, nthreads := if shared then 3 else 2 }

/-- `World::World(ctx, id)` -/
def Proc.construct (p : Proc) (id : Nat) (auto shared : Bool) : Proc :=
  { p with worlds := p.worlds ++ [⟨p.nextSlot, id, auto, shared, freshWM id shared⟩], nextSlot := p.nextSlot + 1 }

/-- `World::~World()` of the world named `slot` -/
def Proc.destroy (p : Proc) (slot : Nat) : Proc :=
  match p.world? slot with
  | none => p
  | some e =>
    let ws := p.worlds.filter (·.slot != slot)
    { p with worlds := ws,
             reserved := if (ws.map (·.id)).contains e.id then p.reserved else p.reserved.filter (· != e.id) }

def Proc.step (p : Proc) : POp → Proc
  | .newAuto shared => let (p', r) := p.nextWorldId; p'.construct r true shared
  | .newExplicit id shared => p.construct id false shared
  | .reserve => p.nextWorldId.1
  | .drop slot => p.destroy slot
  | .onWorld slot f => { p with worlds := p.worlds.map (fun e => if e.slot == slot then { e with wm := f e.wm } else e) }

def Proc.run (p : Proc) (ops : List POp) : Proc := ops.foldl Proc.step p

/-- ids handed out by a bare `nextWorldId()` that no live world carries (yet) -/
def Proc.pending (p : Proc) : List Nat := p.reserved.filter (fun r => !p.liveIds.contains r)

/-- what counts against the 2^10 ids of the handle layout: live worlds + outstanding reservations -/
def Proc.load (p : Proc) : Nat := p.worlds.length + p.pending.length

/-- an operation of the world model (`Op Handle` / `WM.step`, Model/WorldStep.lean: the alphabet the single-world checks
    C01-C13 run against the library) addressed to the world named `slot` -/
def POp.ofW (info : CompId → CompInfo) (slot : Nat) (op : Op Handle) : POp := .onWorld slot (fun w => (w.step info op).1)

/-! ## what the code sees of a handle: the packed 64-bit value (`Entity::reset` ORs the unmasked fields) -/

def Handle.packed (h : Handle) : Nat := (h.id ||| (h.world <<< 30) ||| (h.ver <<< 40)) % 2^64

/-- the handle as the library reads it back from its packed value -/
def Handle.seen (h : Handle) : Handle := Handle.ofValue h.packed

/-! ## the allocator of the pinned (unfixed) tree, kept for the negative result `Props.C17.legacy_*`:
    `used_world_ids` is only ever erased from and `next_id` only grows -/

structure LegacyAlloc where
  pool : List Nat := []
  next : Nat := 0

def LegacyAlloc.nextWorldId (a : LegacyAlloc) : LegacyAlloc × Nat :=
  match a.pool with
  | r :: rest => ({ a with pool := rest }, r)
  | [] => ({ a with next := a.next + 1 }, a.next)

/-- `~World`: `used_world_ids.erase(id_)` -/
def LegacyAlloc.release (a : LegacyAlloc) (id : Nat) : LegacyAlloc := { a with pool := a.pool.filter (· != id) }

/-- create-and-destroy `n` automatically numbered worlds one after the other; returns the ids they got -/
def LegacyAlloc.churn (a : LegacyAlloc) : Nat → LegacyAlloc × List Nat
  | 0 => (a, [])
  | n + 1 =>
    let (a1, r) := a.nextWorldId
    let (a2, rs) := (a1.release r).churn n
    (a2, r :: rs)

end Mustache.Model

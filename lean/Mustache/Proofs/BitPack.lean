import Mustache.Gen.EntityIR
/-! Helper lemmas for C16: Nat-level meaning of the GENERATED handle functions
    (`Mustache.Gen.*`, regenerated from /repo's LLVM IR on every run). Kernel-only: no bv_decide. -/
namespace Mustache.Proofs.BitPack
open Mustache.Gen

theorem or3 (i v w : Nat) (hi : i < 2^30) (hw : w < 2^10) :
    (v * 2^40 ||| i) ||| w * 2^30 = i + w * 2^30 + v * 2^40 := by
  have hA := Nat.shiftLeft_add_eq_or_of_lt (i := 10) (b := w) hw v
  have hB := Nat.shiftLeft_add_eq_or_of_lt (i := 30) (b := i) hi (v <<< 10 ||| w)
  have hC := Nat.shiftLeft_add_eq_or_of_lt (i := 40) (b := i) (by omega) v
  have hD : (v <<< 10 ||| w) <<< 30 = v <<< 40 ||| w <<< 30 := by
    rw [Nat.shiftLeft_or_distrib, ← Nat.shiftLeft_add]
  rw [hD] at hB
  rw [← hA] at hD
  simp only [Nat.shiftLeft_eq] at hA hB hC hD
  rw [Nat.or_assoc, Nat.or_comm i, ← Nat.or_assoc, ← hB, ← hD]
  clear hA hB hC hD
  omega

theorem id_toNat (x : BitVec 64) : (w_id x).toNat = x.toNat % 2^30 := by
  unfold w_id
  simp only [BitVec.toNat_and, BitVec.toNat_setWidth, BitVec.toNat_ofNat]
  have h : (1073741823 % 2^32) = 2^30 - 1 := by decide
  rw [h, Nat.and_two_pow_sub_one_eq_mod]
  have := x.isLt
  omega

theorem version_toNat (x : BitVec 64) : (w_version x).toNat = x.toNat / 2^40 := by
  unfold w_version
  simp only [BitVec.toNat_setWidth, BitVec.toNat_ushiftRight, Nat.shiftRight_eq_div_pow]
  have := x.isLt
  omega

theorem world_toNat (x : BitVec 64) : (w_world x).toNat = x.toNat / 2^30 % 2^10 := by
  unfold w_world
  simp only [BitVec.toNat_and, BitVec.toNat_setWidth, BitVec.toNat_ushiftRight, Nat.shiftRight_eq_div_pow,
    BitVec.toNat_ofNat]
  have h : (1023 % 2^32) = 2^10 - 1 := by decide
  rw [h, Nat.and_two_pow_sub_one_eq_mod]
  have := x.isLt
  omega

theorem reset_toNat (i v w : BitVec 32) (hi : i.toNat < 2^30) (hv : v.toNat < 2^24) (hw : w.toNat < 2^10) :
    (w_reset i v w).toNat = i.toNat + w.toNat * 2^30 + v.toNat * 2^40 := by
  unfold w_reset
  simp only [BitVec.toNat_or, BitVec.toNat_shiftLeft, BitVec.toNat_setWidth, Nat.shiftLeft_eq]
  have e1 : i.toNat % 2^64 = i.toNat := Nat.mod_eq_of_lt (by omega)
  have e2a : v.toNat % 2^64 = v.toNat := Nat.mod_eq_of_lt (by omega)
  have e3a : w.toNat % 2^64 = w.toNat := Nat.mod_eq_of_lt (by omega)
  have e2 : v.toNat * 2^40 % 2^64 = v.toNat * 2^40 := Nat.mod_eq_of_lt (by omega)
  have e3 : w.toNat * 2^30 % 2^64 = w.toNat * 2^30 := Nat.mod_eq_of_lt (by omega)
  rw [e1, e2a, e3a, e2, e3]
  exact or3 _ _ _ hi hw

/-- every 64-bit pattern is the sum of its three fields -/
theorem fields_sum (x : BitVec 64) :
    x.toNat = (w_id x).toNat + (w_world x).toNat * 2^30 + (w_version x).toNat * 2^40 := by
  rw [id_toNat, world_toNat, version_toNat]
  generalize x.toNat = a
  have h1 := Nat.div_add_mod a (2^30)
  have h2 := Nat.div_add_mod (a / 2^30) (2^10)
  have h3 : a / 2^30 / 2^10 = a / 2^40 := by rw [Nat.div_div_eq_div_mul]
  rw [h3] at h2
  generalize a / 2^40 = q3 at *
  generalize a / 2^30 % 2^10 = r2 at *
  generalize a / 2^30 = q1 at *
  generalize a % 2^30 = r1 at *
  omega

theorem next_toNat (x : BitVec 64) : (w_next x).toNat = (x.toNat + 2^40) % 2^64 := by
  unfold w_next
  rw [BitVec.toNat_add]
  rfl

theorem next_nat (I W V : Nat) (hI : I < 2^30) (hW : W < 2^10) (hV : V < 2^24) :
    (I + W * 2^30 + V * 2^40 + 2^40) % 2^64 = I + W * 2^30 + ((V + 1) % 2^24) * 2^40 := by
  by_cases hv : V + 1 < 2^24
  · rw [Nat.mod_eq_of_lt hv, Nat.mod_eq_of_lt (by omega)]; omega
  · have hV' : V = 2^24 - 1 := by omega
    subst hV'
    have e : I + W * 2^30 + (2^24 - 1) * 2^40 + 2^40 = (I + W * 2^30) + 1 * 2^64 := by omega
    rw [e, Nat.add_mul_mod_self_right, Nat.mod_eq_of_lt (by omega)]
    have : (2^24 - 1 + 1) % 2^24 = 0 := by decide
    rw [this]; omega

/-- align-up on naturals: the largest multiple of `a` not above `n` is within `a` of `n` -/
theorem sub_mod_facts (n a : Nat) (ha : 0 < a) :
    (n - n % a) % a = 0 ∧ n - n % a ≤ n ∧ n < n - n % a + a := by
  have h1 := Nat.div_add_mod n a
  have h2 := Nat.mod_lt n ha
  have h3 : n - n % a = a * (n / a) := by omega
  refine ⟨?_, by omega, by omega⟩
  rw [h3]; exact Nat.mul_mod_right _ _

end Mustache.Proofs.BitPack

import Mustache.Model.CApi
import Mustache.Proofs.CApiPack
/-! # C18 helper: the `callbacks` flag never influences state or returned values

`AgreeV I I'`: the two descriptions agree on `defaultVal`, `fixed` and `counted` (they may differ in `callbacks`).
For every operation `f` of the C++ interface layer, the state component and the value-level outputs of `f I` and `f I'`
coincide (`…_fst` lemmas); only the callback log differs. Lifted through the folds of `update`, `applyPack`, `flush`
and to whole call sequences (`xrun_fst`). -/
namespace Mustache.Proofs.CApi
open Mustache.Model Mustache.Model.CApi

structure AgreeV (I I' : CompId → CompInfo) : Prop where
  dv : ∀ c, defaultVal I c = defaultVal I' c
  fx : ∀ c, (I c).fixed = (I' c).fixed
  ct : ∀ c, (I c).counted = (I' c).counted

variable {I I' : CompId → CompInfo}

theorem archRemove_fst (w : WM) (ai idx : Nat) (skip : Mask) :
    (w.archRemove I ai idx skip).1 = (w.archRemove I' ai idx skip).1 := by
  unfold WM.archRemove
  dsimp only
  split
  · rfl
  · split <;> rfl

theorem archInsert_fst (h : AgreeV I I') (w : WM) (ai : Nat) (e : Handle) (skip : Mask) :
    (w.archInsert I ai e skip).1 = (w.archInsert I' ai e skip).1 := by
  unfold WM.archInsert
  simp only [h.dv, h.fx]

theorem externalMove_fst (h : AgreeV I I') (w : WM) (target : Nat) (e : Handle) (prev prevIdx : Nat) (skip : Mask) :
    (w.externalMove I target e prev prevIdx skip).map (·.1) = (w.externalMove I' target e prev prevIdx skip).map (·.1) := by
  unfold WM.externalMove
  split
  · rfl
  · simp only [h.dv, h.fx, Option.map_some, Option.some.injEq]
    rw [archRemove_fst (I := I) (I' := I')]

theorem foldl_proj_rel {S T α : Type} (π : S → T) (f g : S → α → S)
    (hfg : ∀ a b x, π a = π b → π (f a x) = π (g b x)) (l : List α) (a b : S) (h : π a = π b) :
    π (l.foldl f a) = π (l.foldl g b) := by
  induction l generalizing a b with
  | nil => exact h
  | cons x xs ih => exact ih _ _ (hfg a b x h)

theorem destroyNowU_fst (w : WM) (e : Handle) :
    (w.destroyNowU I e).1 = (w.destroyNowU I' e).1 := by
  unfold WM.destroyNowU
  split
  · rfl
  · dsimp only
    split
    · have := archRemove_fst (I := I) (I' := I') w ‹_› (w.locOf e).idx []
      revert this
      generalize w.archRemove I _ _ _ = a
      generalize w.archRemove I' _ _ _ = b
      intro hab
      obtain ⟨a1, a2⟩ := a
      obtain ⟨b1, b2⟩ := b
      simp only at hab
      subst hab
      rfl
    · rfl

/-- helper: two pairs with equal first components, destructured -/
theorem fst_of_eq {α β : Type} {a b : α × β} (h : a.1 = b.1) : ∃ x y z, a = (x, y) ∧ b = (x, z) := by
  obtain ⟨a1, a2⟩ := a; obtain ⟨b1, b2⟩ := b
  simp only at h; subst h
  exact ⟨_, _, _, rfl, rfl⟩

theorem destroyNow_fst (w : WM) (t : Nat) (e : Handle) :
    (w.destroyNow I t e).1 = (w.destroyNow I' t e).1 := by
  unfold WM.destroyNow
  split
  · rfl
  · exact destroyNowU_fst w e

theorem update_fst (w : WM) :
    (w.update I).1 = (w.update I').1 ∧ (w.update I).2.1 = (w.update I').2.1 := by
  unfold WM.update
  split
  · exact ⟨rfl, rfl⟩
  · dsimp only
    have key := foldl_proj_rel (S := WM × List Cb) (fun a => a.1)
      (fun (acc : WM × List Cb) h => let (w', c) := acc.1.destroyNowU I h; (w', acc.2 ++ c))
      (fun (acc : WM × List Cb) h => let (w', c) := acc.1.destroyNowU I' h; (w', acc.2 ++ c))
      (by
        intro a b x hab
        dsimp only
        obtain ⟨x1, y1, z1, h1, h2⟩ := fst_of_eq (destroyNowU_fst (I := I) (I' := I') a.1 x)
        rw [← hab, h1, h2]) w.marked (w, []) (w, []) rfl
    obtain ⟨x1, y1, z1, h1, h2⟩ := fst_of_eq key
    rw [h1, h2]
    exact ⟨rfl, rfl⟩

theorem createAt_fst (h : AgreeV I I') (w : WM) (t ai : Nat) :
    (createAt I w t ai).1 = (createAt I' w t ai).1 ∧ (createAt I w t ai).2.1 = (createAt I' w t ai).2.1 := by
  unfold createAt
  split
  · exact ⟨rfl, rfl⟩
  · dsimp only
    obtain ⟨x1, y1, z1, h1, h2⟩ := fst_of_eq (archInsert_fst h (w.allocId).1 ai (w.allocId).2 [])
    rw [h1, h2]
    exact ⟨rfl, rfl⟩

theorem rawVal_eq (h : AgreeV I I') (c : CompId) : rawVal I c = rawVal I' c := by
  unfold rawVal; simp only [h.fx]

theorem assignId_fst (h : AgreeV I I') (w : WM) (t : Nat) (e : Handle) (c : CompId) (skip : Bool) :
    (assignId I w t e c skip).1 = (assignId I' w t e c skip).1 ∧
    (assignId I w t e c skip).2.1 = (assignId I' w t e c skip).2.1 ∧
    (assignId I w t e c skip).2.2.1 = (assignId I' w t e c skip).2.2.1 := by
  unfold assignId
  split
  · simp only [h.dv, h.ct, rawVal_eq h, and_self]
  · dsimp only
    split
    · exact ⟨rfl, rfl, rfl⟩
    · next pi hpi =>
      have key := externalMove_fst h
        (w.getArch (Mask.insert (w.arch pi).mask c) (w.arch pi).shared).1
        (w.getArch (Mask.insert (w.arch pi).mask c) (w.arch pi).shared).2 e pi (w.locOf e).idx
        (if skip = true then Mask.insert (w.arch pi).mask c else [])
      revert key
      generalize WM.externalMove I _ _ _ _ _ _ = a
      generalize WM.externalMove I' _ _ _ _ _ _ = b
      intro key
      cases a <;> cases b <;> simp only [Option.map_none, Option.map_some, Option.some.injEq, reduceCtorEq] at key
      · exact ⟨rfl, rfl, rfl⟩
      · next a b => obtain ⟨a1, a2⟩ := a; obtain ⟨b1, b2⟩ := b; simp only at key; subst key; exact ⟨rfl, rfl, rfl⟩

theorem removeUntyped_fst (h : AgreeV I I') (w : WM) (t : Nat) (e : Handle) (c : CompId) :
    (removeUntyped I w t e c).1 = (removeUntyped I' w t e c).1 := by
  unfold removeUntyped
  split
  · rfl
  · dsimp only
    split
    · rfl
    · next pi hpi =>
      split
      · rfl
      · have key := externalMove_fst h
          (w.getArch (Mask.erase (w.arch pi).mask c) (w.arch pi).shared).1
          (w.getArch (Mask.erase (w.arch pi).mask c) (w.arch pi).shared).2 e pi (w.locOf e).idx []
        revert key
        generalize WM.externalMove I _ _ _ _ _ _ = a
        generalize WM.externalMove I' _ _ _ _ _ _ = b
        intro key
        cases a <;> cases b <;> simp only [Option.map_none, Option.map_some, Option.some.injEq, reduceCtorEq] at key
        · rfl
        · next a b => obtain ⟨a1, a2⟩ := a; obtain ⟨b1, b2⟩ := b; simp only at key; subst key; rfl

theorem clear_fst (w : WM) : (clear I w).1 = (clear I' w).1 := by
  unfold clear; rfl


theorem packStep_proj (isCreate : Bool) (e : Handle) (a b : WM × PackSt × List Cb) (c : Cmd)
    (hab : (a.1, a.2.1) = (b.1, b.2.1)) :
    ((packStep I isCreate e a c).1, (packStep I isCreate e a c).2.1) =
    ((packStep I' isCreate e b c).1, (packStep I' isCreate e b c).2.1) := by
  obtain ⟨aw, ap, ac⟩ := a
  obtain ⟨bw, bp, bc⟩ := b
  simp only [Prod.mk.injEq] at hab
  obtain ⟨rfl, rfl⟩ := hab
  unfold packStep
  dsimp only
  split
  · rfl
  · split
    · split
      · rfl
      · obtain ⟨x1, y1, z1, h1, h2⟩ := fst_of_eq (destroyNowU_fst (I := I) (I' := I') aw e)
        rw [h1, h2]
    · rfl
    · rfl
    · split
      · split <;> rfl
      · rfl
    · split <;> rfl

theorem packMoved_fst (h : AgreeV I I') (isCreate : Bool) (e : Handle) (initial : Mask) (w : WM) (ti : Nat) (p : PackSt)
    (supplied : Mask) :
    (packMoved I isCreate e initial w ti p supplied).1 = (packMoved I' isCreate e initial w ti p supplied).1 := by
  unfold packMoved
  split
  · exact archInsert_fst h w ti e supplied
  · dsimp only
    split
    · next pi hpi =>
      split
      · rfl
      · have key := externalMove_fst h w ti e pi (w.locOf e).idx supplied
        revert key
        generalize WM.externalMove I _ _ _ _ _ _ = a
        generalize WM.externalMove I' _ _ _ _ _ _ = b
        intro key
        cases a <;> cases b <;> simp only [Option.map_none, Option.map_some, Option.some.injEq, reduceCtorEq] at key
        · rfl
        · exact key
    · rfl

theorem packStale_fst (h : AgreeV I I') (isCreate : Bool) (e : Handle) (initial : Mask) (ti idx : Nat) (p : PackSt)
    (supplied : Mask) (w : WM) :
    (packStale I isCreate e initial ti idx p supplied w).1 = (packStale I' isCreate e initial ti idx p supplied w).1 := by
  unfold packStale
  dsimp only
  apply foldl_proj_rel (S := WM × List Cb) (fun a => a.1)
  · intro a b c hab
    split
    · exact hab
    · rw [hab, h.dv]
  · rfl

theorem packSrc_fst (e : Handle) (ti idx : Nat) (p : PackSt) (w : WM) :
    (packSrc I e ti idx p w).1 = (packSrc I' e ti idx p w).1 := by
  unfold packSrc
  apply foldl_proj_rel (S := WM × List Cb) (fun a => a.1)
  · intro a b c hab
    split
    · rw [hab]
    · exact hab
  · rfl

theorem packTail_fst (h : AgreeV I I') (isCreate : Bool) (e : Handle) (initial : Mask) (sh : Shared) (w : WM) (p : PackSt)
    (cbs cbs' : List Cb) :
    (packTail I isCreate e initial sh w p cbs).1 = (packTail I' isCreate e initial sh w p cbs').1 := by
  unfold packTail
  split
  · rfl
  · dsimp only
    rw [packMoved_fst h, packStale_fst h, packSrc_fst (I := I) (I' := I')]

theorem applyPack_fst (h : AgreeV I I') (w : WM) (pack : List Cmd) :
    (w.applyPack I pack).1 = (w.applyPack I' pack).1 := by
  rw [applyPack_unfold, applyPack_unfold]
  split
  · rfl
  · next first rest =>
    split
    · rfl
    · next w0 initial0 sh hst =>
      dsimp only
      have key := foldl_proj_rel (S := WM × PackSt × List Cb) (fun a => (a.1, a.2.1))
        (packStep I (isCreateCmd first) first.entity) (packStep I' (isCreateCmd first) first.entity)
        (fun a b x hab => packStep_proj (isCreateCmd first) first.entity a b x hab)
        (if isCreateCmd first then rest else first :: rest)
        (w0, { final := if isCreateCmd first then closedMask w0.deps initial0 else initial0 }, [])
        (w0, { final := if isCreateCmd first then closedMask w0.deps initial0 else initial0 }, []) rfl
      simp only [Prod.mk.injEq] at key
      rw [key.1, key.2]
      exact packTail_fst h _ _ _ _ _ _ _ _

theorem flush_fst (h : AgreeV I I') (w : WM) : (w.flush I).1 = (w.flush I').1 := by
  unfold WM.flush
  dsimp only
  have inner : ∀ (buf : List Cmd) (a b : WM × List Cb), a.1 = b.1 →
      ((packs buf).foldl (fun (acc : WM × List Cb) p => let (w', c) := acc.1.applyPack I p; (w', acc.2 ++ c)) a).1 =
      ((packs buf).foldl (fun (acc : WM × List Cb) p => let (w', c) := acc.1.applyPack I' p; (w', acc.2 ++ c)) b).1 := by
    intro buf a b hab
    apply foldl_proj_rel (S := WM × List Cb) (fun a => a.1)
    · intro a b p hab
      obtain ⟨x1, y1, z1, h1, h2⟩ := fst_of_eq (applyPack_fst h a.1 p)
      dsimp only
      rw [← hab, h1, h2]
    · exact hab
  have key := foldl_proj_rel (S := WM × List Cb) (fun a => a.1)
    (fun (acc : WM × List Cb) buf =>
      (packs buf).foldl (fun (acc : WM × List Cb) p => let (w', c) := acc.1.applyPack I p; (w', acc.2 ++ c)) acc)
    (fun (acc : WM × List Cb) buf =>
      (packs buf).foldl (fun (acc : WM × List Cb) p => let (w', c) := acc.1.applyPack I' p; (w', acc.2 ++ c)) acc)
    (fun a b buf hab => inner buf a b hab) w.buffers
    ({ w with buffers := w.buffers.map (fun _ => []) }, []) ({ w with buffers := w.buffers.map (fun _ => []) }, []) rfl
  obtain ⟨x1, y1, z1, h1, h2⟩ := fst_of_eq key
  rw [h1, h2]

theorem unlock_aux (h : AgreeV I I') (w1 : WM) :
    (if w1.lockDepth = 0 then (let (w, cbs) := w1.flush I; (w, true, cbs)) else (w1, false, ([] : List Cb))).1 =
    (if w1.lockDepth = 0 then (let (w, cbs) := w1.flush I'; (w, true, cbs)) else (w1, false, ([] : List Cb))).1 ∧
    (if w1.lockDepth = 0 then (let (w, cbs) := w1.flush I; (w, true, cbs)) else (w1, false, ([] : List Cb))).2.1 =
    (if w1.lockDepth = 0 then (let (w, cbs) := w1.flush I'; (w, true, cbs)) else (w1, false, ([] : List Cb))).2.1 := by
  split
  · obtain ⟨x1, y1, z1, h1, h2⟩ := fst_of_eq (flush_fst h w1)
    rw [h1, h2]
    exact ⟨rfl, rfl⟩
  · exact ⟨rfl, rfl⟩

theorem unlock_fst (h : AgreeV I I') (w : WM) :
    (w.unlock I).1 = (w.unlock I').1 ∧ (w.unlock I).2.1 = (w.unlock I').2.1 := by
  unfold WM.unlock
  exact unlock_aux h _

theorem store_eqV (h : AgreeV I I') (w : WM) (p : Ptr) (tok : Nat) : store I w p tok = store I' w p tok := by
  unfold store
  simp only [h.fx]

theorem applyWrites_eqV (h : AgreeV I I') (w : WM) (job : NtJob) (call : Mustache.Iteration.NtCall) :
    applyWrites I w job call = applyWrites I' w job call := by
  unfold applyWrites
  simp only [store_eqV h]

theorem runNt_fst (h : AgreeV I I') (w : WM) (cap : Nat) (job : NtJob) :
    (runNt I w cap job).1 = (runNt I' w cap job).1 ∧ (runNt I w cap job).2.1 = (runNt I' w cap job).2.1 := by
  unfold runNt
  dsimp only
  split
  · exact ⟨rfl, rfl⟩
  · simp only [applyWrites_eqV h]
    generalize (List.foldl _ _ _ : WM × List JobCall) = r
    obtain ⟨hu1, hu2⟩ := unlock_fst h r.1
    revert hu1 hu2
    generalize r.1.unlock I = a
    generalize r.1.unlock I' = b
    intro hu1 hu2
    obtain ⟨a1, a2, a3⟩ := a
    obtain ⟨b1, b2, b3⟩ := b
    simp only at hu1 hu2
    subst hu1
    exact ⟨rfl, rfl⟩

theorem xstep_fst (h : AgreeV I I') (cap t : Nat) (w : WM) (op : XOp) :
    (xstep I cap t w op).1 = (xstep I' cap t w op).1 ∧ (xstep I cap t w op).2.1 = (xstep I' cap t w op).2.1 := by
  cases op with
  | getArchetype mask => exact ⟨rfl, rfl⟩
  | createAt ai =>
    obtain ⟨h1, h2⟩ := createAt_fst h w t ai
    simp only [xstep]
    revert h1 h2
    generalize createAt I w t ai = a
    generalize createAt I' w t ai = b
    intro h1 h2
    obtain ⟨a1, a2, a3⟩ := a; obtain ⟨b1, b2, b3⟩ := b
    simp only at h1 h2; subst h1; subst h2
    exact ⟨rfl, rfl⟩
  | assign e c skip =>
    obtain ⟨h1, h2, h3⟩ := assignId_fst h w t e c skip
    simp only [xstep]
    revert h1 h2 h3
    generalize assignId I w t e c skip = a
    generalize assignId I' w t e c skip = b
    intro h1 h2 h3
    obtain ⟨a1, a2, a3, a4⟩ := a; obtain ⟨b1, b2, b3, b4⟩ := b
    simp only at h1 h2 h3; subst h1; subst h2; subst h3
    exact ⟨rfl, rfl⟩
  | store p tok => simp only [xstep, store_eqV h, and_self]
  | hasComponent e c => exact ⟨rfl, rfl⟩
  | getComponent e c k => exact ⟨rfl, rfl⟩
  | removeUntyped e c =>
    obtain ⟨x1, y1, z1, h1, h2⟩ := fst_of_eq (removeUntyped_fst h w t e c)
    simp only [xstep, h1, h2, and_self]
  | destroyNow e =>
    obtain ⟨x1, y1, z1, h1, h2⟩ := fst_of_eq (destroyNow_fst (I := I) (I' := I') w t e)
    simp only [xstep, h1, h2, and_self]
  | destroy e => exact ⟨rfl, rfl⟩
  | update =>
    obtain ⟨h1, h2⟩ := update_fst (I := I) (I' := I') w
    simp only [xstep]
    revert h1 h2
    generalize w.update I = a
    generalize w.update I' = b
    intro h1 h2
    obtain ⟨a1, a2, a3⟩ := a; obtain ⟨b1, b2, b3⟩ := b
    simp only at h1 h2; subst h1; subst h2
    exact ⟨rfl, rfl⟩
  | clear => exact ⟨rfl, rfl⟩
  | runJob job =>
    obtain ⟨h1, h2⟩ := runNt_fst h w cap job
    simp only [xstep]
    revert h1 h2
    generalize runNt I w cap job = a
    generalize runNt I' w cap job = b
    intro h1 h2
    obtain ⟨a1, a2, a3⟩ := a; obtain ⟨b1, b2, b3⟩ := b
    simp only at h1 h2; subst h1; subst h2
    exact ⟨rfl, rfl⟩

theorem xrun_fst (h : AgreeV I I') (cap t : Nat) (w : WM) (ops : List XOp) :
    (xrun I cap t w ops).1 = (xrun I' cap t w ops).1 ∧ (xrun I cap t w ops).2.1 = (xrun I' cap t w ops).2.1 := by
  induction ops generalizing w with
  | nil => exact ⟨rfl, rfl⟩
  | cons op rest ih =>
    obtain ⟨h1, h2⟩ := xstep_fst h cap t w op
    simp only [xrun]
    revert h1 h2
    generalize xstep I cap t w op = a
    generalize xstep I' cap t w op = b
    intro h1 h2
    obtain ⟨a1, a2, a3⟩ := a; obtain ⟨b1, b2, b3⟩ := b
    simp only at h1 h2; subst h1; subst h2
    obtain ⟨i1, i2⟩ := ih a1
    revert i1 i2
    generalize xrun I cap t a1 rest = c
    generalize xrun I' cap t a1 rest = d
    intro i1 i2
    obtain ⟨c1, c2, c3⟩ := c; obtain ⟨d1, d2, d3⟩ := d
    simp only at i1 i2; subst i1; subst i2
    exact ⟨rfl, rfl⟩

end Mustache.Proofs.CApi

import Mustache.Model.CApi
/-! # C18 helper: congruence of the world-model operations in the component description

`Agree I I'`: two component descriptions give every component the same default-construction value (`defaultVal`),
the same `fixed` value and the same `callbacks` / `counted` flags. Every operation of the world model (and of the C++
interface layer of `Model/CApi.lean`) returns literally the same result for both: the operations read the description
ONLY through those four projections. In particular `hasCtor` and `dflt` matter only through `defaultVal`, the value
of a freshly default-constructed component. -/
namespace Mustache.Proofs.CApi
open Mustache.Model Mustache.Model.CApi

structure Agree (I I' : CompId → CompInfo) : Prop where
  dv : ∀ c, defaultVal I c = defaultVal I' c
  fx : ∀ c, (I c).fixed = (I' c).fixed
  cb : ∀ c, (I c).callbacks = (I' c).callbacks
  ct : ∀ c, (I c).counted = (I' c).counted

variable {I I' : CompId → CompInfo}

theorem archRemove_congr (h : Agree I I') (w : WM) (ai idx : Nat) (skip : Mask) :
    w.archRemove I ai idx skip = w.archRemove I' ai idx skip := by
  unfold WM.archRemove
  simp only [h.cb]

theorem archInsert_congr (h : Agree I I') (w : WM) (ai : Nat) (e : Handle) (skip : Mask) :
    w.archInsert I ai e skip = w.archInsert I' ai e skip := by
  unfold WM.archInsert
  simp only [h.cb, h.dv, h.fx]

theorem externalMove_congr (h : Agree I I') (w : WM) (target : Nat) (e : Handle) (prev prevIdx : Nat) (skip : Mask) :
    w.externalMove I target e prev prevIdx skip = w.externalMove I' target e prev prevIdx skip := by
  unfold WM.externalMove
  simp only [h.cb, h.dv, h.fx, archRemove_congr h]

theorem destroyNowU_congr (h : Agree I I') (w : WM) (e : Handle) :
    w.destroyNowU I e = w.destroyNowU I' e := by
  unfold WM.destroyNowU
  simp only [archRemove_congr h]

theorem destroyNow_congr (h : Agree I I') (w : WM) (t : Nat) (e : Handle) :
    w.destroyNow I t e = w.destroyNow I' t e := by
  unfold WM.destroyNow
  simp only [destroyNowU_congr h]

theorem update_congr (h : Agree I I') (w : WM) : w.update I = w.update I' := by
  unfold WM.update
  simp only [destroyNowU_congr h]

theorem applyPack_congr (h : Agree I I') (w : WM) (p : List Cmd) :
    w.applyPack I p = w.applyPack I' p := by
  unfold WM.applyPack
  simp only [h.cb, h.dv, archInsert_congr h, externalMove_congr h, destroyNowU_congr h]

theorem flush_congr (h : Agree I I') (w : WM) : w.flush I = w.flush I' := by
  unfold WM.flush
  simp only [applyPack_congr h]

theorem unlock_congr (h : Agree I I') (w : WM) : w.unlock I = w.unlock I' := by
  unfold WM.unlock
  simp only [flush_congr h]

theorem createAt_congr (h : Agree I I') (w : WM) (t ai : Nat) : createAt I w t ai = createAt I' w t ai := by
  unfold createAt
  simp only [archInsert_congr h]

theorem rawVal_congr (h : Agree I I') (c : CompId) : rawVal I c = rawVal I' c := by
  unfold rawVal
  simp only [h.fx]

theorem assignId_congr (h : Agree I I') (w : WM) (t : Nat) (e : Handle) (c : CompId) (skip : Bool) :
    assignId I w t e c skip = assignId I' w t e c skip := by
  unfold assignId
  simp only [h.dv, h.ct, rawVal_congr h, externalMove_congr h]

theorem store_congr (h : Agree I I') (w : WM) (p : Ptr) (tok : Nat) : store I w p tok = store I' w p tok := by
  unfold store
  simp only [h.fx]

theorem removeUntyped_congr (h : Agree I I') (w : WM) (t : Nat) (e : Handle) (c : CompId) :
    removeUntyped I w t e c = removeUntyped I' w t e c := by
  unfold removeUntyped
  simp only [externalMove_congr h]

theorem clear_congr (h : Agree I I') (w : WM) : clear I w = clear I' w := by
  unfold clear
  simp only [h.cb]

theorem applyWrites_congr (h : Agree I I') (w : WM) (job : NtJob) (call : Mustache.Iteration.NtCall) :
    applyWrites I w job call = applyWrites I' w job call := by
  unfold applyWrites
  simp only [store_congr h]

theorem runNt_congr (h : Agree I I') (w : WM) (cap : Nat) (job : NtJob) :
    runNt I w cap job = runNt I' w cap job := by
  unfold runNt
  simp only [applyWrites_congr h, unlock_congr h]

theorem xstep_congr (h : Agree I I') (cap t : Nat) (w : WM) (op : XOp) :
    xstep I cap t w op = xstep I' cap t w op := by
  unfold xstep
  simp only [createAt_congr h, assignId_congr h, store_congr h, removeUntyped_congr h, destroyNow_congr h,
    update_congr h, clear_congr h, runNt_congr h]

theorem xrun_congr (h : Agree I I') (cap t : Nat) (w : WM) (ops : List XOp) :
    xrun I cap t w ops = xrun I' cap t w ops := by
  induction ops generalizing w with
  | nil => rfl
  | cons op rest ih => simp only [xrun, xstep_congr h, ih]

end Mustache.Proofs.CApi

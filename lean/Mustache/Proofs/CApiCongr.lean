import Mustache.Model.CApi
/-! # C18 helper: congruence of the world-model operations in the component description

`Agree I I'`: two component descriptions give every component the same default-construction value (`defaultVal`),
the same `fixed` value and the same `callbacks` / `counted` flags. Every operation of the world model (and of the C++
interface layer of `Model/CApi.lean`) returns literally the same result for both: the operations read the description
ONLY through those four projections. In particular `hasCtor` and `dflt` matter only through `defaultVal`, the value
of a freshly default-constructed component. -/
namespace Mustache.Proofs.CApi
open Mustache.Model Mustache.Model.CApi

/-- agreement on everything but `counted` -/
structure AgreeC (I I' : CompId → CompInfo) : Prop where
  dv : ∀ c, defaultVal I c = defaultVal I' c
  fx : ∀ c, (I c).fixed = (I' c).fixed
  cb : ∀ c, (I c).callbacks = (I' c).callbacks

structure Agree (I I' : CompId → CompInfo) : Prop where
  dv : ∀ c, defaultVal I c = defaultVal I' c
  fx : ∀ c, (I c).fixed = (I' c).fixed
  cb : ∀ c, (I c).callbacks = (I' c).callbacks
  ct : ∀ c, (I c).counted = (I' c).counted

theorem Agree.toC {I I' : CompId → CompInfo} (h : Agree I I') : AgreeC I I' := ⟨h.dv, h.fx, h.cb⟩

variable {I I' : CompId → CompInfo}

theorem archRemove_congr (h : AgreeC I I') (w : WM) (ai idx : Nat) (skip : Mask) :
    w.archRemove I ai idx skip = w.archRemove I' ai idx skip := by
  unfold WM.archRemove
  simp only [h.cb]

theorem archInsert_congr (h : AgreeC I I') (w : WM) (ai : Nat) (e : Handle) (skip : Mask) :
    w.archInsert I ai e skip = w.archInsert I' ai e skip := by
  unfold WM.archInsert
  simp only [h.cb, h.dv, h.fx]

theorem externalMove_congr (h : AgreeC I I') (w : WM) (target : Nat) (e : Handle) (prev prevIdx : Nat) (skip : Mask) :
    w.externalMove I target e prev prevIdx skip = w.externalMove I' target e prev prevIdx skip := by
  unfold WM.externalMove
  simp only [h.cb, h.dv, h.fx, archRemove_congr h]

theorem destroyNowU_congr (h : AgreeC I I') (w : WM) (e : Handle) :
    w.destroyNowU I e = w.destroyNowU I' e := by
  unfold WM.destroyNowU
  simp only [archRemove_congr h]

theorem destroyNow_congr (h : AgreeC I I') (w : WM) (t : Nat) (e : Handle) :
    w.destroyNow I t e = w.destroyNow I' t e := by
  unfold WM.destroyNow
  simp only [destroyNowU_congr h]

theorem update_congr (h : AgreeC I I') (w : WM) : w.update I = w.update I' := by
  unfold WM.update
  simp only [destroyNowU_congr h]

theorem applyPack_congr (h : AgreeC I I') (w : WM) (p : List Cmd) :
    w.applyPack I p = w.applyPack I' p := by
  unfold WM.applyPack
  simp only [h.cb, h.dv, archInsert_congr h, externalMove_congr h, destroyNowU_congr h]

theorem flush_congr (h : AgreeC I I') (w : WM) : w.flush I = w.flush I' := by
  unfold WM.flush
  simp only [applyPack_congr h]

theorem unlock_congr (h : AgreeC I I') (w : WM) : w.unlock I = w.unlock I' := by
  unfold WM.unlock
  simp only [flush_congr h]

theorem createAt_congr (h : AgreeC I I') (w : WM) (t ai : Nat) : createAt I w t ai = createAt I' w t ai := by
  unfold createAt
  simp only [archInsert_congr h]

theorem rawVal_congr (h : AgreeC I I') (c : CompId) : rawVal I c = rawVal I' c := by
  unfold rawVal
  simp only [h.fx]

theorem assignId_congr (h : Agree I I') (w : WM) (t : Nat) (e : Handle) (c : CompId) (skip : Bool) :
    assignId I w t e c skip = assignId I' w t e c skip := by
  unfold assignId
  simp only [h.dv, h.ct, rawVal_congr h.toC, externalMove_congr h.toC]

theorem store_congr (h : AgreeC I I') (w : WM) (p : Ptr) (tok : Nat) : store I w p tok = store I' w p tok := by
  unfold store
  simp only [h.fx]

theorem removeUntyped_congr (h : AgreeC I I') (w : WM) (t : Nat) (e : Handle) (c : CompId) :
    removeUntyped I w t e c = removeUntyped I' w t e c := by
  unfold removeUntyped
  simp only [externalMove_congr h]

theorem clear_congr (h : AgreeC I I') (w : WM) : clear I w = clear I' w := by
  unfold clear
  simp only [h.cb]

theorem applyWrites_congr (h : AgreeC I I') (w : WM) (job : NtJob) (call : Mustache.Iteration.NtCall) :
    applyWrites I w job call = applyWrites I' w job call := by
  unfold applyWrites
  simp only [store_congr h]

theorem runNt_congr (h : AgreeC I I') (w : WM) (cap : Nat) (job : NtJob) :
    runNt I w cap job = runNt I' w cap job := by
  unfold runNt
  simp only [applyWrites_congr h, unlock_congr h]

theorem xstep_congr (h : Agree I I') (cap t : Nat) (w : WM) (op : XOp) :
    xstep I cap t w op = xstep I' cap t w op := by
  unfold xstep
  simp only [createAt_congr h.toC, assignId_congr h, store_congr h.toC, removeUntyped_congr h.toC, destroyNow_congr h.toC,
    update_congr h.toC, clear_congr h.toC, runNt_congr h.toC]

theorem xrun_congr (h : Agree I I') (cap t : Nat) (w : WM) (ops : List XOp) :
    xrun I cap t w ops = xrun I' cap t w ops := by
  induction ops generalizing w with
  | nil => rfl
  | cons op rest ih => simp only [xrun, xstep_congr h, ih]

/-- every call except the untyped assign reads nothing but `defaultVal`, `fixed`, `callbacks` -/
theorem xstep_congr_notAssign (h : AgreeC I I') (cap t : Nat) (w : WM) (op : XOp)
    (hop : ∀ e c s, op ≠ .assign e c s) : xstep I cap t w op = xstep I' cap t w op := by
  cases op with
  | assign e c s => exact absurd rfl (hop e c s)
  | _ =>
    simp only [xstep, createAt_congr h, store_congr h, removeUntyped_congr h, destroyNow_congr h,
      update_congr h, clear_congr h, runNt_congr h]

/-- the untyped assign reads `counted` only to maintain `temps` -/
theorem assignId_modTemps (h : AgreeC I I') (w : WM) (t : Nat) (e : Handle) (c : CompId) (skip : Bool) :
    { (assignId I w t e c skip).1 with temps := [] } = { (assignId I' w t e c skip).1 with temps := [] } ∧
    (assignId I w t e c skip).2 = (assignId I' w t e c skip).2 := by
  unfold assignId
  by_cases hl : w.isLocked = true
  · simp only [hl, if_true, h.dv, rawVal_congr h]
    cases (I c).counted <;> cases (I' c).counted <;> simp
  · simp only [hl, externalMove_congr h]
    exact ⟨rfl, rfl⟩

end Mustache.Proofs.CApi

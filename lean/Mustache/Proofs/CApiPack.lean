import Mustache.Model.CApi
/-! # C18 helper: `WM.applyPack` as a composition of named pieces

`applyPack_unfold` restates `WM.applyPack` (Model/World.lean, frozen) through `packStart`, `packStep`, `packMoved`,
`packStale`, `packSrc`, `packTail` - copies of its local definitions; the equation holds by `rfl`. -/
namespace Mustache.Proofs.CApi
open Mustache.Model Mustache.Model.CApi

variable (info : CompId → CompInfo)

def isCreateCmd (c : Cmd) : Bool := match c with | .create .. => true | _ => false

def packStart (w : WM) (first : Cmd) : Option (WM × Mask × Shared) :=
  let e := first.entity
  match first with
  | .create _ m sh =>
    let w := w.ensureId e.id
    some ({ w with slots := w.slots.set e.id ⟨e.id, e.ver⟩ }, m, sh)
  | _ =>
    if !w.isValid e then none else
    match (w.locOf e).arch with
    | none => none
    | some ai => some (w, (w.arch ai).mask, (w.arch ai).shared)

def packStep (isCreate : Bool) (e : Handle) (acc : WM × PackSt × List Cb) (c : Cmd) : WM × PackSt × List Cb :=
  let (w, p, cbs) := acc
  if p.dead then acc else
  match c with
  | .destroyNow _ =>
    if isCreate then (w.release e, { p with dead := true }, cbs)
    else let (w', cb) := w.destroyNowU info e; (w', { p with dead := true }, cbs ++ cb)
  | .create .. => acc
  | .destroy h => ({ w with marked := insertSorted w.marked h }, p, cbs)
  | .remove _ c =>
    if p.final.contains c then
      let next := closedMask w.deps (Mask.erase p.final c)
      if next.contains c then (w, { p with final := next }, cbs)
      else (w, { p with final := next, replaced := Mask.insert p.replaced c, src := p.src.filter (·.1 != c) }, cbs)
    else acc
  | .assign _ c v =>
    let src := p.src.filter (·.1 != c) ++ [(c, v)]
    if p.final.contains c then (w, { p with replaced := Mask.insert p.replaced c, src := src }, cbs)
    else (w, { p with final := closedMask w.deps (Mask.insert p.final c), src := src }, cbs)

def packSetVal (ti : Nat) (idx : Nat) (w : WM) (c : CompId) (v : Val) : WM :=
  let ta := w.arch ti
  match ta.mask.indexOf? c with
  | none => w
  | some k =>
    let row := ta.rows.getD idx default
    w.setArch ti { ta with rows := ta.rows.set idx { row with vals := row.vals.set k v } }

def packMoved (isCreate : Bool) (e : Handle) (initial : Mask) (w : WM) (ti : Nat) (p : PackSt) (supplied : Mask) :
    WM × List Cb :=
  if isCreate then w.archInsert info ti e supplied
  else
    let l := w.locOf e
    match l.arch with
    | some pi => if pi = ti || initial == p.final then (w, []) else
        match w.externalMove info ti e pi l.idx supplied with
        | some r => r
        | none => (w, [])
    | none => (w, [])

def packStale (isCreate : Bool) (e : Handle) (initial : Mask) (ti idx : Nat) (p : PackSt) (supplied : Mask) (w : WM) :
    WM × List Cb :=
  let stale := (p.final.filter (fun c => p.replaced.contains c && initial.contains c)).filter
    (fun c => !(isCreate && supplied.contains c) && (w.arch ti).mask.contains c)
  stale.foldl (fun (acc : WM × List Cb) c =>
    let cbR := if (info c).callbacks then [Cb.remove c e] else []
    if supplied.contains c then (acc.1, acc.2 ++ cbR)
    else (packSetVal ti idx acc.1 c (defaultVal info c),
          acc.2 ++ cbR ++ (if (info c).callbacks then [Cb.assign c e] else []))) (w, [])

def packSrc (e : Handle) (ti idx : Nat) (p : PackSt) (w : WM) : WM × List Cb :=
  p.src.foldl (fun (acc : WM × List Cb) (cv : CompId × Val) =>
    if (w.arch ti).mask.contains cv.1 then
      (packSetVal ti idx acc.1 cv.1 cv.2, acc.2 ++ (if (info cv.1).callbacks then [Cb.assign cv.1 e] else []))
    else acc) (w, [])

def packTail (isCreate : Bool) (e : Handle) (initial : Mask) (sh : Shared) (w : WM) (p : PackSt) (cbs : List Cb) :
    WM × List Cb :=
  if p.dead then (w, cbs) else
  let supplied := Mask.ofList (p.src.map (·.1))
  let stay : Option Nat := if isCreate || !(initial == p.final) then none else (w.locOf e).arch
  let g : WM × Nat := match stay with
    | some pi => (w, pi)
    | none => w.getArch p.final sh
  let m := packMoved info isCreate e initial g.1 g.2 p supplied
  let idx := (m.1.locOf e).idx
  let s := packStale info isCreate e initial g.2 idx p supplied m.1
  let r := packSrc info e g.2 idx p s.1
  (r.1, cbs ++ m.2 ++ s.2 ++ r.2)

theorem applyPack_unfold (w : WM) (pack : List Cmd) :
    w.applyPack info pack =
      match pack with
      | [] => (w, [])
      | first :: rest =>
        match packStart w first with
        | none => (w, [])
        | some (w, initial0, sh) =>
          let r := (if isCreateCmd first then rest else pack).foldl (packStep info (isCreateCmd first) first.entity)
            (w, { final := if isCreateCmd first then closedMask w.deps initial0 else initial0 }, [])
          packTail info (isCreateCmd first) first.entity
            (if isCreateCmd first then closedMask w.deps initial0 else initial0) sh r.1 r.2.1 r.2.2 := by
  unfold WM.applyPack
  cases pack with
  | nil => rfl
  | cons first rest => rfl

end Mustache.Proofs.CApi

import Mustache.Model.ChunkSize
/-!
# The chunk-size fold of `getArchetype` computes "default clamped by largest minimum / smallest maximum"
-/
namespace Mustache.ChunkSize

theorem foldMin_eq_max (m : Nat) (s : Size) : foldMin m s = max m s.min := by
  unfold foldMin
  rw [Nat.max_def]
  split <;> split <;> omega

theorem foldl_foldMin (fs : List Size) (m0 : Nat) :
    fs.foldl foldMin m0 = (fs.map (·.min)).foldl max m0 := by
  induction fs generalizing m0 with
  | nil => rfl
  | cons s fs ih => simp only [List.foldl_cons, List.map_cons, foldMin_eq_max, ih]

theorem foldMin_eq_maxMin (fs : List Size) : fs.foldl foldMin 0 = maxMin fs := foldl_foldMin fs 0

/-- non-zero maxima, in registration order -/
def nzMax (fs : List Size) : List Nat := (fs.map (·.max)).filter (· ≠ 0)

theorem nzMax_cons (s : Size) (fs : List Size) :
    nzMax (s :: fs) = if s.max ≠ 0 then s.max :: nzMax fs else nzMax fs := by
  unfold nzMax
  simp only [List.map_cons, List.filter_cons]
  by_cases h : s.max = 0 <;> simp [h]

theorem foldl_foldMax_pos (fs : List Size) (M : Nat) (hM : M ≠ 0) :
    fs.foldl foldMax M = (nzMax fs).foldl min M := by
  induction fs generalizing M with
  | nil => rfl
  | cons s fs ih =>
    rw [List.foldl_cons, nzMax_cons]
    by_cases hs : s.max = 0
    · have : foldMax M s = M := by unfold foldMax; simp [hM, hs]
      rw [this, ih M hM]; simp [hs]
    · have hfm : foldMax M s = min M s.max := by
        unfold foldMax; rw [Nat.min_def]
        split <;> split <;> omega
      have hne : min M s.max ≠ 0 := by rw [Nat.min_def]; split <;> omega
      rw [hfm, ih _ hne]; simp [hs]

theorem foldMax_eq_minMax (fs : List Size) : fs.foldl foldMax 0 = minMax fs := by
  induction fs with
  | nil => rfl
  | cons s fs ih =>
    rw [List.foldl_cons]
    have h0 : foldMax 0 s = s.max := by unfold foldMax; simp
    rw [h0]
    have hmm : minMax (s :: fs) =
        (match nzMax (s :: fs) with | [] => 0 | x :: xs => least x xs) := rfl
    by_cases hs : s.max = 0
    · rw [hs, ih, hmm, nzMax_cons]; simp only [hs, ne_eq, not_true_eq_false, if_false]; rfl
    · rw [foldl_foldMax_pos fs _ hs, hmm, nzMax_cons]; simp only [hs, ne_eq, not_false_eq_true, if_true]
      rfl

theorem resolve_eq (d : Nat) (fs : List Size) :
    resolve d fs =
      if minMax fs > 0 ∧ minMax fs < maxMin fs then .error (minMax fs) (maxMin fs)
      else .ok (clamp d (maxMin fs) (minMax fs)) := by
  unfold resolve
  simp only [foldMin_eq_maxMin, foldMax_eq_minMax]
  split
  · rfl
  · congr 1
    unfold clamp
    simp only [Nat.max_def, Nat.min_def]
    repeat' split
    all_goals omega

theorem resolve_ok_iff (d : Nat) (fs : List Size) (s : Nat) :
    resolve d fs = .ok s ↔
      (minMax fs = 0 ∨ maxMin fs ≤ minMax fs) ∧ s = clamp d (maxMin fs) (minMax fs) := by
  rw [resolve_eq]
  split
  · constructor
    · intro h; cases h
    · rintro ⟨h, _⟩; omega
  · constructor
    · intro h
      exact ⟨by omega, (Res.ok.inj h).symm⟩
    · rintro ⟨_, rfl⟩; rfl

theorem resolve_error_iff (d : Nat) (fs : List Size) (a b : Nat) :
    resolve d fs = .error a b ↔
      (minMax fs ≠ 0 ∧ minMax fs < maxMin fs) ∧ a = minMax fs ∧ b = maxMin fs := by
  rw [resolve_eq]
  split
  · constructor
    · intro h
      have := Res.error.inj h
      exact ⟨by omega, this.1.symm, this.2.symm⟩
    · rintro ⟨_, rfl, rfl⟩; rfl
  · constructor
    · intro h; cases h
    · rintro ⟨h, _⟩; omega

/-- no function gives a maximum: never rejected, the default is only raised to the largest minimum -/
theorem resolve_no_max (d : Nat) (fs : List Size) (h : minMax fs = 0) :
    resolve d fs = .ok (max d (maxMin fs)) := by
  rw [resolve_eq, h]
  simp [clamp]

theorem clamp_pos {d lo hi : Nat} (hd : 0 < d) : 0 < clamp d lo hi := by
  unfold clamp
  simp only [Nat.max_def, Nat.min_def]
  split <;> (try split) <;> (try split) <;> omega

theorem resolve_pos {d : Nat} {fs : List Size} {s : Nat} (hd : 0 < d) (h : resolve d fs = .ok s) :
    0 < s := by
  rw [resolve_ok_iff] at h
  rw [h.2]; exact clamp_pos hd

/-! ## what `maxMin` and `minMax` are -/

theorem foldl_max_ge (l : List Nat) (m : Nat) : m ≤ l.foldl max m ∧ ∀ x ∈ l, x ≤ l.foldl max m := by
  induction l generalizing m with
  | nil => exact ⟨Nat.le_refl _, fun x hx => by cases hx⟩
  | cons y l ih =>
    rw [List.foldl_cons]
    obtain ⟨h1, h2⟩ := ih (max m y)
    have : m ≤ max m y ∧ y ≤ max m y := by rw [Nat.max_def]; split <;> omega
    refine ⟨by omega, fun x hx => ?_⟩
    rcases List.mem_cons.mp hx with rfl | hx
    · omega
    · exact h2 x hx

theorem foldl_max_mem (l : List Nat) (m : Nat) : l.foldl max m = m ∨ l.foldl max m ∈ l := by
  induction l generalizing m with
  | nil => exact Or.inl rfl
  | cons y l ih =>
    rw [List.foldl_cons]
    rcases ih (max m y) with h | h
    · rw [h, Nat.max_def]
      split
      · exact Or.inr (List.mem_cons_self ..)
      · exact Or.inl rfl
    · exact Or.inr (List.mem_cons_of_mem _ h)

theorem foldl_min_le (l : List Nat) (m : Nat) : l.foldl min m ≤ m ∧ ∀ x ∈ l, l.foldl min m ≤ x := by
  induction l generalizing m with
  | nil => exact ⟨Nat.le_refl _, fun x hx => by cases hx⟩
  | cons y l ih =>
    rw [List.foldl_cons]
    obtain ⟨h1, h2⟩ := ih (min m y)
    have : min m y ≤ m ∧ min m y ≤ y := by rw [Nat.min_def]; split <;> omega
    refine ⟨by omega, fun x hx => ?_⟩
    rcases List.mem_cons.mp hx with rfl | hx
    · omega
    · exact h2 x hx

theorem foldl_min_mem (l : List Nat) (m : Nat) : l.foldl min m = m ∨ l.foldl min m ∈ l := by
  induction l generalizing m with
  | nil => exact Or.inl rfl
  | cons y l ih =>
    rw [List.foldl_cons]
    rcases ih (min m y) with h | h
    · rw [h, Nat.min_def]
      split
      · exact Or.inl rfl
      · exact Or.inr (List.mem_cons_self ..)
    · exact Or.inr (List.mem_cons_of_mem _ h)

/-- `maxMin` is an upper bound of the minima and is attained (or 0). -/
theorem maxMin_spec (fs : List Size) :
    (∀ s ∈ fs, s.min ≤ maxMin fs) ∧ (maxMin fs = 0 ∨ ∃ s ∈ fs, s.min = maxMin fs) := by
  unfold maxMin
  constructor
  · intro s hs
    exact (foldl_max_ge _ 0).2 s.min (List.mem_map.mpr ⟨s, hs, rfl⟩)
  · rcases foldl_max_mem (fs.map (·.min)) 0 with h | h
    · exact Or.inl h
    · obtain ⟨s, hs, heq⟩ := List.mem_map.mp h
      exact Or.inr ⟨s, hs, heq⟩

theorem mem_nzMax {fs : List Size} {x : Nat} : x ∈ nzMax fs ↔ x ≠ 0 ∧ ∃ s ∈ fs, s.max = x := by
  unfold nzMax
  rw [List.mem_filter, List.mem_map]
  simp only [ne_eq, decide_eq_true_eq]
  constructor
  · rintro ⟨h, hx⟩; exact ⟨hx, h⟩
  · rintro ⟨hx, h⟩; exact ⟨h, hx⟩

/-- `minMax` is 0 iff there is no non-zero maximum; otherwise it is the least non-zero maximum. -/
theorem minMax_spec (fs : List Size) :
    (minMax fs = 0 ↔ ∀ s ∈ fs, s.max = 0) ∧
    (minMax fs ≠ 0 → (∃ s ∈ fs, s.max = minMax fs) ∧ ∀ s ∈ fs, s.max ≠ 0 → minMax fs ≤ s.max) := by
  have hmm : minMax fs = (match nzMax fs with | [] => 0 | x :: xs => least x xs) := rfl
  cases hnz : nzMax fs with
  | nil =>
    rw [hmm, hnz]
    have hall : ∀ s ∈ fs, s.max = 0 := by
      intro s hs
      apply Classical.byContradiction
      intro hne
      have : s.max ∈ nzMax fs := mem_nzMax.mpr ⟨hne, s, hs, rfl⟩
      rw [hnz] at this; cases this
    exact ⟨⟨fun _ => hall, fun _ => rfl⟩, fun h => absurd rfl h⟩
  | cons x xs =>
    rw [hmm, hnz]
    simp only
    have hmem : ∀ y, y ∈ x :: xs ↔ y ≠ 0 ∧ ∃ s ∈ fs, s.max = y := by
      intro y; rw [← hnz]; exact mem_nzMax
    have hle := foldl_min_le xs x
    have hin : least x xs ∈ x :: xs := by
      unfold least
      rcases foldl_min_mem xs x with h | h
      · rw [h]; exact List.mem_cons_self ..
      · exact List.mem_cons_of_mem _ h
    have hne : least x xs ≠ 0 := ((hmem _).mp hin).1
    refine ⟨⟨fun h => absurd h hne, fun hall => ?_⟩, fun _ => ⟨((hmem _).mp hin).2, ?_⟩⟩
    · obtain ⟨_, s, hs, hsx⟩ := (hmem _).mp hin
      rw [hall s hs] at hsx; exact absurd hsx.symm hne
    · intro s hs hsne
      have : s.max ∈ x :: xs := (hmem _).mpr ⟨hsne, s, hs, rfl⟩
      unfold least
      rcases List.mem_cons.mp this with h | h
      · rw [h]; exact hle.1
      · exact hle.2 _ h

end Mustache.ChunkSize

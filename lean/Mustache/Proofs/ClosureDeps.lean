import Mustache.Proofs.ClosureLoop
/-! # `addDependency` stores the closure; `getArch` only hands out closed masks (C13) -/
namespace Mustache.Model

/-! ## key-preserving maps and `find?` -/

theorem find?_key_map {β : Type} (l : List (Nat × β)) (f : Nat × β → Nat × β) (hf : ∀ p, (f p).1 = p.1) (k : Nat) :
    (l.map f).find? (·.1 == k) = (l.find? (·.1 == k)).map f := by
  induction l with
  | nil => rfl
  | cons a t ih =>
    simp only [List.map_cons, List.find?_cons, hf]
    split
    · rfl
    · exact ih

theorem find?_key_none_of_not_any {β : Type} (l : List (Nat × β)) (k : Nat)
    (h : l.any (·.1 == k) = false) : l.find? (·.1 == k) = none := by
  rw [List.find?_eq_none]
  intro p hp hk
  have : l.any (·.1 == k) = true := List.any_eq_true.mpr ⟨p, hp, hk⟩
  rw [h] at this; cases this

theorem find?_key_some_of_any {β : Type} (l : List (Nat × β)) (k : Nat)
    (h : l.any (·.1 == k) = true) : ∃ p, l.find? (·.1 == k) = some p ∧ p.1 = k := by
  obtain ⟨p, hp, hk⟩ := List.any_eq_true.mp h
  cases hf : l.find? (·.1 == k) with
  | none => exact absurd hk (by simpa using (List.find?_eq_none.mp hf) p hp)
  | some q => exact ⟨q, rfl, by simpa using List.find?_some hf⟩

/-! ## `addDependency` -/

/-- the mask `addDependency` stores for the master: old ∪ extra ∪ closure(extra) -/
def storedDeps (deps : List (CompId × Mask)) (c : Nat) (extra : List Nat) : List Nat :=
  Mask.union (depsOf deps c) (Mask.union extra (extraComponents deps extra))

theorem addDependency_eq (deps : List (CompId × Mask)) (c : Nat) (extra : List Nat) :
    addDependency deps c extra =
      if deps.any (·.1 == c) then deps.map (fun p => if p.1 == c then (c, storedDeps deps c extra) else p)
      else deps ++ [(c, storedDeps deps c extra)] := rfl

theorem depsOf_of_find {deps : List (CompId × Mask)} {k : Nat} {p : Nat × List Nat}
    (h : deps.find? (·.1 == k) = some p) : depsOf deps k = p.2 := by
  unfold depsOf; rw [h]

theorem depsOf_of_find_none {deps : List (CompId × Mask)} {k : Nat}
    (h : deps.find? (·.1 == k) = none) : depsOf deps k = [] := by
  unfold depsOf; rw [h]

theorem key_preserved {β : Type} (c : Nat) (nw : β) (p : Nat × β) :
    (if p.1 == c then (c, nw) else p).1 = p.1 := by
  by_cases h : p.1 == c
  · simp only [h, if_true]; exact (beq_iff_eq.mp h).symm
  · simp only [h]; rfl

theorem depsOf_addDependency_self (deps : List (CompId × Mask)) (c : Nat) (extra : List Nat) :
    depsOf (addDependency deps c extra) c = storedDeps deps c extra := by
  rw [addDependency_eq]
  split
  · rename_i hany
    obtain ⟨p, hp, hk⟩ := find?_key_some_of_any deps c hany
    have := find?_key_map deps (fun p => if p.1 == c then (c, storedDeps deps c extra) else p)
      (key_preserved c _) c
    rw [hp] at this
    rw [depsOf_of_find this]
    simp [hk]
  · rename_i hany
    have hnone := find?_key_none_of_not_any deps c ((Bool.not_eq_true _).mp hany)
    have : (deps ++ [(c, storedDeps deps c extra)]).find? (·.1 == c) = some (c, storedDeps deps c extra) := by
      rw [List.find?_append, hnone]; simp
    rw [depsOf_of_find this]

theorem depsOf_addDependency_other (deps : List (CompId × Mask)) (c : Nat) (extra : List Nat) (k : Nat)
    (hk : k ≠ c) : depsOf (addDependency deps c extra) k = depsOf deps k := by
  rw [addDependency_eq]
  split
  · have := find?_key_map deps (fun p => if p.1 == c then (c, storedDeps deps c extra) else p)
      (key_preserved c _) k
    cases hf : deps.find? (·.1 == k) with
    | none =>
      rw [hf] at this
      rw [depsOf_of_find_none this, depsOf_of_find_none hf]
    | some q =>
      rw [hf] at this
      have hq : q.1 = k := by simpa using List.find?_some hf
      have hqc : (q.1 == c) = false := by simp [hq, hk]
      rw [depsOf_of_find this, depsOf_of_find hf]
      simp [hqc]
  · have h2 : ([(c, storedDeps deps c extra)] : List (Nat × List Nat)).find? (·.1 == k) = none := by
      simp [Ne.symm hk]
    have : (deps ++ [(c, storedDeps deps c extra)]).find? (·.1 == k) = deps.find? (·.1 == k) := by
      rw [List.find?_append, h2]; simp
    unfold depsOf
    rw [this]

theorem mem_storedDeps {deps : List (CompId × Mask)} {c : Nat} {extra : List Nat} {x : Nat} :
    x ∈ storedDeps deps c extra ↔ x ∈ depsOf deps c ∨ x ∈ extra ∨ x ∈ extraComponents deps extra := by
  simp only [storedDeps, Mask.mem_union]

/-- the declaration keeps the table inside the mask width when the declared dependents are -/
theorem addDependency_bounded {deps : List (CompId × Mask)} (hb : DepsBounded deps) (c : Nat) {extra : List Nat}
    (he : ∀ x ∈ extra, x < 128) : DepsBounded (addDependency deps c extra) := by
  have hnw : ∀ x ∈ storedDeps deps c extra, x < 128 := by
    intro x hx
    rcases mem_storedDeps.mp hx with h | h | h
    · exact depsOf_bounded hb h
    · exact he x h
    · exact (extraComponents_post hb extra).bounded x h
  intro p hp x hx
  rw [addDependency_eq] at hp
  split at hp
  · obtain ⟨q, hq, rfl⟩ := List.mem_map.mp hp
    split at hx
    · exact hnw x hx
    · exact hb q hq x hx
  · rcases List.mem_append.mp hp with hp | hp
    · exact hb p hp x hx
    · have : p = (c, storedDeps deps c extra) := by simpa using hp
      subst this
      exact hnw x hx

/-- sets closed under the new table are exactly those closed under the old table that, when they contain
    the master, contain the stored mask -/
theorem closedUnder_addDependency {deps : List (CompId × Mask)} {c : Nat} {extra S : List Nat} :
    ClosedUnder (addDependency deps c extra) S ↔
      (∀ k ∈ S, k ≠ c → ∀ d ∈ depsOf deps k, d ∈ S) ∧ (c ∈ S → ∀ d ∈ storedDeps deps c extra, d ∈ S) := by
  constructor
  · intro h
    refine ⟨fun k hk hne d hd => h k hk d (by rw [depsOf_addDependency_other _ _ _ _ hne]; exact hd),
      fun hc d hd => h c hc d (by rw [depsOf_addDependency_self]; exact hd)⟩
  · rintro ⟨h1, h2⟩ k hk d hd
    by_cases hkc : k = c
    · subst hkc; rw [depsOf_addDependency_self] at hd; exact h2 hk d hd
    · rw [depsOf_addDependency_other _ _ _ _ hkc] at hd; exact h1 k hk hkc d hd

/-! ## `findArch` / `getArch` -/

theorem findArch_some {w : WM} {m : List Nat} {sh : Shared} {i : Nat} (h : w.findArch m sh = some i) :
    i < w.archs.length ∧ (w.arch i).mask = m ∧ (w.arch i).shared.data = sh.data ∧
      ∀ j, j < i → ¬ ((w.arch j).mask = m ∧ (w.arch j).shared.data = sh.data) := by
  unfold WM.findArch at h
  simp only at h
  split at h
  · rename_i hlt
    cases h
    have hp := List.findIdx_getElem (w := hlt)
    have harch : w.arch (w.archs.findIdx fun a => a.mask == m && a.shared.data == sh.data) =
        w.archs[w.archs.findIdx fun a => a.mask == m && a.shared.data == sh.data] := by
      simp [WM.arch, List.getD_eq_getElem?_getD, List.getElem?_eq_getElem hlt]
    refine ⟨hlt, ?_, ?_, ?_⟩
    · rw [harch]; simp only [Bool.and_eq_true, beq_iff_eq] at hp; exact hp.1
    · rw [harch]; simp only [Bool.and_eq_true, beq_iff_eq] at hp; exact hp.2
    · intro j hj
      have hjl : j < w.archs.length := Nat.lt_trans hj hlt
      have := List.not_of_lt_findIdx hj
      have hj' : w.arch j = w.archs[j] := by
        simp [WM.arch, List.getD_eq_getElem?_getD, List.getElem?_eq_getElem hjl]
      rw [hj']
      simpa using this
  · cases h

theorem findArch_none {w : WM} {m : List Nat} {sh : Shared} :
    w.findArch m sh = none ↔ ∀ a ∈ w.archs, ¬ (a.mask = m ∧ a.shared.data = sh.data) := by
  unfold WM.findArch
  simp only
  constructor
  · intro h
    split at h
    · cases h
    · rename_i hlt
      have : w.archs.findIdx (fun a => a.mask == m && a.shared.data == sh.data) = w.archs.length :=
        Nat.le_antisymm List.findIdx_le_length (Nat.le_of_not_lt hlt)
      have := List.findIdx_eq_length.mp this
      intro a ha
      simpa using this a ha
  · intro h
    split
    · rename_i hlt
      have hp := List.findIdx_getElem (w := hlt)
      simp only [Bool.and_eq_true, beq_iff_eq] at hp
      exact absurd hp (h _ (List.getElem_mem _))
    · rfl

theorem arch_lt {w : WM} {i : Nat} (h : i < w.archs.length) : w.arch i = w.archs[i] := by
  simp [WM.arch, List.getD_eq_getElem?_getD, List.getElem?_eq_getElem h]

theorem getArch_eq (w : WM) (m : List Nat) (sh : Shared) :
    w.getArch m sh = match w.findArch (closedMask w.deps m) sh with
      | some i => (w, i)
      | none => ({ w with archs := w.archs ++ [⟨closedMask w.deps m, sh, []⟩] }, w.archs.length) := rfl

/-- complete description of `getArch` -/
theorem getArch_cases (w : WM) (m : List Nat) (sh : Shared) :
    (∃ i, w.findArch (closedMask w.deps m) sh = some i ∧ w.getArch m sh = (w, i)) ∨
    (w.findArch (closedMask w.deps m) sh = none ∧
      w.getArch m sh = ({ w with archs := w.archs ++ [⟨closedMask w.deps m, sh, []⟩] }, w.archs.length)) := by
  rw [getArch_eq]
  cases h : w.findArch (closedMask w.deps m) sh with
  | some i => exact Or.inl ⟨i, rfl, rfl⟩
  | none => exact Or.inr ⟨rfl, rfl⟩

/-- frame and result of `getArch`: only `archs` may change, by one appended empty archetype; the returned
    index is in range, carries exactly the closed mask and the requested shared instances -/
structure GetArchPost (w : WM) (m : List Nat) (sh : Shared) (w' : WM) (i : Nat) : Prop where
  frame : w' = { w with archs := w'.archs }
  prefix_ : ∃ tail, w'.archs = w.archs ++ tail ∧ (tail = [] ∨ (tail = [⟨closedMask w.deps m, sh, []⟩] ∧ i = w.archs.length))
  lt : i < w'.archs.length
  mask : (w'.arch i).mask = closedMask w.deps m
  data : (w'.arch i).shared.data = sh.data
  old : ∀ j, j < w.archs.length → w'.arch j = w.arch j

theorem getArch_post (w : WM) (m : List Nat) (sh : Shared) :
    GetArchPost w m sh (w.getArch m sh).1 (w.getArch m sh).2 := by
  rcases getArch_cases w m sh with ⟨i, hf, he⟩ | ⟨hf, he⟩
  · rw [he]
    obtain ⟨hlt, hm, hd, _⟩ := findArch_some hf
    exact ⟨rfl, ⟨[], by simp, Or.inl rfl⟩, hlt, hm, hd, fun _ _ => rfl⟩
  · rw [he]
    refine ⟨rfl, ⟨_, rfl, Or.inr ⟨rfl, rfl⟩⟩, by simp, ?_, ?_, ?_⟩
    · simp [WM.arch]
    · simp [WM.arch]
    · intro j hj
      simp [WM.arch, List.getD_eq_getElem?_getD, List.getElem?_append_left hj]

/-- `archetype_masks_closed`: the archetype handed out by `getArch` is closed under the current
    dependency table and contains the requested mask -/
theorem getArch_mask_closed {w : WM} (hb : DepsBounded w.deps) (m : List Nat) (sh : Shared) :
    let r := w.getArch m sh
    r.1.deps = w.deps ∧
    (r.1.arch r.2).mask = closedMask w.deps m ∧
    ClosedUnder r.1.deps (r.1.arch r.2).mask ∧
    (∀ c ∈ m, c ∈ (r.1.arch r.2).mask) := by
  have post := getArch_post w m sh
  have hd : (w.getArch m sh).1.deps = w.deps := by rw [post.frame]
  refine ⟨hd, post.mask, ?_, ?_⟩
  · rw [hd, post.mask]; exact closedMask_closed hb m
  · rw [post.mask]; intro c hc; exact subset_closedMask hc

/-- all archetype masks are closed under a table `deps` -/
def ArchsClosed (deps : List (CompId × Mask)) (archs : List Arch) : Prop :=
  ∀ a ∈ archs, ClosedUnder deps a.mask

/-- `getArch` keeps "every archetype mask is closed under the current table" -/
theorem getArch_archsClosed {w : WM} (hb : DepsBounded w.deps) (h : ArchsClosed w.deps w.archs)
    (m : List Nat) (sh : Shared) :
    ArchsClosed (w.getArch m sh).1.deps (w.getArch m sh).1.archs := by
  have post := getArch_post w m sh
  have hd : (w.getArch m sh).1.deps = w.deps := by rw [post.frame]
  obtain ⟨tail, ht, hcase⟩ := post.prefix_
  rw [hd, ht]
  intro a ha
  rcases List.mem_append.mp ha with ha | ha
  · exact h a ha
  · rcases hcase with rfl | ⟨rfl, _⟩
    · cases ha
    · have : a = ⟨closedMask w.deps m, sh, []⟩ := by simpa using ha
      subst this
      exact closedMask_closed hb m

end Mustache.Model

import Mustache.Proofs.ClosureMask
/-! # The dependency closure loop (`getExtraComponents`) terminates within its fuel and computes the
least closed superset (C13, `closure_lfp`). No acyclicity hypothesis: chains, diamonds, cycles alike. -/
namespace Mustache.Model

/-- every stored dependency mask only mentions component ids below 128 (the width of `ComponentIdMask`) -/
def DepsBounded (deps : List (CompId × Mask)) : Prop := ∀ p ∈ deps, ∀ c ∈ p.2, c < 128

instance (deps : List (CompId × Mask)) : Decidable (DepsBounded deps) := by
  unfold DepsBounded; infer_instance

/-- `S` is closed under the dependency table: with a component it has all its stored dependents -/
def ClosedUnder (deps : List (CompId × Mask)) (S : List Nat) : Prop :=
  ∀ c ∈ S, ∀ d ∈ depsOf deps c, d ∈ S

instance (deps : List (CompId × Mask)) (S : List Nat) : Decidable (ClosedUnder deps S) := by
  unfold ClosedUnder; infer_instance

theorem depsOf_mem_table {deps : List (CompId × Mask)} {c d : Nat} (h : d ∈ depsOf deps c) :
    ∃ p ∈ deps, p.1 = c ∧ d ∈ p.2 := by
  unfold depsOf at h
  split at h
  · rename_i k m hf
    refine ⟨(k, m), List.mem_of_find?_eq_some hf, ?_, h⟩
    have := List.find?_some hf
    simpa using this
  · cases h

theorem depsOf_bounded {deps : List (CompId × Mask)} (hb : DepsBounded deps) {c d : Nat}
    (h : d ∈ depsOf deps c) : d < 128 := by
  obtain ⟨p, hp, _, hd⟩ := depsOf_mem_table h
  exact hb p hp d hd

theorem depsOf_nil (c : Nat) : depsOf [] c = [] := rfl

/-! ## one round -/

theorem closureRound_nil (deps : List (CompId × Mask)) (r : List Nat) : closureRound deps r [] = r := rfl
theorem closureRound_cons (deps : List (CompId × Mask)) (r : List Nat) (c : Nat) (t : List Nat) :
    closureRound deps r (c :: t) = closureRound deps (Mask.union r (depsOf deps c)) t := rfl

theorem mem_closureRound {deps : List (CompId × Mask)} {r cur : List Nat} {x : Nat} :
    x ∈ closureRound deps r cur ↔ x ∈ r ∨ ∃ c ∈ cur, x ∈ depsOf deps c := by
  induction cur generalizing r with
  | nil => simp [closureRound_nil]
  | cons c t ih =>
    rw [closureRound_cons, ih, Mask.mem_union]
    constructor
    · rintro ((h | h) | ⟨c', hc', h⟩)
      · exact Or.inl h
      · exact Or.inr ⟨c, by simp, h⟩
      · exact Or.inr ⟨c', by simp [hc'], h⟩
    · rintro (h | ⟨c', hc', h⟩)
      · exact Or.inl (Or.inl h)
      · rcases List.mem_cons.mp hc' with rfl | hc'
        · exact Or.inl (Or.inr h)
        · exact Or.inr ⟨c', hc', h⟩

theorem sorted_closureRound {deps : List (CompId × Mask)} {r cur : List Nat} (h : Sorted r) :
    Sorted (closureRound deps r cur) := by
  induction cur generalizing r with
  | nil => exact h
  | cons c t ih => rw [closureRound_cons]; exact ih (Mask.sorted_union h)

theorem grow_closureRound {deps : List (CompId × Mask)} {r cur : List Nat} (h : Sorted r) :
    Grow r (closureRound deps r cur) := by
  induction cur generalizing r with
  | nil => exact Grow.refl _
  | cons c t ih =>
    rw [closureRound_cons]
    exact (Mask.grow_union h).trans (ih (Mask.sorted_union h))

/-! ## the loop -/

theorem closureLoop_zero (deps : List (CompId × Mask)) (r cur : List Nat) : closureLoop deps 0 r cur = r := rfl
theorem closureLoop_succ (deps : List (CompId × Mask)) (fuel : Nat) (r cur : List Nat) :
    closureLoop deps (fuel + 1) r cur =
      if closureRound deps r cur = r then closureRound deps r cur
      else closureLoop deps fuel (closureRound deps r cur) (closureRound deps r cur) := by
  simp only [closureLoop]
  by_cases h : closureRound deps r cur = r
  · simp [h]
  · simp [h]

/-- soundness w.r.t. any closed superset, for any fuel (no bound needed) -/
theorem closureLoop_sub {deps : List (CompId × Mask)} {S : List Nat} (hS : ClosedUnder deps S) :
    ∀ (fuel : Nat) (r cur : List Nat), (∀ x ∈ r, x ∈ S) → (∀ x ∈ cur, x ∈ S) →
      ∀ x ∈ closureLoop deps fuel r cur, x ∈ S := by
  intro fuel
  induction fuel with
  | zero => intro r cur hr _ x hx; exact hr x hx
  | succ n ih =>
    intro r cur hr hc
    have hround : ∀ x ∈ closureRound deps r cur, x ∈ S := by
      intro x hx
      rcases mem_closureRound.mp hx with h | ⟨c, hc', h⟩
      · exact hr x h
      · exact hS c (hc c hc') x h
    rw [closureLoop_succ]
    split
    · exact hround
    · exact ih _ _ hround hround

/-- what the loop establishes when the fuel covers the remaining head-room `128 - |result|` -/
structure LoopPost (deps : List (CompId × Mask)) (r cur R : List Nat) : Prop where
  sorted : Sorted R
  bounded : ∀ x ∈ R, x < 128
  incl : ∀ x ∈ r, x ∈ R
  first : ∀ c ∈ cur, ∀ d ∈ depsOf deps c, d ∈ R
  fix : closureRound deps R R = R

theorem closureLoop_post {deps : List (CompId × Mask)} (hb : DepsBounded deps) :
    ∀ (fuel : Nat) (r cur : List Nat), Sorted r → (∀ x ∈ r, x < 128) → (∀ x ∈ r, x ∈ cur) →
      129 ≤ r.length + fuel → LoopPost deps r cur (closureLoop deps fuel r cur) := by
  intro fuel
  induction fuel with
  | zero =>
    intro r cur hs hbr _ hf
    have := sorted_length_le_128 hs hbr
    omega
  | succ n ih =>
    intro r cur hs hbr hsub hf
    have hs' : Sorted (closureRound deps r cur) := sorted_closureRound hs
    have hb' : ∀ x ∈ closureRound deps r cur, x < 128 := by
      intro x hx
      rcases mem_closureRound.mp hx with h | ⟨c, _, h⟩
      · exact hbr x h
      · exact depsOf_bounded hb h
    rw [closureLoop_succ]
    split
    · rename_i heq
      refine ⟨hs', hb', fun x hx => by rw [heq]; exact hx, ?_, ?_⟩
      · intro c hc d hd
        exact mem_closureRound.mpr (Or.inr ⟨c, hc, hd⟩)
      · rw [heq]
        apply sorted_ext (sorted_closureRound hs) hs
        intro x
        constructor
        · intro hx
          rcases mem_closureRound.mp hx with h | ⟨c, hc, h⟩
          · exact h
          · rw [← heq]; exact mem_closureRound.mpr (Or.inr ⟨c, hsub c hc, h⟩)
        · intro hx; exact mem_closureRound.mpr (Or.inl hx)
    · rename_i hne
      have hlen : r.length < (closureRound deps r cur).length := by
        rcases grow_closureRound (deps := deps) (cur := cur) hs with h | h
        · exact absurd h.symm hne
        · exact h
      have post := ih (closureRound deps r cur) (closureRound deps r cur) hs' hb' (fun _ h => h) (by omega)
      refine ⟨post.sorted, post.bounded, ?_, ?_, post.fix⟩
      · intro x hx; exact post.incl x (mem_closureRound.mpr (Or.inl hx))
      · intro c hc d hd; exact post.incl d (mem_closureRound.mpr (Or.inr ⟨c, hc, hd⟩))

/-- once the fuel covers the head-room, more fuel changes nothing -/
theorem closureLoop_fuel_irrel {deps : List (CompId × Mask)} (hb : DepsBounded deps) (k : Nat) :
    ∀ (fuel : Nat) (r cur : List Nat), Sorted r → (∀ x ∈ r, x < 128) → 129 ≤ r.length + fuel →
      closureLoop deps (fuel + k) r cur = closureLoop deps fuel r cur := by
  intro fuel
  induction fuel with
  | zero =>
    intro r cur hs hbr hf
    have := sorted_length_le_128 hs hbr
    omega
  | succ n ih =>
    intro r cur hs hbr hf
    have e : n + 1 + k = (n + k) + 1 := by omega
    rw [e, closureLoop_succ, closureLoop_succ]
    split
    · rfl
    · rename_i hne
      have hlen : r.length < (closureRound deps r cur).length := by
        rcases grow_closureRound (deps := deps) (cur := cur) hs with h | h
        · exact absurd h.symm hne
        · exact h
      apply ih _ _ (sorted_closureRound hs) _ (by omega)
      intro x hx
      rcases mem_closureRound.mp hx with h | ⟨c, _, h⟩
      · exact hbr x h
      · exact depsOf_bounded hb h

/-! ## `extraComponents` and `closedMask` -/

theorem extraComponents_post {deps : List (CompId × Mask)} (hb : DepsBounded deps) (m : List Nat) :
    LoopPost deps [] m (extraComponents deps m) := by
  unfold extraComponents
  split
  · rename_i he
    have : deps = [] := by simpa using he
    subst this
    exact ⟨List.Pairwise.nil, by simp, by simp, by simp [depsOf_nil], rfl⟩
  · exact closureLoop_post hb 130 [] m List.Pairwise.nil (by simp) (by simp) (by simp)

/-- the fuel 130 suffices: any larger fuel gives the same result -/
theorem extraComponents_fuel {deps : List (CompId × Mask)} (hb : DepsBounded deps) (m : List Nat) (k : Nat) :
    closureLoop deps (130 + k) [] m = closureLoop deps 130 [] m :=
  closureLoop_fuel_irrel hb k 130 [] m List.Pairwise.nil (by simp) (by simp)

theorem extraComponents_closed {deps : List (CompId × Mask)} (hb : DepsBounded deps) (m : List Nat) :
    ClosedUnder deps (extraComponents deps m) := by
  intro c hc d hd
  have post := extraComponents_post hb m
  rw [← post.fix]
  exact mem_closureRound.mpr (Or.inr ⟨c, hc, hd⟩)

theorem extraComponents_sub {deps : List (CompId × Mask)} {S : List Nat} (hS : ClosedUnder deps S)
    {m : List Nat} (hm : ∀ x ∈ m, x ∈ S) : ∀ x ∈ extraComponents deps m, x ∈ S := by
  unfold extraComponents
  split
  · simp
  · exact closureLoop_sub hS 130 [] m (by simp) hm

theorem mem_closedMask {deps : List (CompId × Mask)} {m : List Nat} {x : Nat} :
    x ∈ closedMask deps m ↔ x ∈ m ∨ x ∈ extraComponents deps m := Mask.mem_union

theorem subset_closedMask {deps : List (CompId × Mask)} {m : List Nat} {x : Nat} (h : x ∈ m) :
    x ∈ closedMask deps m := mem_closedMask.mpr (Or.inl h)

theorem sorted_closedMask {deps : List (CompId × Mask)} {m : List Nat} (h : Sorted m) :
    Sorted (closedMask deps m) := Mask.sorted_union h

theorem closedMask_closed {deps : List (CompId × Mask)} (hb : DepsBounded deps) (m : List Nat) :
    ClosedUnder deps (closedMask deps m) := by
  intro c hc d hd
  rcases mem_closedMask.mp hc with h | h
  · exact mem_closedMask.mpr (Or.inr ((extraComponents_post hb m).first c h d hd))
  · exact mem_closedMask.mpr (Or.inr (extraComponents_closed hb m c h d hd))

/-- leastness (needs no bound: the loop never leaves a closed superset) -/
theorem closedMask_least {deps : List (CompId × Mask)} {S m : List Nat} (hS : ClosedUnder deps S)
    (hm : ∀ x ∈ m, x ∈ S) : ∀ x ∈ closedMask deps m, x ∈ S := by
  intro x hx
  rcases mem_closedMask.mp hx with h | h
  · exact hm x h
  · exact extraComponents_sub hS hm x h

theorem closedMask_mono {deps : List (CompId × Mask)} (hb : DepsBounded deps) {m m' : List Nat}
    (h : ∀ x ∈ m, x ∈ m') : ∀ x ∈ closedMask deps m, x ∈ closedMask deps m' :=
  closedMask_least (closedMask_closed hb m') (fun x hx => subset_closedMask (h x hx))

/-- a sorted mask that is already closed is returned as the very same list -/
theorem closedMask_eq_self {deps : List (CompId × Mask)} {m : List Nat} (hs : Sorted m)
    (hc : ClosedUnder deps m) : closedMask deps m = m :=
  Mask.union_of_subset hs (extraComponents_sub hc (fun _ h => h))

theorem closedMask_idem {deps : List (CompId × Mask)} (hb : DepsBounded deps) {m : List Nat} (hs : Sorted m) :
    closedMask deps (closedMask deps m) = closedMask deps m :=
  closedMask_eq_self (sorted_closedMask hs) (closedMask_closed hb m)

theorem closedMask_idem_mem {deps : List (CompId × Mask)} (hb : DepsBounded deps) (m : List Nat) (x : Nat) :
    x ∈ closedMask deps (closedMask deps m) ↔ x ∈ closedMask deps m :=
  ⟨closedMask_least (closedMask_closed hb m) (fun _ h => h) x, subset_closedMask⟩

theorem closedMask_bounded {deps : List (CompId × Mask)} (hb : DepsBounded deps) {m : List Nat}
    (hm : ∀ x ∈ m, x < 128) : ∀ x ∈ closedMask deps m, x < 128 := by
  intro x hx
  rcases mem_closedMask.mp hx with h | h
  · exact hm x h
  · exact (extraComponents_post hb m).bounded x h

/-- everything the closure of a single member brings is in the closure of the whole -/
theorem closedMask_single_sub {deps : List (CompId × Mask)} (hb : DepsBounded deps) {m : List Nat} {c : Nat}
    (hc : c ∈ closedMask deps m) : ∀ d ∈ closedMask deps [c], d ∈ closedMask deps m :=
  closedMask_least (closedMask_closed hb m) (by simpa using hc)

/-- direct dependents are in the closure of the master -/
theorem depsOf_sub_closedMask {deps : List (CompId × Mask)} (hb : DepsBounded deps) {c d : Nat}
    (h : d ∈ depsOf deps c) : d ∈ closedMask deps [c] :=
  closedMask_closed hb [c] c (subset_closedMask (by simp)) d h

end Mustache.Model

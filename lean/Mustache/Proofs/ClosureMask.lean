import Mustache.Model.World
/-! # Masks as sorted lists: membership, sortedness, growth (used by C13 / C12 proofs) -/
namespace Mustache.Model

/-- strictly ascending -/
abbrev Sorted (m : List Nat) : Prop := m.Pairwise (· < ·)

/-! ## `Mask.insert` -/

theorem Mask.mem_insert {m : List Nat} {c x : Nat} : x ∈ Mask.insert m c ↔ x = c ∨ x ∈ m := by
  induction m with
  | nil => simp [Mask.insert]
  | cons a t ih =>
    unfold Mask.insert
    split
    · simp
    · split
      · rename_i h; subst h; simp
      · simp only [List.mem_cons, ih]
        constructor
        · rintro (h | h | h)
          · exact Or.inr (Or.inl h)
          · exact Or.inl h
          · exact Or.inr (Or.inr h)
        · rintro (h | h | h)
          · exact Or.inr (Or.inl h)
          · exact Or.inl h
          · exact Or.inr (Or.inr h)

theorem Mask.sorted_insert {m : List Nat} {c : Nat} (h : Sorted m) : Sorted (Mask.insert m c) := by
  induction m with
  | nil => simp [Mask.insert]
  | cons a t ih =>
    have ha := List.pairwise_cons.mp h
    unfold Mask.insert
    split
    · rename_i hlt
      refine List.pairwise_cons.mpr ⟨?_, h⟩
      intro y hy
      rcases List.mem_cons.mp hy with rfl | hy
      · exact hlt
      · exact Nat.lt_trans hlt (ha.1 y hy)
    · split
      · exact h
      · rename_i h1 h2
        refine List.pairwise_cons.mpr ⟨?_, ih ha.2⟩
        intro y hy
        rcases Mask.mem_insert.mp hy with rfl | hy
        · exact Nat.lt_of_le_of_ne (Nat.le_of_not_lt h1) (fun e => h2 e.symm)
        · exact ha.1 y hy

/-- inserting a present element into a sorted mask returns the very same list -/
theorem Mask.insert_of_mem {m : List Nat} {c : Nat} (h : Sorted m) (hc : c ∈ m) : Mask.insert m c = m := by
  induction m with
  | nil => cases hc
  | cons a t ih =>
    have ha := List.pairwise_cons.mp h
    unfold Mask.insert
    rcases List.mem_cons.mp hc with rfl | hc
    · simp
    · have : a < c := ha.1 c hc
      have h1 : ¬ c < a := by omega
      have h2 : ¬ c = a := by omega
      simp [h1, h2, ih ha.2 hc]

theorem Mask.length_insert_of_not_mem {m : List Nat} {c : Nat} (hc : c ∉ m) :
    (Mask.insert m c).length = m.length + 1 := by
  induction m with
  | nil => simp [Mask.insert]
  | cons a t ih =>
    unfold Mask.insert
    have h2 : ¬ c = a := by intro h; exact hc (by simp [h])
    have h3 : c ∉ t := by intro h; exact hc (by simp [h])
    split
    · simp
    · simp [ih h3]

/-- `Grow a b`: `b` is `a` itself or strictly longer -/
def Grow (a b : List Nat) : Prop := a = b ∨ a.length < b.length

theorem Grow.refl (a : List Nat) : Grow a a := Or.inl rfl
theorem Grow.trans {a b c : List Nat} (h1 : Grow a b) (h2 : Grow b c) : Grow a c := by
  rcases h1 with rfl | h1
  · exact h2
  · rcases h2 with rfl | h2
    · exact Or.inr h1
    · exact Or.inr (Nat.lt_trans h1 h2)
theorem Grow.length_le {a b : List Nat} (h : Grow a b) : a.length ≤ b.length := by
  rcases h with rfl | h
  · exact Nat.le_refl _
  · exact Nat.le_of_lt h

theorem Mask.grow_insert {m : List Nat} {c : Nat} (h : Sorted m) : Grow m (Mask.insert m c) := by
  by_cases hc : c ∈ m
  · exact Or.inl (Mask.insert_of_mem h hc).symm
  · exact Or.inr (by rw [Mask.length_insert_of_not_mem hc]; exact Nat.lt_succ_self _)

/-! ## `Mask.union` -/

theorem Mask.union_nil (a : List Nat) : Mask.union a [] = a := rfl
theorem Mask.union_cons (a : List Nat) (c : Nat) (b : List Nat) :
    Mask.union a (c :: b) = Mask.union (Mask.insert a c) b := rfl

theorem Mask.mem_union {a b : List Nat} {x : Nat} : x ∈ Mask.union a b ↔ x ∈ a ∨ x ∈ b := by
  induction b generalizing a with
  | nil => simp [Mask.union_nil]
  | cons c t ih =>
    rw [Mask.union_cons, ih, Mask.mem_insert]
    simp only [List.mem_cons]
    constructor
    · rintro ((h | h) | h)
      · exact Or.inr (Or.inl h)
      · exact Or.inl h
      · exact Or.inr (Or.inr h)
    · rintro (h | h | h)
      · exact Or.inl (Or.inr h)
      · exact Or.inl (Or.inl h)
      · exact Or.inr h

theorem Mask.sorted_union {a b : List Nat} (h : Sorted a) : Sorted (Mask.union a b) := by
  induction b generalizing a with
  | nil => exact h
  | cons c t ih => rw [Mask.union_cons]; exact ih (Mask.sorted_insert h)

theorem Mask.grow_union {a b : List Nat} (h : Sorted a) : Grow a (Mask.union a b) := by
  induction b generalizing a with
  | nil => exact Grow.refl _
  | cons c t ih =>
    rw [Mask.union_cons]
    exact (Mask.grow_insert h).trans (ih (Mask.sorted_insert h))

/-- a union with a subset of a sorted mask is that mask (as a list) -/
theorem Mask.union_of_subset {a b : List Nat} (h : Sorted a) (hb : ∀ x ∈ b, x ∈ a) : Mask.union a b = a := by
  induction b generalizing a with
  | nil => rfl
  | cons c t ih =>
    rw [Mask.union_cons, Mask.insert_of_mem h (hb c (by simp))]
    exact ih h (fun x hx => hb x (by simp [hx]))

/-! ## `erase`, `diff`, `ofList`, `has` -/

theorem Mask.mem_erase {m : List Nat} {c x : Nat} : x ∈ Mask.erase m c ↔ x ∈ m ∧ x ≠ c := by
  simp [Mask.erase]

theorem Mask.sorted_erase {m : List Nat} {c : Nat} (h : Sorted m) : Sorted (Mask.erase m c) :=
  List.Pairwise.filter _ h

theorem Mask.mem_diff {a b : List Nat} {x : Nat} : x ∈ Mask.diff a b ↔ x ∈ a ∧ x ∉ b := by
  simp [Mask.diff]

theorem Mask.sorted_diff {a b : List Nat} (h : Sorted a) : Sorted (Mask.diff a b) :=
  List.Pairwise.filter _ h

theorem Mask.ofList_eq (l : List Nat) : Mask.ofList l = Mask.union [] l := rfl

theorem Mask.mem_ofList {l : List Nat} {x : Nat} : x ∈ Mask.ofList l ↔ x ∈ l := by
  rw [Mask.ofList_eq, Mask.mem_union]; simp

theorem Mask.sorted_ofList (l : List Nat) : Sorted (Mask.ofList l) := by
  rw [Mask.ofList_eq]; exact Mask.sorted_union List.Pairwise.nil

theorem Mask.has_iff {m : List Nat} {c : Nat} : Mask.has m c = true ↔ c ∈ m := by
  simp [Mask.has]

/-! ## sorted lists -/

/-- two strictly ascending lists with the same members are equal -/
theorem sorted_ext {a b : List Nat} (ha : Sorted a) (hb : Sorted b) (h : ∀ x, x ∈ a ↔ x ∈ b) : a = b := by
  induction a generalizing b with
  | nil =>
    cases b with
    | nil => rfl
    | cons y ys => exact absurd ((h y).mpr (by simp)) (by simp)
  | cons x xs ih =>
    cases b with
    | nil => exact absurd ((h x).mp (by simp)) (by simp)
    | cons y ys =>
      have hx := List.pairwise_cons.mp ha
      have hy := List.pairwise_cons.mp hb
      have hxy : x = y := by
        have h1 := (h x).mp (by simp)
        have h2 := (h y).mpr (by simp)
        rcases List.mem_cons.mp h1 with h1 | h1
        · exact h1
        · rcases List.mem_cons.mp h2 with h2 | h2
          · exact h2.symm
          · have : y < x := hy.1 x h1
            have : x < y := hx.1 y h2
            omega
      subst hxy
      congr 1
      apply ih hx.2 hy.2
      intro z
      constructor
      · intro hz
        rcases List.mem_cons.mp ((h z).mp (by simp [hz])) with rfl | h'
        · have : z < z := hx.1 z hz
          omega
        · exact h'
      · intro hz
        rcases List.mem_cons.mp ((h z).mpr (by simp [hz])) with rfl | h'
        · have : z < z := hy.1 z hz
          omega
        · exact h'

/-- a strictly ascending list inside `[lo, hi)` has at most `hi - lo` members -/
theorem sorted_length_le {l : List Nat} (hs : Sorted l) (lo hi : Nat)
    (hb : ∀ x ∈ l, lo ≤ x ∧ x < hi) : l.length ≤ hi - lo := by
  induction l generalizing lo with
  | nil => simp
  | cons x xs ih =>
    have hx := List.pairwise_cons.mp hs
    have h1 := hb x (by simp)
    have := ih hx.2 (x + 1) (fun y hy => ⟨(hx.1 y hy : x < y), (hb y (by simp [hy])).2⟩)
    simp only [List.length_cons]
    omega

theorem sorted_length_le_128 {l : List Nat} (hs : Sorted l) (hb : ∀ x ∈ l, x < 128) : l.length ≤ 128 :=
  sorted_length_le hs 0 128 (fun x hx => ⟨Nat.zero_le _, hb x hx⟩)

theorem sorted_nodup {l : List Nat} (hs : Sorted l) : l.Nodup :=
  hs.imp (fun h => Nat.ne_of_lt h)

/-! ## `indexOf?` -/

theorem Mask.indexOf?_isSome {m : List Nat} {c : Nat} : (Mask.indexOf? m c).isSome ↔ c ∈ m := by
  unfold Mask.indexOf?
  simp only
  split
  · rename_i h; simp [List.idxOf_lt_length_iff.mp h]
  · rename_i h
    simp only [Option.isSome_none, Bool.false_eq_true, false_iff]
    intro hc; exact h (List.idxOf_lt_length_iff.mpr hc)

theorem Mask.indexOf?_eq_some {m : List Nat} {c : Nat} {i : Nat} (h : Mask.indexOf? m c = some i) :
    i < m.length ∧ m[i]? = some c := by
  unfold Mask.indexOf? at h
  simp only at h
  split at h
  · rename_i hlt
    cases h
    refine ⟨hlt, ?_⟩
    rw [List.getElem?_eq_getElem hlt]
    simp [List.getElem_idxOf]
  · cases h

theorem Mask.indexOf?_eq_none {m : List Nat} {c : Nat} : Mask.indexOf? m c = none ↔ c ∉ m := by
  rw [← Mask.indexOf?_isSome]
  cases Mask.indexOf? m c <;> simp

end Mustache.Model

import Mustache.Proofs.ClosureDeps
import Mustache.Spec.World
/-! # C13 at the level of the abstract spec WS: gaining a master brings its dependents, removals -/
namespace Mustache.Spec
open Mustache.Model

theorem closed_eq (deps : List (CompId × Mask)) (m : List Nat) : closed deps m = closedMask deps m := rfl

/-- value of component `c` in a component map (`none` = absent) -/
def lookupC (l : List (CompId × Val)) (c : Nat) : Option Val := (l.find? (·.1 == c)).map (·.2)
/-- value of component `c` of an entity record -/
def compVal (e : SEnt) (c : Nat) : Option Val := lookupC e.comps c

/-- the value a new component gets: the supplied one, else the default -/
def givenOrDefault (info : CompId → CompInfo) (given : List (CompId × Val)) (d : Nat) : Val :=
  match given.find? (·.1 == d) with
  | some p => p.2
  | none => defaultVal info d

variable (info : CompId → CompInfo)

/-! ## `alive` / `setEnt` -/

theorem alive_lt {s : WS} {o : Nat} {e : SEnt} (h : s.alive o = some e) : o < s.ents.length := by
  apply Classical.byContradiction
  intro hn
  have : s.alive o = none := by
    simp [WS.alive, List.getD_eq_getElem?_getD, List.getElem?_eq_none (Nat.le_of_not_lt hn)]
  rw [this] at h; cases h

theorem alive_setEnt_self (s : WS) (o : Nat) (x : Option SEnt) (h : o < s.ents.length) :
    (s.setEnt o x).alive o = x := by
  simp [WS.alive, WS.setEnt, List.getD_eq_getElem?_getD, h]

theorem alive_append_self (s : WS) (x : Option SEnt) :
    ({ s with ents := s.ents ++ [x] } : WS).alive s.ents.length = x := by
  simp [WS.alive, List.getD_eq_getElem?_getD]

/-! ## `rebuild` -/

/-- the entry `rebuild` produces for component `c` -/
def rebuildEntry (old given : List (CompId × Val)) (c : Nat) : CompId × Val :=
  match old.find? (·.1 == c) with
  | some p => p
  | none => match given.find? (·.1 == c) with
    | some p => p
    | none => (c, defaultVal info c)

theorem rebuild_eq (old : List (CompId × Val)) (newSet : List Nat) (given : List (CompId × Val)) :
    rebuild info old newSet given = newSet.map (rebuildEntry info old given) := rfl

theorem rebuildEntry_fst (old given : List (CompId × Val)) (c : Nat) : (rebuildEntry info old given c).1 = c := by
  unfold rebuildEntry
  split
  · rename_i p h; simpa using List.find?_some h
  · split
    · rename_i p h; simpa using List.find?_some h
    · rfl

theorem map_fst_rebuild (old : List (CompId × Val)) (newSet : List Nat) (given : List (CompId × Val)) :
    (rebuild info old newSet given).map (·.1) = newSet := by
  rw [rebuild_eq, List.map_map]
  conv => rhs; rw [← List.map_id newSet]
  apply List.map_congr_left
  intro c _
  exact rebuildEntry_fst info old given c

theorem compSet_rebuild (old : List (CompId × Val)) (newSet : List Nat) (given : List (CompId × Val))
    (sh : List (Nat × Nat)) : compSet ⟨rebuild info old newSet given, sh⟩ = newSet :=
  map_fst_rebuild info old newSet given

theorem find?_congr' {α : Type} {l : List α} {p q : α → Bool} (h : ∀ x ∈ l, p x = q x) : l.find? p = l.find? q := by
  induction l with
  | nil => rfl
  | cons a t ih =>
    simp only [List.find?_cons, h a (by simp)]
    rw [ih (fun x hx => h x (by simp [hx]))]

theorem find?_map_key {β : Type} (l : List Nat) (f : Nat → Nat × β) (hf : ∀ c, (f c).1 = c) (d : Nat) (hd : d ∈ l) :
    (l.map f).find? (·.1 == d) = some (f d) := by
  induction l with
  | nil => cases hd
  | cons a t ih =>
    simp only [List.map_cons, List.find?_cons, hf]
    by_cases h : a = d
    · subst h; simp
    · have : (a == d) = false := by simp [h]
      rw [this]
      rcases List.mem_cons.mp hd with h' | h'
      · exact absurd h'.symm h
      · exact ih h'

theorem lookupC_rebuild (old : List (CompId × Val)) (newSet : List Nat) (given : List (CompId × Val)) (d : Nat)
    (hd : d ∈ newSet) : lookupC (rebuild info old newSet given) d = some (rebuildEntry info old given d).2 := by
  unfold lookupC
  rw [rebuild_eq, find?_map_key newSet _ (rebuildEntry_fst info old given) d hd]
  rfl

theorem lookupC_none_of_not_mem {l : List (CompId × Val)} {d : Nat} (h : d ∉ l.map (·.1)) : l.find? (·.1 == d) = none := by
  rw [List.find?_eq_none]
  intro p hp hk
  apply h
  have : p.1 = d := by simpa using hk
  rw [← this]
  exact List.mem_map.mpr ⟨p, hp, rfl⟩

/-- a component absent from `old` is built from `given` or by default -/
theorem rebuildEntry_new {old given : List (CompId × Val)} {d : Nat} (h : d ∉ old.map (·.1)) :
    (rebuildEntry info old given d).2 = givenOrDefault info given d := by
  unfold rebuildEntry givenOrDefault
  rw [lookupC_none_of_not_mem h]
  simp only
  split <;> rfl

/-- a component present in `old` keeps its entry -/
theorem rebuildEntry_old {old given : List (CompId × Val)} {d : Nat} {p : CompId × Val}
    (h : old.find? (·.1 == d) = some p) : rebuildEntry info old given d = p := by
  unfold rebuildEntry; rw [h]

theorem find?_isSome_of_mem_keys {l : List (CompId × Val)} {d : Nat} (h : d ∈ l.map (·.1)) :
    ∃ p, l.find? (·.1 == d) = some p := by
  obtain ⟨q, hq, hqd⟩ := List.mem_map.mp h
  cases hf : l.find? (·.1 == d) with
  | some p => exact ⟨p, rfl⟩
  | none =>
    have := List.find?_eq_none.mp hf q hq
    simp [hqd] at this

/-- a kept component keeps its value through `rebuild`, provided `old'` agrees with `old` on it -/
theorem lookupC_rebuild_kept {old old' given : List (CompId × Val)} {newSet : List Nat} {d : Nat}
    (hd : d ∈ newSet) (hk : d ∈ old.map (·.1)) (hagree : old'.find? (·.1 == d) = old.find? (·.1 == d)) :
    lookupC (rebuild info old' newSet given) d = lookupC old d := by
  obtain ⟨p, hp⟩ := find?_isSome_of_mem_keys hk
  rw [lookupC_rebuild info _ _ _ _ hd, rebuildEntry_old info (hagree.trans hp)]
  unfold lookupC; rw [hp]; rfl

/-! ## gaining components -/

/-- the ways entity `o` gains components in one step: `s'` the state after, `old` its component map before
    (`[]` for a creation), `given` the values supplied by the caller -/
inductive GainStep (s : WS) : WS → Nat → List (CompId × Val) → List (CompId × Val) → Prop
  | create (mask : Mask) (sh : List (Nat × Nat)) :
      GainStep s (s.doCreate info mask sh).1 s.ents.length [] []
  | assign (o : Nat) (c : CompId) (v : Val) (e : SEnt) : s.alive o = some e →
      GainStep s (s.doAssign info o c v).1 o e.comps [(c, v)]
  | build (o : Nat) (adds : List (CompId × Option Nat)) (rems : Mask) (e : SEnt) (s' : WS) (cbs : List SCb) :
      s.alive o = some e → s.doBuild info o adds rems = some (s', cbs) →
      GainStep s s' o e.comps (adds.map (fun p => (p.1, storedVal info p.1 p.2)))
  | buildNew (adds : List (CompId × Option Nat)) :
      GainStep s (s.doBuildNew info adds).1 s.ents.length [] (adds.map (fun p => (p.1, storedVal info p.1 p.2)))
  | deferredCreate (o : Nat) (mask : Mask) (sh : List (Nat × Nat)) : o < s.ents.length →
      GainStep s (s.applyCmd info (.create o mask sh)).1 o [] []
  | deferredAssign (o : Nat) (c : CompId) (v : Val) (e : SEnt) : s.alive o = some e →
      GainStep s (s.applyCmd info (.assign (some o) c v)).1 o e.comps [(c, v)]

/-- what holds of the entity after a gaining step -/
structure GainPost (deps : List (CompId × Mask)) (old given : List (CompId × Val)) (e' : SEnt) : Prop where
  /-- every component the entity has now and lacked before comes with its whole closure -/
  dependents : ∀ m ∈ compSet e', m ∉ old.map (·.1) → ∀ d ∈ closed deps [m], d ∈ compSet e'
  /-- every new component carries the supplied value, else its default -/
  constructed : ∀ d ∈ compSet e', d ∉ old.map (·.1) → compVal e' d = some (givenOrDefault info given d)
  /-- a component that was there, still is and was not supplied again keeps its value -/
  kept : ∀ d ∈ compSet e', d ∈ old.map (·.1) → d ∉ given.map (·.1) → compVal e' d = lookupC old d

/-- the generic case: the new record is `rebuild old' after given` with `after` a closure -/
theorem gainPost_rebuild {deps : List (CompId × Mask)} (hb : DepsBounded deps) {old old' given : List (CompId × Val)}
    {X : List Nat} {sh : List (Nat × Nat)}
    (hsub : ∀ d, d ∉ old.map (·.1) → d ∉ old'.map (·.1))
    (hagree : ∀ d ∈ closed deps X, d ∈ old.map (·.1) → old'.find? (·.1 == d) = old.find? (·.1 == d)) :
    GainPost info deps old given ⟨rebuild info old' (closed deps X) given, sh⟩ := by
  have hset : compSet ⟨rebuild info old' (closed deps X) given, sh⟩ = closed deps X := compSet_rebuild info _ _ _ _
  refine ⟨?_, ?_, ?_⟩
  · intro m hm _ d hd
    rw [hset] at hm ⊢
    exact closedMask_single_sub hb hm d hd
  · intro d hd hnew
    rw [hset] at hd
    show lookupC _ d = _
    rw [lookupC_rebuild info _ _ _ _ hd, rebuildEntry_new info (hsub d hnew)]
  · intro d hd hold _
    rw [hset] at hd
    exact lookupC_rebuild_kept info hd hold (hagree d hd hold)

theorem doAssign_deps (s : WS) (o : Nat) (c : CompId) (v : Val) : (s.doAssign info o c v).1.deps = s.deps := by
  unfold WS.doAssign
  split
  · rfl
  · simp only; split <;> rfl

theorem doAssign_post {s : WS} (hb : DepsBounded s.deps) {o : Nat} (c : CompId) (v : Val) {e : SEnt}
    (he : s.alive o = some e) :
    ∃ e', (s.doAssign info o c v).1.alive o = some e' ∧ e'.shared = e.shared ∧
      GainPost info s.deps e.comps [(c, v)] e' ∧
      compSet e' = (if c ∈ compSet e then compSet e else closed s.deps (Mask.insert (compSet e) c)) ∧
      (c ∈ compSet e → compVal e' c = some v) := by
  have hlt := alive_lt he
  unfold WS.doAssign
  rw [he]
  simp only
  by_cases hc : c ∈ compSet e
  · have hcb : (compSet e).contains c = true := by simpa using hc
    rw [if_pos hcb]
    refine ⟨_, alive_setEnt_self _ _ _ hlt, rfl, ?_, ?_, ?_⟩
    · have hkeys : (e.comps.map (fun p => if p.1 == c then (c, v) else p)).map (·.1) = e.comps.map (·.1) := by
        rw [List.map_map]
        apply List.map_congr_left
        intro p _
        exact key_preserved c v p
      refine ⟨?_, ?_, ?_⟩
      · intro m hm hnew
        have : m ∈ e.comps.map (·.1) := by rw [← hkeys]; exact hm
        exact absurd this hnew
      · intro d hd hnew
        have : d ∈ e.comps.map (·.1) := by rw [← hkeys]; exact hd
        exact absurd this hnew
      · intro d _ hold hng
        have hdc : d ≠ c := by simpa using hng
        show lookupC _ d = _
        unfold lookupC
        rw [find?_key_map e.comps _ (key_preserved c v) d]
        cases hf : e.comps.find? (·.1 == d) with
        | none => rfl
        | some q =>
          have hq : q.1 = d := by simpa using List.find?_some hf
          have hqc : ¬ q.1 = c := by rw [hq]; exact hdc
          simp [hqc]
    · rw [if_pos hc]
      simp only [compSet]
      rw [List.map_map]
      apply List.map_congr_left
      intro p _
      exact key_preserved c v p
    · intro _
      show lookupC _ c = _
      unfold lookupC
      rw [find?_key_map e.comps _ (key_preserved c v) c]
      obtain ⟨p, hp⟩ := find?_isSome_of_mem_keys hc
      have hq : p.1 = c := by simpa using List.find?_some hp
      rw [hp]; simp [hq]
  · have hcb : ¬ ((compSet e).contains c = true) := by simpa using hc
    rw [if_neg hcb]
    refine ⟨_, alive_setEnt_self _ _ _ hlt, rfl, ?_, ?_, fun h => absurd h hc⟩
    · exact gainPost_rebuild info hb (fun _ h => h) (fun _ _ _ => rfl)
    · rw [if_neg hc]; exact compSet_rebuild info _ _ _ _

theorem doBuild_post {s : WS} (hb : DepsBounded s.deps) {o : Nat} {adds : List (CompId × Option Nat)} {rems : Mask}
    {e : SEnt} (he : s.alive o = some e) {s' : WS} {cbs : List SCb} (h : s.doBuild info o adds rems = some (s', cbs)) :
    ∃ e', s'.alive o = some e' ∧ s'.deps = s.deps ∧ e'.shared = e.shared ∧
      GainPost info s.deps e.comps (adds.map (fun p => (p.1, storedVal info p.1 p.2))) e' ∧
      compSet e' = closed s.deps (Mask.diff (Mask.union (Mask.ofList (adds.map (·.1))) (compSet e)) rems) := by
  have hlt := alive_lt he
  unfold WS.doBuild at h
  rw [he] at h
  simp only at h
  split at h
  · cases h
  · cases h
    refine ⟨_, alive_setEnt_self _ _ _ hlt, rfl, rfl, ?_, compSet_rebuild info _ _ _ _⟩
    apply gainPost_rebuild info hb
    · intro d hd hd'
      apply hd
      obtain ⟨p, hp, rfl⟩ := List.mem_map.mp hd'
      exact List.mem_map.mpr ⟨p, (List.mem_filter.mp hp).1, rfl⟩
    · intro d hd _
      rw [List.find?_filter]
      apply find?_congr'
      intro p _
      by_cases hpd : p.1 == d
      · have : p.1 = d := by simpa using hpd
        have hc : (closed s.deps (Mask.diff (Mask.union (Mask.ofList (adds.map (·.1))) (compSet e)) rems)).contains p.1 = true := by
          rw [this]; simpa using hd
        rw [hpd, hc]; rfl
      · simp [hpd]

/-- `gain_master_has_dependents`, all six ways of gaining at once -/
theorem gainStep_post {s s' : WS} (hb : DepsBounded s.deps) {o : Nat} {old given : List (CompId × Val)}
    (h : GainStep info s s' o old given) :
    ∃ e', s'.alive o = some e' ∧ s'.deps = s.deps ∧ GainPost info s.deps old given e' := by
  cases h with
  | create mask sh =>
    refine ⟨_, alive_append_self s _, rfl, ?_⟩
    exact gainPost_rebuild info hb (fun _ h => h) (fun _ _ _ => rfl)
  | assign o c v e he =>
    obtain ⟨e', h1, _, h2, _⟩ := doAssign_post info hb c v he
    exact ⟨e', h1, doAssign_deps info s o c v, h2⟩
  | build o adds rems e s' cbs he hs =>
    obtain ⟨e', h1, h2, _, h3, _⟩ := doBuild_post info hb he hs
    exact ⟨e', h1, h2, h3⟩
  | buildNew adds =>
    refine ⟨_, alive_append_self s _, rfl, ?_⟩
    exact gainPost_rebuild info hb (fun _ h => h) (fun _ _ _ => rfl)
  | deferredCreate o mask sh hlt =>
    refine ⟨_, alive_setEnt_self _ _ _ hlt, rfl, ?_⟩
    exact gainPost_rebuild info hb (fun _ h => h) (fun _ _ _ => rfl)
  | deferredAssign o c v e he =>
    obtain ⟨e', h1, _, h2, _⟩ := doAssign_post info hb c v he
    exact ⟨e', h1, doAssign_deps info s o c v, h2⟩

/-- the created entity's component set is exactly the closure of the requested mask -/
theorem doCreate_compSet (s : WS) (mask : Mask) (sh : List (Nat × Nat)) :
    ∃ e', (s.doCreate info mask sh).1.alive s.ents.length = some e' ∧ (s.doCreate info mask sh).2.1 = s.ents.length ∧
      compSet e' = closed s.deps mask ∧ e'.shared = sh :=
  ⟨_, alive_append_self s _, rfl, compSet_rebuild info _ _ _ _, rfl⟩

/-! ## removals -/

/-- an entity record in good shape w.r.t. a dependency table: component set sorted and closed -/
structure EntClosed (deps : List (CompId × Mask)) (e : SEnt) : Prop where
  sorted : Sorted (compSet e)
  closed : ClosedUnder deps (compSet e)

/-- removing a (direct or transitive) dependent `c` of a present master `m` changes nothing -/
theorem doRemove_dependent_noop {s : WS} (hb : DepsBounded s.deps) {o : Nat} {e : SEnt} (he : s.alive o = some e)
    (hok : EntClosed s.deps e) {m c : Nat} (hm : m ∈ compSet e) (hne : m ≠ c) (hc : c ∈ closed s.deps [m]) :
    s.doRemove info o c = (s, []) := by
  unfold WS.doRemove
  rw [he]
  simp only
  split
  · rfl
  · have hafter : closed s.deps (Mask.erase (compSet e) c) = compSet e := by
      apply sorted_ext (sorted_closedMask (Mask.sorted_erase hok.sorted)) hok.sorted
      intro x
      constructor
      · exact closedMask_least hok.closed (fun y hy => (Mask.mem_erase.mp hy).1) x
      · intro hx
        have hm' : m ∈ closedMask s.deps (Mask.erase (compSet e) c) :=
          subset_closedMask (Mask.mem_erase.mpr ⟨hm, hne⟩)
        by_cases hxc : x = c
        · subst hxc; exact closedMask_single_sub hb hm' x hc
        · exact subset_closedMask (Mask.mem_erase.mpr ⟨hx, hxc⟩)
    rw [hafter]
    simp

theorem doRemove_deps (s : WS) (o : Nat) (c : CompId) : (s.doRemove info o c).1.deps = s.deps := by
  unfold WS.doRemove
  split
  · rfl
  · simp only
    split
    · rfl
    · split <;> rfl

/-- removing a present component `m`: the new component set is the closure of the rest, so everything else
    the entity had is still there (with its value); `m` itself stays iff something left still requires it -/
theorem doRemove_post {s : WS} {o : Nat} {e : SEnt} (he : s.alive o = some e) {m : Nat} (hm : m ∈ compSet e) :
    ∃ e', (s.doRemove info o m).1.alive o = some e' ∧ e'.shared = e.shared ∧
      compSet e' = closed s.deps (Mask.erase (compSet e) m) ∧
      (∀ d ∈ compSet e, d ≠ m → d ∈ compSet e' ∧ compVal e' d = compVal e d) := by
  have hlt := alive_lt he
  unfold WS.doRemove
  rw [he]
  simp only
  have hcb : (compSet e).contains m = true := by simpa using hm
  simp only [hcb, Bool.not_true, Bool.false_eq_true, if_false]
  split
  · rename_i heq
    have heq' : closed s.deps (Mask.erase (compSet e) m) = compSet e := by simpa using heq
    refine ⟨e, he, rfl, heq'.symm, fun d hd _ => ⟨hd, rfl⟩⟩
  · refine ⟨_, alive_setEnt_self _ _ _ hlt, rfl, compSet_rebuild info _ _ _ _, ?_⟩
    intro d hd hdm
    have hin : d ∈ closed s.deps (Mask.erase (compSet e) m) := subset_closedMask (Mask.mem_erase.mpr ⟨hd, hdm⟩)
    refine ⟨by rw [compSet_rebuild]; exact hin, ?_⟩
    unfold compVal
    dsimp only
    apply lookupC_rebuild_kept info hin hd
    split
    · rfl
    rw [List.find?_filter]
    apply find?_congr'
    intro p _
    by_cases hpd : p.1 == d
    · have : p.1 = d := by simpa using hpd
      simp [this, hdm]
    · simp [hpd]

/-- the closure of a sorted set is a record in good shape: what creation / assignment / builder produce -/
theorem entClosed_of_closed {deps : List (CompId × Mask)} (hb : DepsBounded deps) {X : List Nat} (hs : Sorted X)
    {e : SEnt} (h : compSet e = closed deps X) : EntClosed deps e :=
  ⟨by rw [h]; exact sorted_closedMask hs, by rw [h]; exact closedMask_closed hb X⟩

end Mustache.Spec

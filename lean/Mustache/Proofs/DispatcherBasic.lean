import Mustache.Model.Dispatcher

/-! Helper lemmas for the dispatcher model: `findQueue`, `scanBody`, counting, `wakeAll`. -/
namespace Mustache.Dispatcher

theorem pickMin_foldl_mem (s : State) (l : List Nat) (acc : Option Nat) (q : Nat)
    (h : l.foldl (pickStep s) acc = some q) : acc = some q ∨ q ∈ l := by
  induction l generalizing acc with
  | nil => simp at h; exact Or.inl h
  | cons a r ih =>
    simp only [List.foldl_cons] at h
    rcases ih _ h with h' | h'
    · cases acc with
      | none => simp [pickStep] at h'; right; simp [h']
      | some b =>
        simp only [pickStep] at h'
        split at h'
        · simp at h'; right; simp [h']
        · left; exact h'
    · right; simp [h']

theorem pickMin_mem {s : State} {l : List Nat} {q : Nat} (h : pickMin s l = some q) : q ∈ l := by
  rcases pickMin_foldl_mem s l none q h with h' | h'
  · cases h'
  · exact h'

theorem pickMin_none {s : State} {l : List Nat} (h : pickMin s l = none) : l = [] := by
  cases l with
  | nil => rfl
  | cons a r =>
    exfalso
    have aux : ∀ (r : List Nat) (b : Nat), r.foldl (pickStep s) (some b) ≠ none := by
      intro r
      induction r with
      | nil => intro b; simp
      | cons x r ih =>
        intro b
        simp only [List.foldl_cons, pickStep]
        split
        · exact ih _
        · exact ih _
    exact aux r a (by simpa [pickMin, pickStep] using h)

theorem mem_serialIds {s : State} {q : Nat} : q ∈ serialIds s ↔ 1 ≤ q ∧ q ≤ s.nq := by
  simp only [serialIds, List.mem_map, List.mem_range]
  constructor
  · rintro ⟨a, ha, rfl⟩; omega
  · rintro ⟨h1, h2⟩; exact ⟨q - 1, by omega, by omega⟩

theorem findQueue_some {s : State} {q : Nat} (h : findQueue s = some q) :
    q ≤ s.nq ∧ s.locked q = false ∧ s.jobs q ≠ [] := by
  unfold findQueue at h
  split at h
  · rename_i h0
    cases h
    simp [isOk] at h0
    exact ⟨Nat.zero_le _, h0.1, h0.2⟩
  · have := pickMin_mem h
    simp only [List.mem_filter, mem_serialIds, isOk, Bool.and_eq_true, Bool.not_eq_true',
      List.isEmpty_eq_false_iff] at this
    exact ⟨this.1.2, this.2.1, this.2.2⟩

theorem findQueue_none {s : State} (h : findQueue s = none) :
    ∀ q, q ≤ s.nq → s.locked q = true ∨ s.jobs q = [] := by
  intro q hq
  unfold findQueue at h
  split at h
  · cases h
  · rename_i h0
    by_cases hq0 : q = 0
    · subst hq0
      simp [isOk] at h0
      cases hl : s.locked 0
      · right; exact h0 hl
      · left; rfl
    · have hnil := pickMin_none h
      have : q ∉ (serialIds s).filter (isOk s) := by rw [hnil]; simp
      simp only [List.mem_filter, mem_serialIds, isOk, Bool.and_eq_true, Bool.not_eq_true',
        List.isEmpty_eq_false_iff, not_and] at this
      have := this ⟨by omega, hq⟩
      cases hl : s.locked q
      · right
        cases hj : s.jobs q with
        | nil => rfl
        | cons a r => exact absurd (by simp [hj]) (this hl)
      · left; rfl

/-- the four outcomes of the worker's critical section -/
theorem scanBody_cases (s : State) (th : Nat) :
    (s.terminate = true ∧ scanBody s th = { s with pcs := s.pcs.set th .exited }) ∨
    (s.terminate = false ∧ findQueue s = none ∧
      scanBody s th = { s with pcs := s.pcs.set th .sleeping, tw := s.tw + 1 }) ∨
    (s.terminate = false ∧ ∃ q t r, findQueue s = some q ∧ s.jobs q = t :: r ∧ s.locked q = false ∧ q ≤ s.nq ∧
      scanBody s th = doPop s th q t r) := by
  unfold scanBody
  cases hterm : s.terminate
  · right
    cases hf : findQueue s with
    | none => left; simp
    | some q =>
      right
      have hq := findQueue_some hf
      cases hj : s.jobs q with
      | nil => exact absurd hj hq.2.2
      | cons t r => exact ⟨rfl, q, t, r, rfl, hj, hq.2.1, hq.1, by simp [hj]⟩
  · left; simp

theorem countP_set_of {α : Type} (p : α → Bool) (l : List α) (i : Nat) (x y : α) (h : l[i]? = some y) :
    (l.set i x).countP p + (if p y then 1 else 0) = l.countP p + (if p x then 1 else 0) := by
  induction l generalizing i with
  | nil => simp at h
  | cons a r ih =>
    cases i with
    | zero =>
      simp at h; subst h
      simp only [List.set_cons_zero, List.countP_cons]
      omega
    | succ i =>
      simp at h
      have := ih i h
      simp only [List.set_cons_succ, List.countP_cons]
      omega

theorem wakeAll_getElem? (l : List Pc) (i : Nat) :
    (wakeAll l)[i]? = (l[i]?).map (fun p => if p = .sleeping then .woken else p) := by
  simp [wakeAll]

theorem wakeAll_running (l : List Pc) (i t q : Nat) :
    (wakeAll l)[i]? = some (Pc.running t q) ↔ l[i]? = some (Pc.running t q) := by
  rw [wakeAll_getElem?]
  cases h : l[i]? with
  | none => simp
  | some p => cases p <;> simp

theorem wakeAll_relock (l : List Pc) (i q : Nat) :
    (wakeAll l)[i]? = some (Pc.relock q) ↔ l[i]? = some (Pc.relock q) := by
  rw [wakeAll_getElem?]
  cases h : l[i]? with
  | none => simp
  | some p => cases p <;> simp

theorem wakeAll_idle (l : List Pc) (i : Nat) :
    (wakeAll l)[i]? = some Pc.idle ↔ l[i]? = some Pc.idle := by
  rw [wakeAll_getElem?]
  cases h : l[i]? with
  | none => simp
  | some p => cases p <;> simp

theorem wakeAll_exited (l : List Pc) (i : Nat) :
    (wakeAll l)[i]? = some Pc.exited ↔ l[i]? = some Pc.exited := by
  rw [wakeAll_getElem?]
  cases h : l[i]? with
  | none => simp
  | some p => cases p <;> simp

theorem wakeAll_not_sleeping (l : List Pc) (i : Nat) : (wakeAll l)[i]? ≠ some Pc.sleeping := by
  rw [wakeAll_getElem?]
  cases h : l[i]? with
  | none => simp
  | some p => cases p <;> simp

theorem wakeAll_length (l : List Pc) : (wakeAll l).length = l.length := by simp [wakeAll]

theorem wakeAll_countP (l : List Pc) : (wakeAll l).countP isWaiting = l.countP isWaiting := by
  induction l with
  | nil => rfl
  | cons a r ih =>
    simp only [wakeAll, List.map_cons, List.countP_cons] at ih ⊢
    rw [ih]
    cases a <;> simp [isWaiting]

theorem sorted_nodup {l : List Nat} (h : l.Pairwise (· < ·)) : l.Nodup := by
  unfold List.Nodup
  exact h.imp (fun hab => Nat.ne_of_lt hab)

/-- if all but the first thread are counted as waiting, every worker is waiting -/
theorem all_waiting_of_count {l : List Pc} {n : Nat} (hlen : l.length = n + 1)
    (h0 : ∀ p, l[0]? = some p → isWaiting p = false) (hc : l.countP isWaiting = n) :
    ∀ th, 1 ≤ th → th ≤ n → ∃ p, l[th]? = some p ∧ isWaiting p = true := by
  cases l with
  | nil => simp at hlen
  | cons a r =>
    have ha : isWaiting a = false := h0 a (by simp)
    simp only [List.countP_cons, ha] at hc
    simp at hlen
    have hall : ∀ x ∈ r, isWaiting x = true := by
      have : r.countP isWaiting = r.length := by simpa [hlen] using hc
      exact List.countP_eq_length.mp this
    intro th h1 h2
    obtain ⟨k, rfl⟩ : ∃ k, th = k + 1 := ⟨th - 1, by omega⟩
    have hk : k < r.length := by omega
    exact ⟨r[k], by simp [hk], hall _ (List.getElem_mem hk)⟩

/-- conversely, if the count is short some worker is not waiting -/
theorem exists_not_waiting_of_count {l : List Pc} {n : Nat} (hlen : l.length = n + 1)
    (h0 : ∀ p, l[0]? = some p → isWaiting p = false) (hc : l.countP isWaiting ≠ n) :
    ∃ th p, 1 ≤ th ∧ th ≤ n ∧ l[th]? = some p ∧ isWaiting p = false := by
  cases l with
  | nil => simp at hlen
  | cons a r =>
    have ha : isWaiting a = false := h0 a (by simp)
    simp only [List.countP_cons, ha] at hc
    simp at hlen
    have hne : r.countP isWaiting ≠ r.length := by simpa [hlen] using hc
    have : ∃ x, x ∈ r ∧ isWaiting x = false := by
      apply Classical.byContradiction
      intro hno
      apply hne
      apply List.countP_eq_length.mpr
      intro x hx
      cases hw : isWaiting x
      · exact absurd ⟨x, hx, hw⟩ hno
      · rfl
    obtain ⟨x, hx, hxw⟩ := this
    obtain ⟨k, hk, rfl⟩ := List.getElem_of_mem hx
    exact ⟨k + 1, r[k], by omega, by omega, by simp [hk], by simpa using hxw⟩

theorem allExited_iff (s : State) :
    allExited s = true ↔ ∀ th p, 1 ≤ th → s.pcs[th]? = some p → p = Pc.exited := by
  unfold allExited
  simp only [List.all_eq_true, decide_eq_true_eq]
  constructor
  · intro h th p h1 hp
    obtain ⟨k, rfl⟩ : ∃ k, th = k + 1 := ⟨th - 1, by omega⟩
    apply h
    have : (s.pcs.drop 1)[k]? = some p := by simpa [Nat.add_comm] using hp
    exact List.mem_of_getElem? this
  · intro h x hx
    obtain ⟨k, hk⟩ := List.getElem?_of_mem hx
    apply h (k + 1) x (by omega)
    simpa [Nat.add_comm] using hk

end Mustache.Dispatcher

import Mustache.Proofs.DispatcherMeasure

/-! `wait` returns on every infinite run that keeps taking progress actions and has finitely many spurious wake-ups. -/
namespace Mustache.Dispatcher

/-- the external thread is inside `wait(q)` -/
def InWait (q : Nat) (s : State) : Prop := s.mode = .waitLoop q ∨ s.mode = .spin q

theorem inWait_blocked {q : Nat} {s : State} (h : InWait q s) : s.mode.isBlocked = true := by
  rcases h with h | h <;> rw [h] <;> rfl

/-- from inside `wait(q)` a step stays inside `wait(q)` or returns to the caller -/
theorem inWait_step {q : Nat} {s s' : State} {a : Action} (h : InWait q s) (hs : step s a = some s') :
    InWait q s' ∨ s'.mode = .api := by
  cases a
  case wScan th =>
    simp only [step] at hs
    split at hs
    · cases hs
    · split at hs
      · cases hs
        rcases scanBody_cases s th with ⟨_, he⟩ | ⟨_, _, he⟩ | ⟨_, q', t, r, _, _, _, _, he⟩ <;> rw [he] <;> exact Or.inl h
      · cases hs
        rcases scanBody_cases { s with tw := s.tw - 1 } th with ⟨_, he⟩ | ⟨_, _, he⟩ | ⟨_, q', t, r, _, _, _, _, he⟩ <;>
          rw [he] <;> exact Or.inl h
      · cases hs
  case spinExit => step_split hs; exact Or.inr rfl
  case waitEmpty =>
    step_split hs
    rename_i q' hm _
    rcases h with h | h
    · rw [hm] at h; cases h; exact Or.inl (Or.inr rfl)
    · rw [hm] at h; cases h
  case relock th =>
    step_split hs
    · rename_i hg
      rcases h with h | h <;> rw [hg.2] at h <;> cases h
    · exact Or.inl h
  all_goals step_split hs
  all_goals (first | exact Or.inl h | skip)
  all_goals (rename_i hg; first | (rcases h with h | h <;> rw [hg] at h <;> cases h) | (rcases h with h | h <;> rw [hg.1] at h <;> cases h))

theorem spin_measure_eq {s s' : State} {a : Action} (ha : a = .waitBlocked ∨ a = .spinRetry)
    (hs : step s a = some s') : progressMeasure s' = progressMeasure s := by
  rcases ha with rfl | rfl <;> (step_split hs; rfl)

/-- an infinite run of the model -/
structure InfRun (n : Nat) where
  st : Nat → State
  act : Nat → Action
  start : Reachable n (st 0)
  steps : ∀ i, step (st i) (act i) = some (st (i + 1))

theorem InfRun.reach {n : Nat} (r : InfRun n) : ∀ i, Reachable n (r.st i) := by
  intro i
  induction i with
  | zero => exact r.start
  | succ i ih => exact Reachable.step (r.act i) ih (r.steps i)

/-- A1: the schedule keeps taking actions other than busy-wait iterations / spurious wake-ups
(justified by `no_deadlock` under a weakly fair scheduler) -/
def KeepsProgressing {n : Nat} (r : InfRun n) : Prop := ∀ i, ∃ j, i ≤ j ∧ (r.act j).isSpin = false

/-- A2: from some point on there are no spurious wake-ups -/
def FinitelyManyWakes {n : Nat} (r : InfRun n) : Prop := ∃ i0, ∀ j, i0 ≤ j → ∀ th, r.act j ≠ .wake th

theorem wait_returns_of_fair {n : Nat} (r : InfRun n) {q : Nat} (h0 : InWait q (r.st 0))
    (hA1 : KeepsProgressing r) (hA2 : FinitelyManyWakes r) : ∃ i, (r.st i).mode = .api := by
  apply Classical.byContradiction
  intro hno
  have hnever : ∀ i, (r.st i).mode ≠ .api := fun i e => hno ⟨i, e⟩
  have hin : ∀ i, InWait q (r.st i) := by
    intro i
    induction i with
    | zero => exact h0
    | succ i ih =>
      rcases inWait_step ih (r.steps i) with h | h
      · exact h
      · exact absurd h (hnever (i + 1))
  obtain ⟨i0, hw⟩ := hA2
  let μ := fun i => progressMeasure (r.st i)
  have hstep : ∀ i, i0 ≤ i → μ (i + 1) ≤ μ i ∧ ((r.act i).isSpin = false → μ (i + 1) < μ i) := by
    intro i hi
    have hb := inWait_blocked (hin i)
    have hlt := bounded_progress_inv (reachable_inv (r.reach i)) hb (a := r.act i) (s' := r.st (i + 1))
    cases hsp : (r.act i).isSpin
    · have := hlt hsp (r.steps i)
      exact ⟨Nat.le_of_lt this, fun _ => this⟩
    · refine ⟨?_, fun h => by cases h⟩
      have hs := r.steps i
      cases ha : r.act i <;> rw [ha] at hsp hs <;> simp only [Action.isSpin] at hsp
      case waitBlocked => exact Nat.le_of_eq (spin_measure_eq (Or.inl rfl) hs)
      case spinRetry => exact Nat.le_of_eq (spin_measure_eq (Or.inr rfl) hs)
      case wake th => exact absurd ha (hw i hi th)
      all_goals cases hsp
  have hmono : ∀ i, i0 ≤ i → ∀ d, μ (i + d) ≤ μ i := by
    intro i hi d
    induction d with
    | zero => exact Nat.le_refl _
    | succ d ih =>
      have := (hstep (i + d) (by omega)).1
      show μ (i + d + 1) ≤ μ i
      omega
  have hbound : ∀ m i, i0 ≤ i → μ i ≤ m → False := by
    intro m
    induction m with
    | zero =>
      intro i hi hm
      obtain ⟨j, hij, hj⟩ := hA1 i
      have h1 := hmono i hi (j - i)
      have h2 := (hstep j (by omega)).2 hj
      have : i + (j - i) = j := by omega
      rw [this] at h1
      omega
    | succ m ih =>
      intro i hi hm
      obtain ⟨j, hij, hj⟩ := hA1 i
      have h1 := hmono i hi (j - i)
      have h2 := (hstep j (by omega)).2 hj
      have : i + (j - i) = j := by omega
      rw [this] at h1
      exact ih (j + 1) (by omega) (by omega)
  exact hbound (μ i0) i0 (Nat.le_refl _) (Nat.le_refl _)

end Mustache.Dispatcher

import Mustache.Proofs.DispatcherMeasure
import Mustache.Model.DispatcherAccess

/-! `wait` returns on every infinite run that keeps taking progress actions and has finitely many spurious wake-ups. -/
namespace Mustache.Dispatcher

/-- the external thread is inside `wait(q)` -/
def InWait (q : Nat) (s : State) : Prop := s.mode = .waitLoop q ∨ s.mode = .spin q

theorem inWait_blocked {q : Nat} {s : State} (h : InWait q s) : s.mode.isBlocked = true := by
  rcases h with h | h <;> rw [h] <;> rfl

/-- from inside `wait(q)` a step stays inside `wait(q)` or returns to the caller -/
theorem inWait_step {q : Nat} {s s' : State} {a : Action} (h : InWait q s) (hs : step s a = some s') :
    InWait q s' ∨ s'.mode = .api := by
  cases a
  case wScan th =>
    simp only [step] at hs
    split at hs
    · cases hs
    · split at hs
      · cases hs
        rcases scanBody_cases s th with ⟨_, he⟩ | ⟨_, _, he⟩ | ⟨_, q', t, r, _, _, _, _, he⟩ <;> rw [he] <;> exact Or.inl h
      · cases hs
        rcases scanBody_cases { s with tw := s.tw - 1 } th with ⟨_, he⟩ | ⟨_, _, he⟩ | ⟨_, q', t, r, _, _, _, _, he⟩ <;>
          rw [he] <;> exact Or.inl h
      · cases hs
  case spinExit => step_split hs; exact Or.inr rfl
  case waitEmpty =>
    step_split hs
    rename_i q' hm _
    rcases h with h | h
    · rw [hm] at h; cases h; exact Or.inl (Or.inr rfl)
    · rw [hm] at h; cases h
  case relock th =>
    step_split hs
    · rename_i hg
      rcases h with h | h <;> rw [hg.2] at h <;> cases h
    · exact Or.inl h
  all_goals step_split hs
  all_goals (first | exact Or.inl h | skip)
  all_goals (rename_i hg; first | (rcases h with h | h <;> rw [hg] at h <;> cases h) | (rcases h with h | h <;> rw [hg.1] at h <;> cases h))

theorem spin_measure_eq {s s' : State} {a : Action} (ha : a = .waitBlocked ∨ a = .spinRetry)
    (hs : step s a = some s') : progressMeasure s' = progressMeasure s := by
  rcases ha with rfl | rfl <;> (step_split hs; rfl)

/-- an infinite run of the model -/
structure InfRun (n : Nat) where
  st : Nat → State
  act : Nat → Action
  start : Reachable n (st 0)
  steps : ∀ i, step (st i) (act i) = some (st (i + 1))

theorem InfRun.reach {n : Nat} (r : InfRun n) : ∀ i, Reachable n (r.st i) := by
  intro i
  induction i with
  | zero => exact r.start
  | succ i ih => exact Reachable.step (r.act i) ih (r.steps i)

/-- A1: the schedule keeps taking actions other than busy-wait iterations / spurious wake-ups
(justified by `no_deadlock` under a weakly fair scheduler) -/
def KeepsProgressing {n : Nat} (r : InfRun n) : Prop := ∀ i, ∃ j, i ≤ j ∧ (r.act j).isSpin = false

/-- A2: from some point on there are no spurious wake-ups -/
def FinitelyManyWakes {n : Nat} (r : InfRun n) : Prop := ∃ i0, ∀ j, i0 ≤ j → ∀ th, r.act j ≠ .wake th

theorem wait_returns_of_fair' {n : Nat} (r : InfRun n) {q : Nat} (h0 : InWait q (r.st 0))
    (hA1' : (∀ i, InWait q (r.st i)) → KeepsProgressing r) (hA2 : FinitelyManyWakes r) :
    ∃ i, (r.st i).mode = .api := by
  apply Classical.byContradiction
  intro hno
  have hnever : ∀ i, (r.st i).mode ≠ .api := fun i e => hno ⟨i, e⟩
  have hin : ∀ i, InWait q (r.st i) := by
    intro i
    induction i with
    | zero => exact h0
    | succ i ih =>
      rcases inWait_step ih (r.steps i) with h | h
      · exact h
      · exact absurd h (hnever (i + 1))
  have hA1 := hA1' hin
  obtain ⟨i0, hw⟩ := hA2
  let μ := fun i => progressMeasure (r.st i)
  have hstep : ∀ i, i0 ≤ i → μ (i + 1) ≤ μ i ∧ ((r.act i).isSpin = false → μ (i + 1) < μ i) := by
    intro i hi
    have hb := inWait_blocked (hin i)
    have hlt := bounded_progress_inv (reachable_inv (r.reach i)) hb (a := r.act i) (s' := r.st (i + 1))
    cases hsp : (r.act i).isSpin
    · have := hlt hsp (r.steps i)
      exact ⟨Nat.le_of_lt this, fun _ => this⟩
    · refine ⟨?_, fun h => by cases h⟩
      have hs := r.steps i
      cases ha : r.act i <;> rw [ha] at hsp hs <;> simp only [Action.isSpin] at hsp
      case waitBlocked => exact Nat.le_of_eq (spin_measure_eq (Or.inl rfl) hs)
      case spinRetry => exact Nat.le_of_eq (spin_measure_eq (Or.inr rfl) hs)
      case wake th => exact absurd ha (hw i hi th)
      all_goals cases hsp
  have hmono : ∀ i, i0 ≤ i → ∀ d, μ (i + d) ≤ μ i := by
    intro i hi d
    induction d with
    | zero => exact Nat.le_refl _
    | succ d ih =>
      have := (hstep (i + d) (by omega)).1
      show μ (i + d + 1) ≤ μ i
      omega
  have hbound : ∀ m i, i0 ≤ i → μ i ≤ m → False := by
    intro m
    induction m with
    | zero =>
      intro i hi hm
      obtain ⟨j, hij, hj⟩ := hA1 i
      have h1 := hmono i hi (j - i)
      have h2 := (hstep j (by omega)).2 hj
      have : i + (j - i) = j := by omega
      rw [this] at h1
      omega
    | succ m ih =>
      intro i hi hm
      obtain ⟨j, hij, hj⟩ := hA1 i
      have h1 := hmono i hi (j - i)
      have h2 := (hstep j (by omega)).2 hj
      have : i + (j - i) = j := by omega
      rw [this] at h1
      exact ih (j + 1) (by omega) (by omega)
  exact hbound (μ i0) i0 (Nat.le_refl _) (Nat.le_refl _)

theorem wait_returns_of_fair {n : Nat} (r : InfRun n) {q : Nat} (h0 : InWait q (r.st 0))
    (hA1 : KeepsProgressing r) (hA2 : FinitelyManyWakes r) : ∃ i, (r.st i).mode = .api :=
  wait_returns_of_fair' r h0 (fun _ => hA1) hA2

theorem persists_wake {s : State} {th : Nat} (hsl : s.pcs[th]? = some Pc.sleeping) (a : Action)
    (ha : a.isSpin = false) (he : (step s a).isSome = true) :
    (step { s with pcs := s.pcs.set th Pc.woken } a).isSome = true := by
  have hne : ∀ {o : Nat} {p : Pc}, p ≠ Pc.sleeping → s.pcs[o]? = some p → (s.pcs.set th Pc.woken)[o]? = some p := by
    intro o p hp ho
    by_cases e : th = o
    · subst e; rw [hsl] at ho; cases ho; exact absurd rfl hp
    · rw [List.getElem?_set_ne e]; exact ho
  cases a
  case waitBlocked => cases ha
  case spinRetry => cases ha
  case wake o => cases ha
  case wScan o =>
    simp only [step] at he ⊢
    split at he
    · cases he
    · rename_i ho
      simp only [ho, if_false]
      split at he
      · rename_i hp; rw [hne (by simp) hp]; rfl
      · rename_i hp; rw [hne (by simp) hp]; rfl
      · cases he
  case taskEnd o =>
    simp only [step] at he ⊢
    split at he
    · rename_i t q hp; rw [hne (by simp) hp]; rfl
    · cases he
  case relock o =>
    simp only [step] at he ⊢
    split at he
    · rename_i q hp; rw [hne (by simp) hp]; rfl
    · cases he
  case waitPop =>
    simp only [step] at he ⊢
    split at he
    · rename_i q hm
      split at he
      · rename_i hg
        simp only [hne (by simp) hg.1, hg.2.1, hg.2.2, and_self, if_true]
        split at he
        · cases he
        · rfl
      · cases he
    · cases he
  case waitEmpty =>
    simp only [step] at he ⊢
    split at he
    · rename_i q hm
      split at he
      · rename_i hg
        simp only [hne (by simp) hg.1, true_and]
        simp [hg.2]
      · cases he
    · cases he
  case sdJoin =>
    simp only [step] at he ⊢
    split at he
    · rename_i hg
      have : ((s.pcs.set th Pc.woken).drop 1).all (· = Pc.exited) = true := by
        have hall := (allExited_iff s).mp hg.2
        by_cases h0 : th = 0
        · subst h0
          have hx := hg.2
          unfold allExited at hx
          have : (s.pcs.set 0 Pc.woken).drop 1 = s.pcs.drop 1 := by
            cases hp : s.pcs with
            | nil => rfl
            | cons x xs => simp
          rw [this]; exact hx
        · exact absurd (hall th _ (by omega) hsl) (by simp)
      simp only [hg.1, allExited, this, and_self, if_true, Option.isSome_some]
    · cases he
  case spinExit =>
    simp only [step] at he ⊢
    split at he
    · rename_i q hm
      simp only [hm]
      split at he
      · rename_i hg; exact if_pos hg ▸ rfl
      · cases he
    · cases he
  all_goals (simp only [step] at he ⊢; split at he <;> first | (cases he; done) | (rename_i h; rw [if_pos h]; rfl) | (rename_i h; simp [h]))

/-- an enabled progress action stays enabled across busy-wait iterations and wake-ups -/
theorem progress_persists {s s' : State} {a b : Action} (hb : b.isSpin = true) (hs : step s b = some s')
    (ha : a.isSpin = false) (he : (step s a).isSome = true) : (step s' a).isSome = true := by
  cases b
  case waitBlocked => step_split hs; exact he
  case spinRetry => step_split hs; exact he
  case wake th =>
    step_split hs
    rename_i hsl
    exact persists_wake hsl a ha he
  all_goals cases hb

/-- Weak fairness of the scheduler: a thread that from some point on always has an enabled action which is
neither a busy-wait iteration nor a new API call eventually takes an action that is not a busy-wait iteration. -/
def WeaklyFair {n : Nat} (r : InfRun n) : Prop :=
  ∀ th i, (∀ j, i ≤ j → ∃ a : Action, a.thread = th ∧ a.isSpin = false ∧ a.isCall = false ∧ (step (r.st j) a).isSome = true) →
    ∃ j, i ≤ j ∧ (r.act j).thread = th ∧ (r.act j).isSpin = false

/-- fairness lift: inside `wait`, a weakly fair schedule keeps taking progress actions, because the action
`no_deadlock` provides stays enabled until a progress action is taken -/
theorem keeps_progressing_of_weakly_fair {n : Nat} (r : InfRun n) {q : Nat} (hin : ∀ i, InWait q (r.st i))
    (hf : WeaklyFair r) : KeepsProgressing r := by
  intro i
  apply Classical.byContradiction
  intro hno
  have hspin : ∀ j, i ≤ j → (r.act j).isSpin = true := by
    intro j hj
    cases h : (r.act j).isSpin
    · exact absurd ⟨j, hj, h⟩ hno
    · rfl
  have hmode : (r.st i).mode ≠ .destroyed := by
    rcases hin i with h | h <;> rw [h] <;> simp
  rcases no_deadlock_inv (reachable_inv (r.reach i)) hmode with hapi | ⟨a0, ha1, ha2, ha3⟩
  · rcases hin i with h | h <;> rw [h] at hapi <;> cases hapi
  · have hpers : ∀ d, (step (r.st (i + d)) a0).isSome = true := by
      intro d
      induction d with
      | zero => exact ha3
      | succ d ih => exact progress_persists (hspin (i + d) (by omega)) (r.steps (i + d)) ha1 ih
    obtain ⟨j, hj, _, hns⟩ := hf a0.thread i (fun j hj => ⟨a0, rfl, ha1, ha2, by
      have := hpers (j - i)
      have e : i + (j - i) = j := by omega
      rw [e] at this
      exact this⟩)
    rw [hspin j hj] at hns
    cases hns

/-- `wait` returns under a weakly fair scheduler with finitely many spurious wake-ups -/
theorem wait_returns_weakly_fair {n : Nat} (r : InfRun n) {q : Nat} (h0 : InWait q (r.st 0))
    (hf : WeaklyFair r) (hA2 : FinitelyManyWakes r) : ∃ i, (r.st i).mode = .api :=
  wait_returns_of_fair' r h0 (fun hin => keeps_progressing_of_weakly_fair r hin hf) hA2

/-- a dispatcher without workers whose caller is between calls has no action left except new API calls -/
theorem no_progress_without_workers (s : State) (hp : s.pcs = [Pc.idle]) (hm : s.mode = .api) (a : Action)
    (h1 : a.isSpin = false) (h2 : a.isCall = false) : step s a = none := by
  have pc0 : s.pcs[0]? = some Pc.idle := by rw [hp]; rfl
  have pcn : ∀ th, th ≠ 0 → s.pcs[th]? = none := by
    intro th hth
    rw [hp]
    cases th with
    | zero => exact absurd rfl hth
    | succ k => rfl
  cases a <;> simp only [Action.isSpin, Action.isCall] at h1 h2 <;> try (cases h1) <;> try (cases h2)
  all_goals simp only [step, hm]
  case wScan th =>
    by_cases h : th = 0
    · simp [h]
    · simp [h, pcn th h]
  case taskEnd th =>
    by_cases h : th = 0
    · subst h; simp [pc0]
    · simp [pcn th h]
  case relock th =>
    by_cases h : th = 0
    · subst h; simp [pc0]
    · simp [pcn th h]
  all_goals simp


end Mustache.Dispatcher

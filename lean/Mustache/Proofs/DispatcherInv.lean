import Mustache.Proofs.DispatcherBasic

/-! The inductive invariant of the dispatcher model and its preservation by every action. -/
namespace Mustache.Dispatcher

/-- thread `th` keeps serial queue `q` busy -/
def Holds (s : State) (th q : Nat) : Prop :=
  (∃ t, s.pcs[th]? = some (Pc.running t q)) ∨ s.pcs[th]? = some (Pc.relock q)

def Mode.isWait : Mode → Bool
  | .waitLoop _ => true
  | .spin _ => true
  | _ => false

def Mode.isShutdown : Mode → Bool
  | .sdFlag => true
  | .sdCleared => true
  | .joining => true
  | .destroyed => true
  | _ => false

/-- task accounting -/
structure InvA (s : State) : Prop where
  len : s.pcs.length = s.n + 1
  jobs_lt : ∀ q t : Nat, t ∈ s.jobs q → t < s.nextId
  jobs_tq : ∀ q t : Nat, t ∈ s.jobs q → s.tq t = q
  jobs_q : ∀ q t : Nat, t ∈ s.jobs q → q ≤ s.nq
  jobs_sorted : ∀ q : Nat, (s.jobs q).Pairwise (· < ·)
  started_lt : ∀ t : Nat, t ∈ s.started → t < s.nextId
  pending_fresh : ∀ q t : Nat, t ∈ s.jobs q → t ∉ s.started
  started_nodup : s.started.Nodup
  done_sub : ∀ t : Nat, t ∈ s.done → t ∈ s.started
  done_nodup : s.done.Nodup
  run_started : ∀ th t q : Nat, s.pcs[th]? = some (Pc.running t q) →
    t ∈ s.started ∧ t ∉ s.done ∧ s.tq t = q ∧ q ≤ s.nq
  run_runner : ∀ th t q : Nat, s.pcs[th]? = some (Pc.running t q) → s.runner t = th
  started_cases : ∀ t : Nat, t ∈ s.started → t ∈ s.done ∨ s.pcs[s.runner t]? = some (Pc.running t (s.tq t))
  dropped_ok : ∀ t : Nat, t ∈ s.dropped → t < s.nextId ∧ t ∉ s.started ∧ s.tq t = 0 ∧ ∀ q : Nat, t ∉ s.jobs q
  dropped_nodup : s.dropped.Nodup
  dropped_term : s.terminate = false → s.dropped = []
  cover : ∀ t : Nat, t < s.nextId → (∃ q : Nat, t ∈ s.jobs q) ∨ t ∈ s.started ∨ t ∈ s.dropped

/-- control state of the external thread, shutdown flag -/
structure InvB (s : State) : Prop where
  ext_idle : s.mode = .api ∨ (∃ q, s.mode = .spin q) ∨ s.mode.isShutdown = true → s.pcs[0]? = some Pc.idle
  ext_inline : s.mode = .inline → (∃ t, s.pcs[0]? = some (Pc.running t 0)) ∨ s.pcs[0]? = some (Pc.relock 0)
  ext_wait : ∀ q : Nat, s.mode = .waitLoop q →
    s.pcs[0]? = some Pc.idle ∨ (∃ t, s.pcs[0]? = some (Pc.running t q)) ∨ s.pcs[0]? = some (Pc.relock q)
  wait_q : ∀ q : Nat, s.mode = .waitLoop q ∨ s.mode = .spin q → q ≤ s.nq ∧ s.waitSnap = s.nextId
  term_iff : s.terminate = true ↔ s.mode.isShutdown = true
  spin_empty : ∀ q : Nat, s.mode = .spin q → s.jobs q = []
  join_awake : s.mode = .joining ∨ s.mode = .destroyed → ∀ th : Nat, s.pcs[th]? ≠ some Pc.sleeping
  destroyed_exited : s.mode = .destroyed → ∀ th p, 1 ≤ th → s.pcs[th]? = some p → p = Pc.exited
  exited_term : ∀ th : Nat, s.pcs[th]? = some Pc.exited → s.terminate = true

/-- serial-queue busy flags, idle count -/
structure InvC (s : State) : Prop where
  par_unlocked : s.locked 0 = false
  locked_owner : ∀ q : Nat, q ≠ 0 → s.locked q = true →
    s.pcs[s.owner q]? = some (Pc.relock q) ∨ s.pcs[s.owner q]? = some (Pc.running (s.cur q) q)
  hold_run : ∀ q th t : Nat, q ≠ 0 → s.pcs[th]? = some (Pc.running t q) → s.locked q = true ∧ s.owner q = th
  hold_relock : ∀ q th : Nat, q ≠ 0 → s.pcs[th]? = some (Pc.relock q) → s.locked q = true ∧ s.owner q = th
  tw_count : s.tw = s.pcs.countP isWaiting

structure Inv (s : State) : Prop where
  a : InvA s
  b : InvB s
  c : InvC s

theorem inv_init (n : Nat) : Inv (init n) := by
  refine ⟨⟨?_, ?_, ?_, ?_, ?_, ?_, ?_, ?_, ?_, ?_, ?_, ?_, ?_, ?_, ?_, ?_, ?_⟩, ⟨?_, ?_, ?_, ?_, ?_, ?_, ?_, ?_, ?_⟩, ⟨?_, ?_, ?_, ?_, ?_⟩⟩
  all_goals simp [init, Mode.isShutdown, List.getElem?_replicate, List.countP_replicate, isWaiting]


/-- split `step s a = some s'` into one goal per enabled branch, with `s'` substituted -/
macro "step_split" hs:ident : tactic => `(tactic| (
  simp only [step] at $hs:ident
  repeat' (split at $hs:ident)
  all_goals (first | (cases $hs:ident; done) | skip)
  all_goals (cases $hs:ident)))

/-- unfold the state transformers in the goal -/
macro "unfold_upd" : tactic => `(tactic|
  (try simp only [doPop, upd_apply, lockQ, unlockQ, wakeAll_running, wakeAll_length, wakeAll_idle, wakeAll_relock,
    wakeAll_exited, wakeAll_countP]))

/-- the worker's critical section when entered from `woken`: first the `--threads_waiting` part -/
def reacquire (s : State) (th : Nat) : State := { s with tw := s.tw - 1, pcs := s.pcs.set th Pc.idle }

theorem findQueue_congr {s1 s2 : State} (hj : s1.jobs = s2.jobs) (hl : s1.locked = s2.locked)
    (hp : s1.prio = s2.prio) (hn : s1.nq = s2.nq) : findQueue s1 = findQueue s2 := by
  have hstep : pickStep s1 = pickStep s2 := by
    funext acc q
    simp [pickStep, better, hp]
  have hok : isOk s1 = isOk s2 := by
    funext q
    simp [isOk, hj, hl]
  simp only [findQueue, pickMin, serialIds, hstep, hok, hn]

theorem scanBody_reacquire (s : State) (th : Nat) :
    scanBody { s with tw := s.tw - 1 } th = scanBody (reacquire s th) th := by
  have hf : findQueue { s with tw := s.tw - 1 } = findQueue (reacquire s th) :=
    findQueue_congr rfl rfl rfl rfl
  unfold scanBody
  rw [hf]
  simp only [reacquire, List.set_set]
  split
  · rfl
  · split
    · rfl
    · split <;> simp [doPop, List.set_set] <;> rfl

end Mustache.Dispatcher

import Mustache.Proofs.DispatcherReach

/-! Deadlock freedom of the dispatcher model. -/
namespace Mustache.Dispatcher

/-- actions that start a new API call of the external thread -/
def Action.isCall : Action → Bool
  | .createQueue _ => true
  | .setSingle _ => true
  | .submit _ => true
  | .submitInline => true
  | .waitBegin _ => true
  | .sdFlag => true
  | _ => false

/-- a progress action: neither a busy-wait iteration / spurious wake-up nor a new API call -/
def Progress (s : State) : Prop := ∃ a : Action, a.isSpin = false ∧ a.isCall = false ∧ (step s a).isSome = true

theorem progress_taskEnd {s : State} {th t q : Nat} (h : s.pcs[th]? = some (Pc.running t q)) : Progress s :=
  ⟨.taskEnd th, rfl, rfl, by simp [step, h]⟩

theorem progress_relock {s : State} {th q : Nat} (h : s.pcs[th]? = some (Pc.relock q)) : Progress s :=
  ⟨.relock th, rfl, rfl, by simp [step, h]⟩

theorem progress_scan_idle {s : State} {th : Nat} (hth : th ≠ 0) (h : s.pcs[th]? = some Pc.idle) : Progress s :=
  ⟨.wScan th, rfl, rfl, by simp [step, h, hth]⟩

theorem progress_scan_woken {s : State} {th : Nat} (hth : th ≠ 0) (h : s.pcs[th]? = some Pc.woken) : Progress s :=
  ⟨.wScan th, rfl, rfl, by simp [step, h, hth]⟩

/-- a thread that keeps a queue busy can move -/
theorem progress_of_locked {s : State} (hi : Inv s) {q : Nat} (hq : q ≠ 0) (hl : s.locked q = true) : Progress s := by
  rcases hi.c.locked_owner q hq hl with h | h
  · exact progress_relock h
  · exact progress_taskEnd h

theorem no_deadlock_inv {s : State} (hi : Inv s) (hm : s.mode ≠ .destroyed) : s.mode = .api ∨ Progress s := by
  obtain ⟨hA, hB, hC⟩ := hi
  have hi : Inv s := ⟨hA, hB, hC⟩
  cases hmode : s.mode with
  | api => exact Or.inl rfl
  | destroyed => exact absurd hmode hm
  | inline =>
    right
    rcases hB.ext_inline hmode with ⟨t, h⟩ | h
    · exact progress_taskEnd h
    · exact progress_relock h
  | waitLoop q =>
    right
    have hterm : s.terminate = false := by
      cases ht : s.terminate
      · rfl
      · have := hB.term_iff.mp ht; rw [hmode] at this; simp [Mode.isShutdown] at this
    rcases hB.ext_wait q hmode with h | ⟨t, h⟩ | h
    · cases hj : s.jobs q with
      | nil => exact ⟨.waitEmpty, rfl, rfl, by simp [step, hmode, h, hj]⟩
      | cons t r =>
        cases hl : s.locked q
        · exact ⟨.waitPop, rfl, rfl, by simp [step, hmode, h, hterm, hl, hj]⟩
        · have hq : q ≠ 0 := by intro e; rw [e, hC.par_unlocked] at hl; cases hl
          exact progress_of_locked hi hq hl
    · exact progress_taskEnd h
    · exact progress_relock h
  | spin q =>
    right
    have hterm : s.terminate = false := by
      cases ht : s.terminate
      · rfl
      · have := hB.term_iff.mp ht; rw [hmode] at this; simp [Mode.isShutdown] at this
    have hext : s.pcs[0]? = some Pc.idle := hB.ext_idle (Or.inr (Or.inl ⟨q, hmode⟩))
    by_cases hq : q = 0
    · subst hq
      by_cases htw : s.tw = s.n
      · exact ⟨.spinExit, rfl, rfl, by simp [step, hmode, htw]⟩
      · have hc : s.pcs.countP isWaiting ≠ s.n := by rw [← hC.tw_count]; exact htw
        obtain ⟨th, p, h1, _, hp, hw⟩ := exists_not_waiting_of_count hA.len
          (by intro p hp; rw [hext] at hp; cases hp; rfl) hc
        cases p with
        | idle => exact progress_scan_idle (by omega) hp
        | sleeping => simp [isWaiting] at hw
        | woken => simp [isWaiting] at hw
        | running t q' => exact progress_taskEnd hp
        | relock q' => exact progress_relock hp
        | exited => have := hB.exited_term th hp; rw [hterm] at this; cases this
    · cases hl : s.locked q
      · exact ⟨.spinExit, rfl, rfl, by simp [step, hmode, hq, hl]⟩
      · exact progress_of_locked hi hq hl
  | sdFlag => exact Or.inr ⟨.sdClear, rfl, rfl, by simp [step, hmode]⟩
  | sdCleared => exact Or.inr ⟨.sdNotify, rfl, rfl, by simp [step, hmode]⟩
  | joining =>
    right
    by_cases hall : allExited s = true
    · exact ⟨.sdJoin, rfl, rfl, by simp [step, hmode, hall]⟩
    · have : ∃ th p, 1 ≤ th ∧ s.pcs[th]? = some p ∧ p ≠ Pc.exited := by
        apply Classical.byContradiction
        intro hno
        apply hall
        rw [allExited_iff]
        intro th p h1 hp
        apply Classical.byContradiction
        intro hne
        exact hno ⟨th, p, h1, hp, hne⟩
      obtain ⟨th, p, h1, hp, hne⟩ := this
      cases p with
      | idle => exact progress_scan_idle (by omega) hp
      | sleeping => exact absurd hp (hB.join_awake (Or.inl hmode) th)
      | woken => exact progress_scan_woken (by omega) hp
      | running t q' => exact progress_taskEnd hp
      | relock q' => exact progress_relock hp
      | exited => exact absurd rfl hne

end Mustache.Dispatcher

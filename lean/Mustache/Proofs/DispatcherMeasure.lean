import Mustache.Proofs.DispatcherLive

/-! A progress progressMeasure that strictly decreases on every non-spin action while the external thread
is inside `wait` / inline run / join. -/
namespace Mustache.Dispatcher

def pcW : Pc → Nat
  | .idle => 1
  | .sleeping => 0
  | .woken => 1
  | .running _ _ => 3
  | .relock _ => 2
  | .exited => 0

def modeW : Mode → Nat
  | .api => 0
  | .inline => 0
  | .waitLoop _ => 2
  | .spin _ => 1
  | .sdFlag => 0
  | .sdCleared => 0
  | .joining => 1
  | .destroyed => 0

def pendingCount (s : State) : Nat := ((List.range (s.nq + 1)).map (fun q => (s.jobs q).length)).sum

/-- 4 per pending task, 3 per running task, 2 per finished-but-not-yet-relocked, 1 per awake idle thread,
plus the phase of the external thread -/
def progressMeasure (s : State) : Nat := 4 * pendingCount s + (s.pcs.map pcW).sum + modeW s.mode

/-- the external thread is blocked inside a library call -/
def Mode.isBlocked : Mode → Bool
  | .inline => true
  | .waitLoop _ => true
  | .spin _ => true
  | .joining => true
  | _ => false

theorem sum_map_set_of (w : Pc → Nat) (l : List Pc) (i : Nat) (x y : Pc) (h : l[i]? = some y) :
    ((l.set i x).map w).sum + w y = (l.map w).sum + w x := by
  induction l generalizing i with
  | nil => simp at h
  | cons a r ih =>
    cases i with
    | zero =>
      simp at h; subst h
      simp only [List.set_cons_zero, List.map_cons, List.sum_cons]
      omega
    | succ i =>
      simp at h
      have := ih i h
      simp only [List.set_cons_succ, List.map_cons, List.sum_cons]
      omega

theorem sum_range_upd (f g : Nat → Nat) (q m : Nat) (hq : q < m) (hfg : ∀ i, i ≠ q → g i = f i) :
    ((List.range m).map g).sum + f q = ((List.range m).map f).sum + g q := by
  induction m with
  | zero => omega
  | succ m ih =>
    rw [List.range_succ, List.map_append, List.map_append, List.sum_append, List.sum_append]
    simp only [List.map_cons, List.map_nil, List.sum_cons, List.sum_nil, Nat.add_zero]
    by_cases hqm : q = m
    · subst hqm
      have : (List.range q).map g = (List.range q).map f := by
        apply List.map_congr_left
        intro i hi
        simp at hi
        exact hfg i (by omega)
      rw [this]; omega
    · have := ih (by omega)
      have hm := hfg m (fun e => hqm e.symm)
      omega

theorem pendingCount_upd (s : State) (q : Nat) (r : List Nat) (hq : q ≤ s.nq) (jobs' : Nat → List Nat)
    (hj : jobs' = upd s.jobs q r) :
    ((List.range (s.nq + 1)).map (fun q => (jobs' q).length)).sum + (s.jobs q).length = pendingCount s + r.length := by
  subst hj
  have := sum_range_upd (fun q => (s.jobs q).length) (fun i => (upd s.jobs q r i).length) q (s.nq + 1) (by omega)
    (by intro i hi; simp [upd, hi])
  simpa [pendingCount] using this

theorem measure_doPop {s : State} {th q t : Nat} {r : List Nat} {p : Pc} (hj : s.jobs q = t :: r) (hq : q ≤ s.nq)
    (hp : s.pcs[th]? = some p) : progressMeasure (doPop s th q t r) + 4 + pcW p = progressMeasure s + 3 := by
  have h1 := sum_map_set_of pcW s.pcs th (Pc.running t q) p hp
  have h2 := pendingCount_upd s q r hq _ rfl
  rw [hj] at h2
  simp only [List.length_cons] at h2
  have e : pcW (Pc.running t q) = 3 := rfl
  simp only [progressMeasure, doPop, pendingCount] at h1 h2 ⊢
  omega

theorem measure_scanBody {s : State} {th : Nat} {p : Pc} (hp : s.pcs[th]? = some p) (hw : pcW p = 1) :
    progressMeasure (scanBody s th) < progressMeasure s := by
  rcases scanBody_cases s th with ⟨_, he⟩ | ⟨_, _, he⟩ | ⟨_, q, t, r, _, hj, _, hq, he⟩
  · rw [he]
    have h1 := sum_map_set_of pcW s.pcs th Pc.exited p hp
    have e : pcW Pc.exited = 0 := rfl
    simp only [progressMeasure, pendingCount] at h1 ⊢
    omega
  · rw [he]
    have h1 := sum_map_set_of pcW s.pcs th Pc.sleeping p hp
    have e : pcW Pc.sleeping = 0 := rfl
    simp only [progressMeasure, pendingCount] at h1 ⊢
    omega
  · rw [he]
    have := measure_doPop (th := th) hj hq hp
    omega

theorem measure_tw (s : State) (x : Nat) : progressMeasure { s with tw := x } = progressMeasure s := rfl

/-- every non-spin action taken while the external thread is blocked strictly decreases the progressMeasure -/
theorem bounded_progress_inv {s s' : State} {a : Action} (hi : Inv s) (hb : s.mode.isBlocked = true)
    (hsp : a.isSpin = false) (hs : step s a = some s') : progressMeasure s' < progressMeasure s := by
  cases a
  case wScan th =>
    simp only [step] at hs
    split at hs
    · cases hs
    · split at hs
      · cases hs
        exact measure_scanBody (by assumption) rfl
      · cases hs
        have hw : s.pcs[th]? = some Pc.woken := by assumption
        have := measure_scanBody (s := { s with tw := s.tw - 1 }) (th := th) hw rfl
        rw [measure_tw] at this
        exact this
      · cases hs
  case waitPop =>
    step_split hs
    rename_i hm hg _ t r hj
    have hq := (hi.b.wait_q _ (Or.inl hm)).1
    have := measure_doPop (th := 0) hj hq hg.1
    simp only [pcW] at this
    omega
  case taskEnd th =>
    step_split hs
    rename_i t q hp
    have h1 := sum_map_set_of pcW s.pcs th (Pc.relock q) _ hp
    simp only [progressMeasure, pendingCount, pcW] at h1 ⊢
    omega
  case relock th =>
    step_split hs
    all_goals (
      rename_i q hp _
      have h1 := sum_map_set_of pcW s.pcs th Pc.idle _ hp
      simp only [progressMeasure, pendingCount, pcW] at h1 ⊢)
    · simp only [modeW]; omega
    · omega
  case waitBlocked => cases hsp
  case spinRetry => cases hsp
  case wake th => cases hsp
  case waitEmpty =>
    step_split hs
    rename_i q hm _
    simp only [progressMeasure, pendingCount, hm, modeW]; omega
  case spinExit =>
    step_split hs
    rename_i q hm _
    simp only [progressMeasure, pendingCount, hm, modeW]; omega
  case sdJoin =>
    step_split hs
    rename_i hg
    simp only [progressMeasure, pendingCount, hg.1, modeW]; omega
  all_goals step_split hs
  all_goals (rename_i hg; (try obtain ⟨hg, _⟩ := hg); rw [hg] at hb; cases hb)

end Mustache.Dispatcher

import Mustache.Proofs.DispatcherReach

/-! Start order of serial-queue jobs (FIFO). -/
namespace Mustache.Dispatcher

/-- start-order relation: two jobs of the same serial queue are started in submission (= id) order -/
def OrdRel (tq : Nat → Nat) (a b : Nat) : Prop := tq a = tq b → tq a ≠ 0 → a < b

structure InvD (s : State) : Prop where
  pending_after : ∀ q t t' : Nat, q ≠ 0 → t ∈ s.jobs q → t' ∈ s.started → s.tq t' = q → t' < t
  start_order : s.started.Pairwise (OrdRel s.tq)

theorem invD_init (n : Nat) : InvD (init n) := by
  constructor <;> simp [init]

theorem ordrel_congr {tq tq' : Nat → Nat} {l : List Nat} (h : l.Pairwise (OrdRel tq))
    (heq : ∀ x ∈ l, tq' x = tq x) : l.Pairwise (OrdRel tq') := by
  refine List.Pairwise.imp_of_mem ?_ h
  intro a b ha hb hab
  unfold OrdRel at hab ⊢
  rw [heq a ha, heq b hb]
  exact hab

set_option maxHeartbeats 1000000 in
theorem invD_doPop {s : State} (h : Inv s) (hd : InvD s) {th q t : Nat} {r : List Nat} (hj : s.jobs q = t :: r) :
    InvD (doPop s th q t r) := by
  obtain ⟨hr1, hr2, hr3, hr4⟩ := pop_facts h.a hj
  have htq : s.tq t = q := h.a.jobs_tq q t hr3
  obtain ⟨d1, d2⟩ := hd
  constructor
  · simp only [doPop, upd_apply]
    intro q' x x' hq' hx hx' htq'
    rw [List.mem_append] at hx'
    by_cases hqq : q' = q
    · subst hqq
      simp only [if_true] at hx
      rcases hx' with hx' | hx'
      · exact d1 q' x x' hq' (hr4 x hx) hx' htq'
      · simp at hx'; subst hx'; exact hr1 x hx
    · simp only [hqq, if_false] at hx
      rcases hx' with hx' | hx'
      · exact d1 q' x x' hq' hx hx' htq'
      · simp at hx'; subst hx'; exact absurd (htq.symm.trans htq') (fun e => hqq e.symm)
  · simp only [doPop]
    rw [List.pairwise_append]
    refine ⟨d2, by simp, ?_⟩
    intro a ha b hb
    simp at hb; subst hb
    intro hab hne
    have hq0 : q ≠ 0 := by rw [← htq, ← hab]; exact hne
    exact d1 q b a hq0 hr3 ha (hab.trans htq)

theorem invD_scanBody {s : State} (h : Inv s) (hd : InvD s) {th : Nat} : InvD (scanBody s th) := by
  rcases scanBody_cases s th with ⟨_, he⟩ | ⟨_, _, he⟩ | ⟨_, q, t, r, _, hj, _, _, he⟩
  · rw [he]; exact ⟨hd.1, hd.2⟩
  · rw [he]; exact ⟨hd.1, hd.2⟩
  · rw [he]; exact invD_doPop h hd hj

set_option maxHeartbeats 1000000 in
theorem invD_step {s s' : State} {a : Action} (h : Inv s) (hd : InvD s) (hs : step s a = some s') : InvD s' := by
  cases a
  case wScan th =>
    simp only [step] at hs
    split at hs
    · cases hs
    · split at hs
      · cases hs; exact invD_scanBody h hd
      · cases hs
        rw [scanBody_reacquire]
        have hw : s.pcs[th]? = some Pc.woken := by assumption
        exact invD_scanBody (inv_reacquire h hw) ⟨hd.1, hd.2⟩
      · cases hs
  case waitPop =>
    step_split hs
    rename_i hm hg _ t r hj
    exact invD_doPop h hd hj
  case submit q =>
    step_split hs
    obtain ⟨d1, d2⟩ := hd
    have hlt := h.a.started_lt
    constructor
    · simp only [upd_apply]
      intro q' x x' hq' hx hx' htq'
      have hx'lt := hlt x' hx'
      have hne : x' ≠ s.nextId := by omega
      simp only [hne, if_false] at htq'
      by_cases hqq : q' = q
      · subst hqq
        simp only [if_true, List.mem_append, List.mem_singleton] at hx
        rcases hx with hx | hx
        · exact d1 q' x x' hq' hx hx' htq'
        · omega
      · simp only [hqq, if_false] at hx
        exact d1 q' x x' hq' hx hx' htq'
    · refine ordrel_congr d2 ?_
      intro x hx
      have := hlt x hx
      simp only [upd_apply]
      have hne : x ≠ s.nextId := by omega
      simp [hne]
  case submitInline =>
    step_split hs
    obtain ⟨d1, d2⟩ := hd
    have hlt := h.a.started_lt
    have hcongr : s.started.Pairwise (OrdRel (upd s.tq s.nextId 0)) := by
      refine ordrel_congr d2 ?_
      intro x hx
      have := hlt x hx
      have hne : x ≠ s.nextId := by omega
      simp [upd, hne]
    constructor
    · simp only [upd_apply]
      intro q' x x' hq' hx hx' htq'
      rw [List.mem_append] at hx'
      rcases hx' with hx' | hx'
      · have hx'lt := hlt x' hx'
        have hne : x' ≠ s.nextId := by omega
        simp only [hne, if_false] at htq'
        exact d1 q' x x' hq' hx hx' htq'
      · simp at hx'; subst hx'; simp at htq'; exact absurd htq'.symm hq'
    · show (s.started ++ [s.nextId]).Pairwise (OrdRel (upd s.tq s.nextId 0))
      rw [List.pairwise_append]
      refine ⟨hcongr, by simp, ?_⟩
      intro a ha b hb
      simp at hb; subst hb
      intro hab hne
      exfalso
      apply hne
      rw [hab]; simp
  all_goals (
    obtain ⟨d1, d2⟩ := hd
    step_split hs)
  all_goals constructor
  all_goals unfold_upd
  all_goals first | assumption | grind

theorem reachable_invD {n : Nat} {s : State} (h : Reachable n s) : InvD s := by
  induction h with
  | init => exact invD_init n
  | step a hr hs ih => exact invD_step (reachable_inv hr) ih hs

end Mustache.Dispatcher

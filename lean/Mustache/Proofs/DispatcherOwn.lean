import Mustache.Model.DispatcherAccess
import Mustache.Proofs.DispatcherReach

/-! Lock discipline: consistency of the access table, ownership of plainly accessed data. -/
namespace Mustache.Dispatcher

theorem discipline_consistent (s : State) (a : Action) :
    ∀ x, x ∈ accesses s a → x.prot = discipline x.var := by
  intro x hx
  cases a <;> simp only [accesses] at hx
  case wScan th =>
    simp only [allQueues, List.mem_append, List.mem_cons, List.mem_map, List.not_mem_nil, or_false] at hx
    rcases hx with (rfl | rfl) | ⟨q, _, rfl⟩ <;> rfl
  case taskEnd th =>
    split at hx
    · simp only [bodyAccesses, List.mem_cons, List.not_mem_nil, or_false] at hx
      rcases hx with rfl | rfl | rfl | rfl | rfl <;> rfl
    · simp at hx
  case relock th =>
    split at hx
    · simp at hx; subst hx; rfl
    · simp at hx
  case spinRetry =>
    split at hx <;> (simp at hx; subst hx; rfl)
  case spinExit =>
    split at hx <;> (simp at hx; subst hx; rfl)
  all_goals (simp at hx)
  all_goals (first | (subst hx; rfl) | (rcases hx with rfl | rfl <;> rfl) | (rcases hx with rfl | rfl | rfl <;> rfl))

/-- `synced` only ever contains finished tasks -/
def InvE (s : State) : Prop := ∀ t, t ∈ s.synced → t ∈ s.done

theorem invE_init (n : Nat) : InvE (init n) := by intro t ht; simp [init] at ht

theorem invE_step {s s' : State} {a : Action} (he : InvE s) (hs : step s a = some s') : InvE s' := by
  cases a
  case wScan th =>
    simp only [step] at hs
    split at hs
    · cases hs
    · split at hs
      · cases hs
        rcases scanBody_cases s th with ⟨_, h⟩ | ⟨_, _, h⟩ | ⟨_, q, t, r, _, _, _, _, h⟩ <;> rw [h] <;> exact he
      · cases hs
        rcases scanBody_cases { s with tw := s.tw - 1 } th with ⟨_, h⟩ | ⟨_, _, h⟩ | ⟨_, q, t, r, _, _, _, _, h⟩ <;>
          rw [h] <;> exact he
      · cases hs
  case spinExit =>
    step_split hs
    intro t ht
    simp only [syncedAfter] at ht
    split at ht
    · exact ht
    · exact he t ht
  case taskEnd th =>
    step_split hs
    intro t ht
    simp only [List.mem_append]
    exact Or.inl (he t ht)
  all_goals (step_split hs)
  all_goals exact he

theorem reachable_invE {n : Nat} {s : State} (h : Reachable n s) : InvE s := by
  induction h with
  | init => exact invE_init n
  | step a _ hs ih => exact invE_step ih hs

theorem owner_unique_task {s : State} (hi : Inv s) {a b t : Nat} (ha : OwnsTask s a t) (hb : OwnsTask s b t) : a = b := by
  have hA := hi.a
  rcases ha with ⟨h1, rfl⟩ | ⟨q, h1⟩ | ⟨rfl, h1, _⟩ <;> rcases hb with ⟨h2, rfl⟩ | ⟨q', h2⟩ | ⟨rfl, h2, _⟩
  · rfl
  · have := hA.started_lt t (hA.run_started b t q' h2).1; omega
  · rfl
  · have := hA.started_lt t (hA.run_started a t q h1).1; omega
  · rw [← hA.run_runner a t q h1, ← hA.run_runner b t q' h2]
  · exact absurd h2 (hA.run_started a t q h1).2.1
  · rfl
  · exact absurd h1 (hA.run_started b t q' h2).2.1
  · rfl

theorem not_quiet_of_running {s : State} (hi : Inv s) {th t q : Nat} (h : s.pcs[th]? = some (Pc.running t q)) :
    ¬ExtQuiet s := by
  intro hq
  have hr := hi.a.run_started th t q h
  rcases hq.2 t (hi.a.started_lt t hr.1) with hd | hd
  · exact hr.2.1 hd
  · exact (hi.a.dropped_ok t hd).2.1 hr.1

theorem owner_unique_temp {s : State} (hi : Inv s) {a b th : Nat} (ha : OwnsTemp s a th) (hb : OwnsTemp s b th) :
    a = b := by
  rcases ha with ⟨rfl, t, q, h1⟩ | ⟨rfl, rfl⟩ | ⟨rfl, hq, _⟩ <;> rcases hb with ⟨rfl, t', q', h2⟩ | ⟨rfl, h2⟩ | ⟨rfl, hq', _⟩
  · rfl
  · exact h2
  · exact absurd hq' (not_quiet_of_running hi h1)
  · rfl
  · rfl
  · rfl
  · exact absurd hq (not_quiet_of_running hi h2)
  · rfl
  · rfl

end Mustache.Dispatcher

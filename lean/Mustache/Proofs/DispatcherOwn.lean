import Mustache.Model.DispatcherAccess
import Mustache.Proofs.DispatcherReach

/-! Lock discipline: consistency of the access table, ownership of plainly accessed data. -/
namespace Mustache.Dispatcher

theorem discipline_consistent (s : State) (a : Action) :
    ∀ x, x ∈ accesses s a → x.prot = discipline x.var := by
  intro x hx
  cases a <;> simp only [accesses] at hx
  case wScan th =>
    simp only [allQueues, List.mem_append, List.mem_cons, List.mem_map, List.not_mem_nil, or_false] at hx
    rcases hx with (rfl | rfl) | ⟨q, _, rfl⟩ <;> rfl
  case taskEnd th =>
    split at hx
    · simp only [bodyAccesses, List.mem_cons, List.not_mem_nil, or_false] at hx
      rcases hx with rfl | rfl | rfl | rfl | rfl <;> rfl
    · simp at hx
  case relock th =>
    split at hx
    · simp at hx; subst hx; rfl
    · simp at hx
  case spinRetry =>
    split at hx <;> (simp at hx; subst hx; rfl)
  case spinExit =>
    split at hx <;> (simp at hx; subst hx; rfl)
  all_goals (simp at hx)
  all_goals (first | (subst hx; rfl) | (rcases hx with rfl | rfl <;> rfl) | (rcases hx with rfl | rfl | rfl <;> rfl))

/-- `synced` only ever contains finished tasks -/
def InvE (s : State) : Prop := ∀ t, t ∈ s.synced → t ∈ s.done

theorem invE_init (n : Nat) : InvE (init n) := by intro t ht; simp [init] at ht

theorem invE_step {s s' : State} {a : Action} (he : InvE s) (hs : step s a = some s') : InvE s' := by
  cases a
  case wScan th =>
    simp only [step] at hs
    split at hs
    · cases hs
    · split at hs
      · cases hs
        rcases scanBody_cases s th with ⟨_, h⟩ | ⟨_, _, h⟩ | ⟨_, q, t, r, _, _, _, _, h⟩ <;> rw [h] <;> exact he
      · cases hs
        rcases scanBody_cases { s with tw := s.tw - 1 } th with ⟨_, h⟩ | ⟨_, _, h⟩ | ⟨_, q, t, r, _, _, _, _, h⟩ <;>
          rw [h] <;> exact he
      · cases hs
  case spinExit =>
    step_split hs
    intro t ht
    simp only [syncedAfter] at ht
    split at ht
    · exact ht
    · exact he t ht
  case taskEnd th =>
    step_split hs
    intro t ht
    simp only [List.mem_append]
    exact Or.inl (he t ht)
  all_goals (step_split hs)
  all_goals exact he

theorem reachable_invE {n : Nat} {s : State} (h : Reachable n s) : InvE s := by
  induction h with
  | init => exact invE_init n
  | step a _ hs ih => exact invE_step ih hs

theorem owner_unique_task {s : State} (hi : Inv s) {a b t : Nat} (ha : OwnsTask s a t) (hb : OwnsTask s b t) : a = b := by
  have hA := hi.a
  rcases ha with ⟨h1, rfl⟩ | ⟨q, h1⟩ | ⟨rfl, h1, _⟩ <;> rcases hb with ⟨h2, rfl⟩ | ⟨q', h2⟩ | ⟨rfl, h2, _⟩
  · rfl
  · have := hA.started_lt t (hA.run_started b t q' h2).1; omega
  · rfl
  · have := hA.started_lt t (hA.run_started a t q h1).1; omega
  · rw [← hA.run_runner a t q h1, ← hA.run_runner b t q' h2]
  · exact absurd h2 (hA.run_started a t q h1).2.1
  · rfl
  · exact absurd h1 (hA.run_started b t q' h2).2.1
  · rfl

theorem not_quiet_of_running {s : State} (hi : Inv s) {th t q : Nat} (h : s.pcs[th]? = some (Pc.running t q)) :
    ¬ExtQuiet s := by
  intro hq
  have hr := hi.a.run_started th t q h
  rcases hq.2 t (hi.a.started_lt t hr.1) with hd | hd
  · exact hr.2.1 hd
  · exact (hi.a.dropped_ok t hd).2.1 hr.1

theorem owner_unique_temp {s : State} (hi : Inv s) {a b th : Nat} (ha : OwnsTemp s a th) (hb : OwnsTemp s b th) :
    a = b := by
  rcases ha with ⟨rfl, t, q, h1⟩ | ⟨rfl, rfl⟩ | ⟨rfl, hq, _⟩ <;> rcases hb with ⟨rfl, t', q', h2⟩ | ⟨rfl, h2⟩ | ⟨rfl, hq', _⟩
  · rfl
  · exact h2
  · exact absurd hq' (not_quiet_of_running hi h1)
  · rfl
  · rfl
  · rfl
  · exact absurd hq (not_quiet_of_running hi h2)
  · rfl
  · rfl

theorem nobody_owns_pending {s : State} (hA : InvA s) {q t : Nat} (hp : t ∈ s.jobs q) : ∀ x, ¬OwnsTask s x t := by
  intro x hx
  rcases hx with ⟨h1, _⟩ | ⟨q', h1⟩ | ⟨_, h1, _⟩
  · have := hA.jobs_lt q t hp; omega
  · exact hA.pending_fresh q t hp (hA.run_started x t q' h1).1
  · exact hA.pending_fresh q t hp (hA.done_sub t h1)

/-- ownership of a task after `doPop`: the popper acquires the popped task, everything else is unchanged -/
theorem ownsTask_doPop {s : State} (hA : InvA s) {th q t : Nat} {r : List Nat} (hj : s.jobs q = t :: r)
    (hlt : th < s.pcs.length) {o t' : Nat} (h : OwnsTask (doPop s th q t r) o t') :
    OwnsTask s o t' ∨ (t' = t ∧ o = th) := by
  rcases h with ⟨h1, rfl⟩ | ⟨q', h1⟩ | ⟨rfl, h1, h2⟩
  · exact Or.inl (Or.inl ⟨h1, rfl⟩)
  · simp only [doPop] at h1
    by_cases ho : o = th
    · subst ho
      simp [hlt] at h1
      exact Or.inr ⟨h1.1.symm, rfl⟩
    · rw [List.getElem?_set_ne (fun e => ho e.symm)] at h1
      exact Or.inl (Or.inr (Or.inl ⟨q', h1⟩))
  · simp only [doPop] at h1
    left; right; right
    refine ⟨rfl, h1, ?_⟩
    rcases h2 with h2 | h2
    · simp only [doPop, upd_apply] at h2
      split at h2
      · rename_i e
        subst e
        exfalso
        have hp : t' ∈ s.jobs q := by simp [hj]
        exact hA.pending_fresh q t' hp (hA.done_sub t' h1)
      · exact Or.inl h2
    · exact Or.inr h2


/-- frame rule: if nothing relevant changed, ownership did not change -/
theorem ownsTask_frame {s s' : State} {o t : Nat} (h : OwnsTask s' o t)
    (hn : s.nextId ≤ s'.nextId) (hd : s'.done = s.done) (hsy : s'.synced = s.synced)
    (hr : s'.runner = s.runner)
    (hp : ∀ o t q : Nat, s'.pcs[o]? = some (Pc.running t q) → s.pcs[o]? = some (Pc.running t q)) :
    OwnsTask s o t := by
  rcases h with ⟨h1, rfl⟩ | ⟨q, h1⟩ | ⟨rfl, h1, h2⟩
  · exact Or.inl ⟨by omega, rfl⟩
  · exact Or.inr (Or.inl ⟨q, hp o t q h1⟩)
  · refine Or.inr (Or.inr ⟨rfl, by rw [← hd]; exact h1, ?_⟩)
    unfold Synced at h2 ⊢
    rw [hr, hsy] at h2
    exact h2

theorem running_set_ne {l : List Pc} {th o t q : Nat} {p : Pc} (hp : ∀ t q, p ≠ Pc.running t q)
    (h : (l.set th p)[o]? = some (Pc.running t q)) : l[o]? = some (Pc.running t q) := by
  by_cases e : th = o
  · subst e
    rw [List.getElem?_set] at h
    simp only [if_true] at h
    split at h
    · cases h; exact absurd rfl (hp t q)
    · cases h
  · rwa [List.getElem?_set_ne e] at h

theorem ownsTask_scanBody {s : State} (hA : InvA s) {th : Nat} (hlt : th < s.pcs.length) {o t : Nat}
    (h : OwnsTask (scanBody s th) o t) :
    OwnsTask s o t ∨ ((∀ x, ¬OwnsTask s x t) ∧ o = th ∧ ∃ q, t ∈ s.jobs q) := by
  rcases scanBody_cases s th with ⟨_, he⟩ | ⟨_, _, he⟩ | ⟨_, q, t0, r, _, hj, _, _, he⟩
  · rw [he] at h
    exact Or.inl (ownsTask_frame (s := s) h (Nat.le_refl _) rfl rfl rfl (fun o t q hh => running_set_ne (by intros; simp) hh))
  · rw [he] at h
    exact Or.inl (ownsTask_frame (s := s) h (Nat.le_refl _) rfl rfl rfl (fun o t q hh => running_set_ne (by intros; simp) hh))
  · rw [he] at h
    rcases ownsTask_doPop hA hj hlt h with h' | ⟨rfl, rfl⟩
    · exact Or.inl h'
    · exact Or.inr ⟨nobody_owns_pending hA (q := q) (by simp [hj]), rfl, q, by simp [hj]⟩

/-- Ownership of a task's data is never taken over silently: if `o` owns `t` after a step and did not
before, then nobody owned it before and the step is one of the three acquiring actions — a pop under
the mutex by `o`, or the external thread leaving the parallel barrier. -/
theorem acquire_points {s s' : State} {a : Action} (hi : Inv s) (he : InvE s) (hs : step s a = some s')
    {o t : Nat} (h : OwnsTask s' o t) :
    OwnsTask s o t ∨ ((∀ x, ¬OwnsTask s x t) ∧
      ((a = .wScan o ∧ o ≠ 0 ∧ ∃ q, t ∈ s.jobs q) ∨ (a = .waitPop ∧ o = 0 ∧ ∃ q, t ∈ s.jobs q) ∨
       (a = .spinExit ∧ o = 0 ∧ s.mode = .spin 0 ∧ t ∈ s.done))) := by
  have hA := hi.a
  cases a
  case wScan th =>
    simp only [step] at hs
    split at hs
    · cases hs
    · rename_i hth
      split at hs
      · cases hs
        rename_i hpc
        have hlt : th < s.pcs.length := (List.getElem?_eq_some_iff.mp hpc).1
        rcases ownsTask_scanBody hA hlt h with h' | ⟨h', rfl, hq⟩
        · exact Or.inl h'
        · exact Or.inr ⟨h', Or.inl ⟨rfl, hth, hq⟩⟩
      · cases hs
        rename_i hpc
        have hlt : th < s.pcs.length := (List.getElem?_eq_some_iff.mp hpc).1
        have hA' : InvA { s with tw := s.tw - 1 } :=
          ⟨hA.1, hA.2, hA.3, hA.4, hA.5, hA.6, hA.7, hA.8, hA.9, hA.10, hA.11, hA.12, hA.13, hA.14, hA.15, hA.16, hA.17⟩
        rcases ownsTask_scanBody hA' hlt h with h' | ⟨h', rfl, hq⟩
        · exact Or.inl h'
        · exact Or.inr ⟨h', Or.inl ⟨rfl, hth, hq⟩⟩
      · cases hs
  case waitPop =>
    step_split hs
    rename_i q0 hm hg _ t0 r hj
    have hlt : 0 < s.pcs.length := (List.getElem?_eq_some_iff.mp hg.1).1
    rcases ownsTask_doPop hA hj hlt h with h' | ⟨rfl, rfl⟩
    · exact Or.inl h'
    · exact Or.inr ⟨nobody_owns_pending hA (q := q0) (by rw [hj]; simp), Or.inr (Or.inl ⟨rfl, rfl, q0, by rw [hj]; simp⟩)⟩
  case spinExit =>
    step_split hs
    rename_i q hm hg
    rcases h with ⟨h1, rfl⟩ | ⟨q', h1⟩ | ⟨rfl, h1, h2⟩
    · exact Or.inl (Or.inl ⟨h1, rfl⟩)
    · exact Or.inl (Or.inr (Or.inl ⟨q', h1⟩))
    · simp only at h1
      by_cases hsy : Synced s t
      · exact Or.inl (Or.inr (Or.inr ⟨rfl, h1, hsy⟩))
      · right
        have hq0 : q = 0 := by
          apply Classical.byContradiction
          intro hq
          apply hsy
          rcases h2 with h2 | h2
          · exact Or.inl h2
          · simp only [syncedAfter, hq, if_false] at h2
            exact Or.inr h2
        subst hq0
        refine ⟨?_, Or.inr (Or.inr ⟨rfl, rfl, hm, h1⟩)⟩
        intro x hx
        rcases hx with ⟨hx, _⟩ | ⟨q', hx⟩ | ⟨_, _, hx⟩
        · have := hA.started_lt t (hA.done_sub t h1); omega
        · exact (hA.run_started x t q' hx).2.1 h1
        · exact hsy hx
  case taskEnd th =>
    step_split hs
    rename_i t0 q0 hpc
    left
    rcases h with ⟨h1, rfl⟩ | ⟨q', h1⟩ | ⟨rfl, h1, h2⟩
    · exact Or.inl ⟨h1, rfl⟩
    · exact Or.inr (Or.inl ⟨q', running_set_ne (by intros; simp) h1⟩)
    · simp only [List.mem_append, List.mem_singleton] at h1
      rcases h1 with h1 | rfl
      · exact Or.inr (Or.inr ⟨rfl, h1, h2⟩)
      · rcases h2 with h2 | h2
        · simp only at h2
          have := hA.run_runner th t q0 hpc
          rw [h2] at this
          subst this
          exact Or.inr (Or.inl ⟨q0, hpc⟩)
        · exact absurd (he t h2) (hA.run_started th t q0 hpc).2.1
  case submitInline =>
    step_split hs
    rename_i hg
    left
    rcases h with ⟨h1, rfl⟩ | ⟨q', h1⟩ | ⟨rfl, h1, h2⟩
    · exact Or.inl ⟨by simp only at h1; omega, rfl⟩
    · simp only at h1
      by_cases ho : o = 0
      · subst ho
        rw [List.getElem?_set] at h1
        simp only [if_true] at h1
        split at h1
        · cases h1; exact Or.inl ⟨Nat.le_refl _, rfl⟩
        · cases h1
      · rw [List.getElem?_set_ne (fun e => ho e.symm)] at h1
        exact Or.inr (Or.inl ⟨q', h1⟩)
    · simp only at h1
      refine Or.inr (Or.inr ⟨rfl, h1, ?_⟩)
      have hlt := hA.started_lt t (hA.done_sub t h1)
      rcases h2 with h2 | h2
      · simp only [upd_apply] at h2
        have : t ≠ s.nextId := by omega
        simp only [this, if_false] at h2
        exact Or.inl h2
      · exact Or.inr h2
  case submit q =>
    step_split hs
    exact Or.inl (ownsTask_frame (s := s) h (by simp) rfl rfl rfl (fun o t q hh => hh))
  case sdNotify =>
    step_split hs
    exact Or.inl (ownsTask_frame (s := s) h (Nat.le_refl _) rfl rfl rfl (fun o t q hh => (wakeAll_running _ _ _ _).mp hh))
  case wake th =>
    step_split hs
    exact Or.inl (ownsTask_frame (s := s) h (Nat.le_refl _) rfl rfl rfl (fun o t q hh => running_set_ne (by intros; simp) hh))
  case relock th =>
    step_split hs
    all_goals exact Or.inl (ownsTask_frame (s := s) h (Nat.le_refl _) rfl rfl rfl (fun o t q hh => running_set_ne (by intros; simp) hh))
  all_goals (step_split hs)
  all_goals exact Or.inl (ownsTask_frame (s := s) h (Nat.le_refl _) rfl rfl rfl (fun o t q hh => hh))

end Mustache.Dispatcher

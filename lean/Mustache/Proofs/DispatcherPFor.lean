import Mustache.Model.Dispatcher

/-! Arithmetic of the `parallelFor` index split. -/
namespace Mustache.Dispatcher

theorem sum_sizes_prefix (d x : Nat) : ∀ m : Nat,
    ((List.range m).map (fun k => if k < x then d + 1 else d)).sum = m * d + min m x := by
  intro m
  induction m with
  | zero => simp
  | succ m ih =>
    rw [List.range_succ, List.map_append, List.sum_append, ih]
    simp only [List.map_cons, List.map_nil, List.sum_cons, List.sum_nil, Nat.add_zero]
    rw [Nat.succ_mul]
    split <;> omega

theorem pforSizes_sum (size tc : Nat) (htc : 1 ≤ tc) : (pforSizes size tc).sum = size := by
  unfold pforSizes
  rw [sum_sizes_prefix]
  have h1 : tc * (size / tc) ≤ size := Nat.mul_div_le size tc
  have h2 : size % tc < tc := Nat.mod_lt _ (by omega)
  have h3 : size % tc = size - tc * (size / tc) := Nat.mod_def size tc
  have h4 : tc * (size / tc) = tc * (size / tc) := rfl
  rw [Nat.mul_comm tc (size / tc)] at h1 h3 ⊢
  omega

theorem pforSizes_length (size tc : Nat) : (pforSizes size tc).length = tc := by simp [pforSizes]

theorem pforSizes_mem (size tc : Nat) : ∀ x ∈ pforSizes size tc, x = size / tc ∨ x = size / tc + 1 := by
  intro x hx
  simp only [pforSizes, List.mem_map, List.mem_range] at hx
  obtain ⟨k, _, rfl⟩ := hx
  split <;> simp

theorem pforRangesFrom_items (b : Nat) (szs : List Nat) :
    ((pforRangesFrom b szs).map rangeItems).flatten = List.range' b szs.sum := by
  induction szs generalizing b with
  | nil => simp [pforRangesFrom]
  | cons sz r ih =>
    simp only [pforRangesFrom, List.map_cons, List.flatten_cons, ih, List.sum_cons, rangeItems]
    have : b + sz - b = sz := by omega
    rw [this]
    simp

theorem pforRangesFrom_length (b : Nat) (szs : List Nat) : (pforRangesFrom b szs).length = szs.length := by
  induction szs generalizing b with
  | nil => rfl
  | cons sz r ih => simp [pforRangesFrom, ih]

theorem pforRangesFrom_bounds (b : Nat) (szs : List Nat) :
    ∀ r ∈ pforRangesFrom b szs, b ≤ r.1 ∧ r.1 ≤ r.2 ∧ r.2 ≤ b + szs.sum ∧ (r.2 - r.1) ∈ szs := by
  induction szs generalizing b with
  | nil => simp [pforRangesFrom]
  | cons sz r ih =>
    intro x hx
    simp only [pforRangesFrom, List.mem_cons] at hx
    rcases hx with rfl | hx
    · simp only [List.sum_cons, List.mem_cons]
      refine ⟨Nat.le_refl _, by omega, by omega, Or.inl (by omega)⟩
    · have := ih (b + sz) x hx
      simp only [List.sum_cons, List.mem_cons]
      refine ⟨by omega, this.2.1, by omega, Or.inr this.2.2.2⟩

theorem pforTaskCount_pos (size tc threads : Nat) : 1 ≤ pforTaskCount size tc threads := by
  unfold pforTaskCount
  repeat' split
  all_goals omega

end Mustache.Dispatcher

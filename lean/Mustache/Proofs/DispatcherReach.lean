import Mustache.Proofs.DispatcherStepA
import Mustache.Proofs.DispatcherStepB
import Mustache.Proofs.DispatcherStepC

/-! The invariant holds in every reachable state. -/
namespace Mustache.Dispatcher

theorem inv_scanBody {s : State} (h : Inv s) {th : Nat} (hpc : s.pcs[th]? = some Pc.idle) (hth : th ≠ 0) :
    Inv (scanBody s th) :=
  ⟨invA_scanBody h hpc, invB_scanBody h hpc hth, invC_scanBody h hpc⟩

theorem inv_reacquire {s : State} (h : Inv s) {th : Nat} (hpc : s.pcs[th]? = some Pc.woken) :
    Inv (reacquire s th) :=
  ⟨invA_reacquire h hpc, invB_reacquire h hpc, invC_reacquire h hpc⟩

theorem reacquire_idle {s : State} {th : Nat} (hw : s.pcs[th]? = some Pc.woken) :
    (reacquire s th).pcs[th]? = some Pc.idle := by
  have : th < s.pcs.length := (List.getElem?_eq_some_iff.mp hw).1
  simp [reacquire, this]

theorem inv_step {s s' : State} {a : Action} (h : Inv s) (hs : step s a = some s') : Inv s' := by
  by_cases hsc : ∃ th, a = Action.wScan th
  · obtain ⟨th, rfl⟩ := hsc
    simp only [step] at hs
    split at hs
    · cases hs
    · rename_i hth
      split at hs
      · cases hs; exact inv_scanBody h (by assumption) hth
      · cases hs
        rw [scanBody_reacquire]
        have hw : s.pcs[th]? = some Pc.woken := by assumption
        exact inv_scanBody (inv_reacquire h hw) (reacquire_idle hw) hth
      · cases hs
  · have hns : ∀ th, a ≠ Action.wScan th := fun th e => hsc ⟨th, e⟩
    exact ⟨invA_step h hs hns, invB_step h hs hns, invC_step h hs hns⟩

theorem reachable_inv {n : Nat} {s : State} (h : Reachable n s) : Inv s := by
  induction h with
  | init => exact inv_init n
  | step a _ hs ih => exact inv_step ih hs

theorem reachable_runFrom {n : Nat} {s s' : State} (h : Reachable n s) {sch : List Action}
    (hr : runFrom s sch = some s') : Reachable n s' := by
  induction sch generalizing s with
  | nil => simp [runFrom] at hr; subst hr; exact h
  | cons a as ih =>
    simp only [runFrom] at hr
    split at hr
    · cases hr
    · rename_i s1 hs1
      exact ih (Reachable.step a h hs1) hr

theorem reachable_iff_run {n : Nat} {s : State} :
    Reachable n s ↔ ∃ sch : List Action, runFrom (init n) sch = some s := by
  constructor
  · intro h
    induction h with
    | init => exact ⟨[], rfl⟩
    | step a _ hs ih =>
      obtain ⟨sch, hsch⟩ := ih
      refine ⟨sch ++ [a], ?_⟩
      have aux : ∀ (l : List Action) (s0 s1 : State), runFrom s0 l = some s1 →
          runFrom s0 (l ++ [a]) = step s1 a := by
        intro l
        induction l with
        | nil => intro s0 s1 h0; simp [runFrom] at h0; subst h0; simp [runFrom]; cases step s0 a <;> rfl
        | cons b l ihl =>
          intro s0 s1 h0
          simp only [runFrom, List.cons_append] at h0 ⊢
          cases hb : step s0 b with
          | none => simp [hb] at h0
          | some s2 => simp only [hb] at h0 ⊢; exact ihl s2 s1 h0
      rw [aux sch _ _ hsch, hs]
  · rintro ⟨sch, hsch⟩
    exact reachable_runFrom Reachable.init hsch

/-- the thread count never changes -/
theorem reachable_n {n : Nat} {s : State} (h : Reachable n s) : s.n = n := by
  induction h with
  | init => rfl
  | @step s0 s1 a _ hs ih =>
    cases a
    case wScan th =>
      simp only [step] at hs
      split at hs
      · cases hs
      · split at hs
        · cases hs
          rcases scanBody_cases s0 th with ⟨_, he⟩ | ⟨_, _, he⟩ | ⟨_, q, t, r, _, _, _, _, he⟩ <;> rw [he] <;> exact ih
        · cases hs
          rcases scanBody_cases { s0 with tw := s0.tw - 1 } th with ⟨_, he⟩ | ⟨_, _, he⟩ | ⟨_, q, t, r, _, _, _, _, he⟩ <;>
            rw [he] <;> exact ih
        · cases hs
    all_goals (step_split hs)
    all_goals exact ih

end Mustache.Dispatcher

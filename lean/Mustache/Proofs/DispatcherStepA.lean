import Mustache.Proofs.DispatcherInv

/-! Preservation of the accounting invariant `InvA`. -/
namespace Mustache.Dispatcher

macro "inv_close" : tactic => `(tactic|
  (first | assumption | grind (instances := 4000) [Mode.isShutdown, isWaiting, wakeAll_not_sleeping]))

theorem pop_facts {s : State} (h : InvA s) {q t : Nat} {r : List Nat} (hj : s.jobs q = t :: r) :
    (∀ x, x ∈ r → t < x) ∧ r.Pairwise (· < ·) ∧ t ∈ s.jobs q ∧ (∀ x, x ∈ r → x ∈ s.jobs q) := by
  have := h.jobs_sorted q
  rw [hj] at this
  simp only [List.pairwise_cons] at this
  exact ⟨this.1, this.2, by simp [hj], by intro x hx; simp [hj, hx]⟩

set_option maxHeartbeats 1000000 in
theorem invA_doPop {s : State} (h : Inv s) {th q t : Nat} {r : List Nat} (hj : s.jobs q = t :: r)
    (hpc : s.pcs[th]? = some Pc.idle) : InvA (doPop s th q t r) := by
  obtain ⟨hr1, hr2, hr3, hr4⟩ := pop_facts h.a hj
  obtain ⟨⟨a1, a2, a3, a4, a5, a6, a7, a8, a9, a10, a11, a12, a13, a14, a15, a16, a17⟩, _, _⟩ := h
  constructor
  all_goals unfold_upd
  case jobs_sorted =>
    intro q'
    by_cases hq : q' = q
    · simp [hq, hr2]
    · simp [hq, a5 q']
  all_goals inv_close

set_option maxHeartbeats 1000000 in
theorem invA_reacquire {s : State} (h : Inv s) {th : Nat} (hpc : s.pcs[th]? = some Pc.woken) :
    InvA (reacquire s th) := by
  obtain ⟨⟨a1, a2, a3, a4, a5, a6, a7, a8, a9, a10, a11, a12, a13, a14, a15, a16, a17⟩, _, _⟩ := h
  constructor
  all_goals simp only [reacquire]
  all_goals inv_close

set_option maxHeartbeats 1000000 in
theorem invA_scanBody {s : State} (h : Inv s) {th : Nat} (hpc : s.pcs[th]? = some Pc.idle) :
    InvA (scanBody s th) := by
  rcases scanBody_cases s th with ⟨_, he⟩ | ⟨_, _, he⟩ | ⟨_, q, t, r, _, hj, _, _, he⟩
  · rw [he]
    obtain ⟨⟨a1, a2, a3, a4, a5, a6, a7, a8, a9, a10, a11, a12, a13, a14, a15, a16, a17⟩, _, _⟩ := h
    constructor
    all_goals inv_close
  · rw [he]
    obtain ⟨⟨a1, a2, a3, a4, a5, a6, a7, a8, a9, a10, a11, a12, a13, a14, a15, a16, a17⟩, _, _⟩ := h
    constructor
    all_goals inv_close
  · rw [he]
    exact invA_doPop h hj hpc

set_option maxHeartbeats 1000000 in
theorem invA_step {s s' : State} {a : Action} (h : Inv s) (hs : step s a = some s')
    (hns : ∀ th, a ≠ Action.wScan th) : InvA s' := by
  cases a
  case wScan th => exact absurd rfl (hns th)
  case waitPop =>
    step_split hs
    rename_i hg _ t r hj
    exact invA_doPop h hj hg.1
  case sdClear =>
    obtain ⟨⟨a1, a2, a3, a4, a5, a6, a7, a8, a9, a10, a11, a12, a13, a14, a15, a16, a17⟩, ⟨b1, b2, b3, b4, b5, b6, b7, b8, b9⟩, _⟩ := h
    step_split hs
    rename_i hm
    have hterm : s.terminate = true := by rw [b5, hm]; rfl
    clear b1 b2 b3 b4 b5 b6 b7 b8 b9
    constructor
    all_goals unfold_upd
    case jobs_sorted =>
      intro q'
      by_cases hq : q' = 0
      · simp [hq]
      · simp [hq, a5 q']
    case dropped_nodup =>
      rw [List.nodup_append]
      refine ⟨a15, sorted_nodup (a5 0), ?_⟩
      intro x hx y hy hxy
      subst hxy
      exact (a14 x hx).2.2.2 0 hy
    all_goals inv_close
  all_goals (
    obtain ⟨⟨a1, a2, a3, a4, a5, a6, a7, a8, a9, a10, a11, a12, a13, a14, a15, a16, a17⟩, ⟨b1, b2, b3, _, b5, _, _, _, _⟩, _⟩ := h
    step_split hs)
  all_goals constructor
  all_goals unfold_upd
  all_goals inv_close

end Mustache.Dispatcher

import Mustache.Proofs.DispatcherInv

/-! Preservation of the control invariant `InvB`. -/
namespace Mustache.Dispatcher

macro "inv_closeB" : tactic => `(tactic|
  (first | assumption | grind (instances := 4000) [Mode.isShutdown, isWaiting, wakeAll_not_sleeping]))

set_option maxHeartbeats 1000000 in
theorem invB_doPop {s : State} (h : Inv s) {th q t : Nat} {r : List Nat} (hj : s.jobs q = t :: r)
    (hpc : s.pcs[th]? = some Pc.idle) (hext : th = 0 → s.mode = .waitLoop q) : InvB (doPop s th q t r) := by
  obtain ⟨_, ⟨b1, b2, b3, b4, b5, b6, b7, b8, b9⟩, _⟩ := h
  constructor
  all_goals unfold_upd
  all_goals inv_closeB

set_option maxHeartbeats 1000000 in
theorem invB_reacquire {s : State} (h : Inv s) {th : Nat} (hpc : s.pcs[th]? = some Pc.woken) :
    InvB (reacquire s th) := by
  obtain ⟨_, ⟨b1, b2, b3, b4, b5, b6, b7, b8, b9⟩, _⟩ := h
  constructor
  all_goals simp only [reacquire]
  all_goals inv_closeB

set_option maxHeartbeats 1000000 in
theorem invB_scanBody {s : State} (h : Inv s) {th : Nat} (hpc : s.pcs[th]? = some Pc.idle) (hth : th ≠ 0) :
    InvB (scanBody s th) := by
  rcases scanBody_cases s th with ⟨ht, he⟩ | ⟨ht, _, he⟩ | ⟨_, q, t, r, _, hj, _, _, he⟩
  · rw [he]
    obtain ⟨_, ⟨b1, b2, b3, b4, b5, b6, b7, b8, b9⟩, _⟩ := h
    constructor
    all_goals inv_closeB
  · rw [he]
    obtain ⟨_, ⟨b1, b2, b3, b4, b5, b6, b7, b8, b9⟩, _⟩ := h
    constructor
    all_goals inv_closeB
  · rw [he]
    exact invB_doPop h hj hpc (fun h0 => absurd h0 hth)

set_option maxHeartbeats 1000000 in
theorem invB_step {s s' : State} {a : Action} (h : Inv s) (hs : step s a = some s')
    (hns : ∀ th, a ≠ Action.wScan th) : InvB s' := by
  cases a
  case wScan th => exact absurd rfl (hns th)
  case waitPop =>
    step_split hs
    rename_i hm hg _ t r hj
    exact invB_doPop h hj hg.1 (fun _ => hm)
  all_goals (
    obtain ⟨⟨a1, _, _, a4, _, _, _, _, _, _, _, _, _, _, _, _, _⟩, ⟨b1, b2, b3, b4, b5, b6, b7, b8, b9⟩, _⟩ := h
    step_split hs)
  all_goals (try (rename_i hx; simp only [allExited_iff] at hx))
  all_goals constructor
  all_goals unfold_upd
  all_goals inv_closeB

end Mustache.Dispatcher

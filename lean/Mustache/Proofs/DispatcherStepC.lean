import Mustache.Proofs.DispatcherInv

/-! Preservation of the busy-flag / idle-count invariant `InvC`. -/
namespace Mustache.Dispatcher

macro "inv_closeC" : tactic => `(tactic|
  (first | assumption | grind (instances := 4000) [Mode.isShutdown, isWaiting, wakeAll_not_sleeping]))

set_option maxHeartbeats 1000000 in
theorem invC_doPop {s : State} (h : Inv s) {th q t : Nat} {r : List Nat} (hj : s.jobs q = t :: r)
    (hpc : s.pcs[th]? = some Pc.idle) (hl : s.locked q = false) : InvC (doPop s th q t r) := by
  obtain ⟨_, _, ⟨c1, c2, c3, c4, c5⟩⟩ := h
  constructor
  all_goals unfold_upd
  all_goals inv_closeC

set_option maxHeartbeats 1000000 in
theorem invC_reacquire {s : State} (h : Inv s) {th : Nat} (hpc : s.pcs[th]? = some Pc.woken) :
    InvC (reacquire s th) := by
  obtain ⟨_, _, ⟨c1, c2, c3, c4, c5⟩⟩ := h
  have hcnt := countP_set_of isWaiting s.pcs th Pc.idle Pc.woken hpc
  simp only [isWaiting] at hcnt
  constructor
  all_goals simp only [reacquire]
  case tw_count => simp at hcnt; omega
  all_goals inv_closeC

set_option maxHeartbeats 1000000 in
theorem invC_scanBody {s : State} (h : Inv s) {th : Nat} (hpc : s.pcs[th]? = some Pc.idle) :
    InvC (scanBody s th) := by
  rcases scanBody_cases s th with ⟨ht, he⟩ | ⟨ht, _, he⟩ | ⟨_, q, t, r, _, hj, hl, _, he⟩
  · rw [he]
    obtain ⟨_, _, ⟨c1, c2, c3, c4, c5⟩⟩ := h
    constructor
    all_goals inv_closeC
  · rw [he]
    obtain ⟨_, _, ⟨c1, c2, c3, c4, c5⟩⟩ := h
    constructor
    all_goals inv_closeC
  · rw [he]
    exact invC_doPop h hj hpc hl

set_option maxHeartbeats 1000000 in
theorem invC_step {s s' : State} {a : Action} (h : Inv s) (hs : step s a = some s')
    (hns : ∀ th, a ≠ Action.wScan th) : InvC s' := by
  cases a
  case wScan th => exact absurd rfl (hns th)
  case waitPop =>
    step_split hs
    rename_i hm hg _ t r hj
    exact invC_doPop h hj hg.1 hg.2.2
  all_goals (
    obtain ⟨_, ⟨b1, _, _, _, _, _, _, _, _⟩, ⟨c1, c2, c3, c4, c5⟩⟩ := h
    step_split hs)
  all_goals constructor
  all_goals unfold_upd
  all_goals inv_closeC

end Mustache.Dispatcher

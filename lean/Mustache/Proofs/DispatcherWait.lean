import Mustache.Proofs.DispatcherReach

/-! Post-condition of `wait` (shared by C08 and C06). -/
namespace Mustache.Dispatcher

theorem wait_post_core {n : Nat} {s s' : State} {q : Nat} (hr : Reachable n s) (hm : s.mode = .spin q)
    (hs : step s .spinExit = some s') :
    s'.mode = .api ∧
    (∀ t, t < s.waitSnap → s.tq t = q → t ∈ s'.done) ∧
    (q = 0 → ∀ th, 1 ≤ th → th ≤ n → ∃ p, s'.pcs[th]? = some p ∧ isWaiting p = true) ∧
    s'.pcs[0]? = some Pc.idle := by
  have hn := reachable_n hr
  obtain ⟨hA, hB, hC⟩ := reachable_inv hr
  simp only [step, hm] at hs
  split at hs
  · rename_i hg
    cases hs
    have hext : s.pcs[0]? = some Pc.idle := hB.ext_idle (Or.inr (Or.inl ⟨q, hm⟩))
    have hterm : s.terminate = false := by
      cases ht : s.terminate
      · rfl
      · have := hB.term_iff.mp ht; rw [hm] at this; simp [Mode.isShutdown] at this
    have hallw : q = 0 → ∀ th, 1 ≤ th → th ≤ n → ∃ p, s.pcs[th]? = some p ∧ isWaiting p = true := by
      intro hq0
      have htw : s.pcs.countP isWaiting = n := by rw [← hC.tw_count, hg.1 hq0, hn]
      exact all_waiting_of_count (by rw [hA.len, hn])
        (by intro p hp; rw [hext] at hp; cases hp; rfl) htw
    refine ⟨rfl, ?_, hallw, hext⟩
    intro t ht htq
    have hsnap := (hB.wait_q q (Or.inr hm)).2
    rcases hA.cover t (by omega) with ⟨q', hq'⟩ | hst | hd
    · have : q' = q := by rw [← hA.jobs_tq q' t hq', htq]
      subst this
      rw [hB.spin_empty q' hm] at hq'
      simp at hq'
    · rcases hA.started_cases t hst with hd | hrun
      · exact hd
      · exfalso
        rw [htq] at hrun
        by_cases hq0 : q = 0
        · by_cases hth : s.runner t = 0
          · rw [hth, hext] at hrun; cases hrun
          · have hlt : s.runner t < s.pcs.length := (List.getElem?_eq_some_iff.mp hrun).1
            rw [hA.len, hn] at hlt
            obtain ⟨p, hp, hw⟩ := hallw hq0 (s.runner t) (by omega) (by omega)
            rw [hrun] at hp; cases hp; simp [isWaiting] at hw
        · have := (hC.hold_run q _ t hq0 hrun).1
          rw [hg.2 hq0] at this
          cases this
    · rw [hA.dropped_term hterm] at hd
      simp at hd
  · cases hs

end Mustache.Dispatcher

import Mustache.Model.Events
/-!
List-level lemmas behind C15: the process-global registry (`idOf`, `register`) and the slot table of
one manager (`resize`, `ensureSlot`, `slotList`).
-/
namespace Mustache.Proofs.Events
open Mustache.Model.Events

/-! ## registry -/

theorem idOf_some_get {l : List TypeName} {T : TypeName} {i : Nat} (h : idOf l T = some i) :
    l[i]? = some T := by
  induction l generalizing i with
  | nil => simp [idOf] at h
  | cons x xs ih =>
    unfold idOf at h
    by_cases hx : x = T
    · simp [hx] at h; subst h; simp [hx]
    · simp only [hx, if_false, Option.map_eq_some_iff] at h
      rcases h with ⟨j, hj, rfl⟩
      simpa using ih hj

theorem idOf_some_lt {l : List TypeName} {T : TypeName} {i : Nat} (h : idOf l T = some i) :
    i < l.length :=
  (List.getElem?_eq_some_iff.mp (idOf_some_get h)).1

/-- two different types never share an id -/
theorem idOf_inj {l : List TypeName} {T T' : TypeName} {i : Nat}
    (h : idOf l T = some i) (h' : idOf l T' = some i) : T = T' := by
  have := idOf_some_get h
  rw [idOf_some_get h'] at this
  exact (Option.some.inj this).symm

theorem idOf_append_of_some {l : List TypeName} {T : TypeName} {i : Nat} (l' : List TypeName)
    (h : idOf l T = some i) : idOf (l ++ l') T = some i := by
  induction l generalizing i with
  | nil => simp [idOf] at h
  | cons x xs ih =>
    simp only [List.cons_append]
    unfold idOf at h ⊢
    by_cases hx : x = T
    · simpa [hx] using h
    · simp only [hx, if_false, Option.map_eq_some_iff] at h ⊢
      rcases h with ⟨j, hj, rfl⟩
      exact ⟨j, ih hj, rfl⟩

theorem idOf_append_singleton_of_none {l : List TypeName} {T : TypeName} (T' : TypeName)
    (h : idOf l T = none) :
    idOf (l ++ [T']) T = if T' = T then some l.length else none := by
  induction l with
  | nil => simp [idOf]
  | cons x xs ih =>
    simp only [List.cons_append]
    unfold idOf at h ⊢
    by_cases hx : x = T
    · simp [hx] at h
    · simp only [hx, if_false, Option.map_eq_none_iff] at h
      simp only [hx, if_false, ih h]
      by_cases ht : T' = T <;> simp [ht]

/-- what `register` does, in one statement -/
theorem register_cases (ids : List TypeName) (T : TypeName) :
    (∃ i, idOf ids T = some i ∧ register ids T = (ids, i)) ∨
    (idOf ids T = none ∧ register ids T = (ids ++ [T], ids.length)) := by
  unfold register
  cases h : idOf ids T with
  | some i => exact Or.inl ⟨i, rfl, rfl⟩
  | none => exact Or.inr ⟨rfl, rfl⟩

theorem register_idOf (ids : List TypeName) (T : TypeName) :
    idOf (register ids T).1 T = some (register ids T).2 := by
  rcases register_cases ids T with ⟨i, hi, hr⟩ | ⟨hn, hr⟩
  · rw [hr]; exact hi
  · rw [hr]; simp [idOf_append_singleton_of_none T hn]

/-- ids, once given, never change -/
theorem register_stable {ids : List TypeName} {T T' : TypeName} {j : Nat}
    (h : idOf ids T' = some j) : idOf (register ids T).1 T' = some j := by
  rcases register_cases ids T with ⟨i, _, hr⟩ | ⟨_, hr⟩
  · rw [hr]; exact h
  · rw [hr]; exact idOf_append_of_some _ h

theorem register_other {ids : List TypeName} {T T' : TypeName} (hne : T' ≠ T) :
    idOf (register ids T).1 T' = idOf ids T' := by
  rcases register_cases ids T with ⟨i, _, hr⟩ | ⟨_, hr⟩
  · rw [hr]
  · rw [hr]
    cases h : idOf ids T' with
    | some j => exact idOf_append_of_some _ h
    | none => simp [idOf_append_singleton_of_none T h, Ne.symm hne]

theorem register_length_le (ids : List TypeName) (T : TypeName) :
    ids.length ≤ (register ids T).1.length := by
  rcases register_cases ids T with ⟨i, _, hr⟩ | ⟨_, hr⟩ <;> rw [hr] <;> simp

theorem register_id_lt (ids : List TypeName) (T : TypeName) :
    (register ids T).2 < (register ids T).1.length :=
  idOf_some_lt (register_idOf ids T)

/-- a type that was not registered before gets the next id: no slot of any manager is there yet -/
theorem register_new_id {ids : List TypeName} {T : TypeName} (h : idOf ids T = none) :
    (register ids T).2 = ids.length := by
  rcases register_cases ids T with ⟨i, hi, _⟩ | ⟨_, hr⟩
  · rw [h] at hi; cases hi
  · rw [hr]

/-! ## slot table -/

theorem slotList_of_length_le {sl : Slots} {j : Nat} (h : sl.length ≤ j) : slotList sl j = [] := by
  unfold slotList
  rw [List.getElem?_eq_none h]

/-- without the guard `has`, `resize` would truncate; under the guard it only appends nulls -/
theorem resize_of_le {sl : Slots} {n : Nat} (h : sl.length ≤ n) :
    resize sl n = sl ++ List.replicate (n - sl.length) none := by
  unfold resize
  rw [List.take_of_length_le h]

/-- the table after the first half of `registerEventType<T>()` -/
def grown (sl : Slots) (id : Nat) : Slots := if has sl id then sl else resize sl (id + 1)

theorem grown_eq (sl : Slots) (id : Nat) :
    grown sl id = sl ++ List.replicate (id + 1 - sl.length) none := by
  unfold grown has
  by_cases h : id < sl.length
  · have : id + 1 - sl.length = 0 := by omega
    simp [h, this]
  · simp only [h, decide_false, Bool.false_eq_true, if_false]
    exact resize_of_le (by omega)

theorem grown_length (sl : Slots) (id : Nat) : (grown sl id).length = max sl.length (id + 1) := by
  rw [grown_eq]; simp; omega

theorem grown_getElem? (sl : Slots) (id j : Nat) :
    (grown sl id)[j]? = if j < sl.length then sl[j]? else if j ≤ id then some none else none := by
  rw [grown_eq]
  by_cases h : j < sl.length
  · simp [h, List.getElem?_append_left h]
  · simp only [h, if_false]
    rw [List.getElem?_append_right (by omega)]
    by_cases h2 : j ≤ id
    · simp only [h2, if_true]
      rw [List.getElem?_replicate]
      have : j - sl.length < id + 1 - sl.length := by omega
      simp [this]
    · simp only [h2, if_false]
      rw [List.getElem?_replicate]
      have : ¬ (j - sl.length < id + 1 - sl.length) := by omega
      simp [this]

theorem ensureSlot_eq (sl : Slots) (id : Nat) :
    ensureSlot sl id =
      match (grown sl id)[id]? with
      | some (some _) => grown sl id
      | _ => (grown sl id).set id (some []) := rfl

theorem ensureSlot_length (sl : Slots) (id : Nat) :
    (ensureSlot sl id).length = max sl.length (id + 1) := by
  rw [ensureSlot_eq]
  split <;> simp [grown_length]

/-- the table never shrinks -/
theorem ensureSlot_length_ge (sl : Slots) (id : Nat) : sl.length ≤ (ensureSlot sl id).length := by
  rw [ensureSlot_length]; omega

/-- after `registerEventType<T>()` the slot `id` exists and is not null (so `subscriptions_[id]->…`
is defined), and it holds what it held before (`[]` if it has just been created) -/
theorem ensureSlot_self (sl : Slots) (id : Nat) :
    (ensureSlot sl id)[id]? = some (some (slotList sl id)) := by
  have hlt : id < (grown sl id).length := by rw [grown_length]; omega
  have hg := grown_getElem? sl id id
  rw [ensureSlot_eq]
  unfold slotList
  by_cases h : id < sl.length
  · simp only [h, if_true] at hg
    cases hs : sl[id]? with
    | none => exact absurd hs (by simp [h])
    | some o =>
      rw [hs] at hg
      cases o with
      | some l => rw [hg]; dsimp only; exact hg
      | none => rw [hg]; exact List.getElem?_set_self hlt
  · simp only [h, if_false, Nat.le_refl, if_true] at hg
    have hn : sl[id]? = none := List.getElem?_eq_none (by omega)
    rw [hg, hn]; exact List.getElem?_set_self hlt

theorem ensureSlot_getElem?_ne {sl : Slots} {id j : Nat} (hne : j ≠ id) :
    (ensureSlot sl id)[j]? = (grown sl id)[j]? := by
  rw [ensureSlot_eq]
  split
  · rfl
  · rw [List.getElem?_set_ne (Ne.symm hne)]

/-- every other slot is left exactly as it was -/
theorem ensureSlot_other {sl : Slots} {id j : Nat} (hne : j ≠ id) (hj : j < sl.length) :
    (ensureSlot sl id)[j]? = sl[j]? := by
  rw [ensureSlot_getElem?_ne hne, grown_getElem?]
  simp [hj]

/-- no slot that exists is ever taken away or nulled -/
theorem ensureSlot_keeps {sl : Slots} {id j : Nat} {l : List Rcv} (h : sl[j]? = some (some l)) :
    (ensureSlot sl id)[j]? = some (some l) := by
  have hj : j < sl.length := (List.getElem?_eq_some_iff.mp h).1
  by_cases hne : j = id
  · subst hne
    rw [ensureSlot_self]; unfold slotList; rw [h]
  · rw [ensureSlot_other hne hj]; exact h

theorem slotList_ensureSlot (sl : Slots) (id j : Nat) :
    slotList (ensureSlot sl id) j = slotList sl j := by
  by_cases hne : j = id
  · subst hne
    conv => lhs; unfold slotList
    rw [ensureSlot_self]
  · by_cases hj : j < sl.length
    · unfold slotList; rw [ensureSlot_other hne hj]
    · have hr : slotList sl j = [] := slotList_of_length_le (by omega)
      rw [hr]
      unfold slotList
      rw [ensureSlot_getElem?_ne hne, grown_getElem?]
      simp only [hj, if_false]
      by_cases h2 : j ≤ id <;> simp [h2]

theorem slotList_set_self {sl : Slots} {id : Nat} (l : List Rcv) (h : id < sl.length) :
    slotList (sl.set id (some l)) id = l := by
  unfold slotList; simp [h]

theorem slotList_set_ne {sl : Slots} {id j : Nat} (l : List Rcv) (h : j ≠ id) :
    slotList (sl.set id (some l)) j = slotList sl j := by
  unfold slotList; rw [List.getElem?_set_ne (Ne.symm h)]

end Mustache.Proofs.Events

import Mustache.Proofs.EventsRefine
/-!
Histories: the simulation lifted to `runFrom`, and the monotonicity facts
(slot tables only grow; dead managers / receivers stay dead).
-/
namespace Mustache.Proofs.Events
open Mustache.Model.Events

/-! ## how one step may change a manager / a receiver -/

/-- a manager's table only grows: same liveness, no shorter, no existing slot removed or nulled -/
structure MgrGrows (mg mg' : Mgr) : Prop where
  alive : mg'.alive = mg.alive
  length : mg.slots.length ≤ mg'.slots.length
  keeps : ∀ (j : Nat) (l : List Rcv), mg.slots[j]? = some (some l) → ∃ l', mg'.slots[j]? = some (some l')

theorem MgrGrows.refl (mg : Mgr) : MgrGrows mg mg := ⟨rfl, Nat.le_refl _, fun _ l h => ⟨l, h⟩⟩

theorem MgrGrows.trans {a b c : Mgr} (h1 : MgrGrows a b) (h2 : MgrGrows b c) : MgrGrows a c :=
  ⟨h2.alive.trans h1.alive, Nat.le_trans h1.length h2.length, fun j l h => by
    rcases h1.keeps j l h with ⟨l', h'⟩
    exact h2.keeps j l' h'⟩

/-- every manager that exists keeps existing and only grows — except a manager being dropped -/
def MgrsGrow (dropped : Option Nat) (s s' : State) : Prop :=
  ∀ (m : Nat) (mg : Mgr), s.mgrs[m]? = some mg →
    ∃ mg', s'.mgrs[m]? = some mg' ∧
      (some m ≠ dropped → MgrGrows mg mg') ∧ (some m = dropped → mg'.alive = false)

/-- every receiver keeps its type, never comes back to life, and a dropped one is dead -/
def RcvsStep (dropped : Option Nat) (s s' : State) : Prop :=
  ∀ (r : Nat) (ri : RcvInfo), s.rcvs[r]? = some ri →
    ∃ ri', s'.rcvs[r]? = some ri' ∧ ri'.ty = ri.ty ∧
      (ri'.alive = true → ri.alive = true) ∧ (some r = dropped → ri'.alive = false)

theorem mgrsGrow_refl (s : State) : MgrsGrow none s s :=
  fun _ mg h => ⟨mg, h, fun _ => MgrGrows.refl mg, fun e => by cases e⟩

theorem rcvsStep_refl (s : State) : RcvsStep none s s :=
  fun _ ri h => ⟨ri, h, rfl, id, fun e => by cases e⟩

theorem afterSlot_mgrsGrow {s : State} {m : Nat} {mg : Mgr} (T : TypeName) (f : List Rcv → List Rcv)
    (hmg : s.mgrs[m]? = some mg) : MgrsGrow none s (afterSlot s m mg T f) := by
  intro m' mg0 h0
  by_cases hm : m' = m
  · subst hm
    rw [hmg] at h0; cases h0
    refine ⟨_, afterSlot_mgr_self T f hmg, fun _ => ⟨rfl, ?_, ?_⟩, fun e => by cases e⟩
    · simp only [List.length_set]; exact ensureSlot_length_ge _ _
    · intro j l hj
      have hid : (register s.typeIds T).2 < (ensureSlot mg.slots (register s.typeIds T).2).length := by
        rw [ensureSlot_length]; omega
      by_cases hji : j = (register s.typeIds T).2
      · subst hji
        exact ⟨_, List.getElem?_set_self hid⟩
      · refine ⟨l, ?_⟩
        simp only
        rw [List.getElem?_set_ne (Ne.symm hji)]
        exact ensureSlot_keeps hj
  · exact ⟨mg0, (afterSlot_mgr_other T f hm).trans h0, fun _ => MgrGrows.refl mg0, fun e => by cases e⟩

theorem doUnsubscribe_cases (s : State) (r : Nat) (ri : RcvInfo) :
    doUnsubscribe s r ri = some s ∨
    ∃ m mg, s.mgrs[m]? = some mg ∧ doUnsubscribe s r ri = some (afterSlot s m mg ri.ty (·.erase r)) := by
  unfold doUnsubscribe
  cases ri.home with
  | none => exact Or.inl rfl
  | some m =>
    dsimp only
    cases hm : mgrAlive s m with
    | false => exact Or.inl (by simp)
    | true =>
      rcases mgrAlive_iff.mp hm with ⟨mg, hmg, _⟩
      exact Or.inr ⟨m, mg, hmg, by simp [doUnsubscribeAt_eq r ri hmg]⟩

def droppedMgr : Op → Option Nat
  | .dropManager m => some m
  | _ => none

def droppedRcv : Op → Option Nat
  | .dropReceiver r => some r
  | _ => none

/-- the effect of one legal step on the managers and on the receivers -/
theorem exec_effect {s : State} (op : Op) (hl : legal s op = true) :
    MgrsGrow (droppedMgr op) s (exec s op).1 ∧ RcvsStep (droppedRcv op) s (exec s op).1 := by
  cases op with
  | newManager =>
    refine ⟨?_, rcvsStep_refl s⟩
    intro m mg h
    refine ⟨mg, ?_, fun _ => MgrGrows.refl mg, fun e => by cases e⟩
    show (s.mgrs ++ [_])[m]? = some mg
    rw [List.getElem?_append_left (List.getElem?_eq_some_iff.mp h).1]; exact h
  | dropManager m =>
    refine ⟨?_, rcvsStep_refl s⟩
    intro m' mg h
    have hlt := (List.getElem?_eq_some_iff.mp h).1
    by_cases hm : m' = m
    · subst hm
      refine ⟨⟨false, []⟩, ?_, fun hne => absurd rfl hne, fun _ => rfl⟩
      show (s.mgrs.set m' _)[m']? = _
      exact List.getElem?_set_self hlt
    · refine ⟨mg, ?_, fun _ => MgrGrows.refl mg, fun e => ?_⟩
      · show (s.mgrs.set m _)[m']? = _
        rw [List.getElem?_set_ne (Ne.symm hm)]; exact h
      · exact absurd (Option.some.inj e) hm
  | newReceiver T =>
    refine ⟨mgrsGrow_refl s, ?_⟩
    intro r ri h
    refine ⟨ri, ?_, rfl, id, fun e => by cases e⟩
    show (s.rcvs ++ [_])[r]? = some ri
    rw [List.getElem?_append_left (List.getElem?_eq_some_iff.mp h).1]; exact h
  | subscribeFn m T =>
    simp only [legal] at hl
    rcases mgrAlive_iff.mp hl with ⟨mg, hmg, _⟩
    have he : exec s (.subscribeFn m T) =
        (afterSubscribe { s with rcvs := s.rcvs ++ [⟨T, true, none⟩] } m mg s.rcvs.length ⟨T, true, none⟩,
          .rcv s.rcvs.length) := by
      show orUb (doSubscribe { s with rcvs := s.rcvs ++ [⟨T, true, none⟩] } m s.rcvs.length ⟨T, true, none⟩) _ _ = _
      rw [doSubscribe_eq (s := { s with rcvs := s.rcvs ++ [⟨T, true, none⟩] }) _ _ hmg]
      rfl
    rw [he]
    refine ⟨fun m' mg0 h0 => afterSlot_mgrsGrow (s := { s with rcvs := s.rcvs ++ [⟨T, true, none⟩] }) T (· ++ [s.rcvs.length]) hmg m' mg0 h0, ?_⟩
    intro r ri h
    have hlt := (List.getElem?_eq_some_iff.mp h).1
    refine ⟨ri, ?_, rfl, id, fun e => by cases e⟩
    show ((s.rcvs ++ [_]).set s.rcvs.length _)[r]? = some ri
    rw [List.getElem?_set_ne (by omega), List.getElem?_append_left hlt]; exact h
  | subscribe m r =>
    simp only [legal, Bool.and_eq_true, Bool.not_eq_true'] at hl
    rcases hl with ⟨⟨hm, hr⟩, _⟩
    rcases mgrAlive_iff.mp hm with ⟨mg, hmg, _⟩
    rcases rcvAlive_iff.mp hr with ⟨ri, hri, hra⟩
    have he : exec s (.subscribe m r) = (afterSubscribe s m mg r ri, .ok) := by
      simp only [exec, hri, doSubscribe_eq r ri hmg, orUb]
    rw [he]
    refine ⟨fun m' mg0 h0 => afterSlot_mgrsGrow ri.ty (· ++ [r]) hmg m' mg0 h0, ?_⟩
    intro r' ri' h
    have hlt := (List.getElem?_eq_some_iff.mp hri).1
    by_cases hr' : r' = r
    · subst hr'
      rw [hri] at h; cases h
      refine ⟨{ ri with home := some m }, ?_, rfl, id, fun e => by cases e⟩
      show (s.rcvs.set r' _)[r']? = _
      exact List.getElem?_set_self hlt
    · refine ⟨ri', ?_, rfl, id, fun e => by cases e⟩
      show (s.rcvs.set r _)[r']? = _
      rw [List.getElem?_set_ne (Ne.symm hr')]; exact h
  | unsubscribe r =>
    simp only [legal] at hl
    rcases rcvAlive_iff.mp hl with ⟨ri, hri, _⟩
    rcases doUnsubscribe_cases s r ri with h | ⟨m, mg, hmg, h⟩
    · have he : exec s (.unsubscribe r) = (s, .ok) := by simp only [exec, hri, h, orUb]
      rw [he]; exact ⟨mgrsGrow_refl s, rcvsStep_refl s⟩
    · have he : exec s (.unsubscribe r) = (afterSlot s m mg ri.ty (·.erase r), .ok) := by
        simp only [exec, hri, h, orUb]
      rw [he]; exact ⟨afterSlot_mgrsGrow _ _ hmg, rcvsStep_refl s⟩
  | unsubscribeAt m r =>
    simp only [legal, Bool.and_eq_true] at hl
    rcases hl with ⟨hm, hr⟩
    rcases mgrAlive_iff.mp hm with ⟨mg, hmg, _⟩
    rcases rcvAlive_iff.mp hr with ⟨ri, hri, _⟩
    have he : exec s (.unsubscribeAt m r) = (afterSlot s m mg ri.ty (·.erase r), .ok) := by
      simp only [exec, hri, doUnsubscribeAt_eq r ri hmg, orUb]
    rw [he]; exact ⟨afterSlot_mgrsGrow _ _ hmg, rcvsStep_refl s⟩
  | dropReceiver r =>
    simp only [legal] at hl
    rcases rcvAlive_iff.mp hl with ⟨ri, hri, _⟩
    have hlt := (List.getElem?_eq_some_iff.mp hri).1
    have key : ∀ s1 : State, s1.rcvs = s.rcvs →
        RcvsStep (some r) s { s1 with rcvs := s1.rcvs.set r { ri with alive := false } } := by
      intro s1 h1 r' ri' h
      by_cases hr' : r' = r
      · subst hr'
        rw [hri] at h; cases h
        refine ⟨{ ri with alive := false }, ?_, rfl, (fun e => by cases e), fun _ => rfl⟩
        show (s1.rcvs.set r' _)[r']? = _
        rw [h1]; exact List.getElem?_set_self hlt
      · refine ⟨ri', ?_, rfl, id, fun e => absurd (Option.some.inj e) hr'⟩
        show (s1.rcvs.set r _)[r']? = _
        rw [h1, List.getElem?_set_ne (Ne.symm hr')]; exact h
    rcases doUnsubscribe_cases s r ri with h | ⟨m, mg, hmg, h⟩
    · have he : exec s (.dropReceiver r) = ({ s with rcvs := s.rcvs.set r { ri with alive := false } }, .ok) := by
        simp only [exec, hri, h]
      rw [he]; exact ⟨mgrsGrow_refl s, key s rfl⟩
    · have he : exec s (.dropReceiver r) =
          ({ afterSlot s m mg ri.ty (·.erase r) with
              rcvs := (afterSlot s m mg ri.ty (·.erase r)).rcvs.set r { ri with alive := false } }, .ok) := by
        simp only [exec, hri, h]
      rw [he]; exact ⟨fun m' mg0 h0 => afterSlot_mgrsGrow ri.ty (·.erase r) hmg m' mg0 h0, key _ rfl⟩
  | post m T =>
    simp only [legal] at hl
    rcases mgrAlive_iff.mp hl with ⟨mg, hmg, _⟩
    have he : exec s (.post m T) = (afterSlot s m mg T id, .delivered (slotList mg.slots (register s.typeIds T).2)) := by
      simp only [exec, withSlot_eq T id hmg]
    rw [he]; exact ⟨afterSlot_mgrsGrow _ _ hmg, rcvsStep_refl s⟩

theorem step_illegal {s : State} {op : Op} (hl : legal s op = false) : step s op = (s, .illegal) := by
  unfold step; simp [hl]

/-! ## dead stays dead -/

def MgrDead (s : State) (m : Nat) : Prop := ∃ mg, s.mgrs[m]? = some mg ∧ mg.alive = false
def RcvDead (s : State) (r : Nat) : Prop := ∃ ri, s.rcvs[r]? = some ri ∧ ri.alive = false

theorem step_keeps_mgrDead {s : State} {m : Nat} (op : Op) (h : MgrDead s m) : MgrDead (step s op).1 m := by
  cases hl : legal s op with
  | false => rw [step_illegal hl]; exact h
  | true =>
    rw [step_legal hl]
    rcases h with ⟨mg, hmg, hd⟩
    rcases (exec_effect op hl).1 m mg hmg with ⟨mg', hmg', hgrow, hdrop⟩
    refine ⟨mg', hmg', ?_⟩
    by_cases hx : some m = droppedMgr op
    · exact hdrop hx
    · rw [(hgrow hx).alive]; exact hd

theorem step_keeps_rcvDead {s : State} {r : Nat} (op : Op) (h : RcvDead s r) : RcvDead (step s op).1 r := by
  cases hl : legal s op with
  | false => rw [step_illegal hl]; exact h
  | true =>
    rw [step_legal hl]
    rcases h with ⟨ri, hri, hd⟩
    rcases (exec_effect op hl).2 r ri hri with ⟨ri', hri', _, hmono, _⟩
    refine ⟨ri', hri', ?_⟩
    cases ha : ri'.alive with
    | false => rfl
    | true => rw [hmono ha] at hd; cases hd

theorem run_keeps_mgrDead {m : Nat} (h : List Op) : ∀ {s : State}, MgrDead s m → MgrDead (runFrom s h).1 m := by
  induction h with
  | nil => intro s hd; exact hd
  | cons op t ih => intro s hd; exact ih (step_keeps_mgrDead op hd)

theorem run_keeps_rcvDead {r : Nat} (h : List Op) : ∀ {s : State}, RcvDead s r → RcvDead (runFrom s h).1 r := by
  induction h with
  | nil => intro s hd; exact hd
  | cons op t ih => intro s hd; exact ih (step_keeps_rcvDead op hd)

theorem legal_dropManager_dead {s : State} {m : Nat} (hl : legal s (.dropManager m) = true) :
    MgrDead (step s (.dropManager m)).1 m := by
  rw [step_legal hl]
  have hm : mgrAlive s m = true := hl
  rcases mgrAlive_iff.mp hm with ⟨mg, hmg, _⟩
  rcases (exec_effect (.dropManager m) hl).1 m mg hmg with ⟨mg', hmg', _, hdrop⟩
  exact ⟨mg', hmg', hdrop rfl⟩

theorem legal_dropReceiver_dead {s : State} {r : Nat} (hl : legal s (.dropReceiver r) = true) :
    RcvDead (step s (.dropReceiver r)).1 r := by
  rw [step_legal hl]
  have hr : rcvAlive s r = true := hl
  rcases rcvAlive_iff.mp hr with ⟨ri, hri, _⟩
  rcases (exec_effect (.dropReceiver r) hl).2 r ri hri with ⟨ri', hri', _, _, hdrop⟩
  exact ⟨ri', hri', hdrop rfl⟩

theorem dropManager_mem_dead {m : Nat} (h : List Op) :
    ∀ {s : State}, legalFrom s h = true → Op.dropManager m ∈ h → MgrDead (runFrom s h).1 m := by
  induction h with
  | nil => intro s _ hm; cases hm
  | cons op t ih =>
    intro s hl hm
    simp only [legalFrom, Bool.and_eq_true] at hl
    by_cases ho : op = .dropManager m
    · subst ho
      exact run_keeps_mgrDead t (legal_dropManager_dead hl.1)
    · have : Op.dropManager m ∈ t := by
        rcases List.mem_cons.mp hm with e | e
        · exact absurd e.symm ho
        · exact e
      exact ih hl.2 this

theorem dropReceiver_mem_dead {r : Nat} (h : List Op) :
    ∀ {s : State}, legalFrom s h = true → Op.dropReceiver r ∈ h → RcvDead (runFrom s h).1 r := by
  induction h with
  | nil => intro s _ hm; cases hm
  | cons op t ih =>
    intro s hl hm
    simp only [legalFrom, Bool.and_eq_true] at hl
    by_cases ho : op = .dropReceiver r
    · subst ho
      exact run_keeps_rcvDead t (legal_dropReceiver_dead hl.1)
    · have : Op.dropReceiver r ∈ t := by
        rcases List.mem_cons.mp hm with e | e
        · exact absurd e.symm ho
        · exact e
      exact ih hl.2 this

/-! ## the simulation over a whole history -/

theorem run_sim (h : List Op) : ∀ {s : State} {sp : SState}, Inv s → Sim s sp → legalFrom s h = true →
    Inv (runFrom s h).1 ∧ Sim (runFrom s h).1 (Mustache.Spec.Events.runFrom sp h).1 ∧
      (runFrom s h).2 = (Mustache.Spec.Events.runFrom sp h).2 := by
  induction h with
  | nil => intro s sp hI hS _; exact ⟨hI, hS, rfl⟩
  | cons op t ih =>
    intro s sp hI hS hl
    simp only [legalFrom, Bool.and_eq_true] at hl
    have hstep := step_sim hI hS op hl.1
    rcases ih hstep.inv hstep.sim hl.2 with ⟨hI', hS', hO'⟩
    refine ⟨hI', hS', ?_⟩
    show (step s op).2 :: (runFrom (step s op).1 t).2 = _ :: (Mustache.Spec.Events.runFrom _ t).2
    rw [hstep.out, hO']

theorem runFrom_append (h1 h2 : List Op) : ∀ (s : State),
    runFrom s (h1 ++ h2) =
      ((runFrom (runFrom s h1).1 h2).1, (runFrom s h1).2 ++ (runFrom (runFrom s h1).1 h2).2) := by
  induction h1 with
  | nil => intro s; rfl
  | cons op t ih =>
    intro s
    simp only [List.cons_append, runFrom, ih]

theorem spec_runFrom_append (h1 h2 : List Op) : ∀ (sp : SState),
    Mustache.Spec.Events.runFrom sp (h1 ++ h2) =
      ((Mustache.Spec.Events.runFrom (Mustache.Spec.Events.runFrom sp h1).1 h2).1,
        (Mustache.Spec.Events.runFrom sp h1).2 ++
          (Mustache.Spec.Events.runFrom (Mustache.Spec.Events.runFrom sp h1).1 h2).2) := by
  induction h1 with
  | nil => intro sp; rfl
  | cons op t ih =>
    intro sp
    simp only [List.cons_append, Mustache.Spec.Events.runFrom, ih]

theorem legalFrom_append (h1 h2 : List Op) : ∀ (s : State),
    legalFrom s (h1 ++ h2) = (legalFrom s h1 && legalFrom (runFrom s h1).1 h2) := by
  induction h1 with
  | nil => intro s; simp [legalFrom, runFrom]
  | cons op t ih =>
    intro s
    simp only [List.cons_append, legalFrom, runFrom, ih, Bool.and_assoc]

/-- slot tables along a history in which the manager is not dropped -/
theorem run_mgrGrows {m : Nat} (h : List Op) : ∀ {s : State} {mg : Mgr},
    s.mgrs[m]? = some mg → Op.dropManager m ∉ h →
    ∃ mg', (runFrom s h).1.mgrs[m]? = some mg' ∧ MgrGrows mg mg' := by
  induction h with
  | nil => intro s mg hmg _; exact ⟨mg, hmg, MgrGrows.refl mg⟩
  | cons op t ih =>
    intro s mg hmg hno
    have hop : op ≠ .dropManager m := fun e => hno (e ▸ List.mem_cons_self)
    have hno' : Op.dropManager m ∉ t := fun e => hno (List.mem_cons_of_mem _ e)
    have hstep : ∃ mg1, (step s op).1.mgrs[m]? = some mg1 ∧ MgrGrows mg mg1 := by
      cases hl : legal s op with
      | false => rw [step_illegal hl]; exact ⟨mg, hmg, MgrGrows.refl mg⟩
      | true =>
        rw [step_legal hl]
        rcases (exec_effect op hl).1 m mg hmg with ⟨mg1, hmg1, hgrow, _⟩
        refine ⟨mg1, hmg1, hgrow ?_⟩
        intro e
        cases op <;> simp [droppedMgr] at e
        exact hop (by rw [e])
    rcases hstep with ⟨mg1, hmg1, hg1⟩
    rcases ih hmg1 hno' with ⟨mg', hmg', hg'⟩
    exact ⟨mg', hmg', hg1.trans hg'⟩

end Mustache.Proofs.Events

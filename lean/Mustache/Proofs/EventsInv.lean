import Mustache.Proofs.EventsSlot
import Mustache.Spec.Events
/-!
Invariant of the event-manager model and the simulation relation model ↔ specification.
Per-operation effect on `lookup`; preservation is assembled in `EventsRefine.lean`.
-/
namespace Mustache.Proofs.Events
open Mustache.Model.Events

abbrev SState := Mustache.Spec.Events.State

/-- well-formedness of a model state -/
structure Inv (s : State) : Prop where
  /-- no slot beyond the ids handed out so far -/
  bounded : SlotsBounded s
  /-- whoever is stored in the list of `(m, T)` is a live receiver of type `T` whose `events_` points to `m` -/
  info : ∀ (m : Nat) (T : TypeName) (r : Nat), r ∈ lookup s m T →
    ∃ ri, s.rcvs[r]? = some ri ∧ ri.alive = true ∧ ri.ty = T ∧ ri.home = some m
  /-- nobody is stored twice -/
  nodup : ∀ (m : Nat) (T : TypeName), (lookup s m T).Nodup

/-- the specification state `sp` describes the model state `s` -/
structure Sim (s : State) (sp : SState) : Prop where
  nMgr : sp.nMgr = s.mgrs.length
  nRcv : sp.nRcv = s.rcvs.length
  rty : ∀ (r : Nat) (ri : RcvInfo), s.rcvs[r]? = some ri → sp.rty r = ri.ty
  subs : ∀ (m : Nat) (T : TypeName), sp.subs m T = lookup s m T

theorem inv_init : Inv State.init := by
  refine ⟨?_, ?_, ?_⟩
  · intro m mg h; simp [State.init] at h
  · intro m T r h; simp [lookup, State.init] at h
  · intro m T; simp [lookup, State.init]

theorem sim_init : Sim State.init Mustache.Spec.Events.State.init := by
  refine ⟨rfl, rfl, ?_, ?_⟩
  · intro r ri h; simp [State.init] at h
  · intro m T; simp [lookup, State.init, Mustache.Spec.Events.State.init]

theorem lookup_with_rcvs (s : State) (x : List RcvInfo) (m : Nat) (T : TypeName) :
    lookup { s with rcvs := x } m T = lookup s m T := rfl

/-- under the invariant, "not in the list of its home" means "in no list at all" -/
theorem not_subscribed_anywhere {s : State} (hI : Inv s) {r : Nat}
    (hn : subscribedAtHome s r = false) (m : Nat) (T : TypeName) : r ∉ lookup s m T := by
  intro hmem
  rcases hI.info m T r hmem with ⟨ri, hri, _, hty, hhome⟩
  unfold subscribedAtHome at hn
  rw [hri] at hn
  simp only [hhome, hty] at hn
  have : (lookup s m T).contains r = true := by simpa using hmem
  rw [this] at hn
  cases hn

/-- a receiver sits in at most one list -/
theorem single_home {s : State} (hI : Inv s) {r : Nat} {m m' : Nat} {T T' : TypeName}
    (h : r ∈ lookup s m T) (h' : r ∈ lookup s m' T') : m' = m ∧ T' = T := by
  rcases hI.info m T r h with ⟨ri, hri, _, hty, hhome⟩
  rcases hI.info m' T' r h' with ⟨ri', hri', _, hty', hhome'⟩
  rw [hri] at hri'
  cases hri'
  rw [hhome] at hhome'
  cases hhome'
  exact ⟨rfl, hty'.symm.trans hty |>.symm ▸ rfl⟩

/-! ## `subscribe_` -/

/-- state after `subscribe_<T>(r)` on manager `m` -/
def afterSubscribe (s : State) (m : Nat) (mg : Mgr) (r : Nat) (ri : RcvInfo) : State :=
  { afterSlot s m mg ri.ty (· ++ [r]) with rcvs := s.rcvs.set r { ri with home := some m } }

theorem lookup_afterSubscribe {s : State} (hI : Inv s) {m : Nat} {mg : Mgr} {r : Nat} {ri : RcvInfo}
    (hmg : s.mgrs[m]? = some mg) (ha : mg.alive = true) (m' : Nat) (T' : TypeName) :
    lookup (afterSubscribe s m mg r ri) m' T' =
      if m' = m ∧ T' = ri.ty then lookup s m' T' ++ [r] else lookup s m' T' := by
  unfold afterSubscribe
  rw [lookup_with_rcvs]
  by_cases h : m' = m ∧ T' = ri.ty
  · rcases h with ⟨rfl, rfl⟩
    simp only [and_self, if_true]
    exact lookup_afterSlot_self _ _ hI.bounded hmg ha
  · simp only [h, if_false]
    apply lookup_afterSlot_other _ _ hI.bounded hmg
    by_cases hm : m' = m
    · right; intro hT; exact h ⟨hm, hT⟩
    · left; exact hm

theorem inv_afterSubscribe {s : State} (hI : Inv s) {m : Nat} {mg : Mgr} {r : Nat} {ri : RcvInfo}
    (hmg : s.mgrs[m]? = some mg) (ha : mg.alive = true) (hri : s.rcvs[r]? = some ri)
    (hra : ri.alive = true) (hfree : ∀ m' T', r ∉ lookup s m' T') :
    Inv (afterSubscribe s m mg r ri) := by
  have hrlt : r < s.rcvs.length := (List.getElem?_eq_some_iff.mp hri).1
  refine ⟨?_, ?_, ?_⟩
  · exact afterSlot_bounded ri.ty (· ++ [r]) hI.bounded hmg
  · intro m' T' r' hmem
    rw [lookup_afterSubscribe hI hmg ha] at hmem
    have hrcvs : (afterSubscribe s m mg r ri).rcvs = s.rcvs.set r { ri with home := some m } := rfl
    rw [hrcvs]
    by_cases h : m' = m ∧ T' = ri.ty
    · rcases h with ⟨rfl, rfl⟩
      simp only [and_self, if_true, List.mem_append, List.mem_singleton] at hmem
      rcases hmem with hold | rfl
      · have hne : r' ≠ r := fun e => hfree m' ri.ty (e ▸ hold)
        rw [List.getElem?_set_ne (Ne.symm hne)]
        exact hI.info m' ri.ty r' hold
      · exact ⟨_, List.getElem?_set_self hrlt, hra, rfl, rfl⟩
    · simp only [h, if_false] at hmem
      have hne : r' ≠ r := fun e => hfree m' T' (e ▸ hmem)
      rw [List.getElem?_set_ne (Ne.symm hne)]
      exact hI.info m' T' r' hmem
  · intro m' T'
    rw [lookup_afterSubscribe hI hmg ha]
    by_cases h : m' = m ∧ T' = ri.ty
    · simp only [h, and_self, if_true]
      rw [List.nodup_append]
      refine ⟨hI.nodup _ _, by simp, ?_⟩
      intro a ha' b hb
      simp only [List.mem_singleton] at hb
      subst hb
      intro e; subst e
      exact hfree _ _ ha'
    · simp only [h, if_false]; exact hI.nodup _ _

/-! ## `EventManager::unsubscribe` -/

theorem lookup_afterErase {s : State} (hI : Inv s) {m : Nat} {mg : Mgr} (r : Nat) (T : TypeName)
    (hmg : s.mgrs[m]? = some mg) (ha : mg.alive = true) (m' : Nat) (T' : TypeName) :
    lookup (afterSlot s m mg T (·.erase r)) m' T' =
      if m' = m ∧ T' = T then (lookup s m' T').filter (· != r) else lookup s m' T' := by
  by_cases h : m' = m ∧ T' = T
  · rcases h with ⟨rfl, rfl⟩
    simp only [and_self, if_true]
    rw [lookup_afterSlot_self _ _ hI.bounded hmg ha]
    exact (hI.nodup m' T').erase_eq_filter r
  · simp only [h, if_false]
    apply lookup_afterSlot_other _ _ hI.bounded hmg
    by_cases hm : m' = m
    · right; intro hT; exact h ⟨hm, hT⟩
    · left; exact hm

theorem inv_afterErase {s : State} (hI : Inv s) {m : Nat} {mg : Mgr} (r : Nat) (T : TypeName)
    (hmg : s.mgrs[m]? = some mg) (ha : mg.alive = true) :
    Inv (afterSlot s m mg T (·.erase r)) := by
  refine ⟨afterSlot_bounded _ _ hI.bounded hmg, ?_, ?_⟩
  · intro m' T' r' hmem
    rw [lookup_afterErase hI r T hmg ha] at hmem
    rw [afterSlot_rcvs]
    apply hI.info m' T' r'
    by_cases h : m' = m ∧ T' = T
    · simp only [h, and_self, if_true] at hmem
      simp only [h]
      exact (List.mem_filter.mp hmem).1
    · simpa only [h, if_false] using hmem
  · intro m' T'
    rw [lookup_afterErase hI r T hmg ha]
    by_cases h : m' = m ∧ T' = T
    · simp only [h, and_self, if_true]
      exact (hI.nodup _ _).filter _
    · simp only [h, if_false]; exact hI.nodup _ _

/-- erasing `r` from the list of its home is erasing it everywhere -/
theorem filter_everywhere {s : State} (hI : Inv s) {r : Nat} {ri : RcvInfo} {m : Nat}
    (hri : s.rcvs[r]? = some ri) (hhome : ri.home = some m) (m' : Nat) (T' : TypeName) :
    (if m' = m ∧ T' = ri.ty then (lookup s m' T').filter (· != r) else lookup s m' T') =
      (lookup s m' T').filter (· != r) := by
  by_cases h : m' = m ∧ T' = ri.ty
  · simp only [h, and_self, if_true]
  · simp only [h, if_false]
    symm
    rw [List.filter_eq_self]
    intro a ha
    have : a ≠ r := by
      intro e; subst e
      rcases hI.info m' T' a ha with ⟨ri', hri', _, hty, hh⟩
      rw [hri] at hri'; cases hri'
      rw [hhome] at hh; cases hh
      exact h ⟨rfl, hty.symm⟩
    simpa using this

/-- a receiver whose manager is gone (or that never subscribed) is in no list -/
theorem filter_noop {s : State} (hI : Inv s) {r : Nat} {ri : RcvInfo}
    (hri : s.rcvs[r]? = some ri)
    (hhome : ∀ m, ri.home = some m → mgrAlive s m = false) (m' : Nat) (T' : TypeName) :
    lookup s m' T' = (lookup s m' T').filter (· != r) := by
  symm
  rw [List.filter_eq_self]
  intro a ha
  have : a ≠ r := by
    intro e; subst e
    rcases hI.info m' T' a ha with ⟨ri', hri', _, _, hh⟩
    rw [hri] at hri'; cases hri'
    have h1 := hhome m' hh
    rw [mgrAlive_of_mem_lookup ha] at h1
    cases h1
  simpa using this

end Mustache.Proofs.Events

import Mustache.Proofs.EventsInv
/-!
One step of the model simulates one step of the specification (and keeps the invariant),
for every operation within the contract.
-/
namespace Mustache.Proofs.Events
open Mustache.Model.Events

/-- what one legal step establishes -/
structure StepOk (s : State) (sp : SState) (op : Op) : Prop where
  inv : Inv (step s op).1
  sim : Sim (step s op).1 (Mustache.Spec.Events.step sp op).1
  out : (step s op).2 = (Mustache.Spec.Events.step sp op).2

theorem step_legal {s : State} {op : Op} (hl : legal s op = true) : step s op = exec s op := by
  unfold step
  rw [if_pos hl]

/-! ## lookups after the simple operations -/

theorem lookup_newManager (s : State) (m : Nat) (T : TypeName) :
    lookup { s with mgrs := s.mgrs ++ [⟨true, []⟩] } m T = lookup s m T := by
  unfold lookup
  dsimp only
  by_cases h : m < s.mgrs.length
  · rw [List.getElem?_append_left h]
  · rw [List.getElem?_append_right (by omega), List.getElem?_eq_none (l := s.mgrs) (by omega)]
    by_cases h2 : m - s.mgrs.length = 0
    · rw [h2]
      simp only [List.getElem?_cons_zero, lookupIn, if_true]
      cases idOf s.typeIds T with
      | none => rfl
      | some j => exact slotList_of_length_le (Nat.zero_le _)
    · rw [List.getElem?_eq_none (by simp; omega)]

theorem lookup_dropManager (s : State) (m m' : Nat) (T : TypeName) :
    lookup { s with mgrs := s.mgrs.set m ⟨false, []⟩ } m' T = if m' = m then [] else lookup s m' T := by
  unfold lookup
  dsimp only
  by_cases h : m' = m
  · subst h
    simp only [if_true]
    by_cases hlt : m' < s.mgrs.length
    · rw [List.getElem?_set_self hlt]; simp [lookupIn]
    · rw [List.getElem?_eq_none (by simp; omega)]
  · simp only [h, if_false]
    rw [List.getElem?_set_ne (Ne.symm h)]

theorem sim_newManager {s : State} {sp : SState} (hI : Inv s) (hS : Sim s sp) :
    StepOk s sp .newManager := by
  have hst : step s .newManager = ({ s with mgrs := s.mgrs ++ [⟨true, []⟩] }, Out.mgr s.mgrs.length) :=
    step_legal (s := s) (op := .newManager) rfl
  refine ⟨?_, ?_, ?_⟩
  · rw [hst]
    refine ⟨?_, ?_, ?_⟩
    · intro m mg h
      dsimp only at h ⊢
      by_cases hlt : m < s.mgrs.length
      · rw [List.getElem?_append_left hlt] at h; exact hI.bounded m mg h
      · rw [List.getElem?_append_right (by omega)] at h
        by_cases h2 : m - s.mgrs.length = 0
        · rw [h2] at h; simp at h; subst h; simp
        · rw [List.getElem?_eq_none (by simp; omega)] at h; cases h
    · intro m T r h
      dsimp only at h ⊢
      rw [lookup_newManager] at h
      exact hI.info m T r h
    · intro m T; dsimp only; rw [lookup_newManager]; exact hI.nodup m T
  · rw [hst]
    refine ⟨?_, hS.nRcv, hS.rty, ?_⟩
    · simp [Mustache.Spec.Events.step, hS.nMgr]
    · intro m T; dsimp only; rw [lookup_newManager]; exact hS.subs m T
  · rw [hst]; simp [Mustache.Spec.Events.step, hS.nMgr]

theorem sim_dropManager {s : State} {sp : SState} (hI : Inv s) (hS : Sim s sp) (m : Nat)
    (hl : legal s (.dropManager m) = true) : StepOk s sp (.dropManager m) := by
  have hst : step s (.dropManager m) = ({ s with mgrs := s.mgrs.set m ⟨false, []⟩ }, Out.ok) := step_legal hl
  refine ⟨?_, ?_, ?_⟩
  · rw [hst]
    refine ⟨?_, ?_, ?_⟩
    · intro m' mg h
      dsimp only at h ⊢
      by_cases hm : m' = m
      · subst hm
        by_cases hlt : m' < s.mgrs.length
        · rw [List.getElem?_set_self hlt] at h; cases h; simp
        · rw [List.getElem?_eq_none (by simp; omega)] at h; cases h
      · rw [List.getElem?_set_ne (Ne.symm hm)] at h; exact hI.bounded m' mg h
    · intro m' T r h
      dsimp only at h ⊢
      rw [lookup_dropManager] at h
      by_cases hm : m' = m
      · simp [hm] at h
      · simp only [hm, if_false] at h; exact hI.info m' T r h
    · intro m' T
      dsimp only
      rw [lookup_dropManager]
      by_cases hm : m' = m
      · simp [hm]
      · simp only [hm, if_false]; exact hI.nodup m' T
  · rw [hst]
    refine ⟨?_, hS.nRcv, hS.rty, ?_⟩
    · simp [Mustache.Spec.Events.step, hS.nMgr]
    · intro m' T
      dsimp only [Mustache.Spec.Events.step]
      rw [lookup_dropManager, hS.subs]
  · rw [hst]; rfl

theorem inv_newReceiver {s : State} (hI : Inv s) (ri : RcvInfo) :
    Inv { s with rcvs := s.rcvs ++ [ri] } := by
  refine ⟨hI.bounded, ?_, hI.nodup⟩
  intro m T r h
  rw [lookup_with_rcvs] at h
  rcases hI.info m T r h with ⟨ri', hri', rest⟩
  refine ⟨ri', ?_, rest⟩
  dsimp only
  rw [List.getElem?_append_left (List.getElem?_eq_some_iff.mp hri').1]
  exact hri'

theorem sim_newReceiver_state {s : State} {sp : SState} (hS : Sim s sp) (T : TypeName) :
    Sim { s with rcvs := s.rcvs ++ [⟨T, true, none⟩] }
      { sp with nRcv := sp.nRcv + 1, rty := fun r => if r = sp.nRcv then T else sp.rty r } := by
  refine ⟨hS.nMgr, ?_, ?_, hS.subs⟩
  · simp [hS.nRcv]
  · intro r ri h
    dsimp only at h ⊢
    by_cases hlt : r < s.rcvs.length
    · rw [List.getElem?_append_left hlt] at h
      have : r ≠ sp.nRcv := by rw [hS.nRcv]; omega
      simp only [this, if_false]
      exact hS.rty r ri h
    · rw [List.getElem?_append_right (by omega)] at h
      by_cases h2 : r - s.rcvs.length = 0
      · rw [h2] at h; simp at h; subst h
        have : r = sp.nRcv := by rw [hS.nRcv]; omega
        simp [this]
      · rw [List.getElem?_eq_none (by simp; omega)] at h; cases h

theorem sim_newReceiver {s : State} {sp : SState} (hI : Inv s) (hS : Sim s sp) (T : TypeName) :
    StepOk s sp (.newReceiver T) := by
  have hst : step s (.newReceiver T) = ({ s with rcvs := s.rcvs ++ [⟨T, true, none⟩] }, Out.rcv s.rcvs.length) :=
    step_legal (s := s) (op := .newReceiver T) rfl
  refine ⟨?_, ?_, ?_⟩
  · rw [hst]; exact inv_newReceiver hI _
  · rw [hst]; exact sim_newReceiver_state hS T
  · rw [hst]; simp [Mustache.Spec.Events.step, hS.nRcv]

/-! ## subscribe -/

theorem doSubscribe_eq {s : State} {m : Nat} {mg : Mgr} (r : Nat) (ri : RcvInfo)
    (hmg : s.mgrs[m]? = some mg) :
    doSubscribe s m r ri = some (afterSubscribe s m mg r ri) := by
  unfold doSubscribe
  rw [withSlot_eq _ _ hmg]
  rfl

theorem sim_afterSubscribe {s : State} {sp : SState} (hI : Inv s) (hS : Sim s sp)
    {m : Nat} {mg : Mgr} {r : Nat} {ri : RcvInfo}
    (hmg : s.mgrs[m]? = some mg) (ha : mg.alive = true) (hri : s.rcvs[r]? = some ri)
    {r' : Nat} (hr' : r' = r) :
    Sim (afterSubscribe s m mg r ri)
      { sp with subs := Mustache.Spec.Events.addSub sp.subs m ri.ty r' } := by
  rw [hr']
  refine ⟨?_, ?_, ?_, ?_⟩
  · show sp.nMgr = (afterSlot s m mg ri.ty (· ++ [r])).mgrs.length
    rw [afterSlot_mgrs_length]; exact hS.nMgr
  · show sp.nRcv = (s.rcvs.set r { ri with home := some m }).length
    simp [hS.nRcv]
  · intro r' ri' h
    have h' : (s.rcvs.set r { ri with home := some m })[r']? = some ri' := h
    by_cases hr : r' = r
    · subst hr
      rw [List.getElem?_set_self (List.getElem?_eq_some_iff.mp hri).1] at h'
      cases h'
      exact hS.rty r' ri hri
    · rw [List.getElem?_set_ne (Ne.symm hr)] at h'
      exact hS.rty r' ri' h'
  · intro m' T'
    rw [lookup_afterSubscribe hI hmg ha]
    show Mustache.Spec.Events.addSub sp.subs m ri.ty r m' T' = _
    unfold Mustache.Spec.Events.addSub
    rw [hS.subs]

theorem sim_subscribe {s : State} {sp : SState} (hI : Inv s) (hS : Sim s sp) (m : Nat) (r : Nat)
    (hl : legal s (.subscribe m r) = true) : StepOk s sp (.subscribe m r) := by
  have hst : step s (.subscribe m r) = _ := step_legal hl
  simp only [legal, Bool.and_eq_true, Bool.not_eq_true'] at hl
  rcases hl with ⟨⟨hm, hr⟩, hfree⟩
  rcases mgrAlive_iff.mp hm with ⟨mg, hmg, ha⟩
  rcases rcvAlive_iff.mp hr with ⟨ri, hri, hra⟩
  simp only [exec, hri, doSubscribe_eq r ri hmg, orUb] at hst
  have hrty : sp.rty r = ri.ty := hS.rty r ri hri
  refine ⟨?_, ?_, ?_⟩
  · rw [hst]
    exact inv_afterSubscribe hI hmg ha hri hra (not_subscribed_anywhere hI hfree)
  · rw [hst]
    show Sim _ { sp with subs := Mustache.Spec.Events.addSub sp.subs m (sp.rty r) r }
    rw [hrty]
    exact sim_afterSubscribe hI hS hmg ha hri rfl
  · rw [hst]; rfl

theorem sim_subscribeFn {s : State} {sp : SState} (hI : Inv s) (hS : Sim s sp) (m : Nat) (T : TypeName)
    (hl : legal s (.subscribeFn m T) = true) : StepOk s sp (.subscribeFn m T) := by
  have hst : step s (.subscribeFn m T) = _ := step_legal hl
  simp only [legal] at hl
  rcases mgrAlive_iff.mp hl with ⟨mg, hmg, ha⟩
  let ri : RcvInfo := ⟨T, true, none⟩
  let s0 : State := { s with rcvs := s.rcvs ++ [ri] }
  have hI0 : Inv s0 := inv_newReceiver hI ri
  have hS0 := sim_newReceiver_state hS T
  have hmg0 : s0.mgrs[m]? = some mg := hmg
  have hri0 : s0.rcvs[s.rcvs.length]? = some ri := by
    show (s.rcvs ++ [ri])[s.rcvs.length]? = some ri
    simp
  have hfree : ∀ m' T', s.rcvs.length ∉ lookup s0 m' T' := by
    intro m' T' hmem
    rw [lookup_with_rcvs] at hmem
    rcases hI.info m' T' _ hmem with ⟨ri', hri', _⟩
    have := (List.getElem?_eq_some_iff.mp hri').1
    omega
  have hst' : step s (.subscribeFn m T) = (afterSubscribe s0 m mg s.rcvs.length ri, .rcv s.rcvs.length) := by
    rw [hst]
    show orUb (doSubscribe s0 m s.rcvs.length ri) _ _ = _
    rw [doSubscribe_eq _ _ hmg0]
    rfl
  refine ⟨?_, ?_, ?_⟩
  · rw [hst']
    exact inv_afterSubscribe hI0 hmg0 ha hri0 rfl hfree
  · rw [hst']
    exact sim_afterSubscribe hI0 hS0 hmg0 ha hri0 (r' := sp.nRcv) hS.nRcv
  · rw [hst']; simp [Mustache.Spec.Events.step, hS.nRcv]

/-! ## unsubscribe / destroy / post -/

theorem doUnsubscribeAt_eq {s : State} {m : Nat} {mg : Mgr} (r : Nat) (ri : RcvInfo)
    (hmg : s.mgrs[m]? = some mg) :
    doUnsubscribeAt s m r ri = some (afterSlot s m mg ri.ty (·.erase r)) := by
  unfold doUnsubscribeAt
  rw [withSlot_eq _ _ hmg]

/-- `Receiver::unsubscribe()` removes the receiver from every list, and changes nothing else -/
theorem doUnsubscribe_spec {s : State} (hI : Inv s) {r : Nat} {ri : RcvInfo}
    (hri : s.rcvs[r]? = some ri) :
    ∃ s1, doUnsubscribe s r ri = some s1 ∧ Inv s1 ∧ s1.rcvs = s.rcvs ∧
      s1.mgrs.length = s.mgrs.length ∧
      ∀ m' T', lookup s1 m' T' = (lookup s m' T').filter (· != r) := by
  unfold doUnsubscribe
  cases hh : ri.home with
  | none =>
    refine ⟨s, rfl, hI, rfl, rfl, ?_⟩
    exact filter_noop hI hri (fun m h => by rw [hh] at h; cases h)
  | some m =>
    dsimp only
    cases hm : mgrAlive s m with
    | false =>
      refine ⟨s, by simp, hI, rfl, rfl, ?_⟩
      refine filter_noop hI hri (fun m' h => ?_)
      rw [hh] at h; cases h; exact hm
    | true =>
      rcases mgrAlive_iff.mp hm with ⟨mg, hmg, ha⟩
      refine ⟨afterSlot s m mg ri.ty (·.erase r), ?_, inv_afterErase hI r ri.ty hmg ha, rfl,
        afterSlot_mgrs_length _ _, ?_⟩
      · simp [doUnsubscribeAt_eq r ri hmg]
      · intro m' T'
        rw [lookup_afterErase hI r ri.ty hmg ha]
        exact filter_everywhere hI hri hh m' T'

theorem sim_unsubscribe {s : State} {sp : SState} (hI : Inv s) (hS : Sim s sp) (r : Nat)
    (hl : legal s (.unsubscribe r) = true) : StepOk s sp (.unsubscribe r) := by
  have hst : step s (.unsubscribe r) = _ := step_legal hl
  simp only [legal] at hl
  rcases rcvAlive_iff.mp hl with ⟨ri, hri, _⟩
  rcases doUnsubscribe_spec hI hri with ⟨s1, h1, hI1, hr1, hm1, hl1⟩
  simp only [exec, hri, h1, orUb] at hst
  refine ⟨?_, ?_, ?_⟩
  · rw [hst]; exact hI1
  · rw [hst]
    refine ⟨?_, ?_, ?_, ?_⟩
    · rw [hm1]; exact hS.nMgr
    · rw [hr1]; exact hS.nRcv
    · rw [hr1]; exact hS.rty
    · intro m' T'
      rw [hl1, ← hS.subs]
      rfl
  · rw [hst]; rfl

theorem sim_dropReceiver {s : State} {sp : SState} (hI : Inv s) (hS : Sim s sp) (r : Nat)
    (hl : legal s (.dropReceiver r) = true) : StepOk s sp (.dropReceiver r) := by
  have hst : step s (.dropReceiver r) = _ := step_legal hl
  simp only [legal] at hl
  rcases rcvAlive_iff.mp hl with ⟨ri, hri, _⟩
  rcases doUnsubscribe_spec hI hri with ⟨s1, h1, hI1, hr1, hm1, hl1⟩
  simp only [exec, hri, h1] at hst
  have hnot : ∀ m' T', r ∉ lookup s1 m' T' := by
    intro m' T' hmem
    rw [hl1] at hmem
    have := (List.mem_filter.mp hmem).2
    simp at this
  refine ⟨?_, ?_, ?_⟩
  · rw [hst]
    refine ⟨hI1.bounded, ?_, hI1.nodup⟩
    intro m' T' r' hmem
    rw [lookup_with_rcvs] at hmem
    have hne : r' ≠ r := fun e => hnot m' T' (e ▸ hmem)
    dsimp only
    rw [List.getElem?_set_ne (Ne.symm hne)]
    exact hI1.info m' T' r' hmem
  · rw [hst]
    refine ⟨?_, ?_, ?_, ?_⟩
    · show sp.nMgr = s1.mgrs.length
      rw [hm1]; exact hS.nMgr
    · show sp.nRcv = (s1.rcvs.set r { ri with alive := false }).length
      rw [List.length_set, hr1]; exact hS.nRcv
    · intro r' ri' h
      have h' : (s1.rcvs.set r { ri with alive := false })[r']? = some ri' := h
      rw [hr1] at h'
      by_cases hr : r' = r
      · subst hr
        rw [List.getElem?_set_self (List.getElem?_eq_some_iff.mp hri).1] at h'
        cases h'
        exact hS.rty r' ri hri
      · rw [List.getElem?_set_ne (Ne.symm hr)] at h'
        exact hS.rty r' ri' h'
    · intro m' T'
      rw [lookup_with_rcvs, hl1, ← hS.subs]
      rfl
  · rw [hst]; rfl

theorem sim_unsubscribeAt {s : State} {sp : SState} (hI : Inv s) (hS : Sim s sp) (m : Nat) (r : Nat)
    (hl : legal s (.unsubscribeAt m r) = true) : StepOk s sp (.unsubscribeAt m r) := by
  have hst : step s (.unsubscribeAt m r) = _ := step_legal hl
  simp only [legal, Bool.and_eq_true] at hl
  rcases hl with ⟨hm, hr⟩
  rcases mgrAlive_iff.mp hm with ⟨mg, hmg, ha⟩
  rcases rcvAlive_iff.mp hr with ⟨ri, hri, _⟩
  simp only [exec, hri, doUnsubscribeAt_eq r ri hmg, orUb] at hst
  refine ⟨?_, ?_, ?_⟩
  · rw [hst]; exact inv_afterErase hI r ri.ty hmg ha
  · rw [hst]
    refine ⟨?_, hS.nRcv, hS.rty, ?_⟩
    · rw [afterSlot_mgrs_length]; exact hS.nMgr
    · intro m' T'
      rw [lookup_afterErase hI r ri.ty hmg ha]
      show (if m' = m ∧ T' = sp.rty r then (sp.subs m' T').filter (· != r) else sp.subs m' T') = _
      rw [hS.rty r ri hri, hS.subs]
  · rw [hst]; rfl

theorem sim_post {s : State} {sp : SState} (hI : Inv s) (hS : Sim s sp) (m : Nat) (T : TypeName)
    (hl : legal s (.post m T) = true) : StepOk s sp (.post m T) := by
  have hst : step s (.post m T) = _ := step_legal hl
  simp only [legal] at hl
  rcases mgrAlive_iff.mp hl with ⟨mg, hmg, ha⟩
  simp only [exec, withSlot_eq T id hmg] at hst
  have hsame : ∀ m' T', lookup (afterSlot s m mg T id) m' T' = lookup s m' T' := by
    intro m' T'
    by_cases h : m' = m ∧ T' = T
    · rcases h with ⟨rfl, rfl⟩
      rw [lookup_afterSlot_self _ _ hI.bounded hmg ha]; rfl
    · apply lookup_afterSlot_other _ _ hI.bounded hmg
      by_cases hm : m' = m
      · right; intro hT; exact h ⟨hm, hT⟩
      · left; exact hm
  refine ⟨?_, ?_, ?_⟩
  · rw [hst]
    refine ⟨afterSlot_bounded _ _ hI.bounded hmg, ?_, ?_⟩
    · intro m' T' r h
      dsimp only at h ⊢
      rw [hsame] at h
      rw [afterSlot_rcvs]
      exact hI.info m' T' r h
    · intro m' T'; dsimp only; rw [hsame]; exact hI.nodup m' T'
  · rw [hst]
    refine ⟨?_, hS.nRcv, hS.rty, ?_⟩
    · dsimp only; rw [afterSlot_mgrs_length]; exact hS.nMgr
    · intro m' T'; dsimp only; rw [hsame]; exact hS.subs m' T'
  · rw [hst]
    show Out.delivered (slotList mg.slots (register s.typeIds T).2) = Out.delivered (sp.subs m T)
    rw [hS.subs]
    unfold lookup
    rw [hmg]
    dsimp only
    rw [lookupIn_eq_slotList T (hI.bounded m mg hmg) ha]

/-- every operation within the contract: the model step is a specification step -/
theorem step_sim {s : State} {sp : SState} (hI : Inv s) (hS : Sim s sp) (op : Op)
    (hl : legal s op = true) : StepOk s sp op := by
  cases op with
  | newManager => exact sim_newManager hI hS
  | dropManager m => exact sim_dropManager hI hS m hl
  | newReceiver T => exact sim_newReceiver hI hS T
  | subscribeFn m T => exact sim_subscribeFn hI hS m T hl
  | subscribe m r => exact sim_subscribe hI hS m r hl
  | unsubscribe r => exact sim_unsubscribe hI hS r hl
  | unsubscribeAt m r => exact sim_unsubscribeAt hI hS m r hl
  | dropReceiver r => exact sim_dropReceiver hI hS r hl
  | post m T => exact sim_post hI hS m T hl

end Mustache.Proofs.Events

import Mustache.Proofs.EventsBasic
/-!
What `registerEventType<T>()` + one access to the slot (`withSlot`) does to the abstraction `lookup`:
exactly the list of `(m, T)` is rewritten by `f`, every other `(manager, type)` keeps its list —
whatever the order in which managers meet the types.
-/
namespace Mustache.Proofs.Events
open Mustache.Model.Events

/-- no manager has a slot for an id that has not been handed out yet -/
def SlotsBounded (s : State) : Prop :=
  ∀ (m : Nat) (mg : Mgr), s.mgrs[m]? = some mg → mg.slots.length ≤ s.typeIds.length

/-- the state after `withSlot` -/
def afterSlot (s : State) (m : Nat) (mg : Mgr) (T : TypeName) (f : List Rcv → List Rcv) : State :=
  { s with
    typeIds := (register s.typeIds T).1,
    mgrs := s.mgrs.set m
      { mg with slots := (ensureSlot mg.slots (register s.typeIds T).2).set (register s.typeIds T).2
                            (some (f (slotList mg.slots (register s.typeIds T).2))) } }

/-- `withSlot` never hits the undefined-behaviour branch on an existing manager -/
theorem withSlot_eq {s : State} {m : Nat} {mg : Mgr} (T : TypeName) (f : List Rcv → List Rcv)
    (hmg : s.mgrs[m]? = some mg) :
    withSlot s m T f =
      some (afterSlot s m mg T f, (register s.typeIds T).2, slotList mg.slots (register s.typeIds T).2) := by
  unfold withSlot afterSlot
  rw [hmg]
  simp only [ensureSlot_self]

theorem lookupIn_register {ids : List TypeName} {mg : Mgr} (T T' : TypeName)
    (hb : mg.slots.length ≤ ids.length) :
    lookupIn (register ids T).1 mg T' = lookupIn ids mg T' := by
  unfold lookupIn
  cases ha : mg.alive with
  | false => simp
  | true =>
    simp only [if_true]
    cases h : idOf ids T' with
    | some j => rw [register_stable h]
    | none =>
      by_cases hne : T' = T
      · subst hne
        rw [register_idOf, register_new_id h]
        exact slotList_of_length_le hb
      · rw [register_other hne, h]

/-- the list found by `withSlot` is the abstraction's list -/
theorem lookupIn_eq_slotList {ids : List TypeName} {mg : Mgr} (T : TypeName)
    (hb : mg.slots.length ≤ ids.length) (ha : mg.alive = true) :
    lookupIn ids mg T = slotList mg.slots (register ids T).2 := by
  unfold lookupIn
  simp only [ha, if_true]
  rcases register_cases ids T with ⟨i, hi, hr⟩ | ⟨hn, hr⟩
  · rw [hi, hr]
  · rw [hn, hr]; exact (slotList_of_length_le hb).symm

section
variable {s : State} {m : Nat} {mg : Mgr} (T : TypeName) (f : List Rcv → List Rcv)

theorem afterSlot_rcvs : (afterSlot s m mg T f).rcvs = s.rcvs := rfl

theorem afterSlot_mgrs_length : (afterSlot s m mg T f).mgrs.length = s.mgrs.length := by
  simp [afterSlot]

theorem afterSlot_mgr_self (hmg : s.mgrs[m]? = some mg) :
    (afterSlot s m mg T f).mgrs[m]? =
      some { mg with slots := (ensureSlot mg.slots (register s.typeIds T).2).set (register s.typeIds T).2
                                (some (f (slotList mg.slots (register s.typeIds T).2))) } := by
  have hlt : m < s.mgrs.length := (List.getElem?_eq_some_iff.mp hmg).1
  simp [afterSlot, hlt]

theorem afterSlot_mgr_other {m' : Nat} (hne : m' ≠ m) :
    (afterSlot s m mg T f).mgrs[m']? = s.mgrs[m']? := by
  simp only [afterSlot]
  rw [List.getElem?_set_ne (Ne.symm hne)]

theorem afterSlot_mgrAlive (hmg : s.mgrs[m]? = some mg) (m' : Nat) :
    mgrAlive (afterSlot s m mg T f) m' = mgrAlive s m' := by
  unfold mgrAlive
  by_cases hne : m' = m
  · subst hne; rw [afterSlot_mgr_self T f hmg, hmg]
  · rw [afterSlot_mgr_other T f hne]

/-- the list of `(m, T)` becomes `f` of what it was -/
theorem lookup_afterSlot_self (hb : SlotsBounded s) (hmg : s.mgrs[m]? = some mg) (ha : mg.alive = true) :
    lookup (afterSlot s m mg T f) m T = f (lookup s m T) := by
  have hold : lookup s m T = slotList mg.slots (register s.typeIds T).2 := by
    unfold lookup; rw [hmg]; exact lookupIn_eq_slotList T (hb m mg hmg) ha
  rw [hold]
  unfold lookup
  rw [afterSlot_mgr_self T f hmg]
  unfold lookupIn
  simp only [ha, if_true]
  have : (afterSlot s m mg T f).typeIds = (register s.typeIds T).1 := rfl
  rw [this, register_idOf]
  apply slotList_set_self
  rw [ensureSlot_length]; omega

/-- every other `(manager, type)` keeps its list -/
theorem lookup_afterSlot_other (hb : SlotsBounded s) (hmg : s.mgrs[m]? = some mg)
    {m' : Nat} {T' : TypeName} (hne : m' ≠ m ∨ T' ≠ T) :
    lookup (afterSlot s m mg T f) m' T' = lookup s m' T' := by
  have hids : (afterSlot s m mg T f).typeIds = (register s.typeIds T).1 := rfl
  unfold lookup
  by_cases hm : m' = m
  · subst hm
    have hT : T' ≠ T := by
      rcases hne with h | h
      · exact absurd rfl h
      · exact h
    rw [afterSlot_mgr_self T f hmg, hmg, hids]
    unfold lookupIn
    dsimp only
    cases ha : mg.alive with
    | false => simp
    | true =>
      simp only [if_true]
      rw [register_other hT]
      cases h : idOf s.typeIds T' with
      | none => rfl
      | some j =>
        have hj : j ≠ (register s.typeIds T).2 := by
          intro e
          have h1 : idOf (register s.typeIds T).1 T' = some j := register_stable h
          have h2 := register_idOf s.typeIds T
          rw [← e] at h2
          exact hT (idOf_inj h1 h2)
        simp only
        rw [slotList_set_ne _ hj, slotList_ensureSlot]
  · rw [afterSlot_mgr_other T f hm, hids]
    cases h : s.mgrs[m']? with
    | none => rfl
    | some mg' => exact lookupIn_register T T' (hb m' mg' h)

theorem afterSlot_bounded (hb : SlotsBounded s) (hmg : s.mgrs[m]? = some mg) :
    SlotsBounded (afterSlot s m mg T f) := by
  intro m' mg' h'
  have hids : (afterSlot s m mg T f).typeIds = (register s.typeIds T).1 := rfl
  rw [hids]
  by_cases hm : m' = m
  · subst hm
    rw [afterSlot_mgr_self T f hmg] at h'
    cases h'
    simp only [List.length_set, ensureSlot_length]
    have h1 := hb m' mg hmg
    have h2 := register_length_le s.typeIds T
    have h3 := register_id_lt s.typeIds T
    omega
  · rw [afterSlot_mgr_other T f hm] at h'
    have h1 := hb m' mg' h'
    have h2 := register_length_le s.typeIds T
    omega

end

/-- a non-empty list belongs to a live manager -/
theorem mgrAlive_of_mem_lookup {s : State} {m : Nat} {T : TypeName} {r : Nat}
    (h : r ∈ lookup s m T) : mgrAlive s m = true := by
  unfold lookup at h
  unfold mgrAlive
  cases hm : s.mgrs[m]? with
  | none => rw [hm] at h; simp at h
  | some mg =>
    rw [hm] at h
    unfold lookupIn at h
    cases ha : mg.alive with
    | true => simp [ha]
    | false => simp [ha] at h

theorem mgrAlive_iff {s : State} {m : Nat} :
    mgrAlive s m = true ↔ ∃ mg, s.mgrs[m]? = some mg ∧ mg.alive = true := by
  unfold mgrAlive
  cases s.mgrs[m]? with
  | none => simp
  | some mg => simp

theorem rcvAlive_iff {s : State} {r : Nat} :
    rcvAlive s r = true ↔ ∃ ri, s.rcvs[r]? = some ri ∧ ri.alive = true := by
  unfold rcvAlive
  cases s.rcvs[r]? with
  | none => simp
  | some ri => simp

end Mustache.Proofs.Events

import Mustache.Model.IdTable
/-!
# Id table: free chain, ghost state, invariant `TInv`, validity ⇔ membership in the live set

`Ghost` is history-only bookkeeping (which handles were returned, which creations have taken effect
and were not destroyed, which reservations are still waiting for their slot); `TInv t g` relates it to
the table `t`. Preservation per operation is in `IdTableRelease.lean` / `IdTableCreate.lean`.
-/
namespace Mustache.Proofs.IdTable
open Mustache.Model

/-- the free chain: starting at `n`, following `idf`, visiting exactly `fs` -/
inductive Chain (slots : List Slot) : Nat → List Nat → Prop
  | nil (n) : Chain slots n []
  | cons (n s rest) : slots[n]? = some s → Chain slots s.idf rest → Chain slots n (n :: rest)

theorem getElem?_lt {α} {l : List α} {i : Nat} {x : α} (h : l[i]? = some x) : i < l.length :=
  (List.getElem?_eq_some_iff.mp h).1

theorem Chain.set_notin {slots : List Slot} {n : Nat} {fs : List Nat} {i : Nat} {v : Slot}
    (hc : Chain slots n fs) (hi : i ∉ fs) : Chain (slots.set i v) n fs := by
  induction hc with
  | nil n => exact Chain.nil n
  | cons n s rest hs _ ih =>
    have hne : i ≠ n := by intro h; apply hi; simp [h]
    have hrest : i ∉ rest := by intro h; apply hi; simp [h]
    refine Chain.cons n s rest ?_ (ih hrest)
    rw [List.getElem?_set_ne hne]; exact hs

theorem Chain.append {slots : List Slot} {n : Nat} {fs : List Nat} (xs : List Slot)
    (hc : Chain slots n fs) : Chain (slots ++ xs) n fs := by
  induction hc with
  | nil n => exact Chain.nil n
  | cons n s rest hs _ ih =>
    refine Chain.cons n s rest ?_ ih
    rw [List.getElem?_append_left (getElem?_lt hs)]; exact hs

theorem Chain.head_eq {slots : List Slot} {n a : Nat} {rest : List Nat}
    (hc : Chain slots n (a :: rest)) : a = n := by
  cases hc; rfl

/-- history-only bookkeeping -/
structure Ghost where
  /-- handles whose creation has taken effect and that were not destroyed since -/
  live : List Handle
  /-- every handle returned by a creation call, newest first -/
  issued : List Handle
  /-- handles returned by a creation under lock whose slot is not installed yet -/
  pending : List Handle

def Ghost.init : Ghost := ⟨[], [], []⟩
def Ghost.create (g : Ghost) (h : Handle) : Ghost := { g with live := h :: g.live, issued := h :: g.issued }
def Ghost.destroy (g : Ghost) (h : Handle) : Ghost := { g with live := g.live.filter (· ≠ h) }
def Ghost.reserve (g : Ghost) (h : Handle) : Ghost := { g with issued := h :: g.issued, pending := h :: g.pending }
def Ghost.install (g : Ghost) (h : Handle) : Ghost :=
  { g with live := h :: g.live, pending := g.pending.filter (· ≠ h) }

/-- versions strictly increase per id in issue order (the list is newest first) -/
def VersionsFresh (l : List Handle) : Prop := l.Pairwise (fun a b => a.id = b.id → b.ver < a.ver)

structure TInv (t : Tab) (g : Ghost) : Prop where
  /-- the free chain: `empty` long, duplicate-free, exactly the table ids that are neither live nor a
      reserved gap; a free slot never stores its own id -/
  chain : ∃ fs : List Nat, Chain t.slots t.next fs ∧ fs.Nodup ∧ fs.length = t.empty ∧
            (∀ i, i ∈ fs ↔ (i < t.slots.length ∧ (∀ h ∈ g.live, h.id ≠ i) ∧ ∀ p ∈ g.pending, p.id ≠ i)) ∧
            (∀ i ∈ fs, ∀ s, t.slots[i]? = some s → s.idf ≠ i)
  live_slot : ∀ h ∈ g.live, t.slots[h.id]? = some ⟨h.id, h.ver⟩
  live_nodup_id : ∀ h₁ ∈ g.live, ∀ h₂ ∈ g.live, h₁.id = h₂.id → h₁ = h₂
  live_issued : ∀ h ∈ g.live, h ∈ g.issued
  world : ∀ h ∈ g.issued, h.world = t.worldId
  issued_slot : ∀ h ∈ g.issued, h ∉ g.pending → ∃ s, t.slots[h.id]? = some s ∧ h.ver ≤ s.ver
  dead_lt : ∀ h ∈ g.issued, h ∉ g.live → h ∉ g.pending → ∀ s, t.slots[h.id]? = some s → h.ver < s.ver
  fresh : VersionsFresh g.issued
  pend_issued : ∀ p ∈ g.pending, p ∈ g.issued
  pend_ver : ∀ p ∈ g.pending, p.ver = 0
  pend_gap : ∀ p ∈ g.pending, ∀ s, t.slots[p.id]? = some s → s = Slot.gap
  pend_lt : ∀ p ∈ g.pending, p.id < t.nextEntityId
  pend_unique : ∀ p ∈ g.pending, ∀ h ∈ g.issued, h.id = p.id → h = p
  pend_not_live : ∀ p ∈ g.pending, p ∉ g.live
  gap_cover : ∀ i, t.slots.length ≤ i → i < t.nextEntityId → ∃ p ∈ g.pending, p.id = i
  locked_len : 0 < t.lockDepth → t.slots.length ≤ t.nextEntityId

theorem init_inv (wid : Nat) : TInv { worldId := wid } Ghost.init := by
  refine ⟨⟨[], Chain.nil _, by simp, by simp, by simp [Ghost.init], by simp⟩, ?_, ?_, ?_, ?_, ?_, ?_, ?_, ?_, ?_,
    ?_, ?_, ?_, ?_, ?_, ?_⟩ <;> simp [Ghost.init, VersionsFresh]

/-! ## reading `valid` -/

theorem handle_ext {a b : Handle} (h1 : a.id = b.id) (h2 : a.ver = b.ver) (h3 : a.world = b.world) : a = b := by
  cases a; cases b; simp_all

theorem valid_iff (t : Tab) (h : Handle) :
    t.valid h = true ↔ h ≠ Handle.null ∧ h.world = t.worldId ∧ t.slots[h.id]? = some ⟨h.id, h.ver⟩ := by
  unfold Tab.valid Handle.isNull
  cases hs : t.slots[h.id]? with
  | none => simp
  | some s =>
    cases s with
    | mk i v =>
      simp only [Bool.and_eq_true, Bool.not_eq_true', beq_eq_false_iff_ne, ne_eq, beq_iff_eq, Option.some.injEq,
        Slot.mk.injEq]
      constructor
      · rintro ⟨⟨a, b⟩, c, d⟩; exact ⟨a, b, d, c⟩
      · rintro ⟨a, b, d, c⟩; exact ⟨⟨a, b⟩, c, d⟩

theorem live_ids_lt {t : Tab} {g : Ghost} (inv : TInv t g) {h : Handle} (hl : h ∈ g.live) :
    h.id < t.slots.length := getElem?_lt (inv.live_slot h hl)

theorem live_not_pending {t : Tab} {g : Ghost} (inv : TInv t g) {h : Handle} (hl : h ∈ g.live) :
    h ∉ g.pending := fun hp => inv.pend_not_live h hp hl

theorem live_pending_id_ne {t : Tab} {g : Ghost} (inv : TInv t g) {h p : Handle} (hl : h ∈ g.live)
    (hp : p ∈ g.pending) : h.id ≠ p.id := by
  intro e
  have := inv.pend_unique p hp h (inv.live_issued h hl) e
  subst this
  exact inv.pend_not_live h hp hl

/-- a table id is live, free or a reserved gap -/
theorem id_cases {t : Tab} {g : Ghost} (fs : List Nat)
    (hmem : ∀ i, i ∈ fs ↔ (i < t.slots.length ∧ (∀ h ∈ g.live, h.id ≠ i) ∧ ∀ p ∈ g.pending, p.id ≠ i))
    (i : Nat) (hi : i < t.slots.length) :
    (∃ h ∈ g.live, h.id = i) ∨ (∃ p ∈ g.pending, p.id = i) ∨ i ∈ fs := by
  by_cases h1 : ∃ h ∈ g.live, h.id = i
  · exact Or.inl h1
  · by_cases h2 : ∃ p ∈ g.pending, p.id = i
    · exact Or.inr (Or.inl h2)
    · refine Or.inr (Or.inr ((hmem i).mpr ⟨hi, ?_, ?_⟩))
      · intro h hh e; exact h1 ⟨h, hh, e⟩
      · intro p hp e; exact h2 ⟨p, hp, e⟩

/-- **validity is membership in the live set, for ANY handle** (any bit pattern, issued or not),
as long as the table has not reached the null id `2^30-1` -/
theorem valid_iff_live_any {t : Tab} {g : Ghost} (inv : TInv t g) (hr : t.slots.length ≤ 2^30 - 1)
    (h : Handle) : t.valid h = true ↔ h ∈ g.live := by
  rw [valid_iff]
  constructor
  · rintro ⟨_, hw, hs⟩
    rcases inv.chain with ⟨fs, _, _, _, hmem, hidf⟩
    rcases id_cases fs hmem h.id (getElem?_lt hs) with ⟨l, hl, e⟩ | ⟨p, hp, e⟩ | hf
    · have h1 := inv.live_slot l hl
      rw [e, hs] at h1
      have hv : h.ver = l.ver := by simpa using h1
      have : l = h := handle_ext e hv.symm ((inv.world l (inv.live_issued l hl)).trans hw.symm)
      exact this ▸ hl
    · have h1 := inv.pend_gap p hp _ (e ▸ hs)
      have h2 := getElem?_lt hs
      simp only [Slot.gap, Slot.mk.injEq] at h1
      omega
    · exact absurd rfl (hidf h.id hf _ hs)
  · intro hl
    refine ⟨?_, inv.world h (inv.live_issued h hl), inv.live_slot h hl⟩
    intro e
    have := live_ids_lt inv hl
    rw [e] at this
    simp only [Handle.null] at this
    omega

/-- a reserved handle whose slot is not installed yet is not valid -/
theorem pending_invalid {t : Tab} {g : Ghost} (inv : TInv t g) {p : Handle} (hp : p ∈ g.pending) :
    t.valid p = false := by
  cases hv : t.valid p with
  | false => rfl
  | true =>
    rcases (valid_iff t p).mp hv with ⟨_, _, hs⟩
    have h1 := inv.pend_gap p hp _ hs
    have h2 := inv.pend_ver p hp
    simp only [Slot.gap, Slot.mk.injEq] at h1
    omega

/-- validity of an ISSUED handle without the range hypothesis (uses that its version never wrapped) -/
theorem valid_iff_live {t : Tab} {g : Ghost} (inv : TInv t g) (h : Handle) (hi : h ∈ g.issued)
    (hb : h.ver + 1 < 2^24) : t.valid h = true ↔ h ∈ g.live := by
  constructor
  · intro hv
    by_cases hp : h ∈ g.pending
    · rw [pending_invalid inv hp] at hv; exact absurd hv (by simp)
    · rcases (valid_iff t h).mp hv with ⟨_, _, hs⟩
      apply Classical.byContradiction
      intro hnl
      have := inv.dead_lt h hi hnl hp _ hs
      simp at this
  · intro hl
    rw [valid_iff]
    refine ⟨?_, inv.world h hi, inv.live_slot h hl⟩
    intro e
    rw [e] at hb
    simp [Handle.null] at hb

/-- the handle a creation returns is new: every earlier handle of its id has a smaller version -/
def NewFor (g : Ghost) (h : Handle) : Prop := ∀ b ∈ g.issued, b.id = h.id → b.ver < h.ver

theorem NewFor.not_issued {g : Ghost} {h : Handle} (hn : NewFor g h) : h ∉ g.issued := by
  intro hi
  have := hn h hi rfl
  omega

theorem VersionsFresh.cons {g : Ghost} {h : Handle} (hf : VersionsFresh g.issued) (hn : NewFor g h) :
    VersionsFresh (h :: g.issued) := by
  unfold VersionsFresh
  rw [List.pairwise_cons]
  exact ⟨fun b hb e => hn b hb e.symm, hf⟩

theorem VersionsFresh.nodup {l : List Handle} (hf : VersionsFresh l) : l.Nodup := by
  unfold VersionsFresh at hf
  refine hf.imp ?_
  intro a b hab e
  subst e
  have := hab rfl
  omega

end Mustache.Proofs.IdTable

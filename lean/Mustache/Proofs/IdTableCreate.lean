import Mustache.Proofs.IdTableBasic
/-!
# Id table: creation preserves the invariant

`alloc` (fresh id and free-chain pop), `reserve` (creation under lock), `install` (the slot of a
reserved handle at the outermost unlock, in any order), `lock`, `unlockDepth`. Each creation returns a
handle that is `NewFor` the history so far: every earlier handle of its id has a smaller version.
-/
namespace Mustache.Proofs.IdTable
open Mustache.Model

/-! ## `alloc` (unlocked `createWithOutInit`) -/

theorem alloc_fresh_inv {t : Tab} {g : Ghost} (inv : TInv t g) (hp : g.pending = []) (hd : t.lockDepth = 0)
    (he : t.empty = 0) :
    TInv (t.alloc).1 (g.create (t.alloc).2) ∧ NewFor g (t.alloc).2 := by
  rcases inv.chain with ⟨fs, hch, hnd, hlen, hmem, hidf⟩
  have hfs : fs = [] := by
    cases fs with
    | nil => rfl
    | cons a r => simp [he] at hlen
  subst hfs
  have hcr : t.alloc = ({ t with slots := t.slots ++ [⟨t.slots.length, 0⟩] }, ⟨t.slots.length, 0, t.worldId⟩) := by
    simp [Tab.alloc, he]
  rw [hcr]
  have hissued_lt : ∀ x ∈ g.issued, x.id < t.slots.length := by
    intro x hx
    rcases inv.issued_slot x hx (by rw [hp]; simp) with ⟨s, hs, _⟩
    exact getElem?_lt hs
  have hnew : NewFor g ⟨t.slots.length, 0, t.worldId⟩ := by
    intro b hb e
    have := hissued_lt b hb
    simp at e; omega
  have hold : ∀ (i : Nat) (s : Slot), t.slots[i]? = some s → (t.slots ++ [(⟨t.slots.length, 0⟩ : Slot)])[i]? = some s := by
    intro i s hs; rw [List.getElem?_append_left (getElem?_lt hs)]; exact hs
  refine ⟨⟨?_, ?_, ?_, ?_, ?_, ?_, ?_, ?_, ?_, ?_, ?_, ?_, ?_, ?_, ?_, ?_⟩, hnew⟩
  · refine ⟨[], Chain.nil _, by simp, by simp [he], ?_, by simp⟩
    intro i
    simp only [List.not_mem_nil, false_iff, not_and, List.length_append, List.length_singleton, Ghost.create]
    intro hlt hall _
    by_cases hi : i = t.slots.length
    · exact hall ⟨t.slots.length, 0, t.worldId⟩ (by simp) hi.symm
    · have hlt' : i < t.slots.length := by omega
      have := (hmem i).mpr ⟨hlt', fun h hh => hall h (by simp [hh]), by rw [hp]; simp⟩
      simp at this
  · intro h hh
    simp only [Ghost.create, List.mem_cons] at hh
    rcases hh with rfl | hh
    · simp
    · exact hold _ _ (inv.live_slot h hh)
  · intro a ha b hb hab
    simp only [Ghost.create, List.mem_cons] at ha hb
    rcases ha with rfl | ha <;> rcases hb with rfl | hb
    · rfl
    · have := live_ids_lt inv hb; simp at hab; omega
    · have := live_ids_lt inv ha; simp at hab; omega
    · exact inv.live_nodup_id a ha b hb hab
  · intro h hh
    simp only [Ghost.create, List.mem_cons] at hh ⊢
    rcases hh with rfl | hh
    · exact Or.inl rfl
    · exact Or.inr (inv.live_issued h hh)
  · intro h hh
    simp only [Ghost.create, List.mem_cons] at hh
    rcases hh with rfl | hh
    · rfl
    · exact inv.world h hh
  · intro h hh _
    simp only [Ghost.create, List.mem_cons] at hh
    rcases hh with rfl | hh
    · exact ⟨⟨t.slots.length, 0⟩, by simp, by simp⟩
    · rcases inv.issued_slot h hh (by rw [hp]; simp) with ⟨s, hs, hle⟩
      exact ⟨s, hold _ _ hs, hle⟩
  · intro h hh hnl _ s hs
    simp only [Ghost.create, List.mem_cons, not_or] at hh hnl
    rcases hh with rfl | hh
    · exact absurd rfl hnl.1
    · simp only at hs
      rw [List.getElem?_append_left (hissued_lt h hh)] at hs
      exact inv.dead_lt h hh hnl.2 (by rw [hp]; simp) s hs
  · exact inv.fresh.cons hnew
  · intro p hp'; simp [Ghost.create, hp] at hp'
  · intro p hp'; simp [Ghost.create, hp] at hp'
  · intro p hp'; simp [Ghost.create, hp] at hp'
  · intro p hp'; simp [Ghost.create, hp] at hp'
  · intro p hp'; simp [Ghost.create, hp] at hp'
  · intro p hp'; simp [Ghost.create, hp] at hp'
  · intro i hi hi2
    simp only [List.length_append, List.length_singleton] at hi
    rcases inv.gap_cover i (by omega) hi2 with ⟨p, hp', _⟩
    simp [hp] at hp'
  · intro hd'; simp [hd] at hd'

theorem alloc_pop_inv {t : Tab} {g : Ghost} (inv : TInv t g) (hp : g.pending = []) (he : t.empty ≠ 0) :
    TInv (t.alloc).1 (g.create (t.alloc).2) ∧ NewFor g (t.alloc).2 := by
  rcases inv.chain with ⟨fs, hch, hnd, hlen, hmem, hidf⟩
  cases fs with
  | nil => simp at hlen; omega
  | cons a rest =>
  have ha : a = t.next := hch.head_eq
  subst ha
  cases hch with
  | cons _ s _ hs hrest =>
  have hcr : t.alloc = ({ t with slots := t.slots.set t.next ⟨t.next, s.ver⟩, next := s.idf, empty := t.empty - 1 },
      ⟨t.next, s.ver, t.worldId⟩) := by
    simp [Tab.alloc, he, hs]
  rw [hcr]
  have hnd' := List.nodup_cons.mp hnd
  rcases (hmem t.next).mp (by simp) with ⟨hlt, hnl, _⟩
  have hpe : ∀ x, x ∉ g.pending := by intro x; rw [hp]; simp
  have hself : (t.slots.set t.next ⟨t.next, s.ver⟩)[t.next]? = some ⟨t.next, s.ver⟩ := List.getElem?_set_self hlt
  have hother : ∀ i, i ≠ t.next → (t.slots.set t.next (⟨t.next, s.ver⟩ : Slot))[i]? = t.slots[i]? := by
    intro i hi; exact List.getElem?_set_ne (fun e => hi e.symm)
  have hnew : NewFor g ⟨t.next, s.ver, t.worldId⟩ := by
    intro b hb e
    simp only at e
    have hbl : b ∉ g.live := fun hl => hnl b hl e
    exact inv.dead_lt b hb hbl (hpe b) s (e ▸ hs)
  refine ⟨⟨?_, ?_, ?_, ?_, ?_, ?_, ?_, ?_, ?_, ?_, ?_, ?_, ?_, ?_, ?_, ?_⟩, hnew⟩
  · refine ⟨rest, hrest.set_notin hnd'.1, hnd'.2, by simp at hlen ⊢; omega, ?_, ?_⟩
    · intro i
      simp only [List.length_set, Ghost.create, List.mem_cons, forall_eq_or_imp]
      constructor
      · intro hi
        rcases (hmem i).mp (by simp [hi]) with ⟨h1, h2, h3⟩
        exact ⟨h1, ⟨fun e => hnd'.1 (e ▸ hi), h2⟩, h3⟩
      · rintro ⟨h1, ⟨h2, h3⟩, h4⟩
        rcases List.mem_cons.mp ((hmem i).mpr ⟨h1, h3, h4⟩) with e | hi
        · exact absurd e.symm h2
        · exact hi
    · intro i hi s' hs'
      have hne : i ≠ t.next := fun e => hnd'.1 (e ▸ hi)
      simp only at hs'
      rw [hother i hne] at hs'
      exact hidf i (by simp [hi]) s' hs'
  · intro h hh
    simp only [Ghost.create, List.mem_cons] at hh
    rcases hh with rfl | hh
    · exact hself
    · show (t.slots.set t.next ⟨t.next, s.ver⟩)[h.id]? = _
      rw [hother _ (hnl h hh)]; exact inv.live_slot h hh
  · intro a ha b hb hab
    simp only [Ghost.create, List.mem_cons] at ha hb
    rcases ha with rfl | ha <;> rcases hb with rfl | hb
    · rfl
    · exact absurd hab.symm (hnl b hb)
    · exact absurd hab (hnl a ha)
    · exact inv.live_nodup_id a ha b hb hab
  · intro h hh
    simp only [Ghost.create, List.mem_cons] at hh ⊢
    rcases hh with rfl | hh
    · exact Or.inl rfl
    · exact Or.inr (inv.live_issued h hh)
  · intro h hh
    simp only [Ghost.create, List.mem_cons] at hh
    rcases hh with rfl | hh
    · rfl
    · exact inv.world h hh
  · intro h hh _
    simp only [Ghost.create, List.mem_cons] at hh
    rcases hh with rfl | hh
    · exact ⟨_, hself, Nat.le_refl _⟩
    · rcases inv.issued_slot h hh (hpe h) with ⟨sx, hsx, hle⟩
      by_cases hid : h.id = t.next
      · refine ⟨⟨t.next, s.ver⟩, by rw [hid]; exact hself, ?_⟩
        rw [hid, hs] at hsx; cases hsx; exact hle
      · exact ⟨sx, by show (t.slots.set t.next ⟨t.next, s.ver⟩)[h.id]? = _; rw [hother _ hid]; exact hsx, hle⟩
  · intro h hh hnl' _ s' hs'
    simp only [Ghost.create, List.mem_cons, not_or] at hh hnl'
    rcases hh with rfl | hh
    · exact absurd rfl hnl'.1
    · simp only at hs'
      by_cases hid : h.id = t.next
      · rw [hid, hself] at hs'; cases hs'
        exact inv.dead_lt h hh hnl'.2 (hpe h) s (hid ▸ hs)
      · rw [hother _ hid] at hs'
        exact inv.dead_lt h hh hnl'.2 (hpe h) s' hs'
  · exact inv.fresh.cons hnew
  · intro p hp'; simp [Ghost.create, hp] at hp'
  · intro p hp'; simp [Ghost.create, hp] at hp'
  · intro p hp'; simp [Ghost.create, hp] at hp'
  · intro p hp'; simp [Ghost.create, hp] at hp'
  · intro p hp'; simp [Ghost.create, hp] at hp'
  · intro p hp'; simp [Ghost.create, hp] at hp'
  · intro i hi hi2
    simp only [List.length_set] at hi
    exact inv.gap_cover i hi hi2
  · intro hd'
    simp only [List.length_set]
    exact inv.locked_len hd'

/-- unlocked creation: the invariant is kept and the returned handle is new -/
theorem alloc_inv {t : Tab} {g : Ghost} (inv : TInv t g) (hp : g.pending = []) (hd : t.lockDepth = 0) :
    TInv (t.alloc).1 (g.create (t.alloc).2) ∧ NewFor g (t.alloc).2 := by
  by_cases he : t.empty = 0
  · exact alloc_fresh_inv inv hp hd he
  · exact alloc_pop_inv inv hp he

theorem alloc_length_ge (t : Tab) : t.slots.length ≤ (t.alloc).1.slots.length := by
  unfold Tab.alloc
  split
  · simp
  · split <;> simp

/-! ## `reserve` (`createLocked`) -/

theorem reserve_eq {t : Tab} {g : Ghost} (inv : TInv t g) (hd : 0 < t.lockDepth) :
    t.reserve = ({ t with nextEntityId := t.nextEntityId + 1 }, ⟨t.nextEntityId, 0, t.worldId⟩) := by
  have hle := inv.locked_len hd
  have : t.slots[t.nextEntityId]? = none := List.getElem?_eq_none hle
  simp [Tab.reserve, this]

theorem reserve_inv {t : Tab} {g : Ghost} (inv : TInv t g) (hd : 0 < t.lockDepth) :
    TInv (t.reserve).1 (g.reserve (t.reserve).2) ∧ NewFor g (t.reserve).2 := by
  rw [reserve_eq inv hd]
  have hle := inv.locked_len hd
  have hnone : t.slots[t.nextEntityId]? = none := List.getElem?_eq_none hle
  have hissued_lt : ∀ x ∈ g.issued, x.id < t.nextEntityId := by
    intro x hx
    by_cases hxp : x ∈ g.pending
    · exact inv.pend_lt x hxp
    · rcases inv.issued_slot x hx hxp with ⟨s, hs, _⟩
      have := getElem?_lt hs; omega
  have hnew : NewFor g ⟨t.nextEntityId, 0, t.worldId⟩ := by
    intro b hb e
    have := hissued_lt b hb
    simp at e; omega
  rcases inv.chain with ⟨fs, hch, hnd, hlen, hmem, hidf⟩
  refine ⟨⟨?_, ?_, ?_, ?_, ?_, ?_, ?_, ?_, ?_, ?_, ?_, ?_, ?_, ?_, ?_, ?_⟩, hnew⟩
  · refine ⟨fs, hch, hnd, hlen, ?_, hidf⟩
    intro i
    simp only [Ghost.reserve, List.mem_cons, forall_eq_or_imp]
    constructor
    · intro hi
      rcases (hmem i).mp hi with ⟨h1, h2, h3⟩
      exact ⟨h1, h2, by omega, h3⟩
    · rintro ⟨h1, h2, _, h3⟩
      exact (hmem i).mpr ⟨h1, h2, h3⟩
  · exact inv.live_slot
  · exact inv.live_nodup_id
  · intro h hh
    simp only [Ghost.reserve, List.mem_cons]
    exact Or.inr (inv.live_issued h hh)
  · intro h hh
    simp only [Ghost.reserve, List.mem_cons] at hh
    rcases hh with rfl | hh
    · rfl
    · exact inv.world h hh
  · intro h hh hnp
    simp only [Ghost.reserve, List.mem_cons, not_or] at hh hnp
    rcases hh with rfl | hh
    · exact absurd rfl hnp.1
    · exact inv.issued_slot h hh hnp.2
  · intro h hh hnl hnp
    simp only [Ghost.reserve, List.mem_cons, not_or] at hh hnp hnl
    rcases hh with rfl | hh
    · exact absurd rfl hnp.1
    · exact inv.dead_lt h hh hnl hnp.2
  · exact inv.fresh.cons hnew
  · intro p hp
    simp only [Ghost.reserve, List.mem_cons] at hp ⊢
    rcases hp with rfl | hp
    · exact Or.inl rfl
    · exact Or.inr (inv.pend_issued p hp)
  · intro p hp
    simp only [Ghost.reserve, List.mem_cons] at hp
    rcases hp with rfl | hp
    · rfl
    · exact inv.pend_ver p hp
  · intro p hp s hs
    simp only [Ghost.reserve, List.mem_cons] at hp
    rcases hp with rfl | hp
    · simp only at hs; rw [hnone] at hs; cases hs
    · exact inv.pend_gap p hp s hs
  · intro p hp
    simp only [Ghost.reserve, List.mem_cons] at hp
    rcases hp with rfl | hp
    · exact Nat.lt_succ_self _
    · exact Nat.lt_succ_of_lt (inv.pend_lt p hp)
  · intro p hp x hx e
    simp only [Ghost.reserve, List.mem_cons] at hp hx
    rcases hp with rfl | hp <;> rcases hx with rfl | hx
    · rfl
    · have := hissued_lt x hx; simp at e; omega
    · have := inv.pend_lt p hp; simp at e; omega
    · exact inv.pend_unique p hp x hx e
  · intro p hp hl
    simp only [Ghost.reserve, List.mem_cons] at hp hl
    rcases hp with rfl | hp
    · exact hnew.not_issued (inv.live_issued _ hl)
    · exact inv.pend_not_live p hp hl
  · intro i hi hi2
    simp only [Ghost.reserve, List.mem_cons, exists_eq_or_imp]
    by_cases e : i = t.nextEntityId
    · exact Or.inl e.symm
    · right
      simp only at hi hi2
      exact inv.gap_cover i hi (by omega)
  · intro _
    exact Nat.le_succ_of_le hle

/-! ## `install` (slot installation of a create command at the outermost unlock) -/

theorem mem_install_pending (g : Ghost) (h x : Handle) : x ∈ (g.install h).pending ↔ x ∈ g.pending ∧ x ≠ h := by
  simp [Ghost.install]

theorem install_length (t : Tab) (h : Handle) :
    (t.install h).slots.length = max t.slots.length (h.id + 1) := by
  simp only [Tab.install, Tab.ensureId, List.length_set, List.length_append, List.length_replicate]
  omega

theorem install_length_ge (t : Tab) (h : Handle) : t.slots.length ≤ (t.install h).slots.length := by
  rw [install_length]; omega

theorem install_self (t : Tab) (h : Handle) : (t.install h).slots[h.id]? = some ⟨h.id, h.ver⟩ := by
  simp only [Tab.install, Tab.ensureId]
  apply List.getElem?_set_self
  simp only [List.length_append, List.length_replicate]
  omega

theorem install_old (t : Tab) (h : Handle) (i : Nat) (s : Slot) (hs : t.slots[i]? = some s) (hi : i ≠ h.id) :
    (t.install h).slots[i]? = some s := by
  simp only [Tab.install, Tab.ensureId]
  rw [List.getElem?_set_ne (fun e => hi e.symm), List.getElem?_append_left (getElem?_lt hs)]
  exact hs

theorem install_new (t : Tab) (h : Handle) (i : Nat) (s : Slot) (hs : (t.install h).slots[i]? = some s)
    (hi : i ≠ h.id) : t.slots[i]? = some s ∨ (t.slots.length ≤ i ∧ i < h.id ∧ s = Slot.gap) := by
  have hlt := getElem?_lt hs
  rw [install_length] at hlt
  simp only [Tab.install, Tab.ensureId] at hs
  rw [List.getElem?_set_ne (fun e => hi e.symm)] at hs
  by_cases hl : i < t.slots.length
  · rw [List.getElem?_append_left hl] at hs; exact Or.inl hs
  · right
    rw [List.getElem?_append_right (by omega), List.getElem?_replicate] at hs
    split at hs
    · cases hs; exact ⟨by omega, by omega, rfl⟩
    · cases hs

theorem install_inv {t : Tab} {g : Ghost} (inv : TInv t g) {h : Handle} (hp : h ∈ g.pending) :
    TInv (t.install h) (g.install h) := by
  rcases inv.chain with ⟨fs, hch, hnd, hlen, hmem, hidf⟩
  have hnl : ∀ x ∈ g.live, x.id ≠ h.id := fun x hx => live_pending_id_ne inv hx hp
  have hnotfs : h.id ∉ fs := fun hin => ((hmem h.id).mp hin).2.2 h hp rfl
  have hiss := inv.pend_issued h hp
  have hlt := inv.pend_lt h hp
  have hpid : ∀ p ∈ g.pending, p ≠ h → p.id ≠ h.id := fun p hpp hne e =>
    hne (inv.pend_unique h hp p (inv.pend_issued p hpp) e)
  have hnext : (t.install h).next = t.next := rfl
  have hempty : (t.install h).empty = t.empty := rfl
  refine ⟨?_, ?_, ?_, ?_, ?_, ?_, ?_, ?_, ?_, ?_, ?_, ?_, ?_, ?_, ?_, ?_⟩
  · refine ⟨fs, ?_, hnd, hlen, ?_, ?_⟩
    · simp only [Tab.install, Tab.ensureId]
      exact (hch.append _).set_notin hnotfs
    · intro i
      rw [install_length]
      simp only [Ghost.install, List.mem_cons, forall_eq_or_imp]
      constructor
      · intro hi
        rcases (hmem i).mp hi with ⟨h1, h2, h3⟩
        refine ⟨by omega, ⟨fun e => hnotfs (e ▸ hi), h2⟩, ?_⟩
        intro p hpp
        exact h3 p (List.mem_filter.mp hpp).1
      · rintro ⟨h1, ⟨h2, h3⟩, h4⟩
        have hp' : ∀ p ∈ g.pending, p.id ≠ i := by
          intro p hpp e
          by_cases hph : p = h
          · subst hph; exact h2 e
          · exact h4 p (List.mem_filter.mpr ⟨hpp, by simpa using hph⟩) e
        by_cases hl : i < t.slots.length
        · exact (hmem i).mpr ⟨hl, h3, hp'⟩
        · have : i < h.id := by
            have : i ≠ h.id := fun e => h2 e.symm
            omega
          rcases inv.gap_cover i (by omega) (by omega) with ⟨p, hpp, e⟩
          exact absurd e (hp' p hpp)
    · intro i hi s hs
      have hne : i ≠ h.id := fun e => hnotfs (e ▸ hi)
      rcases install_new t h i s hs hne with h1 | ⟨h1, _, _⟩
      · exact hidf i hi s h1
      · have := ((hmem i).mp hi).1; omega
  · intro x hx
    simp only [Ghost.install, List.mem_cons] at hx
    rcases hx with rfl | hx
    · exact install_self t _
    · exact install_old t h _ _ (inv.live_slot x hx) (hnl x hx)
  · intro a ha b hb hab
    simp only [Ghost.install, List.mem_cons] at ha hb
    rcases ha with rfl | ha <;> rcases hb with rfl | hb
    · rfl
    · exact absurd hab.symm (hnl b hb)
    · exact absurd hab (hnl a ha)
    · exact inv.live_nodup_id a ha b hb hab
  · intro x hx
    simp only [Ghost.install, List.mem_cons] at hx
    rcases hx with rfl | hx
    · exact hiss
    · exact inv.live_issued x hx
  · exact inv.world
  · intro x hx hxp
    by_cases hxh : x = h
    · subst hxh; exact ⟨_, install_self t _, Nat.le_refl _⟩
    · have hxp' : x ∉ g.pending := fun hh => hxp ((mem_install_pending g h x).mpr ⟨hh, hxh⟩)
      rcases inv.issued_slot x hx hxp' with ⟨s, hs, hle⟩
      have hid : x.id ≠ h.id := fun e => hxh (inv.pend_unique h hp x hx e)
      exact ⟨s, install_old t h _ _ hs hid, hle⟩
  · intro x hx hxl hxp s hs
    simp only [Ghost.install, List.mem_cons, not_or] at hxl
    have hxh : x ≠ h := hxl.1
    have hxp' : x ∉ g.pending := fun hh => hxp ((mem_install_pending g h x).mpr ⟨hh, hxh⟩)
    have hid : x.id ≠ h.id := fun e => hxh (inv.pend_unique h hp x hx e)
    rcases install_new t h _ s hs hid with h1 | ⟨h1, _, _⟩
    · exact inv.dead_lt x hx hxl.2 hxp' s h1
    · rcases inv.issued_slot x hx hxp' with ⟨s0, hs0, _⟩
      have := getElem?_lt hs0; omega
  · exact inv.fresh
  · intro p hpp; exact inv.pend_issued p ((mem_install_pending g h p).mp hpp).1
  · intro p hpp; exact inv.pend_ver p ((mem_install_pending g h p).mp hpp).1
  · intro p hpp s hs
    rcases (mem_install_pending g h p).mp hpp with ⟨h1, h2⟩
    rcases install_new t h _ s hs (hpid p h1 h2) with h3 | ⟨_, _, h3⟩
    · exact inv.pend_gap p h1 s h3
    · exact h3
  · intro p hpp; exact inv.pend_lt p ((mem_install_pending g h p).mp hpp).1
  · intro p hpp x hx e; exact inv.pend_unique p ((mem_install_pending g h p).mp hpp).1 x hx e
  · intro p hpp hl
    rcases (mem_install_pending g h p).mp hpp with ⟨h1, h2⟩
    simp only [Ghost.install, List.mem_cons] at hl
    rcases hl with e | hl
    · exact h2 e
    · exact inv.pend_not_live p h1 hl
  · intro i hi hi2
    rw [install_length] at hi
    rcases inv.gap_cover i (by omega) hi2 with ⟨p, hpp, e⟩
    refine ⟨p, (mem_install_pending g h p).mpr ⟨hpp, ?_⟩, e⟩
    intro eh; subst eh; omega
  · intro hd
    rw [install_length]
    have := inv.locked_len hd
    show max t.slots.length (h.id + 1) ≤ t.nextEntityId
    omega

/-! ## lock depth -/

theorem lock_inv {t : Tab} {g : Ghost} (inv : TInv t g) (hq : t.lockDepth = 0 → g.pending = []) :
    TInv t.lock g := by
  unfold Tab.lock
  by_cases hd : t.lockDepth = 0
  · have hp := hq hd
    simp only [hd, Nat.zero_add, if_true]
    refine ⟨inv.chain, inv.live_slot, inv.live_nodup_id, inv.live_issued, inv.world, inv.issued_slot, inv.dead_lt,
      inv.fresh, inv.pend_issued, inv.pend_ver, inv.pend_gap, ?_, inv.pend_unique, inv.pend_not_live, ?_, ?_⟩
    · intro p hpp; simp [hp] at hpp
    · intro i hi hi2; simp only at hi hi2; omega
    · intro _; exact Nat.le_refl _
  · have : ¬ (t.lockDepth + 1 = 1) := by omega
    simp only [this, if_false]
    exact ⟨inv.chain, inv.live_slot, inv.live_nodup_id, inv.live_issued, inv.world, inv.issued_slot, inv.dead_lt,
      inv.fresh, inv.pend_issued, inv.pend_ver, inv.pend_gap, inv.pend_lt, inv.pend_unique, inv.pend_not_live,
      inv.gap_cover, fun _ => inv.locked_len (by omega)⟩

theorem unlockDepth_inv {t : Tab} {g : Ghost} (inv : TInv t g) : TInv t.unlockDepth g := by
  unfold Tab.unlockDepth
  split
  · exact ⟨inv.chain, inv.live_slot, inv.live_nodup_id, inv.live_issued, inv.world, inv.issued_slot, inv.dead_lt,
      inv.fresh, inv.pend_issued, inv.pend_ver, inv.pend_gap, inv.pend_lt, inv.pend_unique, inv.pend_not_live,
      inv.gap_cover, fun hd => inv.locked_len (by simp only at hd; omega)⟩
  · exact inv

theorem lock_slots (t : Tab) : t.lock.slots = t.slots := by
  simp only [Tab.lock]; split <;> rfl

theorem unlockDepth_slots (t : Tab) : t.unlockDepth.slots = t.slots := by
  unfold Tab.unlockDepth; split <;> rfl

end Mustache.Proofs.IdTable

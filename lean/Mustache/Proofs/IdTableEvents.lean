import Mustache.Proofs.IdTableHist
/-!
# Id table: the history-only reading of a run

`aliveB`, `issuedOf`, `reservedB` are computed from the event log alone (no table, no ghost). `EvOk`
says the ghost state is exactly that reading; `Dead` is "issued, creation took effect, destroyed".
Both are carried along every well-formed history by `micro_step` (each operation is a sequence of
`alloc` / `reserve` / `install` / `kill` micro-steps plus bookkeeping that touches neither ghost nor log).
-/
namespace Mustache.Proofs.IdTable
open Mustache.Model

/-- alive according to the history: the last creation-effect / destruction event of `e` is a creation effect -/
def aliveB (evs : List Ev) (e : Handle) : Bool :=
  evs.foldl (fun a ev => match ev with
    | .effect h => if h = e then true else a
    | .killed h => if h = e then false else a
    | .issued _ => a) false

/-- handles returned by creation calls, in issue order -/
def issuedOf (evs : List Ev) : List Handle :=
  evs.filterMap (fun ev => match ev with | .issued h => some h | _ => none)

/-- returned by a creation call whose effect has not happened yet (creation under lock before the flush) -/
def reservedB (evs : List Ev) (e : Handle) : Bool := evs.contains (.issued e) && !evs.contains (.effect e)

theorem aliveB_snoc (evs : List Ev) (ev : Ev) (e : Handle) :
    aliveB (evs ++ [ev]) e = (match ev with
      | .effect h => if h = e then true else aliveB evs e
      | .killed h => if h = e then false else aliveB evs e
      | .issued _ => aliveB evs e) := by
  simp only [aliveB, List.foldl_append, List.foldl_cons, List.foldl_nil]

/-! ## checked destruction never changes the table size -/

theorem destroyNow_length (t : Tab) (h : Handle) : (t.destroyNow h).slots.length = t.slots.length := by
  unfold Tab.destroyNow
  by_cases hv : t.valid h = true
  · have hlt := getElem?_lt ((valid_iff t h).mp hv).2.2
    simp only [hv, Bool.not_true, Bool.false_eq_true, if_false]
    rw [release_eq_clear1 t h hlt, clear1_length]
  · have hv' : t.valid h = false := by simpa using hv
    simp [hv']

/-! ## generic inductions over the inner loops -/

theorem kills_induct (P : St → Prop)
    (hkill : ∀ s h, TInv s.tab s.g → InRange s → NoWrap s → P s → P (s.kill h))
    (hs : List Handle) (s : St) (inv : TInv s.tab s.g) (hr : InRange s) (hw : NoWrap s) (hP : P s) :
    P (hs.foldl St.kill s) := by
  induction hs generalizing s with
  | nil => exact hP
  | cons a r ih =>
    simp only [List.foldl_cons]
    refine ih (s.kill a) (destroyNow_inv inv hr a (hw a)) ?_ hw (hkill s a inv hr hw hP)
    show (s.tab.destroyNow a).slots.length ≤ 2^30 - 1
    rw [destroyNow_length]; exact hr

theorem acts_induct (P : St → Prop)
    (hinst : ∀ s h, TInv s.tab s.g → h ∈ s.g.pending → P s → P (s.install h))
    (hkill : ∀ s h, TInv s.tab s.g → InRange s → NoWrap s → P s → P (s.kill h))
    (acts : List FAct) (s : St) (inv : TInv s.tab s.g) (hok : actsOk s.g.pending acts = true)
    (hr : InRange (acts.foldl St.act s)) (hw : NoWrap s) (hP : P s) : P (acts.foldl St.act s) := by
  induction acts generalizing s with
  | nil => exact hP
  | cons a r ih =>
    simp only [List.foldl_cons] at hr ⊢
    have hr0 : InRange (s.act a) := Nat.le_trans (acts_length_ge _ r) hr
    have hr1 : InRange s := Nat.le_trans (act_length_ge s a) hr0
    have hw' : NoWrap (s.act a) := by intro x hx; rw [act_issued] at hx; exact hw x hx
    cases a with
    | install h =>
      simp only [actsOk, Bool.and_eq_true, List.contains_iff_mem] at hok
      exact ih (s.install h) (install_inv inv hok.1) hok.2 hr hw' (hinst s h inv hok.1 hP)
    | kill h =>
      simp only [actsOk] at hok
      exact ih (s.kill h) (destroyNow_inv inv hr1 h (hw h)) hok hr hw' (hkill s h inv hr1 hw hP)

/-- a property of ghost state and event log, kept by the four micro-steps -/
structure Micro (P : St → Prop) : Prop where
  alloc : ∀ s, SInv s → s.tab.lockDepth = 0 → P s → P (step s .alloc)
  reserve : ∀ s, SInv s → 0 < s.tab.lockDepth → P s → P (step s .reserve)
  install : ∀ s h, TInv s.tab s.g → h ∈ s.g.pending → P s → P (s.install h)
  kill : ∀ s h, TInv s.tab s.g → InRange s → NoWrap s → P s → P (s.kill h)
  frame : ∀ s s', s'.g = s.g → s'.evs = s.evs → P s → P s'

theorem micro_step {P : St → Prop} (m : Micro P) (s : St) (op : TOp) (si : SInv s) (hok : opOk s op = true)
    (hr : InRange (step s op)) (hw : NoWrap (step s op)) (hP : P s) : P (step s op) := by
  have hr0 : InRange s := hr.of_step
  have hw0 : NoWrap s := hw.of_step
  cases op with
  | alloc =>
    simp only [opOk, beq_iff_eq] at hok
    exact m.alloc s si hok hP
  | destroyNow h => exact m.kill s h si.tinv hr0 hw0 hP
  | lock => exact m.frame s _ rfl rfl hP
  | reserve =>
    simp only [opOk, decide_eq_true_eq] at hok
    exact m.reserve s si hok hP
  | unlock acts =>
    simp only [step] at hr ⊢
    split
    · next hd =>
      rw [if_pos hd] at hr
      have hle : s.tab.lockDepth ≤ 1 := by
        simp only [Tab.unlockDepth] at hd
        split at hd
        · simp only at hd; omega
        · omega
      simp only [opOk, hle, if_true] at hok
      exact acts_induct P m.install m.kill acts { s with tab := s.tab.unlockDepth } (unlockDepth_inv si.tinv) hok hr
        hw0 (m.frame s _ rfl rfl hP)
    · exact m.frame s _ rfl rfl hP
  | clear hs =>
    have := kills_induct P m.kill hs s si.tinv hr0 hw0 hP
    refine m.frame _ _ ?_ ?_ this
    · simp only [step]; rw [kills_g]
    · simp only [step]; rw [kills_evs]
  | mark h => exact m.frame s _ rfl rfl hP
  | update hs =>
    simp only [step]
    split
    · exact hP
    · exact m.frame (hs.foldl St.kill s) _ rfl rfl (kills_induct P m.kill hs s si.tinv hr0 hw0 hP)

/-! ## the ghost state is the history-only reading of the log -/

structure EvOk (s : St) : Prop where
  alive : ∀ e, aliveB s.evs e = true ↔ e ∈ s.g.live
  iss : issuedOf s.evs = s.g.issued.reverse
  eff : ∀ e, Ev.effect e ∈ s.evs → e ∈ s.g.issued ∧ e ∉ s.g.pending
  pend : ∀ e, e ∈ s.g.pending ↔ (Ev.issued e ∈ s.evs ∧ Ev.effect e ∉ s.evs)

theorem evok_init (wid : Nat) : EvOk (St.init wid) := by
  refine ⟨?_, ?_, ?_, ?_⟩ <;> simp [St.init, Ghost.init, aliveB, issuedOf]

theorem issuedOf_append (a b : List Ev) : issuedOf (a ++ b) = issuedOf a ++ issuedOf b := by
  simp [issuedOf, List.filterMap_append]

theorem evok_micro : Micro EvOk where
  alloc := by
    intro s si hd ok
    have hp := si.idle hd
    have hnew := (alloc_inv si.tinv hp hd).2
    generalize hh : (s.tab.alloc).2 = h at hnew
    have hni := hnew.not_issued
    have hevs : (step s .alloc).evs = (s.evs ++ [.issued h]) ++ [.effect h] := by simp [step, hh]
    have hg : (step s .alloc).g = s.g.create h := by simp [step, hh]
    refine ⟨?_, ?_, ?_, ?_⟩
    · intro e
      rw [hevs, hg, aliveB_snoc, aliveB_snoc]
      simp only [Ghost.create, List.mem_cons]
      by_cases he : h = e
      · simp [he]
      · simp only [he, if_false, ok.alive e]
        constructor
        · exact Or.inr
        · rintro (e1 | e1)
          · exact absurd e1.symm he
          · exact e1
    · rw [hevs, hg, issuedOf_append, issuedOf_append, ok.iss]
      simp [issuedOf, Ghost.create]
    · intro e he
      rw [hevs] at he
      rw [hg]
      simp only [Ghost.create, List.mem_append, List.mem_cons, List.not_mem_nil, reduceCtorEq, or_false,
        Ev.effect.injEq] at he ⊢
      rcases he with he | rfl
      · exact ⟨Or.inr (ok.eff e he).1, (ok.eff e he).2⟩
      · exact ⟨Or.inl rfl, by rw [hp]; simp⟩
    · intro e
      rw [hevs, hg]
      simp only [Ghost.create, List.mem_append, List.mem_singleton, reduceCtorEq, or_false, Ev.effect.injEq,
        Ev.issued.injEq, not_or]
      rw [ok.pend e]
      constructor
      · rintro ⟨h1, h2⟩
        refine ⟨Or.inl h1, h2, ?_⟩
        intro e1; subst e1
        exact hni ((ok.pend e).mpr ⟨h1, h2⟩ |> si.tinv.pend_issued e)
      · rintro ⟨h1 | h1, h2, h3⟩
        · exact ⟨h1, h2⟩
        · exact absurd h1 h3
  reserve := by
    intro s si hd ok
    have hnew := (reserve_inv si.tinv hd).2
    generalize hh : (s.tab.reserve).2 = h at hnew
    have hni := hnew.not_issued
    have hevs : (step s .reserve).evs = s.evs ++ [.issued h] := by simp [step, hh]
    have hg : (step s .reserve).g = s.g.reserve h := by simp [step, hh]
    refine ⟨?_, ?_, ?_, ?_⟩
    · intro e
      rw [hevs, hg, aliveB_snoc]
      exact ok.alive e
    · rw [hevs, hg, issuedOf_append, ok.iss]
      simp [issuedOf, Ghost.reserve]
    · intro e he
      rw [hevs] at he
      rw [hg]
      simp only [List.mem_append, List.mem_singleton, reduceCtorEq, or_false] at he
      have := ok.eff e he
      simp only [Ghost.reserve, List.mem_cons, not_or]
      refine ⟨Or.inr this.1, ?_, this.2⟩
      intro e1; subst e1; exact hni this.1
    · intro e
      rw [hevs, hg]
      simp only [Ghost.reserve, List.mem_cons, List.mem_append, List.not_mem_nil, Ev.issued.injEq, reduceCtorEq,
        or_false]
      rw [ok.pend e]
      constructor
      · rintro (rfl | ⟨h1, h2⟩)
        · exact ⟨Or.inr rfl, fun he => hni (ok.eff e he).1⟩
        · exact ⟨Or.inl h1, h2⟩
      · rintro ⟨h1 | h1, h2⟩
        · exact Or.inr ⟨h1, h2⟩
        · exact Or.inl h1
  install := by
    intro s h inv hp ok
    have hpi : ∀ x, x ∈ (s.install h).g.pending ↔ x ∈ s.g.pending ∧ x ≠ h := fun x => mem_install_pending s.g h x
    refine ⟨?_, ?_, ?_, ?_⟩
    · intro e
      simp only [St.install, aliveB_snoc, Ghost.install, List.mem_cons]
      by_cases he : h = e
      · simp [he]
      · simp only [he, if_false, ok.alive e]
        constructor
        · exact Or.inr
        · rintro (e1 | e1)
          · exact absurd e1.symm he
          · exact e1
    · simp only [St.install, issuedOf_append, ok.iss]
      simp [issuedOf, Ghost.install]
    · intro e he
      simp only [St.install, List.mem_append, List.mem_singleton, Ev.effect.injEq] at he
      rw [hpi]
      rcases he with he | rfl
      · exact ⟨(ok.eff e he).1, fun hh => (ok.eff e he).2 hh.1⟩
      · exact ⟨inv.pend_issued e hp, fun hh => hh.2 rfl⟩
    · intro e
      rw [hpi]
      simp only [St.install, List.mem_append, List.mem_singleton, reduceCtorEq, or_false, Ev.effect.injEq, not_or]
      rw [ok.pend e]
      constructor
      · rintro ⟨⟨h1, h2⟩, h3⟩; exact ⟨h1, h2, h3⟩
      · rintro ⟨h1, h2, h3⟩; exact ⟨⟨h1, h2⟩, h3⟩
  kill := by
    intro s h _ _ _ ok
    refine ⟨?_, ?_, ?_, ?_⟩
    · intro e
      simp only [St.kill, aliveB_snoc, mem_destroy]
      by_cases he : h = e
      · simp [he]
      · simp only [he, if_false, ok.alive e]
        constructor
        · intro h1; exact ⟨h1, fun e1 => he e1.symm⟩
        · exact fun h1 => h1.1
    · simp only [St.kill, issuedOf_append, ok.iss]
      simp [issuedOf, Ghost.destroy]
    · intro e he
      simp only [St.kill, List.mem_append, List.mem_singleton, reduceCtorEq, or_false] at he
      exact ok.eff e he
    · intro e
      simp only [St.kill, List.mem_append, List.mem_singleton, reduceCtorEq, or_false]
      exact ok.pend e
  frame := by
    intro s s' hg he ok
    exact ⟨by rw [he, hg]; exact ok.alive, by rw [he, hg]; exact ok.iss, by rw [he, hg]; exact ok.eff,
      by rw [he, hg]; exact ok.pend⟩

/-! ## once destroyed, never alive again -/

/-- issued, not waiting for its install, not alive: its creation took effect and it was destroyed -/
def Dead (e : Handle) (s : St) : Prop := e ∈ s.g.issued ∧ e ∉ s.g.live ∧ e ∉ s.g.pending

theorem dead_micro (e : Handle) : Micro (Dead e) where
  alloc := by
    intro s si hd ⟨h1, h2, h3⟩
    have hnew := (alloc_inv si.tinv (si.idle hd) hd).2.not_issued
    refine ⟨List.mem_cons_of_mem _ h1, ?_, h3⟩
    simp only [step, Ghost.create, List.mem_cons, not_or]
    exact ⟨fun e1 => hnew (e1 ▸ h1), h2⟩
  reserve := by
    intro s si hd ⟨h1, h2, h3⟩
    have hnew := (reserve_inv si.tinv hd).2.not_issued
    refine ⟨List.mem_cons_of_mem _ h1, h2, ?_⟩
    simp only [step, Ghost.reserve, List.mem_cons, not_or]
    exact ⟨fun e1 => hnew (e1 ▸ h1), h3⟩
  install := by
    intro s h _ hp ⟨h1, h2, h3⟩
    refine ⟨h1, ?_, fun hh => h3 ((mem_install_pending s.g h e).mp hh).1⟩
    simp only [St.install, Ghost.install, List.mem_cons, not_or]
    exact ⟨fun e1 => h3 (e1 ▸ hp), h2⟩
  kill := by
    intro s h _ _ _ ⟨h1, h2, h3⟩
    exact ⟨h1, fun hh => h2 ((mem_destroy s.g h e).mp hh).1, h3⟩
  frame := by
    intro s s' hg _ hd
    unfold Dead at hd ⊢
    rw [hg]; exact hd

/-! ## assembled: along every well-formed history -/

theorem run_all (wid : Nat) (ops : List TOp) (hwf : WF wid ops) (hr : InRange (run wid ops))
    (hw : NoWrap (run wid ops)) : SInv (run wid ops) ∧ EvOk (run wid ops) :=
  run_induct EvOk (micro_step evok_micro) ops (St.init wid) (init_sinv wid) (evok_init wid) hwf hr hw

theorem run_dead (e : Handle) (ops : List TOp) (s : St) (si : SInv s) (hd : Dead e s) (hwf : wfFrom s ops = true)
    (hr : InRange (runFrom s ops)) (hw : NoWrap (runFrom s ops)) : Dead e (runFrom s ops) :=
  (run_induct (Dead e) (micro_step (dead_micro e)) ops s si hd hwf hr hw).2

theorem mem_issuedOf (evs : List Ev) (e : Handle) : e ∈ issuedOf evs ↔ Ev.issued e ∈ evs := by
  simp only [issuedOf, List.mem_filterMap]
  constructor
  · rintro ⟨ev, hev, h⟩
    cases ev <;> simp at h
    subst h; exact hev
  · intro h; exact ⟨_, h, rfl⟩

/-- prefixes of a good history are good -/
theorem prefix_good (wid : Nat) (ops ext : List TOp) (hwf : WF wid (ops ++ ext))
    (hw : NoWrap (run wid (ops ++ ext))) (hr : InRange (run wid (ops ++ ext))) :
    WF wid ops ∧ NoWrap (run wid ops) ∧ InRange (run wid ops) ∧
    wfFrom (run wid ops) ext = true ∧ run wid (ops ++ ext) = runFrom (run wid ops) ext := by
  unfold WF at hwf ⊢
  rw [wfFrom_append, Bool.and_eq_true] at hwf
  have e : run wid (ops ++ ext) = runFrom (run wid ops) ext := runFrom_append _ _ _
  rw [e] at hw hr
  exact ⟨hwf.1, hw.of_run, hr.of_run, hwf.2, e⟩

end Mustache.Proofs.IdTable

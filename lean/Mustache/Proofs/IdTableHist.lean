import Mustache.Proofs.IdTableRelease
import Mustache.Proofs.IdTableCreate
/-!
# Id table: histories

A history is a list of table-level operations `TOp`: what the world model does to the id table, in the
order it does it. `run` executes it on `Tab` and keeps, next to the table, the history-only bookkeeping
`Ghost` and the event log `evs` (which handle was returned, when a creation / destruction took effect).
`wf` is the contract of a history; `run_induct` is the induction principle "the invariant holds along
every well-formed history whose versions do not wrap and whose ids stay below the null id".
-/
namespace Mustache.Proofs.IdTable
open Mustache.Model

/-- what the flush at the outermost unlock does to the table, one entry per command pack that touches it -/
inductive FAct where
  | install (h : Handle)     -- create command: the slot of the reserved handle is installed
  | kill (h : Handle)        -- destroyNow command: checked destruction (a create pack releases its own handle)
deriving DecidableEq, Repr

inductive TOp where
  | alloc                          -- unlocked creation (`create`, `clone`, builder): `allocId`
  | destroyNow (h : Handle)        -- checked `destroyNow` taking effect now
  | lock
  | reserve                        -- creation while locked: `createLocked`
  | unlock (acts : List FAct)      -- `unlock`; `acts` = table effects of the flush, in flush order
  | clear (hs : List Handle)       -- `clearArchetype` of an archetype whose rows carry `hs`
  | mark (h : Handle)              -- `destroy(h)` taking effect on `marked_for_delete_`
  | update (hs : List Handle)      -- `update()`; `hs` = the marked set in iteration order
deriving Repr

/-- observable events of a history -/
inductive Ev where
  | issued (h : Handle)      -- a creation call returned `h`
  | effect (h : Handle)      -- the creation of `h` took effect
  | killed (h : Handle)      -- a destruction of `h` took effect (no-op when `h` is not alive)
deriving DecidableEq, Repr

structure St where
  tab : Tab
  g : Ghost
  marked : List Handle
  evs : List Ev

def St.init (wid : Nat) : St := ⟨{ worldId := wid }, Ghost.init, [], []⟩

def St.kill (s : St) (h : Handle) : St :=
  { s with tab := s.tab.destroyNow h, g := s.g.destroy h, evs := s.evs ++ [.killed h] }

def St.install (s : St) (h : Handle) : St :=
  { s with tab := s.tab.install h, g := s.g.install h, evs := s.evs ++ [.effect h] }

def St.act (s : St) : FAct → St
  | .install h => s.install h
  | .kill h => s.kill h

def step (s : St) : TOp → St
  | .alloc =>
    let r := s.tab.alloc
    { s with tab := r.1, g := s.g.create r.2, evs := s.evs ++ [.issued r.2, .effect r.2] }
  | .destroyNow h => s.kill h
  | .lock => { s with tab := s.tab.lock }
  | .reserve =>
    let r := s.tab.reserve
    { s with tab := r.1, g := s.g.reserve r.2, evs := s.evs ++ [.issued r.2] }
  | .unlock acts =>
    let s' := { s with tab := s.tab.unlockDepth }
    if s'.tab.lockDepth = 0 then acts.foldl St.act s' else s'
  | .clear hs =>
    { s with tab := s.tab.clearList hs, g := s.g.destroyAll hs, evs := s.evs ++ hs.map .killed }
  | .mark h => { s with marked := h :: s.marked }
  | .update hs =>
    if s.tab.lockDepth > 0 then s else
    let s' := hs.foldl St.kill s
    { s' with marked := [] }

def runFrom (s : St) (ops : List TOp) : St := ops.foldl step s
def run (wid : Nat) (ops : List TOp) : St := runFrom (St.init wid) ops

/-- the installs of a flush are an ordering of the pending reservations (each exactly once) -/
def actsOk (pend : List Handle) : List FAct → Bool
  | [] => pend.isEmpty
  | .install h :: r => pend.contains h && actsOk (pend.filter (· ≠ h)) r
  | .kill _ :: r => actsOk pend r

/-- contract of one operation in state `s` -/
def opOk (s : St) : TOp → Bool
  | .alloc => s.tab.lockDepth == 0
  | .destroyNow _ => true
  | .lock => true
  | .reserve => decide (0 < s.tab.lockDepth)
  | .unlock acts => if s.tab.lockDepth ≤ 1 then actsOk s.g.pending acts else acts.isEmpty
  | .clear hs => hs.all (fun h => s.g.live.contains h) && decide hs.Nodup
  | .mark _ => true
  | .update hs => hs.all (fun h => s.marked.contains h) && s.marked.all (fun h => hs.contains h)

def wfFrom (s : St) : List TOp → Bool
  | [] => true
  | op :: r => opOk s op && wfFrom (step s op) r

/-- well-formed history of the world with id `wid` -/
def WF (wid : Nat) (ops : List TOp) : Prop := wfFrom (St.init wid) ops = true
/-- no issued handle carries the last version before the 24-bit wrap -/
def NoWrap (s : St) : Prop := ∀ h ∈ s.g.issued, h.ver + 1 < 2^24
/-- the table has not reached the null id -/
def InRange (s : St) : Prop := s.tab.slots.length ≤ 2^30 - 1

instance (s : St) : Decidable (NoWrap s) := by unfold NoWrap; infer_instance
instance (s : St) : Decidable (InRange s) := by unfold InRange; infer_instance
instance (wid : Nat) (ops : List TOp) : Decidable (WF wid ops) := by unfold WF; infer_instance

/-- state invariant between operations -/
structure SInv (s : St) : Prop where
  tinv : TInv s.tab s.g
  idle : s.tab.lockDepth = 0 → s.g.pending = []

theorem init_sinv (wid : Nat) : SInv (St.init wid) := ⟨init_inv wid, fun _ => rfl⟩

/-! ## lock depth is touched by `lock` / `unlock` only -/

theorem release_lockDepth (t : Tab) (h : Handle) : (t.release h).lockDepth = t.lockDepth := by
  unfold Tab.release; split <;> rfl

theorem destroyNow_lockDepth (t : Tab) (h : Handle) : (t.destroyNow h).lockDepth = t.lockDepth := by
  unfold Tab.destroyNow; split
  · rfl
  · exact release_lockDepth t h

theorem destroyAll_lockDepth (t : Tab) (hs : List Handle) : (t.destroyAll hs).lockDepth = t.lockDepth := by
  induction hs generalizing t with
  | nil => rfl
  | cons a r ih => simp only [Tab.destroyAll, List.foldl_cons] at ih ⊢; rw [ih, destroyNow_lockDepth]

theorem clearList_lockDepth (t : Tab) (hs : List Handle) : (t.clearList hs).lockDepth = t.lockDepth := by
  induction hs generalizing t with
  | nil => rfl
  | cons a r ih => simp only [Tab.clearList, List.foldl_cons] at ih ⊢; rw [ih]; rfl

theorem lock_lockDepth (t : Tab) : t.lock.lockDepth = t.lockDepth + 1 := by
  simp only [Tab.lock]; split <;> rfl

/-! ## components of folds -/

theorem kills_tab (s : St) (hs : List Handle) : (hs.foldl St.kill s).tab = s.tab.destroyAll hs := by
  induction hs generalizing s with
  | nil => rfl
  | cons a r ih => simp only [List.foldl_cons, Tab.destroyAll] at ih ⊢; rw [ih]; rfl

theorem kills_g (s : St) (hs : List Handle) : (hs.foldl St.kill s).g = s.g.destroyAll hs := by
  induction hs generalizing s with
  | nil => rfl
  | cons a r ih => simp only [List.foldl_cons, Ghost.destroyAll] at ih ⊢; rw [ih]; rfl

theorem kills_marked (s : St) (hs : List Handle) : (hs.foldl St.kill s).marked = s.marked := by
  induction hs generalizing s with
  | nil => rfl
  | cons a r ih => simp only [List.foldl_cons] at ih ⊢; rw [ih]; rfl

theorem kills_evs (s : St) (hs : List Handle) : (hs.foldl St.kill s).evs = s.evs ++ hs.map .killed := by
  induction hs generalizing s with
  | nil => simp
  | cons a r ih => simp only [List.foldl_cons] at ih ⊢; rw [ih]; simp [St.kill]

theorem act_issued (s : St) (a : FAct) : (s.act a).g.issued = s.g.issued := by cases a <;> rfl

theorem acts_issued (s : St) (acts : List FAct) : (acts.foldl St.act s).g.issued = s.g.issued := by
  induction acts generalizing s with
  | nil => rfl
  | cons a r ih => simp only [List.foldl_cons]; rw [ih, act_issued]

theorem act_length_ge (s : St) (a : FAct) : s.tab.slots.length ≤ (s.act a).tab.slots.length := by
  cases a with
  | install h => exact install_length_ge _ _
  | kill h => exact destroyNow_length_ge _ _

theorem acts_length_ge (s : St) (acts : List FAct) :
    s.tab.slots.length ≤ (acts.foldl St.act s).tab.slots.length := by
  induction acts generalizing s with
  | nil => exact Nat.le_refl _
  | cons a r ih => simp only [List.foldl_cons]; exact Nat.le_trans (act_length_ge s a) (ih _)

theorem act_lockDepth (s : St) (a : FAct) : (s.act a).tab.lockDepth = s.tab.lockDepth := by
  cases a with
  | install h => rfl
  | kill h => exact destroyNow_lockDepth _ _

/-! ## monotonicity along a history: issued handles stay issued, the table never shrinks -/

theorem step_issued_sub (s : St) (op : TOp) (h : Handle) (hi : h ∈ s.g.issued) : h ∈ (step s op).g.issued := by
  cases op with
  | alloc => simp only [step, Ghost.create]; exact List.mem_cons_of_mem _ hi
  | destroyNow x => exact hi
  | lock => exact hi
  | reserve => simp only [step, Ghost.reserve]; exact List.mem_cons_of_mem _ hi
  | unlock acts =>
    simp only [step]; split
    · rw [acts_issued]; exact hi
    · exact hi
  | clear hs => simp only [step]; rw [destroyAll_issued]; exact hi
  | mark x => exact hi
  | update hs =>
    simp only [step]; split
    · exact hi
    · simp only; rw [kills_g, destroyAll_issued]; exact hi

theorem step_length_ge (s : St) (op : TOp) : s.tab.slots.length ≤ (step s op).tab.slots.length := by
  cases op with
  | alloc => exact alloc_length_ge _
  | destroyNow x => exact destroyNow_length_ge _ _
  | lock => simp only [step]; rw [lock_slots]; exact Nat.le_refl _
  | reserve => exact Nat.le_refl _
  | unlock acts =>
    simp only [step]; split
    · refine Nat.le_trans ?_ (acts_length_ge _ acts)
      simp only; rw [unlockDepth_slots]; exact Nat.le_refl _
    · simp only; rw [unlockDepth_slots]; exact Nat.le_refl _
  | clear hs => simp only [step]; rw [clearList_length]; exact Nat.le_refl _
  | mark x => exact Nat.le_refl _
  | update hs =>
    simp only [step]; split
    · exact Nat.le_refl _
    · simp only; rw [kills_tab]; exact destroyAll_length_ge _ _

theorem runFrom_issued_sub (ops : List TOp) (s : St) (h : Handle) (hi : h ∈ s.g.issued) :
    h ∈ (runFrom s ops).g.issued := by
  induction ops generalizing s with
  | nil => exact hi
  | cons op r ih => exact ih (step s op) (step_issued_sub s op h hi)

theorem runFrom_length_ge (ops : List TOp) (s : St) : s.tab.slots.length ≤ (runFrom s ops).tab.slots.length := by
  induction ops generalizing s with
  | nil => exact Nat.le_refl _
  | cons op r ih => exact Nat.le_trans (step_length_ge s op) (ih (step s op))

theorem NoWrap.of_step {s : St} {op : TOp} (h : NoWrap (step s op)) : NoWrap s :=
  fun x hx => h x (step_issued_sub s op x hx)
theorem InRange.of_step {s : St} {op : TOp} (h : InRange (step s op)) : InRange s :=
  Nat.le_trans (step_length_ge s op) h
theorem NoWrap.of_run {s : St} {ops : List TOp} (h : NoWrap (runFrom s ops)) : NoWrap s :=
  fun x hx => h x (runFrom_issued_sub ops s x hx)
theorem InRange.of_run {s : St} {ops : List TOp} (h : InRange (runFrom s ops)) : InRange s :=
  Nat.le_trans (runFrom_length_ge ops s) h

/-! ## the flush -/

theorem acts_inv (acts : List FAct) (s : St) (inv : TInv s.tab s.g) (hok : actsOk s.g.pending acts = true)
    (hr : InRange (acts.foldl St.act s)) (hw : NoWrap s) :
    TInv (acts.foldl St.act s).tab (acts.foldl St.act s).g ∧ (acts.foldl St.act s).g.pending = [] := by
  induction acts generalizing s with
  | nil =>
    simp only [actsOk, List.isEmpty_iff] at hok
    exact ⟨inv, hok⟩
  | cons a r ih =>
    simp only [List.foldl_cons] at hr ⊢
    have hr0 : InRange (s.act a) := Nat.le_trans (acts_length_ge _ r) hr
    have hw' : NoWrap (s.act a) := by intro x hx; rw [act_issued] at hx; exact hw x hx
    cases a with
    | install h =>
      simp only [actsOk, Bool.and_eq_true, List.contains_iff_mem] at hok
      exact ih (s.install h) (install_inv inv hok.1) hok.2 hr hw'
    | kill h =>
      simp only [actsOk] at hok
      have hr1 : s.tab.slots.length ≤ 2^30 - 1 := Nat.le_trans (act_length_ge s (.kill h)) hr0
      exact ih (s.kill h) (destroyNow_inv inv hr1 h (hw h)) hok hr hw'

/-! ## one step -/

theorem step_inv {s : St} {op : TOp} (si : SInv s) (hok : opOk s op = true)
    (hr : InRange (step s op)) (hw : NoWrap (step s op)) : SInv (step s op) := by
  have hr0 : s.tab.slots.length ≤ 2^30 - 1 := hr.of_step
  have hw0 : NoWrap s := hw.of_step
  cases op with
  | alloc =>
    simp only [opOk, beq_iff_eq] at hok
    have hp := si.idle hok
    exact ⟨(alloc_inv si.tinv hp hok).1, fun _ => hp⟩
  | destroyNow h =>
    refine ⟨destroyNow_inv si.tinv hr0 h (hw0 h), ?_⟩
    intro hd
    exact si.idle (by rw [← destroyNow_lockDepth s.tab h]; exact hd)
  | lock =>
    refine ⟨lock_inv si.tinv si.idle, ?_⟩
    intro hd
    simp only [step] at hd
    rw [lock_lockDepth] at hd; omega
  | reserve =>
    simp only [opOk, decide_eq_true_eq] at hok
    refine ⟨(reserve_inv si.tinv hok).1, ?_⟩
    intro hd
    have : (s.tab.reserve).1.lockDepth = s.tab.lockDepth := rfl
    simp only [step] at hd
    omega
  | unlock acts =>
    simp only [step] at hr hw ⊢
    split
    · next hd =>
      rw [if_pos hd] at hr hw
      have hle : s.tab.lockDepth ≤ 1 := by
        simp only [Tab.unlockDepth] at hd
        split at hd
        · simp only at hd; omega
        · omega
      simp only [opOk, hle, if_true] at hok
      have hw1 : NoWrap { s with tab := s.tab.unlockDepth } := hw0
      have := acts_inv acts { s with tab := s.tab.unlockDepth } (unlockDepth_inv si.tinv) hok hr hw1
      exact ⟨this.1, fun _ => this.2⟩
    · next hd =>
      exact ⟨unlockDepth_inv si.tinv, fun hd' => absurd hd' hd⟩
  | clear hs =>
    simp only [opOk, Bool.and_eq_true, List.all_eq_true, List.contains_iff_mem, decide_eq_true_eq] at hok
    refine ⟨clearList_inv si.tinv hs hok.1 hok.2 ?_, ?_⟩
    · intro h hh; exact hw0 h (si.tinv.live_issued h (hok.1 h hh))
    · intro hd
      simp only [step] at hd ⊢
      rw [clearList_lockDepth] at hd
      rw [destroyAll_pending]; exact si.idle hd
  | mark h => exact ⟨si.tinv, si.idle⟩
  | update hs =>
    simp only [step] at hr ⊢
    split
    · exact si
    · next hd =>
      rw [if_neg hd] at hr
      unfold InRange at hr
      simp only [kills_tab] at hr
      refine ⟨?_, ?_⟩
      · simp only [kills_tab, kills_g]
        exact destroyAll_inv si.tinv hs hr (fun h _ => hw0 h)
      · intro hd'
        simp only [kills_tab, kills_g] at hd' ⊢
        rw [destroyAll_lockDepth] at hd'
        rw [destroyAll_pending]; exact si.idle hd'

/-! ## induction along a history -/

/-- Any property `P` kept by every legal step from states satisfying the invariant holds after every
well-formed history; the invariant itself comes along. -/
theorem run_induct (P : St → Prop)
    (hstep : ∀ s op, SInv s → opOk s op = true → InRange (step s op) → NoWrap (step s op) → P s → P (step s op))
    (ops : List TOp) (s : St) (si : SInv s) (hP : P s) (hwf : wfFrom s ops = true)
    (hr : InRange (runFrom s ops)) (hw : NoWrap (runFrom s ops)) :
    SInv (runFrom s ops) ∧ P (runFrom s ops) := by
  induction ops generalizing s with
  | nil => exact ⟨si, hP⟩
  | cons op r ih =>
    simp only [wfFrom, Bool.and_eq_true] at hwf
    have hr1 : InRange (step s op) := InRange.of_run (ops := r) hr
    have hw1 : NoWrap (step s op) := NoWrap.of_run (ops := r) hw
    exact ih (step s op) (step_inv si hwf.1 hr1 hw1) (hstep s op si hwf.1 hr1 hw1 hP) hwf.2 hr hw

theorem run_sinv (ops : List TOp) (s : St) (si : SInv s) (hwf : wfFrom s ops = true)
    (hr : InRange (runFrom s ops)) (hw : NoWrap (runFrom s ops)) : SInv (runFrom s ops) :=
  (run_induct (fun _ => True) (fun _ _ _ _ _ _ _ => trivial) ops s si trivial hwf hr hw).1

theorem runFrom_append (s : St) (a b : List TOp) : runFrom s (a ++ b) = runFrom (runFrom s a) b := by
  simp [runFrom, List.foldl_append]

theorem wfFrom_append (s : St) (a b : List TOp) :
    wfFrom s (a ++ b) = (wfFrom s a && wfFrom (runFrom s a) b) := by
  induction a generalizing s with
  | nil => simp [wfFrom, runFrom]
  | cons op r ih => simp only [List.cons_append, wfFrom, ih, runFrom, List.foldl_cons, Bool.and_assoc]

end Mustache.Proofs.IdTable

import Mustache.Proofs.IdTableRefine
import Mustache.Proofs.IdTableHist
/-!
# The id table through `applyCommandPack` and the flush

`WM.applyPack` is one large definition; `applyPack'` below is the same text cut into its three phases
(`packStart`: slot installation / liveness test, `packStep`: the fold over the commands, `packFinish`: the
archetype move and the value writes) and `applyPack_eq` checks by `rfl` that nothing else changed.
On the id table a pack does: install the slot of a create command, and release / checked-destroy its
entity if the pack contains a `destroyNow`; nothing else. `flush_tab` folds that over buffers and packs.
-/
namespace Mustache.Proofs.IdTable
open Mustache.Model

variable (info : CompId → CompInfo)

def packStart (w : WM) (first : Cmd) : Option (WM × Mask × Shared) :=
  let e := first.entity
  match first with
  | .create _ m sh =>
    let w := w.ensureId e.id
    some ({ w with slots := w.slots.set e.id ⟨e.id, e.ver⟩ }, m, sh)
  | _ =>
    if !w.isValid e then none else
    match (w.locOf e).arch with
    | none => none
    | some ai => some (w, (w.arch ai).mask, (w.arch ai).shared)

def packStep (isCreate : Bool) (e : Handle) : (WM × PackSt × List Cb) → Cmd → (WM × PackSt × List Cb) :=
  fun (acc : WM × PackSt × List Cb) (c : Cmd) =>
    let (w, p, cbs) := acc
    if p.dead then acc else
    match c with
    | .destroyNow _ =>
      if isCreate then (w.release e, { p with dead := true }, cbs)
      else let (w', cb) := w.destroyNowU info e; (w', { p with dead := true }, cbs ++ cb)
    | .create .. => acc
    | .destroy h => ({ w with marked := insertSorted w.marked h }, p, cbs)
    | .remove _ c =>
      if p.final.contains c then
        let next := closedMask w.deps (Mask.erase p.final c)
        if next.contains c then (w, { p with final := next }, cbs)
        else (w, { p with final := next, replaced := Mask.insert p.replaced c, src := p.src.filter (·.1 != c) }, cbs)
      else acc
    | .assign _ c v =>
      let src := p.src.filter (·.1 != c) ++ [(c, v)]
      if p.final.contains c then (w, { p with replaced := Mask.insert p.replaced c, src := src }, cbs)
      else (w, { p with final := closedMask w.deps (Mask.insert p.final c), src := src }, cbs)

def packSetVal (ti : Nat) (l' : Loc) : WM → CompId → Val → WM :=
  fun (w : WM) (c : CompId) (v : Val) =>
    let ta := w.arch ti
    match ta.mask.indexOf? c with
    | none => w
    | some k =>
      let row := ta.rows.getD l'.idx default
      w.setArch ti { ta with rows := ta.rows.set l'.idx { row with vals := row.vals.set k v } }

def packMoved (w : WM) (ti : Nat) (isCreate : Bool) (e : Handle) (initial : Mask) (p : PackSt) (supplied : Mask) :
    WM × List Cb :=
  if isCreate then w.archInsert info ti e supplied
  else
    let l := w.locOf e
    match l.arch with
    | some pi => if pi = ti || initial == p.final then (w, []) else
        match w.externalMove info ti e pi l.idx supplied with
        | some r => r
        | none => (w, [])
    | none => (w, [])

def packStaleStep (e : Handle) (supplied : Mask) (setVal : WM → CompId → Val → WM) :
    (WM × List Cb) → CompId → (WM × List Cb) :=
  fun (acc : WM × List Cb) c =>
    let cbR := if (info c).callbacks then [Cb.remove c e] else []
    if supplied.contains c then (acc.1, acc.2 ++ cbR)
    else (setVal acc.1 c (defaultVal info c), acc.2 ++ cbR ++ (if (info c).callbacks then [Cb.assign c e] else []))

def packSrcStep (w : WM) (ti : Nat) (e : Handle) (setVal : WM → CompId → Val → WM) :
    (WM × List Cb) → (CompId × Val) → (WM × List Cb) :=
  fun (acc : WM × List Cb) (cv : CompId × Val) =>
    if (w.arch ti).mask.contains cv.1 then
      (setVal acc.1 cv.1 cv.2, acc.2 ++ (if (info cv.1).callbacks then [Cb.assign cv.1 e] else []))
    else acc

def packFinish (w : WM) (isCreate : Bool) (e : Handle) (initial : Mask) (sh : Shared) (p : PackSt) (cbs : List Cb) :
    WM × List Cb :=
  let supplied := Mask.ofList (p.src.map (·.1))
  let stay : Option Nat := if isCreate || !(initial == p.final) then none else (w.locOf e).arch
  let ga : WM × Nat := match stay with
    | some pi => (w, pi)
    | none => w.getArch p.final sh
  let ti := ga.2
  let moved := packMoved info ga.1 ti isCreate e initial p supplied
  let w1 := moved.1
  let setVal := packSetVal ti (w1.locOf e)
  let stale := (p.final.filter (fun c => p.replaced.contains c && initial.contains c)).filter
    (fun c => !(isCreate && supplied.contains c) && (w1.arch ti).mask.contains c)
  let r2 := stale.foldl (packStaleStep info e supplied setVal) (w1, [])
  let r3 := p.src.foldl (packSrcStep info r2.1 ti e setVal) (r2.1, [])
  (r3.1, cbs ++ moved.2 ++ r2.2 ++ r3.2)

def isCreateCmd : Cmd → Bool
  | .create .. => true
  | _ => false

def packTail (w : WM) (isCreate : Bool) (e : Handle) (initial : Mask) (sh : Shared) (body : List Cmd) : WM × List Cb :=
  let r := body.foldl (packStep info isCreate e) (w, { final := initial }, [])
  if r.2.1.dead then (r.1, r.2.2) else packFinish info r.1 isCreate e initial sh r.2.1 r.2.2

def applyPack' (w : WM) (pack : List Cmd) : WM × List Cb :=
  match pack with
  | [] => (w, [])
  | first :: rest =>
    let e := first.entity
    let isCreate := isCreateCmd first
    match packStart w first with
    | none => (w, [])
    | some (w, initial0, sh) =>
      let initial := if isCreate then closedMask w.deps initial0 else initial0
      let body := if isCreate then rest else pack
      packTail info w isCreate e initial sh body

/-- the three-phase text is `WM.applyPack` -/
theorem applyPack_eq (w : WM) (pack : List Cmd) : w.applyPack info pack = applyPack' info w pack := by
  cases pack with
  | nil => rfl
  | cons first rest => cases first <;> rfl

/-! ## the last phase does not touch the id table -/

theorem foldl_tab {α : Type} (f : WM × List Cb → α → WM × List Cb)
    (hf : ∀ acc x, tabOf (f acc x).1 = tabOf acc.1) (l : List α) (a : WM × List Cb) :
    tabOf (l.foldl f a).1 = tabOf a.1 := by
  induction l generalizing a with
  | nil => rfl
  | cons x r ih => simp only [List.foldl_cons]; rw [ih, hf]

theorem packSetVal_tab (ti : Nat) (l' : Loc) (w : WM) (c : CompId) (v : Val) :
    tabOf (packSetVal ti l' w c v) = tabOf w := by
  unfold packSetVal; dsimp only; split <;> rfl

theorem packMoved_tab (w : WM) (ti : Nat) (isCreate : Bool) (e : Handle) (initial : Mask) (p : PackSt)
    (supplied : Mask) : tabOf (packMoved info w ti isCreate e initial p supplied).1 = tabOf w := by
  unfold packMoved
  split
  · exact archInsert_tab info _ _ _ _
  · dsimp only
    split
    · split
      · rfl
      · split
        · next r h => exact externalMove_tab info _ _ _ _ _ _ r h
        · rfl
    · rfl

theorem packStaleStep_tab (e : Handle) (supplied : Mask) (ti : Nat) (l' : Loc) (acc : WM × List Cb) (c : CompId) :
    tabOf (packStaleStep info e supplied (packSetVal ti l') acc c).1 = tabOf acc.1 := by
  simp only [packStaleStep]
  split
  · rfl
  · exact packSetVal_tab _ _ _ _ _

theorem packSrcStep_tab (w : WM) (e : Handle) (ti : Nat) (l' : Loc) (acc : WM × List Cb) (cv : CompId × Val) :
    tabOf (packSrcStep info w ti e (packSetVal ti l') acc cv).1 = tabOf acc.1 := by
  simp only [packSrcStep]
  split
  · exact packSetVal_tab _ _ _ _ _
  · rfl

theorem packFinish_tab (w : WM) (isCreate : Bool) (e : Handle) (initial : Mask) (sh : Shared) (p : PackSt)
    (cbs : List Cb) : tabOf (packFinish info w isCreate e initial sh p cbs).1 = tabOf w := by
  unfold packFinish
  dsimp only
  rw [foldl_tab _ (packSrcStep_tab info _ _ _ _), foldl_tab _ (packStaleStep_tab info _ _ _ _), packMoved_tab]
  split
  · rfl
  · exact getArch_tab _ _ _

/-! ## the fold over the commands: only `destroyNow` touches the id table, and only once -/

def isKill : Cmd → Bool
  | .destroyNow _ => true
  | _ => false

def killsIn (l : List Cmd) : Bool := l.any isKill

/-- what a `destroyNow` command does in a pack: a create pack releases its own handle unchecked,
any other pack goes through the checked `destroyNow` -/
def packKill (isCreate : Bool) (e : Handle) (t : Tab) : Tab := if isCreate then t.release e else t.destroyNow e

theorem packStep_dead (isCreate : Bool) (e : Handle) (acc : WM × PackSt × List Cb) (c : Cmd)
    (hd : acc.2.1.dead = true) : packStep info isCreate e acc c = acc := by
  rcases acc with ⟨w, p, cbs⟩
  simp only at hd
  simp [packStep, hd]

theorem packStep_live (isCreate : Bool) (e : Handle) (acc : WM × PackSt × List Cb) (c : Cmd)
    (hd : acc.2.1.dead = false) :
    tabOf (packStep info isCreate e acc c).1 = (if isKill c then packKill isCreate e (tabOf acc.1) else tabOf acc.1) ∧
    (packStep info isCreate e acc c).2.1.dead = isKill c := by
  rcases acc with ⟨w, p, cbs⟩
  simp only at hd
  cases c with
  | create e' m sh => simp [packStep, hd, isKill]
  | destroyNow e' =>
    cases isCreate
    · simp [packStep, hd, isKill, packKill, destroyNowU_tab]
    · simp [packStep, hd, isKill, packKill, release_tab]
  | destroy h => simp [packStep, hd, isKill, tabOf]
  | remove e' c =>
    simp only [packStep, hd, isKill, Bool.false_eq_true, if_false]
    split
    · split
      · exact ⟨rfl, by first | exact hd | simp⟩
      · exact ⟨rfl, by first | exact hd | simp⟩
    · exact ⟨rfl, by first | exact hd | simp⟩
  | assign e' c v =>
    simp only [packStep, hd, isKill, Bool.false_eq_true, if_false]
    split
    · exact ⟨rfl, by first | exact hd | simp⟩
    · exact ⟨rfl, by first | exact hd | simp⟩

theorem packFold_dead (isCreate : Bool) (e : Handle) (body : List Cmd) (acc : WM × PackSt × List Cb)
    (hd : acc.2.1.dead = true) : body.foldl (packStep info isCreate e) acc = acc := by
  induction body with
  | nil => rfl
  | cons c r ih => simp only [List.foldl_cons]; rw [packStep_dead info isCreate e acc c hd]; exact ih

theorem packFold_live (isCreate : Bool) (e : Handle) (body : List Cmd) (acc : WM × PackSt × List Cb)
    (hd : acc.2.1.dead = false) :
    tabOf (body.foldl (packStep info isCreate e) acc).1 =
      (if killsIn body then packKill isCreate e (tabOf acc.1) else tabOf acc.1) ∧
    (body.foldl (packStep info isCreate e) acc).2.1.dead = killsIn body := by
  induction body generalizing acc with
  | nil => exact ⟨rfl, hd⟩
  | cons c r ih =>
    simp only [List.foldl_cons, killsIn, List.any_cons]
    have hs := packStep_live info isCreate e acc c hd
    by_cases hk : isKill c = true
    · simp only [hk, if_true] at hs
      rw [packFold_dead info isCreate e r _ hs.2]
      simp only [hk, Bool.true_or, if_true]
      exact hs
    · have hk' : isKill c = false := by simpa using hk
      simp only [hk', Bool.false_eq_true, if_false] at hs
      have := ih _ hs.2
      rw [hs.1] at this
      simpa [killsIn, hk'] using this

/-! ## a whole pack -/

/-- the id-table effect of one command pack; `hasArch` = the target has an archetype (true for every valid
entity on reachable states) -/
def packTab (t : Tab) (hasArch : Bool) : List Cmd → Tab
  | [] => t
  | .create e _ _ :: rest => if killsIn rest then (t.install e).release e else t.install e
  | first :: rest =>
    if t.valid first.entity && hasArch && killsIn (first :: rest) then t.destroyNow first.entity else t

def packHasArch (w : WM) : List Cmd → Bool
  | [] => false
  | first :: _ => ((w.locOf first.entity).arch).isSome

theorem applyPack'_tail_tab (w : WM) (isCreate : Bool) (e : Handle) (initial : Mask) (sh : Shared) (body : List Cmd) :
    tabOf (packTail info w isCreate e initial sh body).1 =
    if killsIn body then packKill isCreate e (tabOf w) else tabOf w := by
  have h := packFold_live info isCreate e body (w, { final := initial }, []) rfl
  unfold packTail
  dsimp only
  split
  · exact h.1
  · rw [packFinish_tab]; exact h.1

theorem applyPack_other_tab (w : WM) (first : Cmd) (rest : List Cmd) (hnc : ∀ a b c, first ≠ .create a b c) :
    tabOf (applyPack' info w (first :: rest)).1 = packTab (tabOf w) (packHasArch w (first :: rest)) (first :: rest) := by
  have hstart : packStart w first = if !w.isValid first.entity then none else
      match (w.locOf first.entity).arch with
      | none => none
      | some ai => some (w, (w.arch ai).mask, (w.arch ai).shared) := by
    cases first <;> first | rfl | exact absurd rfl (hnc _ _ _)
  have hic : isCreateCmd first = false := by
    cases first <;> first | rfl | exact absurd rfl (hnc _ _ _)
  have hpt : ∀ b, packTab (tabOf w) b (first :: rest) =
      if (tabOf w).valid first.entity && b && killsIn (first :: rest) then (tabOf w).destroyNow first.entity
      else tabOf w := by
    intro b; cases first <;> first | rfl | exact absurd rfl (hnc _ _ _)
  rw [hpt]
  simp only [packHasArch, ← isValid_tab]
  by_cases hv : w.isValid first.entity = true
  · obtain ha | ⟨ai, ha⟩ : (w.locOf first.entity).arch = none ∨ ∃ ai, (w.locOf first.entity).arch = some ai := by
      cases (w.locOf first.entity).arch <;> simp
    · have hs : packStart w first = none := by rw [hstart]; simp [ha]
      simp [applyPack', hs, ha]
    · have hs : packStart w first = some (w, (w.arch ai).mask, (w.arch ai).shared) := by rw [hstart]; simp [hv, ha]
      simp only [applyPack', hs, hic, hv, ha, Option.isSome_some, Bool.and_true, Bool.true_and, Bool.false_eq_true,
        if_false]
      rw [applyPack'_tail_tab]
      simp [packKill]
  · have hv' : w.isValid first.entity = false := by simpa using hv
    have hs : packStart w first = none := by rw [hstart]; simp [hv']
    simp [applyPack', hs, hv']

theorem applyPack_tab (w : WM) (pack : List Cmd) :
    tabOf (w.applyPack info pack).1 = packTab (tabOf w) (packHasArch w pack) pack := by
  rw [applyPack_eq]
  cases pack with
  | nil => rfl
  | cons first rest =>
    cases first with
    | create e m sh =>
      simp only [applyPack', packStart, packTab, Cmd.entity, isCreateCmd]
      rw [applyPack'_tail_tab]
      rfl
    | destroyNow e => exact applyPack_other_tab info w _ rest (by intro a b c h; cases h)
    | destroy e => exact applyPack_other_tab info w _ rest (by intro a b c h; cases h)
    | remove e c => exact applyPack_other_tab info w _ rest (by intro a b c h; cases h)
    | assign e c v => exact applyPack_other_tab info w _ rest (by intro a b c h; cases h)

/-! ## the flush: buffers in thread order, packs in log order -/

/-- id-table effect of a sequence of packs; the flag says whether the target of a non-create pack had an
archetype when the pack was applied -/
def runPacks (t : Tab) (ps : List (Bool × List Cmd)) : Tab := ps.foldl (fun t bp => packTab t bp.1 bp.2) t

theorem packsFold_tab (ps : List (List Cmd)) (acc : WM × List Cb) :
    ∃ bs : List Bool, bs.length = ps.length ∧
      tabOf (ps.foldl (fun (acc : WM × List Cb) p =>
        let (w', c) := acc.1.applyPack info p
        (w', acc.2 ++ c)) acc).1 = runPacks (tabOf acc.1) (bs.zip ps) := by
  induction ps generalizing acc with
  | nil => exact ⟨[], rfl, rfl⟩
  | cons p r ih =>
    simp only [List.foldl_cons]
    rcases ih ((acc.1.applyPack info p).1, acc.2 ++ (acc.1.applyPack info p).2) with ⟨bs, hl, ht⟩
    refine ⟨packHasArch acc.1 p :: bs, by simp [hl], ?_⟩
    rw [ht]
    simp only [List.zip_cons_cons, runPacks, List.foldl_cons, applyPack_tab]

theorem flush_fold_flatMap {α β γ : Type} (f : α → β → α) (g : γ → List β) (l : List γ) (a : α) :
    l.foldl (fun acc x => (g x).foldl f acc) a = (l.flatMap g).foldl f a := by
  induction l generalizing a with
  | nil => rfl
  | cons x r ih => simp only [List.foldl_cons, List.flatMap_cons, List.foldl_append]; exact ih _

/-- `onUnlock`: on the id table the flush is the sequence of pack effects, buffers in thread order and
packs in log order -/
theorem flush_tab (w : WM) :
    ∃ bs : List Bool, bs.length = (w.buffers.flatMap packs).length ∧
      tabOf (w.flush info).1 = runPacks (tabOf w) (bs.zip (w.buffers.flatMap packs)) := by
  unfold WM.flush
  dsimp only
  rw [flush_fold_flatMap]
  exact packsFold_tab info (w.buffers.flatMap packs) ({ w with buffers := w.buffers.map (fun _ => []) }, [])

/-- `unlock`: depth bookkeeping, then the flush when the outermost section ends -/
theorem unlock_tab (w : WM) :
    (tabOf w).unlockDepth.lockDepth ≠ 0 → tabOf (w.unlock info).1 = (tabOf w).unlockDepth := by
  intro hd
  unfold WM.unlock
  unfold Tab.unlockDepth at hd ⊢
  by_cases h0 : w.lockDepth > 0
  · have h0' : (tabOf w).lockDepth > 0 := h0
    simp only [h0, h0', if_true] at hd ⊢
    have : ¬ (w.lockDepth - 1 = 0) := hd
    simp only [this, if_false]
    rfl
  · have h0' : ¬ (tabOf w).lockDepth > 0 := h0
    simp only [h0'] at hd
    exact absurd (by show w.lockDepth = 0; omega) hd

/-! ## packs as flush actions of the table-level history -/

def Tab.act (t : Tab) : FAct → Tab
  | .install h => t.install h
  | .kill h => t.destroyNow h

theorem St_act_tab (s : St) (a : FAct) : (s.act a).tab = Tab.act s.tab a := by cases a <;> rfl

/-- the flush actions a pack stands for -/
def packActs (hasArch : Bool) : List Cmd → List FAct
  | [] => []
  | .create e _ _ :: rest => if killsIn rest then [.install e, .kill e] else [.install e]
  | first :: rest => if hasArch && killsIn (first :: rest) then [.kill first.entity] else []

theorem install_valid (t : Tab) (e : Handle) (hn : e ≠ Handle.null) (hw : e.world = t.worldId) :
    (t.install e).valid e = true := by
  unfold Tab.valid
  have h1 : e.isNull = false := by simpa [Handle.isNull] using hn
  have h2 : (t.install e).worldId = t.worldId := rfl
  have h3 : (t.install e).slots[e.id]? = some ⟨e.id, e.ver⟩ := by
    simp only [Tab.install, Tab.ensureId]
    apply List.getElem?_set_self
    simp only [List.length_append, List.length_replicate]
    omega
  simp [h1, h2, h3, hw]

/-- a pack acts on the id table as its flush actions (the handle of a create command is a handle of this
world and not the null pattern: it was returned by `createLocked`) -/
theorem packTab_acts (t : Tab) (b : Bool) (pack : List Cmd)
    (hc : ∀ e m sh rest, pack = .create e m sh :: rest → e ≠ Handle.null ∧ e.world = t.worldId) :
    packTab t b pack = (packActs b pack).foldl Tab.act t := by
  cases pack with
  | nil => rfl
  | cons first rest =>
    cases first with
    | create e m sh =>
      have ⟨hn, hw⟩ := hc e m sh rest rfl
      simp only [packTab, packActs]
      split
      · simp only [List.foldl_cons, List.foldl_nil, Tab.act, Tab.destroyNow, install_valid t e hn hw]
        rfl
      · rfl
    | destroyNow e =>
      simp only [packTab, packActs, Cmd.entity]
      by_cases hv : t.valid e = true
      · simp only [hv, Bool.true_and]; split <;> rfl
      · have hv' : t.valid e = false := by simpa using hv
        simp only [hv', Bool.false_and, Bool.false_eq_true, if_false]
        split
        · simp [Tab.act, Tab.destroyNow, hv']
        · rfl
    | destroy e =>
      simp only [packTab, packActs, Cmd.entity]
      by_cases hv : t.valid e = true
      · simp only [hv, Bool.true_and]; split <;> rfl
      · have hv' : t.valid e = false := by simpa using hv
        simp only [hv', Bool.false_and, Bool.false_eq_true, if_false]
        split
        · simp [Tab.act, Tab.destroyNow, hv']
        · rfl
    | remove e c =>
      simp only [packTab, packActs, Cmd.entity]
      by_cases hv : t.valid e = true
      · simp only [hv, Bool.true_and]; split <;> rfl
      · have hv' : t.valid e = false := by simpa using hv
        simp only [hv', Bool.false_and, Bool.false_eq_true, if_false]
        split
        · simp [Tab.act, Tab.destroyNow, hv']
        · rfl
    | assign e c v =>
      simp only [packTab, packActs, Cmd.entity]
      by_cases hv : t.valid e = true
      · simp only [hv, Bool.true_and]; split <;> rfl
      · have hv' : t.valid e = false := by simpa using hv
        simp only [hv', Bool.false_and, Bool.false_eq_true, if_false]
        split
        · simp [Tab.act, Tab.destroyNow, hv']
        · rfl

end Mustache.Proofs.IdTable

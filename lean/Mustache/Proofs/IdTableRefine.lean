import Mustache.Model.IdTable
/-!
# The id table of the world model: `WM.tab`, and every WM operation seen through it

`w.tab` keeps the six fields of `WM` the id table consists of. Each lemma says that a WM operation acts
on the projection as the `Tab` operation of `Model/IdTable.lean` (or not at all). Together with the
`world` correspondence harness (WM vs. the C++) this is what connects the `Tab` theorems of C01 to the code.
-/
namespace Mustache.Proofs.IdTable
open Mustache.Model

/-- the id-table part of the world model -/
def tabOf (w : WM) : Tab := ⟨w.worldId, w.slots, w.next, w.empty, w.lockDepth, w.nextEntityId⟩

/-- the handles of the rows of archetype `ai` -/
def rowHandles (w : WM) (ai : Nat) : List Handle := (w.arch ai).rows.map (·.ent)

variable (info : CompId → CompInfo)

/-! ## queries -/

theorem isValid_tab (w : WM) (h : Handle) : w.isValid h = (tabOf w).valid h := rfl

/-! ## the id table operations themselves -/

theorem allocId_tab (w : WM) : tabOf (w.allocId).1 = ((tabOf w).alloc).1 ∧ (w.allocId).2 = ((tabOf w).alloc).2 := by
  unfold WM.allocId Tab.alloc
  by_cases he : w.empty = 0
  · simp [tabOf, he]
  · cases hs : w.slots[w.next]? with
    | none => simp [tabOf, he, hs]
    | some s => simp [tabOf, he, hs]

theorem ensureId_tab (w : WM) (id : Nat) : tabOf (w.ensureId id) = (tabOf w).ensureId id := rfl

theorem release_tab (w : WM) (h : Handle) : tabOf (w.release h) = (tabOf w).release h := by
  unfold WM.release Tab.release
  by_cases hl : h.id < w.slots.length
  · simp [tabOf, hl]
  · simp [tabOf, hl, WM.ensureId, Tab.ensureId]

theorem createLocked_tab (w : WM) (t : Nat) (m : Mask) (sh : Shared) :
    tabOf (w.createLocked t m sh).1 = ((tabOf w).reserve).1 ∧ (w.createLocked t m sh).2 = ((tabOf w).reserve).2 :=
  ⟨rfl, rfl⟩

theorem lock_tab (w : WM) : tabOf w.lock = (tabOf w).lock := by
  by_cases hd : w.lockDepth = 0 <;> simp [WM.lock, Tab.lock, tabOf, hd]

/-! ## operations that do not touch the id table -/

theorem setArch_tab (w : WM) (i : Nat) (a : Arch) : tabOf (w.setArch i a) = tabOf w := rfl

theorem setLoc_tab (w : WM) (h : Handle) (a : Option Nat) (i : Nat) : tabOf (w.setLoc h a i) = tabOf w := by
  unfold WM.setLoc; split <;> rfl

theorem pushCmd_tab (w : WM) (t : Nat) (c : Cmd) : tabOf (w.pushCmd t c) = tabOf w := rfl

theorem getArch_tab (w : WM) (m : Mask) (sh : Shared) : tabOf (w.getArch m sh).1 = tabOf w := by
  unfold WM.getArch; dsimp only; split <;> rfl

theorem archRemove_tab (w : WM) (ai idx : Nat) (skip : Mask) : tabOf (w.archRemove info ai idx skip).1 = tabOf w := by
  unfold WM.archRemove
  dsimp only
  split
  · rfl
  · split
    · simp only [setLoc_tab, setArch_tab]
    · simp only [setLoc_tab, setArch_tab]

theorem archInsert_tab (w : WM) (ai : Nat) (e : Handle) (skip : Mask) :
    tabOf (w.archInsert info ai e skip).1 = tabOf w := by
  unfold WM.archInsert
  simp only [setLoc_tab, setArch_tab]

theorem externalMove_tab (w : WM) (target : Nat) (e : Handle) (prev prevIdx : Nat) (skip : Mask)
    (r : WM × List Cb) (h : w.externalMove info target e prev prevIdx skip = some r) : tabOf r.1 = tabOf w := by
  unfold WM.externalMove at h
  split at h
  · cases h
  · simp only [Option.some.injEq] at h
    subst h
    simp only [setLoc_tab, archRemove_tab, setArch_tab]

theorem destroy_tab (w : WM) (t : Nat) (e : Handle) : tabOf (w.destroy t e) = tabOf w := by
  unfold WM.destroy; split
  · rfl
  · split <;> rfl

/-! ## destruction -/

theorem destroyNowU_tab (w : WM) (h : Handle) : tabOf (w.destroyNowU info h).1 = (tabOf w).destroyNow h := by
  unfold WM.destroyNowU Tab.destroyNow
  rw [isValid_tab]
  split
  · rfl
  · cases ha : (w.locOf h).arch with
    | none => simp only [ha, release_tab]
    | some ai => simp only [ha, release_tab, archRemove_tab]

theorem destroyNow_tab (w : WM) (t : Nat) (e : Handle) :
    tabOf (w.destroyNow info t e).1 = if w.isLocked then tabOf w else (tabOf w).destroyNow e := by
  unfold WM.destroyNow
  split
  · rfl
  · exact destroyNowU_tab info w e

/-- `update()`: the checked `destroyNow` of every marked handle, in the order of the set -/
theorem update_tab (w : WM) :
    tabOf (w.update info).1 = if w.isLocked then tabOf w else (tabOf w).destroyAll w.marked := by
  unfold WM.update
  split
  · rfl
  · have key : ∀ (l : List Handle) (acc : WM × List Cb),
        tabOf (l.foldl (fun (acc : WM × List Cb) h =>
          let (w', c) := acc.1.destroyNowU info h
          (w', acc.2 ++ c)) acc).1 = (tabOf acc.1).destroyAll l := by
      intro l
      induction l with
      | nil => intro acc; rfl
      | cons a r ih =>
        intro acc
        simp only [List.foldl_cons, Tab.destroyAll] at ih ⊢
        rw [ih]
        simp only [destroyNowU_tab]
    have := key w.marked (w, [])
    simp only at this ⊢
    exact this

/-- `clearArchetype`: one push on the free chain per row, in row order -/
theorem clearArch_tab (w : WM) (ai : Nat) : tabOf (w.clearArch info ai).1 = (tabOf w).clearList (rowHandles w ai) := by
  unfold WM.clearArch rowHandles
  simp only [setArch_tab]
  generalize (w.arch ai).rows = rows
  induction rows generalizing w with
  | nil => rfl
  | cons r rs ih =>
    simp only [List.foldl_cons, List.map_cons, Tab.clearList] at ih ⊢
    rw [ih]
    rfl

/-! ## creation -/

theorem create_tab (w : WM) (t : Nat) (m : Mask) (sh : Shared) :
    (tabOf (w.create info t m sh).1 = if w.isLocked then ((tabOf w).reserve).1 else ((tabOf w).alloc).1) ∧
    (w.create info t m sh).2.1 = if w.isLocked then ((tabOf w).reserve).2 else ((tabOf w).alloc).2 := by
  unfold WM.create
  split
  · exact ⟨rfl, rfl⟩
  · have h1 := allocId_tab (w.getArch m sh).1
    rw [getArch_tab] at h1
    simp only [archInsert_tab]
    exact h1

end Mustache.Proofs.IdTable

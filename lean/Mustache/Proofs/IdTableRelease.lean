import Mustache.Proofs.IdTableBasic
/-!
# Id table: destruction preserves the invariant

`release` / `clear1` of a live handle (push on the free chain with the version bumped), the checked
`destroyNow` of ANY handle, `clearList` over live distinct handles, `destroyAll` (the loop of `update`).
-/
namespace Mustache.Proofs.IdTable
open Mustache.Model

theorem release_eq_clear1 (t : Tab) (h : Handle) (hlt : h.id < t.slots.length) : t.release h = t.clear1 h := by
  simp [Tab.release, Tab.clear1, hlt]

theorem mem_destroy (g : Ghost) (h x : Handle) : x ∈ (g.destroy h).live ↔ x ∈ g.live ∧ x ≠ h := by
  simp [Ghost.destroy]

theorem destroy_not_live (g : Ghost) (h : Handle) (hn : h ∉ g.live) : g.destroy h = g := by
  have : g.live.filter (· ≠ h) = g.live := by
    apply List.filter_eq_self.mpr
    intro a ha
    have : a ≠ h := fun e => hn (e ▸ ha)
    simpa using this
  cases g
  simp only [Ghost.destroy] at this ⊢
  rw [this]

/-- pushing a live handle's id on the free chain with the version bumped preserves the invariant -/
theorem clear1_inv {t : Tab} {g : Ghost} (inv : TInv t g) {h : Handle} (hl : h ∈ g.live)
    (hb : h.ver + 1 < 2^24) : TInv (t.clear1 h) (g.destroy h) := by
  rcases inv.chain with ⟨fs, hch, hnd, hlen, hmem, hidf⟩
  have hs := inv.live_slot h hl
  have hidlt : h.id < t.slots.length := getElem?_lt hs
  have hmod : (h.ver + 1) % 2^24 = h.ver + 1 := Nat.mod_eq_of_lt hb
  have hnotfs : h.id ∉ fs := fun hin => ((hmem h.id).mp hin).2.1 h hl rfl
  have live_id_ne : ∀ x ∈ (g.destroy h).live, x.id ≠ h.id := by
    intro x hx hxid
    rcases (mem_destroy g h x).mp hx with ⟨hxl, hne⟩
    exact hne (inv.live_nodup_id x hxl h hl hxid)
  have pend_id_ne : ∀ p ∈ g.pending, p.id ≠ h.id := fun p hp e => live_pending_id_ne inv hl hp e.symm
  have hslots : (t.clear1 h).slots = t.slots.set h.id ⟨if t.empty ≠ 0 then t.next else h.id + 1, h.ver + 1⟩ := by
    simp [Tab.clear1, hmod]
  have hself : (t.clear1 h).slots[h.id]? = some ⟨if t.empty ≠ 0 then t.next else h.id + 1, h.ver + 1⟩ := by
    rw [hslots, List.getElem?_set_self hidlt]
  have hother : ∀ i, i ≠ h.id → (t.clear1 h).slots[i]? = t.slots[i]? := by
    intro i hi; rw [hslots, List.getElem?_set_ne (fun e => hi e.symm)]
  have hlen' : (t.clear1 h).slots.length = t.slots.length := by rw [hslots]; simp
  have hpend : (g.destroy h).pending = g.pending := rfl
  have hiss : (g.destroy h).issued = g.issued := rfl
  have hidf_new : (if t.empty ≠ 0 then t.next else h.id + 1) ≠ h.id := by
    by_cases he : t.empty = 0
    · simp [he]
    · simp only [ne_eq, he, not_false_eq_true, if_true]
      cases fs with
      | nil => simp at hlen; omega
      | cons a r =>
        have : a = t.next := hch.head_eq
        intro e
        apply hnotfs
        rw [← e, ← this]; simp
  refine ⟨?_, ?_, ?_, ?_, ?_, ?_, ?_, ?_, ?_, ?_, ?_, ?_, ?_, ?_, ?_, ?_⟩
  · refine ⟨h.id :: fs, ?_, List.nodup_cons.mpr ⟨hnotfs, hnd⟩, by simp [Tab.clear1, hlen], ?_, ?_⟩
    · refine Chain.cons h.id _ fs hself ?_
      show Chain (t.clear1 h).slots (if t.empty ≠ 0 then t.next else h.id + 1) fs
      rw [hslots]
      by_cases he : t.empty = 0
      · have : fs = [] := by
          cases fs with
          | nil => rfl
          | cons a r => simp [he] at hlen
        subst this; exact Chain.nil _
      · simp only [he, ne_eq, not_false_eq_true, if_true]
        exact hch.set_notin hnotfs
    · intro i
      rw [hlen', hpend, List.mem_cons]
      constructor
      · rintro (rfl | hi)
        · exact ⟨hidlt, fun x hx => live_id_ne x hx, pend_id_ne⟩
        · rcases (hmem i).mp hi with ⟨hlt, hall, hp⟩
          exact ⟨hlt, fun x hx => hall x ((mem_destroy g h x).mp hx).1, hp⟩
      · rintro ⟨hlt, hall, hp⟩
        by_cases hih : i = h.id
        · exact Or.inl hih
        · right
          apply (hmem i).mpr
          refine ⟨hlt, fun x hx hxid => ?_, hp⟩
          by_cases hxh : x = h
          · subst hxh; exact hih hxid.symm
          · exact hall x ((mem_destroy g h x).mpr ⟨hx, hxh⟩) hxid
    · intro i hi s hs'
      rcases List.mem_cons.mp hi with rfl | hi
      · rw [hself] at hs'; cases hs'; exact hidf_new
      · have hne : i ≠ h.id := fun e => hnotfs (e ▸ hi)
        rw [hother i hne] at hs'
        exact hidf i hi s hs'
  · intro x hx
    rw [hother x.id (live_id_ne x hx)]
    exact inv.live_slot x ((mem_destroy g h x).mp hx).1
  · intro a ha b hb' hab
    exact inv.live_nodup_id a ((mem_destroy g h a).mp ha).1 b ((mem_destroy g h b).mp hb').1 hab
  · intro x hx; exact inv.live_issued x ((mem_destroy g h x).mp hx).1
  · exact inv.world
  · intro x hx hxp
    rcases inv.issued_slot x hx hxp with ⟨sx, hsx, hle⟩
    by_cases hxid : x.id = h.id
    · refine ⟨_, hxid ▸ hself, ?_⟩
      rw [hxid, hs] at hsx; cases hsx
      show x.ver ≤ h.ver + 1
      simp at hle; omega
    · exact ⟨sx, by rw [hother _ hxid]; exact hsx, hle⟩
  · intro x hx hnl hxp s' hs'
    by_cases hxid : x.id = h.id
    · rw [hxid, hself] at hs'; cases hs'
      rcases inv.issued_slot x hx hxp with ⟨sx, hsx, hle⟩
      rw [hxid, hs] at hsx; cases hsx
      show x.ver < h.ver + 1
      simp at hle; omega
    · rw [hother _ hxid] at hs'
      apply inv.dead_lt x hx ?_ hxp s' hs'
      intro hxl
      apply hnl
      apply (mem_destroy g h x).mpr ⟨hxl, ?_⟩
      intro e; subst e; exact hxid rfl
  · exact inv.fresh
  · exact inv.pend_issued
  · exact inv.pend_ver
  · intro p hp s' hs'
    rw [hother _ (pend_id_ne p hp)] at hs'
    exact inv.pend_gap p hp s' hs'
  · exact inv.pend_lt
  · exact inv.pend_unique
  · intro p hp hpl
    exact inv.pend_not_live p hp ((mem_destroy g h p).mp hpl).1
  · intro i hi hi2
    rw [hlen'] at hi
    exact inv.gap_cover i hi hi2
  · intro hd
    rw [hlen']
    exact inv.locked_len hd

theorem release_inv {t : Tab} {g : Ghost} (inv : TInv t g) {h : Handle} (hl : h ∈ g.live)
    (hb : h.ver + 1 < 2^24) : TInv (t.release h) (g.destroy h) := by
  rw [release_eq_clear1 t h (live_ids_lt inv hl)]
  exact clear1_inv inv hl hb

/-- the checked `destroyNow` of ANY handle preserves the invariant: it frees exactly a live handle -/
theorem destroyNow_inv {t : Tab} {g : Ghost} (inv : TInv t g) (hr : t.slots.length ≤ 2^30 - 1) (h : Handle)
    (hb : h ∈ g.issued → h.ver + 1 < 2^24) : TInv (t.destroyNow h) (g.destroy h) := by
  unfold Tab.destroyNow
  by_cases hv : t.valid h = true
  · have hl := (valid_iff_live_any inv hr h).mp hv
    simp only [hv, Bool.not_true, Bool.false_eq_true, if_false]
    exact release_inv inv hl (hb (inv.live_issued h hl))
  · have hnl : h ∉ g.live := fun hl => hv ((valid_iff_live_any inv hr h).mpr hl)
    have hv' : t.valid h = false := by simpa using hv
    simp only [hv', Bool.not_false, if_true]
    rw [destroy_not_live g h hnl]
    exact inv

/-! ## lengths never shrink -/

theorem clear1_length (t : Tab) (h : Handle) : (t.clear1 h).slots.length = t.slots.length := by
  simp [Tab.clear1]

theorem release_length_ge (t : Tab) (h : Handle) : t.slots.length ≤ (t.release h).slots.length := by
  unfold Tab.release
  by_cases hlt : h.id < t.slots.length
  · simp [hlt]
  · simp [hlt, Tab.ensureId]

theorem destroyNow_length_ge (t : Tab) (h : Handle) : t.slots.length ≤ (t.destroyNow h).slots.length := by
  unfold Tab.destroyNow
  split
  · exact Nat.le_refl _
  · exact release_length_ge t h

/-! ## lists of destructions -/

def Ghost.destroyAll (g : Ghost) (hs : List Handle) : Ghost := hs.foldl Ghost.destroy g

theorem destroyAll_issued (g : Ghost) (hs : List Handle) : (g.destroyAll hs).issued = g.issued := by
  induction hs generalizing g with
  | nil => rfl
  | cons a r ih => simp only [Ghost.destroyAll, List.foldl_cons] at ih ⊢; rw [ih]; rfl

theorem destroyAll_pending (g : Ghost) (hs : List Handle) : (g.destroyAll hs).pending = g.pending := by
  induction hs generalizing g with
  | nil => rfl
  | cons a r ih => simp only [Ghost.destroyAll, List.foldl_cons] at ih ⊢; rw [ih]; rfl

theorem mem_destroyAll (g : Ghost) (hs : List Handle) (x : Handle) :
    x ∈ (g.destroyAll hs).live ↔ x ∈ g.live ∧ x ∉ hs := by
  induction hs generalizing g with
  | nil => simp [Ghost.destroyAll]
  | cons a r ih =>
    simp only [Ghost.destroyAll, List.foldl_cons] at ih ⊢
    rw [ih, mem_destroy]
    simp only [List.mem_cons, not_or]
    constructor
    · rintro ⟨⟨a1, a2⟩, a3⟩; exact ⟨a1, a2, a3⟩
    · rintro ⟨a1, a2, a3⟩; exact ⟨⟨a1, a2⟩, a3⟩

/-- `clearArchetype`: the handles of the rows are live and pairwise distinct -/
theorem clearList_inv {t : Tab} {g : Ghost} (inv : TInv t g) (hs : List Handle)
    (hlive : ∀ h ∈ hs, h ∈ g.live) (hnd : hs.Nodup) (hb : ∀ h ∈ hs, h.ver + 1 < 2^24) :
    TInv (t.clearList hs) (g.destroyAll hs) := by
  induction hs generalizing t g with
  | nil => exact inv
  | cons a r ih =>
    simp only [Tab.clearList, Ghost.destroyAll, List.foldl_cons]
    have hnd' := List.nodup_cons.mp hnd
    apply ih (clear1_inv inv (hlive a (by simp)) (hb a (by simp)))
    · intro h hh
      apply (mem_destroy g a h).mpr ⟨hlive h (by simp [hh]), ?_⟩
      intro e; subst e; exact hnd'.1 hh
    · exact hnd'.2
    · intro h hh; exact hb h (by simp [hh])

theorem clearList_length (t : Tab) (hs : List Handle) : (t.clearList hs).slots.length = t.slots.length := by
  induction hs generalizing t with
  | nil => rfl
  | cons a r ih => simp only [Tab.clearList, List.foldl_cons] at ih ⊢; rw [ih, clear1_length]

theorem destroyAll_length_ge (t : Tab) (hs : List Handle) : t.slots.length ≤ (t.destroyAll hs).slots.length := by
  induction hs generalizing t with
  | nil => exact Nat.le_refl _
  | cons a r ih =>
    simp only [Tab.destroyAll, List.foldl_cons] at ih ⊢
    exact Nat.le_trans (destroyNow_length_ge t a) (ih _)

/-- the loop of `update` (and any run of checked destructions) -/
theorem destroyAll_inv {t : Tab} {g : Ghost} (inv : TInv t g) (hs : List Handle)
    (hr : (t.destroyAll hs).slots.length ≤ 2^30 - 1)
    (hb : ∀ h ∈ hs, h ∈ g.issued → h.ver + 1 < 2^24) :
    TInv (t.destroyAll hs) (g.destroyAll hs) := by
  induction hs generalizing t g with
  | nil => exact inv
  | cons a r ih =>
    simp only [Tab.destroyAll, Ghost.destroyAll, List.foldl_cons] at hr ⊢
    have hr0 : t.slots.length ≤ 2^30 - 1 :=
      Nat.le_trans (Nat.le_trans (destroyNow_length_ge t a) (destroyAll_length_ge _ r)) hr
    apply ih (destroyNow_inv inv hr0 a (hb a (by simp))) hr
    intro h hh hi
    exact hb h (by simp [hh]) hi

end Mustache.Proofs.IdTable

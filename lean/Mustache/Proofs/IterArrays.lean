import Mustache.Proofs.IterBlocks

/-! Proofs about `ArrayView`: the arrays handed out for a piece `(first filtered entity e, size)` of one
archetype are, concatenated, exactly `size` consecutive selected entities starting at the `e`-th one; every
array is non-empty, inside one block, inside one storage chunk, inside the population. -/
namespace Mustache.Iteration

theorem getD_append_length {α : Type} (pre : List α) (x : α) (post : List α) (d : α) :
    (pre ++ x :: post).getD pre.length d = x := by
  simp [List.getD_eq_getElem?_getD]

theorem getD_append_length_succ {α : Type} (pre : List α) (x y : α) (post : List α) (d : α) :
    (pre ++ x :: y :: post).getD (pre.length + 1) d = y := by
  simp [List.getD_eq_getElem?_getD]

theorem blocksCount_cons (x : Block) (rest : List Block) :
    blocksCount (x :: rest) = (x.e - x.b) + blocksCount rest := by
  simp [blocksCount]

theorem blocksCount_append (l₁ l₂ : List Block) : blocksCount (l₁ ++ l₂) = blocksCount l₁ + blocksCount l₂ := by
  simp [blocksCount, List.sum_append]

/-- the blocks after `x` fit between `x.e` and the population -/
theorem BlocksOK.room {size : Nat} : ∀ {rest : List Block} {lo : Nat} {x : Block},
    BlocksOK size lo (x :: rest) → x.e + blocksCount rest ≤ size
  | [], _, _, h => by simpa [blocksCount] using h.2.2.1
  | y :: r, _, x, h => by
    have hy : BlocksOK size (x.e + 1) (y :: r) := h.2.2.2
    have ih := BlocksOK.room hy
    rw [blocksCount_cons]
    have := hy.1; have := hy.2.1
    omega

theorem BlocksOK.split {size : Nat} : ∀ {pre : List Block} {lo : Nat} {x : Block} {post : List Block},
    BlocksOK size lo (pre ++ x :: post) → ∃ lo', BlocksOK size lo' (x :: post)
  | [], lo, _, _, h => ⟨lo, h⟩
  | _ :: pre, _, _, _, h => BlocksOK.split (pre := pre) h.2.2.2

theorem BlocksOK.mem {size : Nat} : ∀ {bl : List Block} {lo : Nat},
    BlocksOK size lo bl → ∀ x ∈ bl, x.b < x.e ∧ x.e ≤ size
  | [], _, _, x, hx => by cases hx
  | y :: r, _, h, x, hx => by
    rcases List.mem_cons.mp hx with rfl | hx
    · exact ⟨h.2.1, h.2.2.1⟩
    · exact BlocksOK.mem h.2.2.2 x hx

/-! ### `updateBlock` computed -/

theorem updateBlock_zero (fa : FA) (v : AV) (h : v.distEnd = 0) : AV.updateBlock fa v = v := by
  simp [AV.updateBlock, h]

theorem updateBlock_stay (fa : FA) (pre : List Block) (blk : Block) (post : List Block)
    (hb : fa.blocks = pre ++ blk :: post) (idx as dist bs : Nat) (hd : 0 < dist) (hlt : idx < blk.e) :
    AV.updateBlock fa ⟨pre.length, idx, as, dist, bs⟩ =
      ⟨pre.length, idx, min (blk.e - idx) (min (distToChunkEnd fa.size fa.cap idx) dist), dist, blk.e - idx⟩ := by
  have hne : blk.e - idx ≠ 0 := by omega
  simp [AV.updateBlock, hd, hb, hne]

theorem updateBlock_hop (fa : FA) (pre : List Block) (blk y : Block) (post : List Block)
    (hb : fa.blocks = pre ++ blk :: y :: post) (idx as dist bs : Nat) (hd : 0 < dist) (he : idx = blk.e)
    (hy : idx ≤ y.b) :
    AV.updateBlock fa ⟨pre.length, idx, as, dist, bs⟩ =
      ⟨pre.length + 1, y.b, min (y.e - y.b) (min (distToChunkEnd fa.size fa.cap y.b) dist), dist, y.e - y.b⟩ := by
  have h0 : blk.e - idx = 0 := by omega
  have hi : idx + (y.b - idx) = y.b := by omega
  simp [AV.updateBlock, hd, hb, h0, hi]

/-! ### one array -/

/-- what the property demands of a single array `(first, len)` of archetype `fa` -/
def ArrOK (fa : FA) (p : Nat × Nat) : Prop :=
  1 ≤ p.2 ∧ p.1 + p.2 ≤ fa.size ∧ p.1 / fa.cap = (p.1 + p.2 - 1) / fa.cap ∧
    ∃ x ∈ fa.blocks, x.b ≤ p.1 ∧ p.1 + p.2 ≤ x.e

theorem same_chunk (idx k cap : Nat) (hcap : 1 ≤ cap) (hk : 1 ≤ k) (h : k ≤ cap - idx % cap) :
    idx / cap = (idx + k - 1) / cap := by
  symm
  apply Nat.div_eq_of_lt_le
  · have := Nat.div_mul_le_self idx cap; omega
  · have h1 := Nat.div_add_mod idx cap
    have h2 := Nat.mod_lt idx (show 0 < cap by omega)
    rw [Nat.add_mul, Nat.one_mul, Nat.mul_comm]
    omega

theorem distToChunkEnd_pos (size cap idx : Nat) (hcap : 1 ≤ cap) (h : idx < size) :
    1 ≤ distToChunkEnd size cap idx := by
  unfold distToChunkEnd
  have := Nat.mod_lt idx (show 0 < cap by omega)
  simp only [h, if_true]
  omega

theorem arrOK_of_step (fa : FA) (hcap : 1 ≤ fa.cap) (blk : Block) (hm : blk ∈ fa.blocks) (hbe : blk.e ≤ fa.size)
    (idx dist : Nat) (h1 : blk.b ≤ idx) (h2 : idx < blk.e) (hd : 0 < dist) :
    ArrOK fa (idx, min (blk.e - idx) (min (distToChunkEnd fa.size fa.cap idx) dist)) := by
  have hp := distToChunkEnd_pos fa.size fa.cap idx hcap (by omega)
  have hle : distToChunkEnd fa.size fa.cap idx ≤ fa.size - idx ∧
      distToChunkEnd fa.size fa.cap idx ≤ fa.cap - idx % fa.cap := by
    unfold distToChunkEnd
    have : fa.size > idx := by omega
    simp only [this, if_true]
    omega
  refine ⟨?_, ?_, ?_, blk, hm, h1, ?_⟩
  · simp only; omega
  · simp only; omega
  · apply same_chunk _ _ _ hcap
    · simp only; omega
    · simp only; omega
  · simp only; omega

/-! ### the array loop -/

theorem take_range'_append (a n k : Nat) (l : List Nat) (hk : k ≤ n) (d : Nat) (hd : k ≤ d) :
    (List.range' a n ++ l).take d = List.range' a k ++ (List.range' (a + k) (n - k) ++ l).take (d - k) := by
  have h : List.range' a n = List.range' a k ++ List.range' (a + k) (n - k) := by
    have := @List.range'_append a k (n - k) 1
    simp only [Nat.one_mul] at this
    rw [this]; congr 1; omega
  rw [h, List.append_assoc, List.take_append, List.length_range']
  congr 1
  rw [List.take_of_length_le]
  simp [List.length_range']; exact hd

/-- the statement proved about the array loop started from a state *before* `updateBlock` -/
def ArraysSpec (fa : FA) (fuel : Nat) : Prop :=
  ∀ (pre : List Block) (blk : Block) (post : List Block) (idx as dist bs lo : Nat),
    fa.blocks = pre ++ blk :: post → BlocksOK fa.size lo (blk :: post) →
    blk.b ≤ idx → idx ≤ blk.e → dist ≤ (blk.e - idx) + blocksCount post → dist ≤ fuel →
    (AV.arrays fa fuel (AV.updateBlock fa ⟨pre.length, idx, as, dist, bs⟩)).flatMap
        (fun p => List.range' p.1 p.2) =
      (List.range' idx (blk.e - idx) ++ flatRange post).take dist ∧
    ∀ p ∈ AV.arrays fa fuel (AV.updateBlock fa ⟨pre.length, idx, as, dist, bs⟩), ArrOK fa p

theorem arrays_spec (fa : FA) (hcap : 1 ≤ fa.cap) : ∀ fuel, ArraysSpec fa fuel := by
  intro fuel
  induction fuel with
  | zero =>
    intro pre blk post idx as dist bs lo _ _ _ _ _ hf
    have hd : dist = 0 := by omega
    subst hd
    simp [AV.arrays]
  | succ f ih =>
    -- the case where the cursor is strictly inside its block
    have stay : ∀ (pre : List Block) (blk : Block) (post : List Block) (idx as dist bs lo : Nat),
        fa.blocks = pre ++ blk :: post → BlocksOK fa.size lo (blk :: post) →
        blk.b ≤ idx → idx < blk.e → 0 < dist → dist ≤ (blk.e - idx) + blocksCount post → dist ≤ f + 1 →
        (AV.arrays fa (f + 1) (AV.updateBlock fa ⟨pre.length, idx, as, dist, bs⟩)).flatMap
            (fun p => List.range' p.1 p.2) =
          (List.range' idx (blk.e - idx) ++ flatRange post).take dist ∧
        ∀ p ∈ AV.arrays fa (f + 1) (AV.updateBlock fa ⟨pre.length, idx, as, dist, bs⟩), ArrOK fa p := by
      intro pre blk post idx as dist bs lo hb hok h1 h2 hd hrem hf
      rw [updateBlock_stay fa pre blk post hb idx as dist bs hd h2]
      have hm : blk ∈ fa.blocks := by rw [hb]; simp
      have hA := arrOK_of_step fa hcap blk hm hok.2.2.1 idx dist h1 h2 hd
      generalize hk : min (blk.e - idx) (min (distToChunkEnd fa.size fa.cap idx) dist) = k at hA ⊢
      have hk1 : 1 ≤ k := hA.1
      have hk2 : k ≤ blk.e - idx := by omega
      have hk3 : k ≤ dist := by omega
      have hne : dist ≠ 0 := by omega
      simp only [AV.arrays, hne, if_false, AV.next]
      have := ih pre blk post (idx + k) k (dist - k) (blk.e - idx) lo hb hok (by omega) (by omega)
        (by omega) (by omega)
      constructor
      · rw [List.flatMap_cons, this.1, take_range'_append idx (blk.e - idx) k _ hk2 dist hk3]
        have : blk.e - (idx + k) = blk.e - idx - k := by omega
        rw [this]
      · intro p hp
        rcases List.mem_cons.mp hp with rfl | hp
        · exact hA
        · exact this.2 p hp
    intro pre blk post idx as dist bs lo hb hok h1 h2 hrem hf
    by_cases hd : dist = 0
    · subst hd
      rw [updateBlock_zero fa _ rfl]
      simp [AV.arrays]
    · by_cases hlt : idx < blk.e
      · exact stay pre blk post idx as dist bs lo hb hok h1 hlt (by omega) hrem hf
      · have he : idx = blk.e := by omega
        cases post with
        | nil => simp [blocksCount] at hrem; omega
        | cons y post' =>
          have hy : BlocksOK fa.size (blk.e + 1) (y :: post') := hok.2.2.2
          have hyb : idx ≤ y.b := by have := hy.1; omega
          rw [updateBlock_hop fa pre blk y post' hb idx as dist bs (by omega) he hyb]
          have hb' : fa.blocks = (pre ++ [blk]) ++ y :: post' := by rw [hb]; simp
          have hst := stay (pre ++ [blk]) y post' y.b as dist bs (blk.e + 1) hb' hy (Nat.le_refl _) hy.2.1
            (by omega) (by rw [blocksCount_cons] at hrem; omega) hf
          rw [updateBlock_stay fa (pre ++ [blk]) y post' hb' y.b as dist bs (by omega) hy.2.1] at hst
          have hlen : (pre ++ [blk]).length = pre.length + 1 := by simp
          rw [hlen] at hst
          have h0 : blk.e - idx = 0 := by omega
          rw [h0]
          simpa using hst

/-! ### `seek` (the block search of `ArrayView::make`) -/

theorem seek_spec (bl : List Block) (size : Nat) : ∀ (post pre : List Block) (c fuel lo : Nat),
    bl = pre ++ post → BlocksOK size lo post → c < blocksCount post → c ≤ fuel →
    ∃ (pre' : List Block) (blk : Block) (post' : List Block) (lo' c' : Nat),
      bl = pre' ++ blk :: post' ∧ BlocksOK size lo' (blk :: post') ∧
      AV.seek bl fuel pre.length c = (pre'.length, c') ∧ c' ≤ blk.e - blk.b ∧
      (flatRange post).drop c = List.range' (blk.b + c') (blk.e - (blk.b + c')) ++ flatRange post'
  | [], _, c, _, _, _, _, hc, _ => by simp [blocksCount] at hc
  | x :: rest, pre, c, fuel, lo, hb, hok, hc, hf => by
    have stop : c ≤ x.e - x.b → AV.seek bl fuel pre.length c = (pre.length, c) →
        ∃ (pre' : List Block) (blk : Block) (post' : List Block) (lo' c' : Nat),
          bl = pre' ++ blk :: post' ∧ BlocksOK size lo' (blk :: post') ∧
          AV.seek bl fuel pre.length c = (pre'.length, c') ∧ c' ≤ blk.e - blk.b ∧
          (flatRange (x :: rest)).drop c = List.range' (blk.b + c') (blk.e - (blk.b + c')) ++ flatRange post' := by
      intro hle hs
      refine ⟨pre, x, rest, lo, c, hb, hok, hs, hle, ?_⟩
      rw [flatRange_cons, List.drop_append_of_le_length (by simp [List.length_range']; exact hle),
        List.drop_range']
      have : x.e - x.b - c = x.e - (x.b + c) := by omega
      simp [this]
    cases fuel with
    | zero =>
      have : c = 0 := by omega
      subst this
      exact stop (Nat.zero_le _) (by simp [AV.seek])
    | succ f =>
      by_cases hc0 : c = 0
      · subst hc0
        exact stop (Nat.zero_le _) (by simp [AV.seek])
      · by_cases hgt : c > x.e - x.b
        · have hstep : AV.seek bl (f + 1) pre.length c = AV.seek bl f (pre.length + 1) (c - (x.e - x.b)) := by
            simp [AV.seek, show c > 0 by omega, hb, hgt]
          have hpos := hok.2.1
          rw [blocksCount_cons] at hc
          have hb' : bl = (pre ++ [x]) ++ rest := by rw [hb]; simp
          obtain ⟨pre', blk, post', lo', c', h1, h2, h3, h4, h5⟩ :=
            seek_spec bl size rest (pre ++ [x]) (c - (x.e - x.b)) f (x.e + 1) hb' hok.2.2.2 (by omega) (by omega)
          refine ⟨pre', blk, post', lo', c', h1, h2, ?_, h4, ?_⟩
          · rw [hstep]; simpa using h3
          · rw [flatRange_cons, List.drop_append, List.length_range', ← h5]
            rw [List.drop_of_length_le (by simp [List.length_range']; omega)]
            simp
        · exact stop (by omega) (by
            simp [AV.seek, show c > 0 by omega, hb, hgt])

/-! ### the arrays of one piece -/

/-- well-formedness of one filtered archetype (established by `applyFilter`, see `IterTasks`) -/
structure FA.WF (fa : FA) : Prop where
  cap : 1 ≤ fa.cap
  blocks : BlocksOK fa.size 0 fa.blocks
  count : fa.count = blocksCount fa.blocks
  pos : 0 < fa.count

/-- the selected entity indices of a filtered archetype, ascending -/
def FA.sel (fa : FA) : List Nat := flatRange fa.blocks

theorem FA.length_sel (fa : FA) (h : fa.WF) : fa.sel.length = fa.count := by
  rw [FA.sel, length_flatRange, h.count]

theorem make_arrays (fa : FA) (h : fa.WF) (e size : Nat) (hs : 1 ≤ size) (hle : e + size ≤ fa.count) :
    (AV.arrays fa size (AV.make fa e size)).flatMap (fun p => List.range' p.1 p.2) =
      (fa.sel.drop e).take size ∧
    ∀ p ∈ AV.arrays fa size (AV.make fa e size), ArrOK fa p := by
  have hc : e < blocksCount fa.blocks := by rw [← h.count]; omega
  obtain ⟨pre', blk, post', lo', c', h1, h2, h3, h4, h5⟩ :=
    seek_spec fa.blocks fa.size fa.blocks [] e e 0 (by simp) h.blocks hc (Nat.le_refl _)
  have hroom := h2.room
  have htot : blocksCount fa.blocks = blocksCount pre' + (blk.e - blk.b) + blocksCount post' := by
    rw [h1, blocksCount_append, blocksCount_cons]; omega
  -- remaining selected entities from the cursor on
  have hrem : (flatRange fa.blocks).length - e = (blk.e - (blk.b + c')) + blocksCount post' := by
    have := congrArg List.length h5
    simp only [List.length_drop, List.length_append, List.length_range', length_flatRange] at this
    rw [length_flatRange]; exact this
  rw [length_flatRange] at hrem
  have hdist : min size (fa.size - (blk.b + c')) = size := by
    have := h2.2.1
    rw [h.count] at hle
    omega
  simp only [AV.make]
  simp only [List.length_nil] at h3
  rw [h3]
  simp only [h1, getD_append_length, hdist]
  have hpos := h2.2.1
  have hsp := arrays_spec fa h.cap size pre' blk post' (blk.b + c') 0 size 0 lo' h1 h2 (by omega) (by omega)
    (by rw [h.count] at hle; omega) (Nat.le_refl _)
  refine ⟨?_, hsp.2⟩
  rw [hsp.1, FA.sel, h5]

end Mustache.Iteration

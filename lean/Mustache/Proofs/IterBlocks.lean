import Mustache.Model.Iteration

/-! Proofs about `blocks` (`filterArchetype`): the blocks are non-empty, ascending, separated, inside the
population, and cover exactly the entities whose version chunk is changed. -/
namespace Mustache.Iteration

/-- blocks are non-empty, lie in `[lo, size]`, ascending, and consecutive blocks are separated by a gap -/
def BlocksOK (size : Nat) : Nat → List Block → Prop
  | _, [] => True
  | lo, x :: rest => lo ≤ x.b ∧ x.b < x.e ∧ x.e ≤ size ∧ BlocksOK size (x.e + 1) rest

/-- entity index `i` lies in one of the blocks -/
def Covers (bl : List Block) (i : Nat) : Prop := ∃ x ∈ bl, x.b ≤ i ∧ i < x.e

theorem BlocksOK.mono {size lo lo' : Nat} {bl : List Block} (h : BlocksOK size lo bl) (hl : lo' ≤ lo) :
    BlocksOK size lo' bl := by
  cases bl with
  | nil => trivial
  | cons x rest => exact ⟨Nat.le_trans hl h.1, h.2.1, h.2.2.1, h.2.2.2⟩

theorem covers_nil (i : Nat) : ¬ Covers [] i := by
  intro ⟨x, hx, _⟩; cases hx

theorem covers_cons (x : Block) (rest : List Block) (i : Nat) :
    Covers (x :: rest) i ↔ (x.b ≤ i ∧ i < x.e) ∨ Covers rest i := by
  constructor
  · rintro ⟨y, hy, h⟩
    rcases List.mem_cons.mp hy with rfl | hy
    · exact Or.inl h
    · exact Or.inr ⟨y, hy, h⟩
  · rintro (h | ⟨y, hy, h⟩)
    · exact ⟨x, List.mem_cons_self, h⟩
    · exact ⟨y, List.mem_cons_of_mem _ hy, h⟩

theorem addBlock_ok {size lo : Nat} {x : Block} {rest : List Block}
    (hlo : lo ≤ x.b) (he : x.e ≤ size) (hr : BlocksOK size (x.e + 1) rest) (hbe : x.b ≤ x.e) :
    BlocksOK size lo (addBlock x rest) := by
  unfold addBlock
  split
  · exact ⟨hlo, by omega, he, hr⟩
  · exact hr.mono (by omega)

theorem addBlock_nil_ok {size lo : Nat} {x : Block} (hlo : lo ≤ x.b) (he : x.e ≤ size) :
    BlocksOK size lo (addBlock x []) := by
  unfold addBlock
  split
  · exact ⟨hlo, by omega, he, trivial⟩
  · trivial

theorem covers_addBlock (x : Block) (rest : List Block) (i : Nat) :
    Covers (addBlock x rest) i ↔ (x.b ≤ i ∧ i < x.e) ∨ Covers rest i := by
  unfold addBlock
  split
  · exact covers_cons x rest i
  · constructor
    · exact Or.inr
    · rintro (h | h)
      · omega
      · exact h

/-- the state `cur` of the chunk loop at chunk `ci` is consistent with lower bound `lo` -/
def CurOK (cs lo ci : Nat) : Option Block → Prop
  | none => lo ≤ ci * cs
  | some blk => lo ≤ blk.b ∧ blk.b < blk.e ∧ blk.e = ci * cs

theorem blocksGo_ok (size cs : Nat) (changed : Nat → Bool) (hcs : 1 ≤ cs) :
    ∀ (n ci : Nat) (cur : Option Block) (lo : Nat),
      CurOK cs lo ci cur → (n = 0 ∨ (ci + n - 1) * cs ≤ size) →
      BlocksOK size lo (blocksGo size cs changed n ci cur) := by
  intro n
  induction n with
  | zero =>
    intro ci cur lo hcur _
    cases cur with
    | none => simp [blocksGo, BlocksOK]
    | some blk =>
      simp only [blocksGo]
      exact addBlock_nil_ok hcur.1 (Nat.min_le_left _ _)
  | succ n ih =>
    intro ci cur lo hcur hn
    have hlast : (ci + n) * cs ≤ size := by
      rcases hn with h | h
      · omega
      · simpa using h
    have hci : ci * cs ≤ size := Nat.le_trans (Nat.mul_le_mul_right cs (Nat.le_add_right ci n)) hlast
    have hnext : n = 0 ∨ (ci + 1 + n - 1) * cs ≤ size := by
      right
      have : ci + 1 + n - 1 = ci + n := by omega
      rw [this]; exact hlast
    have hstep : (ci + 1) * cs = ci * cs + cs := by rw [Nat.add_mul, Nat.one_mul]
    simp only [blocksGo]
    split
    · apply ih (ci + 1) _ lo _ hnext
      cases cur with
      | none => exact ⟨hcur, by simp only; omega, rfl⟩
      | some blk => exact ⟨hcur.1, by simp only; have := hcur.2.1; have := hcur.2.2; omega, rfl⟩
    · cases cur with
      | none =>
        apply ih (ci + 1) none lo _ hnext
        show lo ≤ (ci + 1) * cs
        have : lo ≤ ci * cs := hcur
        omega
      | some blk =>
        simp only
        refine addBlock_ok hcur.1 (by rw [hcur.2.2]; exact hci) ?_ (Nat.le_of_lt hcur.2.1)
        apply ih (ci + 1) none (blk.e + 1) _ hnext
        show blk.e + 1 ≤ (ci + 1) * cs
        rw [hcur.2.2]; omega

/-- what `blocksGo` covers: the open block so far, plus every changed chunk still to be visited -/
theorem blocksGo_covers (size cs : Nat) (changed : Nat → Bool) (hcs : 1 ≤ cs) (i : Nat) :
    ∀ (n ci : Nat) (cur : Option Block),
      (∀ blk, cur = some blk → blk.e = ci * cs ∧ blk.b ≤ blk.e) → (n = 0 ∨ (ci + n - 1) * cs ≤ size) →
      (Covers (blocksGo size cs changed n ci cur) i ↔
        (i < size ∧ ((∃ blk, cur = some blk ∧ blk.b ≤ i ∧ i < ci * cs) ∨
          (ci * cs ≤ i ∧ i < (ci + n) * cs ∧ changed (i / cs) = true)))) := by
  intro n
  induction n with
  | zero =>
    intro ci cur hcur _
    cases cur with
    | none =>
      simp only [blocksGo]
      constructor
      · intro h; exact absurd h (covers_nil i)
      · rintro ⟨_, h | h⟩
        · rcases h with ⟨blk, h, _⟩; cases h
        · simp only [Nat.add_zero] at h; omega
    | some blk =>
      simp only [blocksGo, covers_addBlock]
      have he := (hcur blk rfl).1
      constructor
      · rintro (h | h)
        · exact ⟨by omega, Or.inl ⟨blk, rfl, h.1, by omega⟩⟩
        · exact absurd h (covers_nil i)
      · rintro ⟨hs, h | h⟩
        · rcases h with ⟨b', hb', h1, h2⟩
          cases hb'
          left; omega
        · simp only [Nat.add_zero] at h; omega
  | succ n ih =>
    intro ci cur hcur hn
    have hlast : (ci + n) * cs ≤ size := by
      rcases hn with h | h
      · omega
      · simpa using h
    have hci : ci * cs ≤ size := Nat.le_trans (Nat.mul_le_mul_right cs (Nat.le_add_right ci n)) hlast
    have hnext : n = 0 ∨ (ci + 1 + n - 1) * cs ≤ size := by
      right
      have : ci + 1 + n - 1 = ci + n := by omega
      rw [this]; exact hlast
    have hstep : (ci + 1) * cs = ci * cs + cs := by rw [Nat.add_mul, Nat.one_mul]
    have hidx : ci + 1 + n = ci + (n + 1) := by omega
    -- entities of chunk `ci`
    have hdiv : ci * cs ≤ i → i < (ci + 1) * cs → i / cs = ci := fun h1 h2 => Nat.div_eq_of_lt_le h1 h2
    simp only [blocksGo]
    split
    · rename_i hch
      rw [ih (ci + 1) _ (by
        intro blk h; cases h; refine ⟨rfl, ?_⟩
        cases cur with
        | none => simp only; omega
        | some b0 => simp only; have := hcur b0 rfl; omega) hnext, hidx]
      constructor
      · rintro ⟨hs, h | h⟩
        · rcases h with ⟨blk, hb, h1, h2⟩
          cases hb
          refine ⟨hs, ?_⟩
          by_cases hlt : i < ci * cs
          · left
            cases cur with
            | none => simp only at h1; omega
            | some b0 => exact ⟨b0, rfl, h1, hlt⟩
          · right
            have hd := hdiv (by omega) h2
            refine ⟨by omega, ?_, by rw [hd]; exact hch⟩
            have : (ci + 1) * cs ≤ (ci + (n + 1)) * cs := Nat.mul_le_mul_right cs (by omega)
            omega
        · exact ⟨hs, Or.inr ⟨by omega, h.2.1, h.2.2⟩⟩
      · rintro ⟨hs, h | h⟩
        · rcases h with ⟨blk, hb, h1, h2⟩
          subst hb
          exact ⟨hs, Or.inl ⟨_, rfl, h1, by omega⟩⟩
        · refine ⟨hs, ?_⟩
          by_cases hlt : i < (ci + 1) * cs
          · left
            refine ⟨_, rfl, ?_, hlt⟩
            cases cur with
            | none => exact h.1
            | some b0 =>
              simp only
              have := hcur b0 rfl
              omega
          · right; exact ⟨by omega, h.2.1, h.2.2⟩
    · rename_i hch
      cases cur with
      | none =>
        simp only
        rw [ih (ci + 1) none (by intro blk h; cases h) hnext, hidx]
        constructor
        · rintro ⟨hs, h | h⟩
          · rcases h with ⟨blk, hb, _⟩; cases hb
          · exact ⟨hs, Or.inr ⟨by omega, h.2.1, h.2.2⟩⟩
        · rintro ⟨hs, h | h⟩
          · rcases h with ⟨blk, hb, _⟩; cases hb
          · refine ⟨hs, Or.inr ⟨?_, h.2.1, h.2.2⟩⟩
            apply Classical.byContradiction
            intro hc
            have hd := hdiv h.1 (by omega)
            rw [hd] at h
            exact hch h.2.2
      | some blk =>
        simp only [covers_addBlock]
        rw [ih (ci + 1) none (by intro b h; cases h) hnext, hidx]
        have he := (hcur blk rfl).1
        constructor
        · rintro (h | ⟨hs, h | h⟩)
          · exact ⟨by omega, Or.inl ⟨blk, rfl, h.1, by omega⟩⟩
          · rcases h with ⟨b', hb, _⟩; cases hb
          · exact ⟨hs, Or.inr ⟨by omega, h.2.1, h.2.2⟩⟩
        · rintro ⟨hs, h | h⟩
          · rcases h with ⟨b', hb, h1, h2⟩
            cases hb
            left; omega
          · right
            refine ⟨hs, Or.inr ⟨?_, h.2.1, h.2.2⟩⟩
            apply Classical.byContradiction
            intro hc
            have hd := hdiv h.1 (by omega)
            rw [hd] at h
            exact hch h.2.2

theorem lastChunk_le (size cs : Nat) : (0 + ((size - 1) / cs + 1) - 1) * cs ≤ size := by
  have h := Nat.div_mul_le_self (size - 1) cs
  have e : 0 + ((size - 1) / cs + 1) - 1 = (size - 1) / cs := by
    generalize (size - 1) / cs = q; omega
  rw [e]; omega

theorem blocks_ok (size cs : Nat) (changed : Nat → Bool) (hcs : 1 ≤ cs) :
    BlocksOK size 0 (blocks size cs changed) := by
  unfold blocks
  exact blocksGo_ok size cs changed hcs _ 0 none 0 (Nat.zero_le _) (Or.inr (lastChunk_le size cs))

theorem blocks_covers (size cs : Nat) (changed : Nat → Bool) (hcs : 1 ≤ cs) (i : Nat) :
    Covers (blocks size cs changed) i ↔ (i < size ∧ changed (i / cs) = true) := by
  unfold blocks
  rw [blocksGo_covers size cs changed hcs i _ 0 none (by intro b h; cases h)
    (Or.inr (lastChunk_le size cs))]
  constructor
  · rintro ⟨hs, h | h⟩
    · rcases h with ⟨b, hb, _⟩; cases hb
    · exact ⟨hs, h.2.2⟩
  · rintro ⟨hs, hc⟩
    refine ⟨hs, Or.inr ⟨by omega, ?_, hc⟩⟩
    have h := Nat.lt_mul_div_succ (size - 1) (show 0 < cs by omega)
    rw [Nat.mul_comm] at h
    simp only [Nat.zero_add]
    omega

/-! ### the blocks as a list of entity indices -/

/-- all entity indices of a block list, in block order -/
def flatRange (bl : List Block) : List Nat := bl.flatMap Block.range

@[simp] theorem flatRange_nil : flatRange [] = [] := rfl
@[simp] theorem flatRange_cons (x : Block) (rest : List Block) :
    flatRange (x :: rest) = List.range' x.b (x.e - x.b) ++ flatRange rest := rfl

theorem flatRange_append (l₁ l₂ : List Block) : flatRange (l₁ ++ l₂) = flatRange l₁ ++ flatRange l₂ := by
  simp [flatRange, List.flatMap_append]

theorem mem_flatRange (bl : List Block) (i : Nat) : i ∈ flatRange bl ↔ Covers bl i := by
  induction bl with
  | nil => simp [covers_nil]
  | cons x rest ih =>
    rw [flatRange_cons, List.mem_append, covers_cons, ih, List.mem_range'_1]
    constructor
    · rintro (h | h)
      · left; omega
      · right; exact h
    · rintro (h | h)
      · left; omega
      · right; exact h

theorem length_flatRange (bl : List Block) : (flatRange bl).length = blocksCount bl := by
  induction bl with
  | nil => rfl
  | cons x rest ih => simp [blocksCount, List.length_range'] at ih ⊢; omega

theorem BlocksOK.lower {size lo : Nat} {bl : List Block} (h : BlocksOK size lo bl) :
    ∀ i ∈ flatRange bl, lo ≤ i := by
  induction bl generalizing lo with
  | nil => intro i hi; cases hi
  | cons x rest ih =>
    intro i hi
    rw [flatRange_cons, List.mem_append, List.mem_range'_1] at hi
    rcases hi with hi | hi
    · have := h.1; omega
    · have := ih h.2.2.2 i hi
      have := h.1; have := h.2.1; omega

theorem BlocksOK.upper {size lo : Nat} {bl : List Block} (h : BlocksOK size lo bl) :
    ∀ i ∈ flatRange bl, i < size := by
  induction bl generalizing lo with
  | nil => intro i hi; cases hi
  | cons x rest ih =>
    intro i hi
    rw [flatRange_cons, List.mem_append, List.mem_range'_1] at hi
    rcases hi with hi | hi
    · have := h.2.2.1; omega
    · exact ih h.2.2.2 i hi

theorem BlocksOK.pairwise {size lo : Nat} {bl : List Block} (h : BlocksOK size lo bl) :
    (flatRange bl).Pairwise (· < ·) := by
  induction bl generalizing lo with
  | nil => exact List.Pairwise.nil
  | cons x rest ih =>
    rw [flatRange_cons, List.pairwise_append]
    refine ⟨List.pairwise_lt_range' .., ih h.2.2.2, ?_⟩
    intro a ha b hb
    rw [List.mem_range'_1] at ha
    have := h.2.2.2.lower b hb
    omega

/-- two strictly ascending lists with the same elements are equal -/
theorem eq_of_pairwise_lt_of_mem_iff : ∀ (l₁ l₂ : List Nat),
    l₁.Pairwise (· < ·) → l₂.Pairwise (· < ·) → (∀ i, i ∈ l₁ ↔ i ∈ l₂) → l₁ = l₂
  | [], [], _, _, _ => rfl
  | [], b :: _, _, _, h => absurd ((h b).mpr List.mem_cons_self) (by simp)
  | a :: _, [], _, _, h => absurd ((h a).mp List.mem_cons_self) (by simp)
  | a :: t₁, b :: t₂, h₁, h₂, h => by
    rw [List.pairwise_cons] at h₁ h₂
    have hab : a = b := by
      rcases List.mem_cons.mp ((h a).mp List.mem_cons_self) with e | ha
      · exact e
      · rcases List.mem_cons.mp ((h b).mpr List.mem_cons_self) with e | hb
        · exact e.symm
        · have := h₂.1 a ha; have := h₁.1 b hb; omega
    subst hab
    congr 1
    apply eq_of_pairwise_lt_of_mem_iff t₁ t₂ h₁.2 h₂.2
    intro i
    constructor
    · intro hi
      rcases List.mem_cons.mp ((h i).mp (List.mem_cons_of_mem _ hi)) with e | h'
      · have := h₁.1 i hi; omega
      · exact h'
    · intro hi
      rcases List.mem_cons.mp ((h i).mpr (List.mem_cons_of_mem _ hi)) with e | h'
      · have := h₂.1 i hi; omega
      · exact h'

/-- the blocks, flattened, are exactly the entities whose version chunk is changed, ascending -/
theorem blocks_flat_eq (size cs : Nat) (changed : Nat → Bool) (hcs : 1 ≤ cs) :
    flatRange (blocks size cs changed) = (List.range size).filter (fun i => changed (i / cs)) := by
  apply eq_of_pairwise_lt_of_mem_iff
  · exact (blocks_ok size cs changed hcs).pairwise
  · exact List.Pairwise.filter _ List.pairwise_lt_range
  · intro i
    rw [mem_flatRange, blocks_covers size cs changed hcs, List.mem_filter, List.mem_range]

end Mustache.Iteration

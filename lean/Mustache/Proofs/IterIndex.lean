import Mustache.Proofs.IterTasks

/-! Proofs about (a) the world filter: `applyFilter` yields well-formed filtered archetypes whose selected
sequence is the reference `selected`; (b) the unrolled invocation loop; (c) the entity-index bookkeeping of
typed jobs and of `NonTemplateJob`. -/
namespace Mustache.Iteration

/-! ### the world filter -/

/-- well-formed filter result -/
structure FRWF (fr : List FA) : Prop where
  each : ∀ fa ∈ fr, fa.WF
  archs : fr.Pairwise (fun a b => a.arch < b.arch)

theorem filterOne_spec (req reqS : List Nat) (i : Nat) (a : ArchCfg) (hcs : 1 ≤ a.cs) (hcap : 1 ≤ a.cap) :
    (∀ fa ∈ filterOne req reqS i a, fa.WF ∧ fa.arch = i) ∧
    gsel (filterOne req reqS i a) =
      (if matchArch req reqS a then (selectedOf a).map (fun j => (i, j)) else []) := by
  unfold filterOne
  by_cases hm : matchArch req reqS a = true
  · simp only [hm, if_true]
    have hflat := blocks_flat_eq a.size a.cs a.changed hcs
    by_cases hc : blocksCount (blocks a.size a.cs a.changed) > 0
    · simp only [hc, if_true]
      constructor
      · intro fa hfa
        rw [List.mem_singleton] at hfa
        subst hfa
        exact ⟨⟨hcap, blocks_ok a.size a.cs a.changed hcs, rfl, hc⟩, rfl⟩
      · simp [gsel, FA.gsel, FA.sel, hflat, selectedOf]
    · simp only [hc, if_false]
      constructor
      · intro fa hfa; cases hfa
      · have hlen := length_flatRange (blocks a.size a.cs a.changed)
        have : flatRange (blocks a.size a.cs a.changed) = [] := by
          apply List.eq_nil_of_length_eq_zero; omega
        rw [hflat] at this
        simp [selectedOf, this]
  · simp [hm]

theorem applyFilter_spec (req reqS : List Nat) : ∀ (archs : List ArchCfg) (i : Nat),
    (∀ a ∈ archs, 1 ≤ a.cs ∧ 1 ≤ a.cap) →
    (∀ fa ∈ applyFilter req reqS archs i, fa.WF ∧ i ≤ fa.arch) ∧
    (applyFilter req reqS archs i).Pairwise (fun a b => a.arch < b.arch) ∧
    gsel (applyFilter req reqS archs i) = selected req reqS archs i
  | [], _, _ => by simp [applyFilter, selected]
  | a :: rest, i, h => by
    have ha := h a List.mem_cons_self
    obtain ⟨h1, h2⟩ := filterOne_spec req reqS i a ha.1 ha.2
    obtain ⟨r1, r2, r3⟩ := applyFilter_spec req reqS rest (i + 1) (fun x hx => h x (List.mem_cons_of_mem _ hx))
    simp only [applyFilter, selected]
    refine ⟨?_, ?_, ?_⟩
    · intro fa hfa
      rcases List.mem_append.mp hfa with hfa | hfa
      · have := h1 fa hfa; exact ⟨this.1, by omega⟩
      · have := r1 fa hfa; exact ⟨this.1, by omega⟩
    · rw [List.pairwise_append]
      refine ⟨?_, r2, ?_⟩
      · unfold filterOne
        split
        · dsimp only
          split
          · exact List.pairwise_singleton _ _
          · exact List.Pairwise.nil
        · exact List.Pairwise.nil
      · intro x hx y hy
        have := (h1 x hx).2; have := (r1 y hy).2; omega
    · rw [gsel_append, h2, r3]

theorem applyFilter_wf (req reqS : List Nat) (archs : List ArchCfg) (h : ∀ a ∈ archs, 1 ≤ a.cs ∧ 1 ≤ a.cap) :
    FRWF (applyFilter req reqS archs 0) :=
  ⟨fun fa hfa => ((applyFilter_spec req reqS archs 0 h).1 fa hfa).1, (applyFilter_spec req reqS archs 0 h).2.1⟩

theorem gsel_nodup (fr : List FA) (h : FRWF fr) : (gsel fr).Nodup := by
  rw [List.nodup_iff_pairwise_ne, gsel, List.pairwise_flatMap]
  constructor
  · intro fa hfa
    have hp := (h.each fa hfa).blocks.pairwise
    simp only [FA.gsel, FA.sel]
    rw [List.pairwise_map]
    exact hp.imp (fun hlt heq => by
      have := congrArg Prod.snd heq
      simp at this; omega)
  · exact h.archs.imp (fun hlt x hx y hy heq => by
      simp only [FA.gsel, List.mem_map] at hx hy
      obtain ⟨_, _, rfl⟩ := hx
      obtain ⟨_, _, rfl⟩ := hy
      have := congrArg Prod.fst heq
      simp at this; omega)

/-! ### the unrolled loop -/

/-- `len` consecutive (offset, entity index) pairs -/
def seqR : Nat → Nat → Nat → List (Nat × Nat)
  | _, _, 0 => []
  | base, ii, len + 1 => (base, ii) :: seqR (base + 1) (ii + 1) len

theorem unrolledLoop_append (k : Nat) : ∀ (n base ii : Nat),
    unrolledLoop n base ii ++ seqR (base + 4 * n) (ii + 4 * n) k = seqR base ii (4 * n + k)
  | 0, base, ii => by simp [unrolledLoop]
  | n + 1, base, ii => by
    have e : 4 * (n + 1) + k = (4 * n + k) + 1 + 1 + 1 + 1 := by omega
    rw [e]
    simp only [unrolledLoop, seqR, List.cons_append]
    have := unrolledLoop_append k n (base + 4) (ii + 4)
    have e1 : base + 4 + 4 * n = base + 4 * (n + 1) := by omega
    have e2 : ii + 4 + 4 * n = ii + 4 * (n + 1) := by omega
    rw [e1, e2] at this
    rw [this]

theorem unrolledTail_eq (k base ii : Nat) (hk : k < 4) : unrolledTail k base ii = seqR base ii k := by
  match k, hk with
  | 0, _ => rfl
  | 1, _ => rfl
  | 2, _ => rfl
  | 3, _ => rfl

theorem unrolled_eq_seqR (count ii : Nat) : unrolled count ii = seqR 0 ii count := by
  unfold unrolled
  rw [unrolledTail_eq _ _ _ (Nat.mod_lt _ (by omega))]
  have := unrolledLoop_append (count % 4) (count / 4) 0 ii
  simp only [Nat.zero_add] at this
  rw [this, Nat.div_add_mod]

theorem seqR_eq_map : ∀ (len base ii : Nat),
    seqR base ii len = (List.range len).map (fun o => (base + o, ii + o))
  | 0, _, _ => rfl
  | len + 1, base, ii => by
    rw [seqR, seqR_eq_map len, List.range_succ_eq_map, List.map_cons, List.map_map]
    congr 1
    apply List.map_congr_left
    intro o _
    simp only [Function.comp, Nat.succ_eq_add_one]
    congr 1 <;> omega

theorem unrolled_eq (count ii : Nat) : unrolled count ii = (List.range count).map (fun o => (o, ii + o)) := by
  rw [unrolled_eq_seqR, seqR_eq_map]
  simp

/-! ### entity indices inside one task -/

def arraysLen (arrs : List Arr) : Nat := (arrs.map Arr.len).sum

theorem length_expand (x : Arr) : x.expand.length = x.len := by simp [Arr.expand]

theorem length_flatMap_expand : ∀ (arrs : List Arr), (arrs.flatMap Arr.expand).length = arraysLen arrs
  | [] => rfl
  | x :: rest => by
    rw [List.flatMap_cons, List.length_append, length_expand, length_flatMap_expand rest]
    simp [arraysLen]

theorem range'_split (s a b : Nat) : List.range' s (a + b) = List.range' s a ++ List.range' (s + a) b := by
  have := @List.range'_append s a b 1
  simp only [Nat.one_mul] at this
  exact this.symm

theorem arraysInvs_spec (task start : Nat) : ∀ (arrs : List Arr) (n : Nat),
    (arraysInvs task start arrs n).map (fun v => (v.arch, v.idx)) = arrs.flatMap Arr.expand ∧
    (arraysInvs task start arrs n).map (·.inTask) = List.range' n (arraysLen arrs) ∧
    (arraysInvs task start arrs n).map (·.eindex) = List.range' (start + n) (arraysLen arrs) ∧
    ∀ v ∈ arraysInvs task start arrs n, v.task = task
  | [], n => by simp [arraysInvs, arraysLen]
  | x :: rest, n => by
    obtain ⟨h1, h2, h3, h4⟩ := arraysInvs_spec task start rest (n + x.len)
    have hlen : arraysLen (x :: rest) = x.len + arraysLen rest := by simp [arraysLen]
    simp only [arraysInvs, List.map_append, List.map_map, unrolled_eq, hlen, range'_split]
    refine ⟨?_, ?_, ?_, ?_⟩
    · rw [h1, List.flatMap_cons]
      congr 1
      simp [Arr.expand, List.range'_eq_map_range, Function.comp_def]
    · rw [h2]
      congr 1
      simp [List.range'_eq_map_range, Function.comp_def]
    · rw [h3]
      congr 1
      · simp [List.range'_eq_map_range, Function.comp_def, Nat.add_assoc]
      · simp [Nat.add_assoc]
    · intro v hv
      rcases List.mem_append.mp hv with hv | hv
      · simp only [List.mem_map] at hv
        obtain ⟨_, _, rfl⟩ := hv
        rfl
      · exact h4 v hv

theorem arraysNt_spec (task start : Nat) : ∀ (arrs : List Arr) (n : Nat),
    (arraysNt task start arrs n).flatMap (fun c => Arr.expand ⟨c.arch, c.first, c.len⟩) = arrs.flatMap Arr.expand ∧
    (arraysNt task start arrs n).flatMap (fun c => List.range' c.eindex c.len) =
      List.range' (start + n) (arraysLen arrs) ∧
    (arraysNt task start arrs n).flatMap (fun c => List.range' c.inTask c.len) = List.range' n (arraysLen arrs) ∧
    ∀ c ∈ arraysNt task start arrs n, c.task = task
  | [], n => by simp [arraysNt, arraysLen]
  | x :: rest, n => by
    obtain ⟨h1, h2, h3, h4⟩ := arraysNt_spec task start rest (n + x.len)
    have hlen : arraysLen (x :: rest) = x.len + arraysLen rest := by simp [arraysLen]
    simp only [arraysNt, List.flatMap_cons, hlen, range'_split]
    refine ⟨by rw [h1], ?_, by rw [h3], ?_⟩
    · rw [h2]; simp [Nat.add_assoc]
    · intro c hc
      rcases List.mem_cons.mp hc with rfl | hc
      · rfl
      · exact h4 c hc

/-! ### all tasks of a run -/

/-- what is needed of every task handed to `assignStarts` -/
def TaskGood (fr : List FA) (t : TaskInfo) : Prop :=
  (taskArrays fr t).flatMap Arr.expand = taskSel fr t ∧ arraysLen (taskArrays fr t) = t.size

def sizesSum (ts : List TaskInfo) : Nat := (ts.map TaskInfo.size).sum

theorem assignStarts_spec (fr : List FA) : ∀ (ts : List TaskInfo) (k s : Nat),
    (∀ t ∈ ts, TaskGood fr t) →
    let outs := assignStarts fr true ts k s
    (invocations outs).map (fun v => (v.arch, v.idx)) = ts.flatMap (taskSel fr) ∧
    (invocations outs).map (·.eindex) = List.range' s (sizesSum ts) ∧
    (ntCalls outs).flatMap (fun c => Arr.expand ⟨c.arch, c.first, c.len⟩) = ts.flatMap (taskSel fr) ∧
    (ntCalls outs).flatMap (fun c => List.range' c.eindex c.len) = List.range' s (sizesSum ts) ∧
    (outs.flatMap (·.arrays)).flatMap Arr.expand = ts.flatMap (taskSel fr)
  | [], k, s, _ => by simp [assignStarts, invocations, ntCalls, sizesSum]
  | t :: rest, k, s, h => by
    have ht := h t List.mem_cons_self
    obtain ⟨r1, r2, r3, r4, r5⟩ := assignStarts_spec fr rest (k + 1) (s + t.size)
      (fun x hx => h x (List.mem_cons_of_mem _ hx))
    obtain ⟨a1, _, a3, _⟩ := arraysInvs_spec k s (taskArrays fr t) 0
    obtain ⟨n1, n2, _, _⟩ := arraysNt_spec k s (taskArrays fr t) 0
    have hsum : sizesSum (t :: rest) = t.size + sizesSum rest := by simp [sizesSum]
    simp only [assignStarts, if_true, invocations, ntCalls, List.flatMap_cons, List.map_append,
      List.flatMap_append, hsum, range'_split] at *
    rw [ht.2, Nat.add_zero] at a3 n2
    refine ⟨?_, ?_, ?_, ?_, ?_⟩
    · rw [a1, r1, ht.1]
    · rw [a3, r2]
    · rw [n1, r3, ht.1]
    · rw [n2, r4]
    · rw [r5, ht.1]

theorem assignStarts_single (fr : List FA) (b : Bool) (t : TaskInfo) (k s : Nat) :
    assignStarts fr b [t] k s = assignStarts fr true [t] k s := by
  simp [assignStarts]

/-- task `k` of a parallel run starts at the sum of the sizes of the tasks before it, and is numbered `k` -/
theorem assignStarts_starts (fr : List FA) : ∀ (ts : List TaskInfo) (k s : Nat)
    (pre : List TaskOut) (x : TaskOut) (post : List TaskOut),
    assignStarts fr true ts k s = pre ++ x :: post →
    x.start = s + (pre.map (·.size)).sum ∧ x.id = k + pre.length
  | [], _, _, pre, x, post, h => by
    simp [assignStarts] at h
  | t :: rest, k, s, pre, x, post, h => by
    simp only [assignStarts, if_true] at h
    cases pre with
    | nil =>
      simp only [List.nil_append, List.cons.injEq] at h
      rw [← h.1]; simp
    | cons y pre' =>
      simp only [List.cons_append, List.cons.injEq] at h
      have := assignStarts_starts fr rest (k + 1) (s + t.size) pre' x post h.2
      rw [← h.1]
      simp only [List.map_cons, List.sum_cons, List.length_cons]
      omega

end Mustache.Iteration

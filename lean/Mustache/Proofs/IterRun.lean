import Mustache.Proofs.IterIndex

/-! Run-level lemmas: everything `runJob` produces, for every run mode and task count. -/
namespace Mustache.Iteration

/-! ### where the filtered archetypes come from -/

theorem applyFilter_origin (req reqS : List Nat) : ∀ (archs : List ArchCfg) (i : Nat) (fa : FA),
    fa ∈ applyFilter req reqS archs i →
    ∃ a, archs[fa.arch - i]? = some a ∧ i ≤ fa.arch ∧ matchArch req reqS a = true ∧ fa.size = a.size ∧
      fa.cap = a.cap ∧ fa.blocks = blocks a.size a.cs a.changed
  | [], _, _, h => by simp [applyFilter] at h
  | a :: rest, i, fa, h => by
    simp only [applyFilter, List.mem_append] at h
    rcases h with h | h
    · unfold filterOne at h
      by_cases hm : matchArch req reqS a = true
      · simp only [hm, if_true] at h
        by_cases hc : blocksCount (blocks a.size a.cs a.changed) > 0
        · simp only [hc, if_true, List.mem_singleton] at h
          subst h
          exact ⟨a, by simp, Nat.le_refl _, hm, rfl, rfl, rfl⟩
        · simp [hc] at h
      · simp [hm] at h
    · obtain ⟨a', h1, h2, h3⟩ := applyFilter_origin req reqS rest (i + 1) fa h
      refine ⟨a', ?_, by omega, h3⟩
      have : fa.arch - i = (fa.arch - (i + 1)) + 1 := by omega
      rw [this, List.getElem?_cons_succ]; exact h1

theorem BlocksOK.sep {size : Nat} : ∀ {bl : List Block} {lo : Nat}, BlocksOK size lo bl →
    bl.Pairwise (fun x y => x.e < y.b) ∧ ∀ x ∈ bl, lo ≤ x.b
  | [], _, _ => ⟨List.Pairwise.nil, by intro x hx; cases hx⟩
  | x :: rest, lo, h => by
    have ih := BlocksOK.sep h.2.2.2
    refine ⟨List.pairwise_cons.mpr ⟨?_, ih.1⟩, ?_⟩
    · intro y hy; have := ih.2 y hy; omega
    · intro y hy
      rcases List.mem_cons.mp hy with rfl | hy
      · exact h.1
      · have := ih.2 y hy; have := h.1; have := h.2.1; omega

/-! ### tasks and their arrays -/

theorem assignStarts_arrays (fr : List FA) (b : Bool) : ∀ (ts : List TaskInfo) (k s : Nat),
    (assignStarts fr b ts k s).flatMap (·.arrays) = ts.flatMap (taskArrays fr)
  | [], _, _ => rfl
  | t :: rest, k, s => by
    simp only [assignStarts, List.flatMap_cons]
    rw [assignStarts_arrays fr b rest]

theorem assignStarts_mem (fr : List FA) (b : Bool) : ∀ (ts : List TaskInfo) (k s : Nat) (x : TaskOut),
    x ∈ assignStarts fr b ts k s → ∃ t ∈ ts, x.arrays = taskArrays fr t ∧ x.size = t.size
  | [], _, _, _, h => by simp [assignStarts] at h
  | t :: rest, k, s, x, h => by
    simp only [assignStarts, List.mem_cons] at h
    rcases h with rfl | h
    · exact ⟨t, List.mem_cons_self, rfl, rfl⟩
    · obtain ⟨t', h1, h2⟩ := assignStarts_mem fr b rest _ _ x h
      exact ⟨t', List.mem_cons_of_mem _ h1, h2⟩

theorem sizesSum_eq (fr : List FA) : ∀ (ts : List TaskInfo), (∀ t ∈ ts, (taskSel fr t).length = t.size) →
    sizesSum ts = (ts.flatMap (taskSel fr)).length
  | [], _ => rfl
  | t :: rest, h => by
    rw [List.flatMap_cons, List.length_append, h t List.mem_cons_self,
      ← sizesSum_eq fr rest (fun x hx => h x (List.mem_cons_of_mem _ hx))]
    simp [sizesSum]

/-- everything needed about the tasks `TaskGroup::make(filter_result, T)` yields -/
theorem runTasks_good (fr : List FA) (h : FRWF fr) (T : Nat) (hT : 1 ≤ T) :
    (runTasks fr T).flatMap (taskSel fr) = gsel fr ∧
    (∀ t ∈ runTasks fr T, TaskGood fr t ∧ ∀ p ∈ taskPieces fr t, PieceOK fr p) ∧
    sizesSum (runTasks fr T) = totalCount fr := by
  obtain ⟨h1, h2⟩ := runTasks_spec fr h.each T hT
  have hgood : ∀ t ∈ runTasks fr T, TaskGood fr t ∧ ∀ p ∈ taskPieces fr t, PieceOK fr p := by
    intro t ht
    have hs := taskArrays_spec fr h.each t (h2 t ht).2
    refine ⟨⟨hs, ?_⟩, (h2 t ht).2⟩
    rw [← length_flatMap_expand, hs]; exact (h2 t ht).1
  refine ⟨h1, hgood, ?_⟩
  rw [sizesSum_eq fr _ (fun t ht => (h2 t ht).1), h1, length_gsel fr h.each]

theorem runTasks_one (fr : List FA) : runTasks fr 1 = [TG.first (totalCount fr) 1] := by
  simp [runTasks, TG.tasks, TG.first]

/-- the tasks a run is made of, whatever the mode -/
def runTaskInfos (mode : Mode) (fr : List FA) (taskCount : Nat) : List TaskInfo :=
  match mode with
  | .current => runTasks fr 1
  | _ => runTasks fr (max 1 taskCount)

theorem runJob_eq (mode : Mode) (fr : List FA) (taskCount : Nat) (hpos : ¬ totalCount fr < 1) :
    runJob mode fr taskCount = assignStarts fr true (runTaskInfos mode fr taskCount) 0 0 := by
  cases mode <;> simp only [runJob, hpos, if_false, runTaskInfos]
  rw [runTasks_one, assignStarts_single]

theorem runTaskInfos_good (mode : Mode) (fr : List FA) (h : FRWF fr) (taskCount : Nat) :
    (runTaskInfos mode fr taskCount).flatMap (taskSel fr) = gsel fr ∧
    (∀ t ∈ runTaskInfos mode fr taskCount, TaskGood fr t ∧ ∀ p ∈ taskPieces fr t, PieceOK fr p) ∧
    sizesSum (runTaskInfos mode fr taskCount) = totalCount fr := by
  cases mode
  · exact runTasks_good fr h 1 (Nat.le_refl _)
  · exact runTasks_good fr h (max 1 taskCount) (Nat.le_max_left _ _)
  · exact runTasks_good fr h (max 1 taskCount) (Nat.le_max_left _ _)

theorem gsel_nil_of_zero (fr : List FA) (h : FRWF fr) (h0 : totalCount fr < 1) : gsel fr = [] := by
  apply List.eq_nil_of_length_eq_zero
  rw [length_gsel fr h.each]; omega

/-! ### disjointness -/

/-- two arrays do not share an entity -/
def Arr.Disjoint (x y : Arr) : Prop :=
  x.arch ≠ y.arch ∨ x.first + x.len ≤ y.first ∨ y.first + y.len ≤ x.first

theorem mem_expand (x : Arr) (a i : Nat) : (a, i) ∈ x.expand ↔ a = x.arch ∧ x.first ≤ i ∧ i < x.first + x.len := by
  simp only [Arr.expand, List.mem_map, List.mem_range'_1, Prod.mk.injEq]
  constructor
  · rintro ⟨j, hj, rfl, rfl⟩; exact ⟨rfl, hj⟩
  · rintro ⟨rfl, hj⟩; exact ⟨i, hj, rfl, rfl⟩

theorem disjoint_of_nodup (arrs : List Arr) (hlen : ∀ x ∈ arrs, 1 ≤ x.len)
    (hn : (arrs.flatMap Arr.expand).Nodup) : arrs.Pairwise Arr.Disjoint := by
  rw [List.nodup_iff_pairwise_ne, List.pairwise_flatMap] at hn
  have h2 := hn.2
  clear hn
  induction arrs with
  | nil => exact List.Pairwise.nil
  | cons x rest ih =>
    rw [List.pairwise_cons] at h2 ⊢
    refine ⟨?_, ih (fun y hy => hlen y (List.mem_cons_of_mem _ hy)) h2.2⟩
    intro y hy
    have hx1 := hlen x List.mem_cons_self
    have hy1 := hlen y (List.mem_cons_of_mem _ hy)
    unfold Arr.Disjoint
    apply Classical.byContradiction
    intro hc
    have hc1 : x.arch = y.arch := by
      apply Classical.byContradiction; intro h; exact hc (Or.inl h)
    have hc2 : ¬ x.first + x.len ≤ y.first := fun h => hc (Or.inr (Or.inl h))
    have hc3 : ¬ y.first + y.len ≤ x.first := fun h => hc (Or.inr (Or.inr h))
    have hmx : (x.arch, max x.first y.first) ∈ x.expand := (mem_expand x _ _).mpr ⟨rfl, by omega, by omega⟩
    have hmy : (x.arch, max x.first y.first) ∈ y.expand := (mem_expand y _ _).mpr ⟨hc1, by omega, by omega⟩
    exact h2.1 y hy _ hmx _ hmy rfl

end Mustache.Iteration

import Mustache.Proofs.IterArrays

/-! Proofs about the task split: `taskSize` sums to the total, `TaskGroup::operator++` lands on the first
entity of the next task, `ArchetypeGroup` cuts a task into per-archetype pieces, and all tasks together
enumerate the selected sequence exactly once. -/
namespace Mustache.Iteration

/-! ### the selected sequence of a filter result -/

def FA.gsel (fa : FA) : List (Nat × Nat) := fa.sel.map fun j => (fa.arch, j)

/-- the sequence the job has to visit: per filtered archetype, its selected entities ascending -/
def gsel (fr : List FA) : List (Nat × Nat) := fr.flatMap FA.gsel

theorem FA.length_gsel (fa : FA) (h : fa.WF) : fa.gsel.length = fa.count := by
  simp [FA.gsel, FA.length_sel fa h]

@[simp] theorem gsel_nil : gsel [] = [] := rfl
@[simp] theorem gsel_cons (fa : FA) (rest : List FA) : gsel (fa :: rest) = fa.gsel ++ gsel rest := rfl
theorem gsel_append (l₁ l₂ : List FA) : gsel (l₁ ++ l₂) = gsel l₁ ++ gsel l₂ := by
  simp [gsel, List.flatMap_append]

@[simp] theorem totalCount_nil : totalCount [] = 0 := rfl
@[simp] theorem totalCount_cons (fa : FA) (rest : List FA) : totalCount (fa :: rest) = fa.count + totalCount rest := by
  simp [totalCount]
theorem totalCount_append (l₁ l₂ : List FA) : totalCount (l₁ ++ l₂) = totalCount l₁ + totalCount l₂ := by
  simp [totalCount, List.sum_append]

theorem length_gsel : ∀ (fr : List FA), (∀ fa ∈ fr, fa.WF) → (gsel fr).length = totalCount fr
  | [], _ => rfl
  | fa :: rest, h => by
    rw [gsel_cons, List.length_append, totalCount_cons, FA.length_gsel fa (h fa List.mem_cons_self),
      length_gsel rest (fun x hx => h x (List.mem_cons_of_mem _ hx))]

/-! ### task sizes -/

/-- entities handed to the tasks `0 .. k-1` -/
def sumSizes (total T : Nat) : Nat → Nat
  | 0 => 0
  | k + 1 => sumSizes total T k + taskSize total T k

theorem sumSizes_closed (total T : Nat) : ∀ k,
    sumSizes total T k = k * (total / T) + min k (total - T * (total / T))
  | 0 => by simp [sumSizes]
  | k + 1 => by
    rw [sumSizes, sumSizes_closed total T k, taskSize, Nat.succ_mul]
    split <;> omega

theorem sumSizes_all (total T : Nat) (hT : 1 ≤ T) : sumSizes total T T = total := by
  rw [sumSizes_closed]
  have h1 := Nat.div_add_mod total T
  have h2 := Nat.mod_lt total (show 0 < T by omega)
  have h3 : T * (total / T) = T * (total / T) := rfl
  generalize T * (total / T) = m at *
  omega

theorem sumSizes_mono (total T : Nat) : ∀ {j k : Nat}, j ≤ k → sumSizes total T j ≤ sumSizes total T k := by
  intro j k h
  induction k with
  | zero => have : j = 0 := by omega
            subst this; exact Nat.le_refl _
  | succ k ih =>
    by_cases hj : j = k + 1
    · subst hj; exact Nat.le_refl _
    · have := ih (by omega)
      rw [sumSizes]; omega

/-! ### `TaskGroup::operator++` -/

/-- cursor `(post, e)`: `e` is an entity offset inside the first archetype of `post`, or the end -/
def Norm : List FA → Nat → Prop
  | [], e => e = 0
  | fa :: _, e => e < fa.count

theorem norm_zero (post : List FA) (hpos : ∀ fa ∈ post, 0 < fa.count) : Norm post 0 := by
  cases post with
  | nil => rfl
  | cons fa _ => exact hpos fa List.mem_cons_self

theorem advance_spec (fr : List FA) (hpos : ∀ fa ∈ fr, 0 < fa.count) :
    ∀ (fuel num : Nat) (pre post : List FA) (e : Nat),
      fr = pre ++ post → Norm post e → e + num ≤ totalCount post → num ≤ fuel →
      ∃ (pre' post' : List FA) (e' : Nat), fr = pre' ++ post' ∧
        advanceLoop fr fuel num pre.length e = (pre'.length, e') ∧ Norm post' e' ∧
        totalCount pre' + e' = totalCount pre + e + num := by
  intro fuel
  induction fuel with
  | zero =>
    intro num pre post e hb hn _ hf
    have : num = 0 := by omega
    subst this
    exact ⟨pre, post, e, hb, rfl, hn, rfl⟩
  | succ f ih =>
    intro num pre post e hb hn hle hf
    by_cases h0 : num = 0
    · subst h0
      exact ⟨pre, post, e, hb, by simp [advanceLoop], hn, rfl⟩
    · cases post with
      | nil => simp at hle; omega
      | cons fa rest =>
        have he : e < fa.count := hn
        have hget : fr.getD pre.length default = fa := by rw [hb]; exact getD_append_length ..
        have hget2 : fr[pre.length]?.getD default = fa := by rw [← List.getD_eq_getElem?_getD]; exact hget
        by_cases hfree : fa.count - e > num
        · refine ⟨pre, fa :: rest, e + num, hb, ?_, ?_, by omega⟩
          · simp [advanceLoop, h0, hget2, hfree]
          · show e + num < fa.count
            omega
        · have hb' : fr = (pre ++ [fa]) ++ rest := by rw [hb]; simp
          have hposr : ∀ x ∈ rest, 0 < x.count := by
            intro x hx; apply hpos; rw [hb]; simp [hx]
          rw [totalCount_cons] at hle
          obtain ⟨pre', post', e', h1, h2, h3, h4⟩ :=
            ih (num - (fa.count - e)) (pre ++ [fa]) rest 0 hb' (norm_zero rest hposr) (by omega) (by omega)
          refine ⟨pre', post', e', h1, ?_, h3, ?_⟩
          · simp only [advanceLoop, h0, if_false, hget, hfree]
            simpa using h2
          · rw [h4, totalCount_append]; simp; omega

/-! ### `ArchetypeGroup` -/

theorem drop_length_add {α : Type} (A R : List α) (e : Nat) : (A ++ R).drop (A.length + e) = R.drop e := by
  rw [← List.drop_drop, List.drop_left]

theorem flatMap_congr' {α β : Type} (f g : α → List β) : ∀ (l : List α), (∀ a ∈ l, f a = g a) →
    l.flatMap f = l.flatMap g
  | [], _ => rfl
  | a :: l, h => by
    rw [List.flatMap_cons, List.flatMap_cons, h a List.mem_cons_self,
      flatMap_congr' f g l (fun x hx => h x (List.mem_cons_of_mem _ hx))]

theorem take_drop_append {α : Type} (A R : List α) (e d : Nat) (he : e ≤ A.length) :
    ((A ++ R).drop e).take d = ((A.drop e).take (min d (A.length - e))) ++ R.take (d - (A.length - e)) := by
  rw [List.drop_append_of_le_length he, List.take_append, List.length_drop]
  congr 1
  by_cases h : d ≤ A.length - e
  · rw [Nat.min_eq_left h]
  · rw [Nat.min_eq_right (by omega), List.take_of_length_le (by simp; omega),
      List.take_of_length_le (by simp)]

/-- what the property needs of one piece -/
def PieceOK (fr : List FA) (p : Piece) : Prop :=
  p.a < fr.length ∧ 1 ≤ p.size ∧ p.e + p.size ≤ (fr.getD p.a default).count

/-- the part of the selected sequence a piece stands for -/
def pieceSel (fr : List FA) (p : Piece) : List (Nat × Nat) :=
  (((fr.getD p.a default).gsel).drop p.e).take p.size

theorem pieces_zero (fr : List FA) (fuel : Nat) (g : AG) (h : g.dist = 0) : AG.pieces fr fuel g = [] := by
  cases fuel <;> simp [AG.pieces, h]

theorem pieces_spec (fr : List FA) (hwf : ∀ fa ∈ fr, fa.WF) :
    ∀ (fuel : Nat) (pre : List FA) (fa : FA) (rest : List FA) (e dist : Nat),
      fr = pre ++ fa :: rest → e < fa.count → dist ≤ (fa.count - e) + totalCount rest → dist ≤ fuel →
      (AG.pieces fr fuel ⟨min dist (fa.count - e), dist, pre.length, e⟩).flatMap (pieceSel fr) =
        ((gsel (fa :: rest)).drop e).take dist ∧
      ∀ p ∈ AG.pieces fr fuel ⟨min dist (fa.count - e), dist, pre.length, e⟩, PieceOK fr p := by
  intro fuel
  induction fuel with
  | zero =>
    intro pre fa rest e dist _ _ _ hf
    have : dist = 0 := by omega
    subst this
    simp [AG.pieces]
  | succ f ih =>
    intro pre fa rest e dist hb he hle hf
    by_cases h0 : dist = 0
    · subst h0
      simp [AG.pieces]
    · have hfa : fa.WF := hwf fa (by rw [hb]; simp)
      have hlen : fa.gsel.length = fa.count := FA.length_gsel fa hfa
      have hget : fr.getD pre.length default = fa := by rw [hb]; exact getD_append_length ..
      have hget2 : fr[pre.length]?.getD default = fa := by rw [← List.getD_eq_getElem?_getD]; exact hget
      have hlt : pre.length < fr.length := by rw [hb]; simp
      simp only [AG.pieces, h0, if_false]
      -- the emitted piece
      have hps : pieceSel fr ⟨pre.length, e, min dist (fa.count - e)⟩ =
          (fa.gsel.drop e).take (min dist (fa.count - e)) := by
        simp [pieceSel, hget2]
      have hpok : PieceOK fr ⟨pre.length, e, min dist (fa.count - e)⟩ := by
        refine ⟨hlt, ?_, ?_⟩
        · show 1 ≤ min dist (fa.count - e); omega
        · show e + min dist (fa.count - e) ≤ (fr.getD pre.length default).count
          rw [hget]; omega
      by_cases hmore : dist - min dist (fa.count - e) > 0
      · -- the task continues in the next archetype
        have hcur : min dist (fa.count - e) = fa.count - e := by omega
        cases rest with
        | nil => simp at hle; omega
        | cons fb rest' =>
          have hb' : fr = (pre ++ [fa]) ++ fb :: rest' := by rw [hb]; simp
          have hfb : fb.WF := hwf fb (by rw [hb]; simp)
          have hget' : fr.getD (pre.length + 1) default = fb := by
            rw [hb]; exact getD_append_length_succ ..
          have hget2' : fr[pre.length + 1]?.getD default = fb := by
            rw [← List.getD_eq_getElem?_getD]; exact hget'
          rw [totalCount_cons] at hle
          have hinc : AG.inc fr ⟨min dist (fa.count - e), dist, pre.length, e⟩ =
              ⟨min (dist - (fa.count - e)) (fb.count - 0), dist - (fa.count - e), (pre ++ [fa]).length, 0⟩ := by
            simp [AG.inc, hcur, hget2', show dist - (fa.count - e) > 0 by omega]
          rw [hinc]
          have := ih (pre ++ [fa]) fb rest' 0 (dist - (fa.count - e)) hb' hfb.pos (by omega) (by omega)
          constructor
          · rw [List.flatMap_cons, this.1, hps, gsel_cons fa, take_drop_append _ _ _ _ (by omega), hlen]
            simp
          · intro p hp
            rcases List.mem_cons.mp hp with rfl | hp
            · exact hpok
            · exact this.2 p hp
      · -- the task ends inside this archetype
        have hcur : min dist (fa.count - e) = dist := by omega
        have hinc : (AG.inc fr ⟨min dist (fa.count - e), dist, pre.length, e⟩).dist = 0 := by
          simp [AG.inc, hmore]; omega
        rw [pieces_zero fr f _ hinc]
        constructor
        · rw [List.flatMap_cons, List.flatMap_nil, List.append_nil, hps, gsel_cons fa,
            take_drop_append _ _ _ _ (by omega), hlen]
          have : dist - (fa.count - e) = 0 := by omega
          simp [this]
        · intro p hp
          rcases List.mem_cons.mp hp with rfl | hp
          · exact hpok
          · cases hp

/-- the pieces of a task whose cursor is `(post, e)` cover the next `size` selected entities -/
theorem taskPieces_spec (fr : List FA) (hwf : ∀ fa ∈ fr, fa.WF) (t : TaskInfo) (pre post : List FA)
    (hb : fr = pre ++ post) (ha : t.firstArch = pre.length) (hn : Norm post t.firstEntity)
    (hle : t.firstEntity + t.size ≤ totalCount post) :
    (taskPieces fr t).flatMap (pieceSel fr) = ((gsel post).drop t.firstEntity).take t.size ∧
    ∀ p ∈ taskPieces fr t, PieceOK fr p := by
  cases post with
  | nil =>
    have hs : t.size = 0 := by simp at hle; omega
    have hge : ¬ t.firstArch < fr.length := by rw [ha, hb]; simp
    simp [taskPieces, AG.make, hge, hs, pieces_zero]
  | cons fa rest =>
    have hlt : pre.length < fr.length := by rw [hb]; simp
    have hget : fr.getD pre.length default = fa := by rw [hb]; exact getD_append_length ..
    rw [totalCount_cons] at hle
    have he : t.firstEntity < fa.count := hn
    have := pieces_spec fr hwf t.size pre fa rest t.firstEntity t.size hb he (by omega) (Nat.le_refl _)
    simp only [taskPieces, AG.make, ha, hlt, if_true, hget]
    exact this

/-! ### all tasks -/

/-- the entities a task stands for -/
def taskSel (fr : List FA) (t : TaskInfo) : List (Nat × Nat) := (taskPieces fr t).flatMap (pieceSel fr)

/-- invariant of the `TaskGroup` iterator at task `k` -/
structure TaskAt (fr : List FA) (T : Nat) (t : TaskInfo) (k : Nat) : Prop where
  id : t.id = k
  size : t.size = taskSize (totalCount fr) T k
  cursor : ∃ pre post, fr = pre ++ post ∧ t.firstArch = pre.length ∧ Norm post t.firstEntity ∧
    totalCount pre + t.firstEntity = sumSizes (totalCount fr) T k

theorem taskSel_eq (fr : List FA) (hwf : ∀ fa ∈ fr, fa.WF) (T : Nat) (hT : 1 ≤ T) (t : TaskInfo) (k : Nat)
    (hk : k < T) (h : TaskAt fr T t k) :
    taskSel fr t = ((gsel fr).drop (sumSizes (totalCount fr) T k)).take (taskSize (totalCount fr) T k) ∧
    (taskSel fr t).length = t.size ∧
    (∀ p ∈ taskPieces fr t, PieceOK fr p) ∧ TaskAt fr T (TG.advance fr (totalCount fr) T t) (k + 1) := by
  obtain ⟨pre, post, hb, ha, hn, hsum⟩ := h.cursor
  have hpos : ∀ fa ∈ fr, 0 < fa.count := fun fa hfa => (hwf fa hfa).pos
  have hall := sumSizes_all (totalCount fr) T hT
  have hmono := sumSizes_mono (totalCount fr) T (show k + 1 ≤ T by omega)
  rw [hall, sumSizes] at hmono
  have htot : totalCount fr = totalCount pre + totalCount post := by rw [hb, totalCount_append]
  have hle : t.firstEntity + t.size ≤ totalCount post := by rw [h.size]; omega
  have hp := taskPieces_spec fr hwf t pre post hb ha hn hle
  have hwfpre : ∀ fa ∈ pre, fa.WF := fun fa hfa => hwf fa (by rw [hb]; simp [hfa])
  have hsel : taskSel fr t =
      ((gsel fr).drop (sumSizes (totalCount fr) T k)).take (taskSize (totalCount fr) T k) := by
    rw [taskSel, hp.1, ← hsum, ← h.size]
    congr 1
    rw [hb, gsel_append, ← length_gsel pre hwfpre, drop_length_add]
  refine ⟨hsel, ?_, hp.2, ?_⟩
  · rw [hsel, List.length_take, List.length_drop, length_gsel fr hwf, h.size]
    omega
  · obtain ⟨pre', post', e', h1, h2, h3, h4⟩ :=
      advance_spec fr hpos t.size t.size pre post t.firstEntity hb hn hle (Nat.le_refl _)
    rw [← ha] at h2
    refine ⟨by simp [TG.advance, h.id], by simp [TG.advance, h.id], pre', post', h1, ?_, ?_, ?_⟩
    · simp [TG.advance, h2]
    · simp only [TG.advance, h2]; exact h3
    · simp only [TG.advance, h2]
      rw [h4, hsum, h.size, sumSizes]

theorem tasks_spec (fr : List FA) (hwf : ∀ fa ∈ fr, fa.WF) (T : Nat) (hT : 1 ≤ T) :
    ∀ (fuel : Nat) (t : TaskInfo) (k : Nat), k + fuel = T → TaskAt fr T t k →
      (TG.tasks fr (totalCount fr) T fuel t).flatMap (taskSel fr) =
        (gsel fr).drop (sumSizes (totalCount fr) T k) ∧
      (∀ x ∈ TG.tasks fr (totalCount fr) T fuel t,
        (taskSel fr x).length = x.size ∧ ∀ p ∈ taskPieces fr x, PieceOK fr p) := by
  intro fuel
  induction fuel with
  | zero =>
    intro t k hk _
    have : k = T := by omega
    subst this
    rw [sumSizes_all _ _ hT, List.drop_of_length_le (by rw [length_gsel fr hwf]; exact Nat.le_refl _)]
    simp [TG.tasks]
  | succ f ih =>
    intro t k hk h
    have hne : t.id ≠ T := by rw [h.id]; omega
    obtain ⟨h1, hl, h2, h3⟩ := taskSel_eq fr hwf T hT t k (by omega) h
    have := ih (TG.advance fr (totalCount fr) T t) (k + 1) (by omega) h3
    simp only [TG.tasks, hne, if_false]
    constructor
    · rw [List.flatMap_cons, h1, this.1, sumSizes]
      rw [← List.drop_drop, List.take_append_drop]
    · intro x hx
      rcases List.mem_cons.mp hx with rfl | hx
      · exact ⟨hl, h2⟩
      · exact this.2 x hx

theorem taskAt_first (fr : List FA) (hwf : ∀ fa ∈ fr, fa.WF) (T : Nat) :
    TaskAt fr T (TG.first (totalCount fr) T) 0 :=
  ⟨rfl, rfl, [], fr, rfl, rfl, norm_zero fr (fun fa hfa => (hwf fa hfa).pos), rfl⟩

theorem runTasks_spec (fr : List FA) (hwf : ∀ fa ∈ fr, fa.WF) (T : Nat) (hT : 1 ≤ T) :
    (runTasks fr T).flatMap (taskSel fr) = gsel fr ∧
    (∀ x ∈ runTasks fr T, (taskSel fr x).length = x.size ∧ ∀ p ∈ taskPieces fr x, PieceOK fr p) := by
  have := tasks_spec fr hwf T hT T (TG.first (totalCount fr) T) 0 (by omega) (taskAt_first fr hwf T)
  simpa [runTasks, sumSizes] using this

/-! ### from pieces to arrays -/

theorem pieceArrays_spec (fr : List FA) (hwf : ∀ fa ∈ fr, fa.WF) (p : Piece) (hp : PieceOK fr p) :
    (pieceArrays fr p).flatMap Arr.expand = pieceSel fr p ∧
    ∀ x ∈ pieceArrays fr p, x.arch = (fr.getD p.a default).arch ∧ ArrOK (fr.getD p.a default) (x.first, x.len) := by
  obtain ⟨ha, hs, hle⟩ := hp
  have hmem : fr.getD p.a default ∈ fr := by
    rw [List.getD_eq_getElem?_getD, List.getElem?_eq_getElem ha]; simp
  have hfa := hwf _ hmem
  have := make_arrays (fr.getD p.a default) hfa p.e p.size hs hle
  constructor
  · simp only [pieceArrays, pieceSel, FA.gsel, List.flatMap_map, Arr.expand]
    rw [← List.map_drop, ← List.map_take, ← this.1, List.map_flatMap]
  · intro x hx
    simp only [pieceArrays, List.mem_map] at hx
    obtain ⟨q, hq, rfl⟩ := hx
    exact ⟨rfl, this.2 q hq⟩

theorem taskArrays_spec (fr : List FA) (hwf : ∀ fa ∈ fr, fa.WF) (t : TaskInfo)
    (hp : ∀ p ∈ taskPieces fr t, PieceOK fr p) :
    (taskArrays fr t).flatMap Arr.expand = taskSel fr t := by
  simp only [taskArrays, taskSel, List.flatMap_assoc]
  apply flatMap_congr'
  intro p hpm
  exact (pieceArrays_spec fr hwf p (hp p hpm)).1

end Mustache.Iteration

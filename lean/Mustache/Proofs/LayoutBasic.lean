import Mustache.Model.Layout
/-! Helper lemmas for C10: align-up arithmetic, the constructor's fold read recursively, column facts. -/
namespace Mustache.Proofs.Layout
open Mustache.Model.Layout

/-! ## align-up -/

theorem alignUp_dvd (off a : Nat) : a ∣ alignUp off a := Nat.dvd_mul_left _ _

theorem alignUp_mod (off a : Nat) : alignUp off a % a = 0 :=
  Nat.mod_eq_zero_of_dvd (alignUp_dvd off a)

theorem alignUp_bounds (off a : Nat) (ha : 0 < a) : off ≤ alignUp off a ∧ alignUp off a < off + a := by
  have h1 := Nat.div_add_mod (off + a - 1) a
  have h2 := Nat.mod_lt (off + a - 1) ha
  have h3 : alignUp off a = a * ((off + a - 1) / a) := by
    unfold alignUp; exact Nat.mul_comm _ _
  rw [h3]
  generalize a * ((off + a - 1) / a) = t at *
  omega

theorem alignUp_ge (off a : Nat) (ha : 0 < a) : off ≤ alignUp off a := (alignUp_bounds off a ha).1

theorem alignUp_lt (off a : Nat) (ha : 0 < a) : alignUp off a < off + a := (alignUp_bounds off a ha).2

/-- the least multiple of `a` that is ≥ `off` is unique -/
theorem alignUp_unique (off a r : Nat) (ha : 0 < a) (hd : a ∣ r) (h1 : off ≤ r) (h2 : r < off + a) :
    r = alignUp off a := by
  have b := alignUp_bounds off a ha
  have d := alignUp_dvd off a
  rcases Nat.lt_trichotomy r (alignUp off a) with h | h | h
  · have : a ∣ alignUp off a - r := Nat.dvd_sub d hd
    have := Nat.le_of_dvd (by omega) this
    omega
  · exact h
  · have : a ∣ r - alignUp off a := Nat.dvd_sub hd d
    have := Nat.le_of_dvd (by omega) this
    omega

theorem roundChunk_ge (e a : Nat) (ha : 0 < a) : e ≤ roundChunk e a := by
  unfold roundChunk
  have := alignUp_ge e a ha
  split <;> omega

theorem roundChunk_dvd (e a : Nat) : a ∣ roundChunk e a := by
  unfold roundChunk
  split
  · exact Nat.dvd_refl _
  · exact alignUp_dvd e a

theorem roundChunk_pos (e a : Nat) (ha : 0 < a) : 0 < roundChunk e a := by
  unfold roundChunk
  split <;> omega

theorem alignUp_of_dvd (off a : Nat) (ha : 0 < a) (hd : a ∣ off) : alignUp off a = off :=
  (alignUp_unique off a off ha hd (Nat.le_refl _) (by omega)).symm

/-! ## vocabulary -/

/-- every alignment is positive (`alignof` of a C++ type; a run-time described component must say so) -/
def WF (cs : List Comp) : Prop := ∀ c ∈ cs, 0 < c.align

/-- `sizeof(T) % alignof(T) = 0` -/
def Strided (cs : List Comp) : Prop := ∀ c ∈ cs, c.align ∣ c.size

def IsPow2 (a : Nat) : Prop := ∃ k, a = 2 ^ k

def sizeAt (cs : List Comp) (i : Nat) : Nat := (cs.getD i ⟨0, 0⟩).size
def alignAt (cs : List Comp) (i : Nat) : Nat := (cs.getD i ⟨0, 0⟩).align

@[simp] theorem sizeAt_zero (c : Comp) (cs : List Comp) : sizeAt (c :: cs) 0 = c.size := rfl
@[simp] theorem sizeAt_succ (c : Comp) (cs : List Comp) (i : Nat) : sizeAt (c :: cs) (i + 1) = sizeAt cs i := by
  simp [sizeAt]
@[simp] theorem alignAt_zero (c : Comp) (cs : List Comp) : alignAt (c :: cs) 0 = c.align := rfl
@[simp] theorem alignAt_succ (c : Comp) (cs : List Comp) (i : Nat) : alignAt (c :: cs) (i + 1) = alignAt cs i := by
  simp [alignAt]

theorem WF.tail {c : Comp} {cs : List Comp} (h : WF (c :: cs)) : WF cs :=
  fun x hx => h x (List.mem_cons_of_mem _ hx)
theorem WF.head {c : Comp} {cs : List Comp} (h : WF (c :: cs)) : 0 < c.align := h c (List.mem_cons_self)

theorem getD_mem (cs : List Comp) (i : Nat) (hi : i < cs.length) : cs.getD i ⟨0, 0⟩ ∈ cs := by
  induction cs generalizing i with
  | nil => simp at hi
  | cons c cs ih =>
    cases i with
    | zero => simp
    | succ n =>
      have : n < cs.length := by simpa using hi
      simp only [List.getD_cons_succ]
      exact List.mem_cons_of_mem _ (ih n this)

theorem alignAt_pos {cs : List Comp} (h : WF cs) {i : Nat} (hi : i < cs.length) : 0 < alignAt cs i :=
  h _ (getD_mem cs i hi)

theorem strided_at {cs : List Comp} (h : Strided cs) {i : Nat} (hi : i < cs.length) : alignAt cs i ∣ sizeAt cs i :=
  h _ (getD_mem cs i hi)

/-! ## the fold, read recursively -/

/-- chunk alignment produced by the fold for either rule, started from `(e, ca)` -/
def caOf (rule : Rule) (cap : Nat) (e ca : Nat) (cs : List Comp) : Nat :=
  match rule with
  | .first => firstAlign cap e ca cs
  | .largest => cs.foldl (fun m c => max m c.align) ca

theorem foldl_step (rule : Rule) (cap : Nat) (cs : List Comp) (b : Build) :
    cs.foldl (step rule cap) b =
      ⟨endOf cap b.offset cs, caOf rule cap b.offset b.chunkAlign cs, b.getters ++ colsFrom cap b.offset cs⟩ := by
  induction cs generalizing b with
  | nil => cases rule <;> simp [endOf, colsFrom, caOf, firstAlign]
  | cons c cs ih =>
    rw [List.foldl_cons, ih]
    cases rule <;> simp [step, endOf, colsFrom, caOf, firstAlign]

theorem build_eq (rule : Rule) (cap : Nat) (cs : List Comp) :
    build rule cap cs = ⟨endOf cap 0 cs, caOf rule cap 0 0 cs, colsFrom cap 0 cs⟩ := by
  unfold build; rw [foldl_step]; simp [Build.init]

theorem colsFrom_length (cap e : Nat) (cs : List Comp) : (colsFrom cap e cs).length = cs.length := by
  induction cs generalizing e with
  | nil => rfl
  | cons c cs ih => simp [colsFrom, ih]

theorem colsFrom_get (cap e : Nat) (cs : List Comp) (i : Nat) (hi : i < cs.length) :
    (colsFrom cap e cs)[i]? = some ⟨offsetOf cap e cs i, sizeAt cs i⟩ := by
  induction cs generalizing e i with
  | nil => simp at hi
  | cons c cs ih =>
    cases i with
    | zero => simp [colsFrom, offsetOf]
    | succ n =>
      have : n < cs.length := by simpa using hi
      simp [colsFrom, offsetOf, ih _ n this]

/-! ## column facts -/

theorem endOf_ge (cap e : Nat) (cs : List Comp) (h : WF cs) : e ≤ endOf cap e cs := by
  induction cs generalizing e with
  | nil => exact Nat.le_refl _
  | cons c cs ih =>
    have := ih (alignUp e c.align + cap * c.size) h.tail
    have := alignUp_ge e c.align h.head
    simp only [endOf]; omega

theorem offsetOf_ge (cap e : Nat) (cs : List Comp) (h : WF cs) (i : Nat) (hi : i < cs.length) :
    e ≤ offsetOf cap e cs i := by
  induction cs generalizing e i with
  | nil => simp at hi
  | cons c cs ih =>
    have a := alignUp_ge e c.align h.head
    cases i with
    | zero => simpa [offsetOf] using a
    | succ n =>
      have hn : n < cs.length := by simpa using hi
      have := ih (alignUp e c.align + cap * c.size) h.tail n hn
      simp only [offsetOf]; omega

theorem offsetOf_dvd (cap e : Nat) (cs : List Comp) (i : Nat) (hi : i < cs.length) :
    alignAt cs i ∣ offsetOf cap e cs i := by
  induction cs generalizing e i with
  | nil => simp at hi
  | cons c cs ih =>
    cases i with
    | zero => simpa [offsetOf] using alignUp_dvd e c.align
    | succ n =>
      have hn : n < cs.length := by simpa using hi
      simpa [offsetOf] using ih _ n hn

/-- a column ends before any later column starts -/
theorem col_before (cap e : Nat) (cs : List Comp) (h : WF cs) (i i' : Nat) (hlt : i < i') (hi : i' < cs.length) :
    offsetOf cap e cs i + cap * sizeAt cs i ≤ offsetOf cap e cs i' := by
  induction cs generalizing e i i' with
  | nil => simp at hi
  | cons c cs ih =>
    cases i' with
    | zero => omega
    | succ m =>
      have hm : m < cs.length := by simpa using hi
      cases i with
      | zero =>
        have := offsetOf_ge cap (alignUp e c.align + cap * c.size) cs h.tail m hm
        simpa [offsetOf] using this
      | succ n =>
        have := ih (alignUp e c.align + cap * c.size) h.tail n m (by omega) hm
        simpa [offsetOf] using this

/-- every column ends before the running end offset -/
theorem col_end (cap e : Nat) (cs : List Comp) (h : WF cs) (i : Nat) (hi : i < cs.length) :
    offsetOf cap e cs i + cap * sizeAt cs i ≤ endOf cap e cs := by
  induction cs generalizing e i with
  | nil => simp at hi
  | cons c cs ih =>
    cases i with
    | zero =>
      have := endOf_ge cap (alignUp e c.align + cap * c.size) cs h.tail
      simpa [offsetOf, endOf] using this
    | succ n =>
      have hn : n < cs.length := by simpa using hi
      simpa [offsetOf, endOf] using ih _ h.tail n hn

/-- slot `k < cap` of a column lies inside the column -/
theorem slot_in_col (cap s k : Nat) (hk : k < cap) : k * s + s ≤ cap * s := by
  have : (k + 1) * s ≤ cap * s := Nat.mul_le_mul_right s hk
  rw [Nat.add_mul, Nat.one_mul] at this
  exact this

theorem slots_apart (s k k' : Nat) (h : k < k') : k * s + s ≤ k' * s := by
  have : (k + 1) * s ≤ k' * s := Nat.mul_le_mul_right s h
  rw [Nat.add_mul, Nat.one_mul] at this
  exact this

/-! ## the largest alignment -/

theorem pow2_max {a b : Nat} (ha : IsPow2 a) (hb : IsPow2 b) : IsPow2 (max a b) ∧ a ∣ max a b ∧ b ∣ max a b := by
  rcases ha with ⟨k, rfl⟩
  rcases hb with ⟨l, rfl⟩
  rcases Nat.le_total k l with h | h
  · have hle : 2 ^ k ≤ 2 ^ l := Nat.pow_le_pow_right (by decide) h
    rw [Nat.max_eq_right hle]
    exact ⟨⟨l, rfl⟩, Nat.pow_dvd_pow 2 h, Nat.dvd_refl _⟩
  · have hle : 2 ^ l ≤ 2 ^ k := Nat.pow_le_pow_right (by decide) h
    rw [Nat.max_eq_left hle]
    exact ⟨⟨k, rfl⟩, Nat.dvd_refl _, Nat.pow_dvd_pow 2 h⟩

theorem foldmax_pow2 (cs : List Comp) (m : Nat) (hm : IsPow2 m) (h : ∀ c ∈ cs, IsPow2 c.align) :
    IsPow2 (cs.foldl (fun m c => max m c.align) m) ∧ m ∣ cs.foldl (fun m c => max m c.align) m ∧
    ∀ c ∈ cs, c.align ∣ cs.foldl (fun m c => max m c.align) m := by
  induction cs generalizing m with
  | nil => exact ⟨hm, Nat.dvd_refl _, by simp⟩
  | cons c cs ih =>
    have hc := h c List.mem_cons_self
    have p := pow2_max hm hc
    have r := ih (max m c.align) p.1 (fun x hx => h x (List.mem_cons_of_mem _ hx))
    simp only [List.foldl_cons]
    refine ⟨r.1, Nat.dvd_trans p.2.1 r.2.1, ?_⟩
    intro x hx
    rcases List.mem_cons.mp hx with rfl | hx
    · exact Nat.dvd_trans p.2.2 r.2.1
    · exact r.2.2 x hx

theorem maxAlign_dvd (cs : List Comp) (h : ∀ c ∈ cs, IsPow2 c.align) :
    (∀ c ∈ cs, c.align ∣ maxAlign cs) ∧ (cs ≠ [] → IsPow2 (maxAlign cs)) := by
  cases cs with
  | nil => simp
  | cons c cs =>
    have hc := h c List.mem_cons_self
    have r := foldmax_pow2 cs c.align hc (fun x hx => h x (List.mem_cons_of_mem _ hx))
    have e : maxAlign (c :: cs) = cs.foldl (fun m c => max m c.align) c.align := by
      simp [maxAlign]
    rw [e]
    refine ⟨?_, fun _ => r.1⟩
    intro x hx
    rcases List.mem_cons.mp hx with rfl | hx
    · exact r.2.1
    · exact r.2.2 x hx

theorem pow2_pos {a : Nat} (h : IsPow2 a) : 0 < a := by
  rcases h with ⟨k, rfl⟩; exact Nat.pow_pos (by decide)

/-! ## slots relative to the chunk base -/

theorem rel_eq (cap : Nat) (cs : List Comp) (i k : Nat) :
    rel cap cs i k = offsetOf cap 0 cs i + k * sizeAt cs i := rfl

/-- a slot lies inside its column, hence inside the chunk -/
theorem rel_in_chunk (cap : Nat) (cs : List Comp) (ca : Nat) (h : WF cs) (hca : 0 < ca) (i k : Nat)
    (hi : i < cs.length) (hk : k < cap) :
    rel cap cs i k + sizeAt cs i ≤ offsetOf cap 0 cs i + cap * sizeAt cs i ∧
    offsetOf cap 0 cs i + cap * sizeAt cs i ≤ endOf cap 0 cs ∧
    endOf cap 0 cs ≤ chunkSizeOf cap cs ca := by
  refine ⟨?_, col_end cap 0 cs h i hi, roundChunk_ge _ _ hca⟩
  have := slot_in_col cap (sizeAt cs i) k hk
  rw [rel_eq]; omega

/-- distinct (column, slot) pairs of one chunk occupy disjoint byte ranges -/
theorem rel_disjoint (cap : Nat) (cs : List Comp) (h : WF cs) (i i' k k' : Nat)
    (hi : i < cs.length) (hi' : i' < cs.length) (hk : k < cap) (hk' : k' < cap) (hne : i ≠ i' ∨ k ≠ k') :
    rel cap cs i k + sizeAt cs i ≤ rel cap cs i' k' ∨ rel cap cs i' k' + sizeAt cs i' ≤ rel cap cs i k := by
  rw [rel_eq, rel_eq]
  rcases Nat.lt_trichotomy i i' with hlt | heq | hgt
  · left
    have a := col_before cap 0 cs h i i' hlt hi'
    have b := slot_in_col cap (sizeAt cs i) k hk
    omega
  · subst heq
    have hkk : k ≠ k' := by
      rcases hne with h | h
      · exact absurd rfl h
      · exact h
    rcases Nat.lt_or_gt_of_ne hkk with hl | hg
    · left; have := slots_apart (sizeAt cs i) k k' hl; omega
    · right; have := slots_apart (sizeAt cs i) k' k hg; omega
  · right
    have a := col_before cap 0 cs h i' i hgt hi
    have b := slot_in_col cap (sizeAt cs i') k' hk'
    omega

end Mustache.Proofs.Layout

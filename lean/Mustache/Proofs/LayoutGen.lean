import Mustache.Props.C16
import Mustache.Proofs.LayoutBasic
/-! Bridge between the natural-number layout model and the GENERATED 32-bit functions
(`Mustache.Gen.w_align / w_div / w_mod`, regenerated from `/repo/src/mustache/ecs/id_deff.hpp` on every run). -/
namespace Mustache.Proofs.LayoutGen
open Mustache.Gen Mustache.Model.Layout Mustache.Proofs.Layout

def b32 (n : Nat) : BitVec 32 := BitVec.ofNat 32 n

theorem b32_toNat (n : Nat) (h : n < 2 ^ 32) : (b32 n).toNat = n := by
  simp [b32, BitVec.toNat_ofNat, Nat.mod_eq_of_lt h]

theorem b32_ne_zero (n : Nat) (h0 : 0 < n) (h : n < 2 ^ 32) : b32 n ≠ 0#32 := by
  intro e
  have := congrArg BitVec.toNat e
  rw [b32_toNat n h] at this
  simp at this; omega

/-- the generated `alignAs` is the model's `alignUp` whenever `off + a` does not overflow 32 bits -/
theorem alignUp_eq_generated (off a : Nat) (ha : 0 < a) (ha2 : a < 2 ^ 32) (h : off + a ≤ 2 ^ 32) :
    w_align_defined (b32 off) (b32 a) = true ∧ (w_align (b32 off) (b32 a)).toNat = alignUp off a := by
  have ho : (b32 off).toNat = off := b32_toNat off (by omega)
  have hA : (b32 a).toNat = a := b32_toNat a ha2
  have f := Mustache.Props.C16.align_up (b32 off) (b32 a) (b32_ne_zero a ha ha2) (by rw [ho, hA]; exact h)
  rw [ho, hA] at f
  exact ⟨f.1, alignUp_unique off a _ ha (Nat.dvd_of_mod_eq_zero f.2.1) f.2.2.1 f.2.2.2⟩

/-- the constructor's loop in the code's own 32-bit arithmetic: `alignAs` is the GENERATED function,
`ComponentOffset::add` wraps modulo 2^32 -/
def colsGen (cap : Nat) : BitVec 32 → List Comp → List Getter
  | _, [] => []
  | e, c :: cs =>
    let o := w_align e (b32 c.align)
    ⟨o.toNat, c.size⟩ :: colsGen cap (o + b32 (cap * c.size)) cs

def endGen (cap : Nat) : BitVec 32 → List Comp → BitVec 32
  | e, [] => e
  | e, c :: cs => endGen cap (w_align e (b32 c.align) + b32 (cap * c.size)) cs

theorem b32_add (x y : Nat) : b32 x + b32 y = b32 (x + y) := by
  simp [b32, BitVec.ofNat_add]

theorem gen_eq (cap e A : Nat) (cs : List Comp) (h : WF cs) (hA : ∀ c ∈ cs, c.align ≤ A)
    (hsmall : endOf cap e cs + A < 2 ^ 32) :
    colsGen cap (b32 e) cs = colsFrom cap e cs ∧ endGen cap (b32 e) cs = b32 (endOf cap e cs) := by
  induction cs generalizing e with
  | nil => exact ⟨rfl, rfl⟩
  | cons c cs ih =>
    have hge := endOf_ge cap (alignUp e c.align + cap * c.size) cs h.tail
    have hal := alignUp_ge e c.align h.head
    have hcA := hA c List.mem_cons_self
    have hend : endOf cap e (c :: cs) = endOf cap (alignUp e c.align + cap * c.size) cs := rfl
    rw [hend] at hsmall
    have g := alignUp_eq_generated e c.align h.head (by omega) (by omega)
    have ho : w_align (b32 e) (b32 c.align) = b32 (alignUp e c.align) := by
      apply BitVec.eq_of_toNat_eq
      rw [g.2, b32_toNat _ (by omega)]
    have r := ih (alignUp e c.align + cap * c.size) h.tail (fun x hx => hA x (List.mem_cons_of_mem _ hx)) hsmall
    constructor
    · simp only [colsGen, colsFrom]
      rw [g.2, ho, b32_add, r.1]
    · simp only [endGen, endOf]
      rw [ho, b32_add, r.2]

/-- chunk/item split of `getDataUnsafe`: the generated `/` and `%` are the model's `/` and `%` -/
theorem split_eq_generated (j cap : Nat) (hj : j < 2 ^ 32) (hc : 0 < cap) (hc2 : cap < 2 ^ 32) :
    w_div_defined (b32 j) (b32 cap) = true ∧ w_mod_defined (b32 j) (b32 cap) = true ∧
    (w_div (b32 j) (b32 cap)).toNat = j / cap ∧ (w_mod (b32 j) (b32 cap)).toNat = j % cap := by
  have hne := b32_ne_zero cap hc hc2
  have s := Mustache.Props.C16.split (b32 j) (b32 cap) hne
  have hd : w_div (b32 j) (b32 cap) = b32 j / b32 cap := by simp [w_div, hne]
  have hm : w_mod (b32 j) (b32 cap) = b32 j % b32 cap := by simp [w_mod, hne]
  refine ⟨s.1, s.2.1, ?_, ?_⟩
  · rw [hd, BitVec.toNat_udiv, b32_toNat j hj, b32_toNat cap hc2]
  · rw [hm, BitVec.toNat_umod, b32_toNat j hj, b32_toNat cap hc2]

end Mustache.Proofs.LayoutGen

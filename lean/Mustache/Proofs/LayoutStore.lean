import Mustache.Model.Layout
/-! Helper lemmas for C10: population bookkeeping of the storage — every live slot is backed by a chunk. -/
namespace Mustache.Proofs.LayoutStore
open Mustache.Model.Layout

/-- the storage never claims more slots than its chunks hold -/
def SInv (s : Store) : Prop := s.size ≤ s.cap * s.nchunks

theorem reserveFuel_params (f : Nat) (s : Store) (n : Nat) :
    (reserveFuel f s n).cap = s.cap ∧ (reserveFuel f s n).chunkSize = s.chunkSize ∧
    (reserveFuel f s n).size = s.size ∧ s.nchunks ≤ (reserveFuel f s n).nchunks := by
  induction f generalizing s with
  | zero => exact ⟨rfl, rfl, rfl, Nat.le_refl _⟩
  | succ f ih =>
    simp only [reserveFuel]
    split
    · have := ih { s with nchunks := s.nchunks + 1 }
      exact ⟨this.1, this.2.1, this.2.2.1, by have := this.2.2.2; simp at this; omega⟩
    · exact ⟨rfl, rfl, rfl, Nat.le_refl _⟩

theorem reserveFuel_post (f : Nat) (s : Store) (n : Nat) (hc : 0 < s.cap) (hz : 0 < s.chunkSize)
    (hf : n ≤ s.cap * s.nchunks + f) : n ≤ s.cap * (reserveFuel f s n).nchunks := by
  induction f generalizing s with
  | zero => simpa [reserveFuel] using hf
  | succ f ih =>
    simp only [reserveFuel]
    split
    · have := ih { s with nchunks := s.nchunks + 1 } hc hz (by
        simp only
        rw [Nat.mul_add, Nat.mul_one]; omega)
      exact this
    · rename_i h
      have : ¬ s.cap * s.nchunks < n := fun h' => h ⟨hz, h'⟩
      omega

theorem reserve_post (s : Store) (n : Nat) (hc : 0 < s.cap) (hz : 0 < s.chunkSize) :
    n ≤ s.cap * (s.reserve n).nchunks ∧ (s.reserve n).cap = s.cap ∧ (s.reserve n).chunkSize = s.chunkSize ∧
    (s.reserve n).size = s.size ∧ s.nchunks ≤ (s.reserve n).nchunks := by
  have p := reserveFuel_params n s n
  exact ⟨reserveFuel_post n s n hc hz (by omega), p.1, p.2.1, p.2.2.1, p.2.2.2⟩

theorem step_inv (s : Store) (op : SOp) (hc : 0 < s.cap) (hz : 0 < s.chunkSize) (h : SInv s) :
    SInv (s.step op) ∧ (s.step op).cap = s.cap ∧ (s.step op).chunkSize = s.chunkSize := by
  cases op with
  | emplace pos =>
    have r := reserve_post s (pos + 1) hc hz
    refine ⟨?_, r.2.1, r.2.2.1⟩
    unfold SInv at h ⊢
    simp only [Store.step]
    rw [r.2.1]
    have hm : s.cap * s.nchunks ≤ s.cap * (s.reserve (pos + 1)).nchunks := Nat.mul_le_mul_left _ r.2.2.2.2
    split
    · exact r.1
    · rw [r.2.2.2.1]; omega
  | decr =>
    refine ⟨?_, rfl, rfl⟩
    unfold SInv at h ⊢
    simp only [Store.step]; omega
  | clear free =>
    refine ⟨?_, rfl, rfl⟩
    unfold SInv
    simp [Store.step]

theorem run_inv (s : Store) (ops : List SOp) (hc : 0 < s.cap) (hz : 0 < s.chunkSize) (h : SInv s) :
    SInv (s.run ops) ∧ (s.run ops).cap = s.cap ∧ (s.run ops).chunkSize = s.chunkSize := by
  induction ops generalizing s with
  | nil => exact ⟨h, rfl, rfl⟩
  | cons op ops ih =>
    have st := step_inv s op hc hz h
    have := ih (s.step op) (by rw [st.2.1]; exact hc) (by rw [st.2.2]; exact hz) st.1
    simp only [Store.run, List.foldl_cons] at this ⊢
    exact ⟨this.1, by rw [this.2.1, st.2.1], by rw [this.2.2, st.2.2]⟩

end Mustache.Proofs.LayoutStore

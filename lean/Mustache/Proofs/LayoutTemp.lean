import Mustache.Model.Layout
/-! Helper lemmas for C10: the command-buffer allocator (`TemporalStorage::allocate`). -/
namespace Mustache.Proofs.LayoutTemp
open Mustache.Model.Layout

/-- `free_space ≤ capacity` in every chunk -/
def TInv (s : TState) : Prop := ∀ c ∈ s.chunks, c.free ≤ c.capacity

theorem padding_zero (c : TChunk) : padding 0 c = 0 := by simp [padding]

theorem padding_lt (align : Nat) (c : TChunk) (ha : 0 < align) : padding align c < align := by
  unfold padding
  split
  · exact ha
  · exact Nat.mod_lt _ ha

theorem padding_aligned (align : Nat) (c : TChunk) (ha : 0 < align) :
    (c.base + c.used + padding align c) % align = 0 := by
  unfold padding
  split
  · have : align = 1 := by omega
    subst this; exact Nat.mod_one _
  · generalize c.base + c.used = x
    have h1 := Nat.div_add_mod x align
    have h2 := Nat.mod_lt x ha
    by_cases hr : x % align = 0
    · rw [hr, Nat.sub_zero, Nat.mod_self, Nat.add_zero]; exact hr
    · have hp : (align - x % align) % align = align - x % align := Nat.mod_eq_of_lt (by omega)
      rw [hp]
      have : x + (align - x % align) = align * (x / align + 1) := by
        rw [Nat.mul_add, Nat.mul_one]; omega
      rw [this]; exact Nat.mul_mod_right _ _

/-- shape of the state after the "open a new chunk if needed" part -/
theorem ensure_head (s : TState) (nb size align : Nat) (hinv : TInv s) (ha : align = 0 ∨ 0 < align) :
    ∃ c rest, (ensure s nb size align).chunks = c :: rest ∧ size + padding align c ≤ c.free ∧
      c.free ≤ c.capacity ∧
      ((c :: rest = s.chunks) ∨ (rest = s.chunks ∧ c.base = nb ∧ c.free = c.capacity)) := by
  unfold ensure
  by_cases hf : fits s size align = true
  · rw [if_pos hf]
    unfold fits at hf
    cases hs : s.chunks with
    | nil => rw [hs] at hf; simp at hf
    | cons c rest =>
      rw [hs] at hf
      refine ⟨c, rest, rfl, ?_, hinv c (by rw [hs]; exact List.mem_cons_self), Or.inl rfl⟩
      simp at hf; omega
  · rw [if_neg hf]
    have ht : size + align ≤ (if s.target < size + align then size + align else s.target) := by
      split <;> omega
    dsimp only
    generalize (if s.target < size + align then size + align else s.target) = t at ht
    refine ⟨⟨nb, t, t⟩, s.chunks, rfl, ?_, Nat.le_refl _, Or.inr ⟨rfl, rfl, rfl⟩⟩
    have hp : padding align ⟨nb, t, t⟩ ≤ align := by
      rcases ha with h | h
      · subst h; simp [padding]
      · exact Nat.le_of_lt (padding_lt _ _ h)
    simp only; omega

theorem ensure_inv (s : TState) (nb size align : Nat) (hinv : TInv s) : TInv (ensure s nb size align) := by
  unfold ensure
  split
  · exact hinv
  · intro c hc
    simp only at hc
    rcases List.mem_cons.mp hc with rfl | hc
    · exact Nat.le_refl _
    · exact hinv c hc

/-- everything one allocation does, in one statement -/
theorem allocate_spec (s : TState) (nb size align : Nat) (hinv : TInv s) (ha : align = 0 ∨ 0 < align) :
    ∃ (c : TChunk) (rest : List TChunk) (pad : Nat),
      pad = padding align c ∧ size + pad ≤ c.free ∧ c.free ≤ c.capacity ∧
      ((c :: rest = s.chunks) ∨ (rest = s.chunks ∧ c.base = nb ∧ c.free = c.capacity)) ∧
      (allocate s nb size align).1.chunks = { c with free := c.free - (size + pad) } :: rest ∧
      (allocate s nb size align).2 = ⟨rest.length, c.used + pad, size⟩ := by
  rcases ensure_head s nb size align hinv ha with ⟨c, rest, hc, hfit, hcap, hsh⟩
  refine ⟨c, rest, padding align c, rfl, hfit, hcap, hsh, ?_, ?_⟩
  · unfold allocate; simp only; rw [hc]
  · unfold allocate; simp only; rw [hc]

theorem allocate_inv (s : TState) (nb size align : Nat) (hinv : TInv s) (ha : align = 0 ∨ 0 < align) :
    TInv (allocate s nb size align).1 := by
  rcases allocate_spec s nb size align hinv ha with ⟨c, rest, pad, _, hfit, hcap, hsh, hch, _⟩
  intro x hx
  rw [hch] at hx
  rcases List.mem_cons.mp hx with rfl | hx
  · simp only; omega
  · rcases hsh with h | ⟨h, _, _⟩
    · exact hinv x (by rw [← h]; exact List.mem_cons_of_mem _ hx)
    · exact hinv x (by rw [← h]; exact hx)

theorem clear_inv (s : TState) : TInv (clear s) := by
  intro c hc
  unfold clear at hc
  simp only at hc
  split at hc
  · simp at hc; subst hc; exact Nat.le_refl _
  · simp at hc

/-! ### chunk table: entries are only appended -/

theorem getD_tail_index (c : TChunk) (rest : List TChunk) (k : Nat) (hk : k < rest.length) :
    (c :: rest).getD ((c :: rest).length - 1 - k) ⟨0, 0, 0⟩ = rest.getD (rest.length - 1 - k) ⟨0, 0, 0⟩ := by
  have : (c :: rest).length - 1 - k = (rest.length - 1 - k) + 1 := by simp; omega
  rw [this, List.getD_cons_succ]

/-- base and capacity of an existing chunk never change -/
theorem allocate_stable (s : TState) (nb size align : Nat) (hinv : TInv s) (ha : align = 0 ∨ 0 < align)
    (k : Nat) (hk : k < s.chunks.length) :
    chunkBase (allocate s nb size align).1 k = chunkBase s k ∧
    chunkCapacity (allocate s nb size align).1 k = chunkCapacity s k ∧
    k < (allocate s nb size align).1.chunks.length := by
  rcases allocate_spec s nb size align hinv ha with ⟨c, rest, pad, _, _, _, hsh, hch, _⟩
  unfold chunkBase chunkCapacity
  rw [hch]
  rcases hsh with h | ⟨h, _, _⟩
  · rw [← h] at hk ⊢
    have hk' : k < rest.length + 1 := by simpa using hk
    by_cases hlast : k = rest.length
    · subst hlast
      simp
    · have hk2 : k < rest.length := by omega
      rw [getD_tail_index _ rest k hk2, getD_tail_index c rest k hk2]
      exact ⟨rfl, rfl, by simp; omega⟩
  · rw [← h]
    rw [← h] at hk
    rw [getD_tail_index _ rest k hk]
    exact ⟨rfl, rfl, by simp; omega⟩

/-- the chunk an allocation came from, read back from the new state -/
theorem allocate_chunk (s : TState) (nb size align : Nat) (hinv : TInv s) (ha : align = 0 ∨ 0 < align) :
    ∃ (c : TChunk) (rest : List TChunk) (pad : Nat), pad = padding align c ∧ size + pad ≤ c.free ∧ c.free ≤ c.capacity ∧
      (allocate s nb size align).2 = ⟨rest.length, c.used + pad, size⟩ ∧
      chunkBase (allocate s nb size align).1 rest.length = c.base ∧
      chunkCapacity (allocate s nb size align).1 rest.length = c.capacity ∧
      rest.length < (allocate s nb size align).1.chunks.length := by
  rcases allocate_spec s nb size align hinv ha with ⟨c, rest, pad, hp, hfit, hcap, _, hch, hres⟩
  refine ⟨c, rest, pad, hp, hfit, hcap, hres, ?_, ?_, ?_⟩
  · unfold chunkBase; rw [hch]; simp
  · unfold chunkCapacity; rw [hch]; simp
  · rw [hch]; simp

/-! ### frontier: later allocations lie above earlier ones -/

/-- `x` lies at or above the frontier of `s`: in a later chunk, or in the newest chunk past its used part -/
def Above (s : TState) (x : TRes) : Prop :=
  match s.chunks with
  | [] => True
  | c :: rest => rest.length < x.chunk ∨ (x.chunk = rest.length ∧ c.used ≤ x.offset)

theorem allocate_above (s : TState) (nb size align : Nat) (hinv : TInv s) (ha : align = 0 ∨ 0 < align) :
    Above s (allocate s nb size align).2 := by
  rcases allocate_spec s nb size align hinv ha with ⟨c, rest, pad, _, _, _, hsh, _, hres⟩
  rw [hres]
  unfold Above
  rcases hsh with h | ⟨h, _, _⟩
  · rw [← h]; simp
  · rw [← h]
    cases rest with
    | nil => trivial
    | cons d r => simp

/-- the frontier only moves up -/
theorem above_mono (s : TState) (nb size align : Nat) (hinv : TInv s) (ha : align = 0 ∨ 0 < align) (x : TRes)
    (h : Above (allocate s nb size align).1 x) :
    Above s x ∧ (x.chunk = (allocate s nb size align).2.chunk →
      (allocate s nb size align).2.offset + (allocate s nb size align).2.size ≤ x.offset) := by
  rcases allocate_spec s nb size align hinv ha with ⟨c, rest, pad, _, hfit, hcap, hsh, hch, hres⟩
  unfold Above at h
  rw [hch] at h
  simp only at h
  rw [hres]
  have hused : ({ c with free := c.free - (size + pad) } : TChunk).used = c.used + pad + size := by
    simp only [TChunk.used]; omega
  rw [hused] at h
  constructor
  · unfold Above
    rcases hsh with e | ⟨e, _, _⟩
    · rw [← e]; simp only
      rcases h with h | ⟨h1, h2⟩
      · exact Or.inl h
      · exact Or.inr ⟨h1, by omega⟩
    · rw [← e]
      cases rest with
      | nil => trivial
      | cons d r =>
        simp only
        simp only [List.length_cons] at h
        rcases h with h | ⟨h1, _⟩
        · exact Or.inl (by omega)
        · exact Or.inl (by omega)
  · intro hx
    simp only at hx ⊢
    rcases h with h | ⟨_, h2⟩
    · omega
    · omega

theorem run_inv (s : TState) (rs : List TReq) (hinv : TInv s) (hr : ∀ r ∈ rs, r.align = 0 ∨ 0 < r.align) :
    TInv (runAllocs s rs).1 := by
  induction rs generalizing s with
  | nil => exact hinv
  | cons r rs ih =>
    simp only [runAllocs]
    exact ih _ (allocate_inv s r.nb r.size r.align hinv (hr r List.mem_cons_self))
      (fun x hx => hr x (List.mem_cons_of_mem _ hx))

theorem run_above (s : TState) (rs : List TReq) (hinv : TInv s) (hr : ∀ r ∈ rs, r.align = 0 ∨ 0 < r.align) :
    ∀ x ∈ (runAllocs s rs).2, Above s x := by
  induction rs generalizing s with
  | nil => intro x hx; simp [runAllocs] at hx
  | cons r rs ih =>
    have ha := hr r List.mem_cons_self
    have hi := allocate_inv s r.nb r.size r.align hinv ha
    intro x hx
    simp only [runAllocs] at hx
    rcases List.mem_cons.mp hx with rfl | hx
    · exact allocate_above s r.nb r.size r.align hinv ha
    · have := ih _ hi (fun y hy => hr y (List.mem_cons_of_mem _ hy)) x hx
      exact (above_mono s r.nb r.size r.align hinv ha x this).1

theorem run_pairwise (s : TState) (rs : List TReq) (hinv : TInv s) (hr : ∀ r ∈ rs, r.align = 0 ∨ 0 < r.align) :
    (runAllocs s rs).2.Pairwise (fun a b => a.chunk = b.chunk → a.offset + a.size ≤ b.offset) := by
  induction rs generalizing s with
  | nil => simp [runAllocs]
  | cons r rs ih =>
    have ha := hr r List.mem_cons_self
    have hi := allocate_inv s r.nb r.size r.align hinv ha
    have hr' : ∀ y ∈ rs, y.align = 0 ∨ 0 < y.align := fun y hy => hr y (List.mem_cons_of_mem _ hy)
    simp only [runAllocs]
    refine List.pairwise_cons.mpr ⟨?_, ih _ hi hr'⟩
    intro y hy hc
    have := run_above _ rs hi hr' y hy
    exact (above_mono s r.nb r.size r.align hinv ha y this).2 hc.symm

/-- an allocation is sound with respect to a state: inside its chunk and aligned -/
def Sound (s : TState) (r : TReq) (x : TRes) : Prop :=
  x.chunk < s.chunks.length ∧ x.size = r.size ∧ x.offset + x.size ≤ chunkCapacity s x.chunk ∧
  (0 < r.align → (chunkBase s x.chunk + x.offset) % r.align = 0)

theorem sound_step (s : TState) (nb size align : Nat) (hinv : TInv s) (ha : align = 0 ∨ 0 < align)
    (r : TReq) (x : TRes) (h : Sound s r x) : Sound (allocate s nb size align).1 r x := by
  rcases h with ⟨h1, h2, h3, h4⟩
  have st := allocate_stable s nb size align hinv ha x.chunk h1
  exact ⟨st.2.2, h2, by rw [st.2.1]; exact h3, by rw [st.1]; exact h4⟩

theorem sound_alloc (s : TState) (r : TReq) (hinv : TInv s) (ha : r.align = 0 ∨ 0 < r.align) :
    Sound (allocate s r.nb r.size r.align).1 r (allocate s r.nb r.size r.align).2 := by
  rcases allocate_chunk s r.nb r.size r.align hinv ha with ⟨c, rest, pad, hp, hfit, hcap, hres, hb, hcp, hlen⟩
  rw [hres]
  refine ⟨hlen, rfl, ?_, ?_⟩
  · simp only; rw [hcp]; simp only [TChunk.used]; omega
  · intro hpos
    simp only; rw [hb, hp, ← Nat.add_assoc]
    exact padding_aligned r.align c hpos

theorem sound_run (s : TState) (rs : List TReq) (hinv : TInv s) (hr : ∀ r ∈ rs, r.align = 0 ∨ 0 < r.align)
    (r : TReq) (x : TRes) (h : Sound s r x) : Sound (runAllocs s rs).1 r x := by
  induction rs generalizing s with
  | nil => exact h
  | cons q rs ih =>
    have ha := hr q List.mem_cons_self
    simp only [runAllocs]
    exact ih _ (allocate_inv s q.nb q.size q.align hinv ha) (fun y hy => hr y (List.mem_cons_of_mem _ hy))
      (sound_step s q.nb q.size q.align hinv ha r x h)

theorem run_sound (s : TState) (rs : List TReq) (hinv : TInv s) (hr : ∀ r ∈ rs, r.align = 0 ∨ 0 < r.align) :
    ∀ p ∈ List.zip rs (runAllocs s rs).2, Sound (runAllocs s rs).1 p.1 p.2 := by
  induction rs generalizing s with
  | nil => intro p hp; simp [runAllocs] at hp
  | cons q rs ih =>
    have ha := hr q List.mem_cons_self
    have hi := allocate_inv s q.nb q.size q.align hinv ha
    have hr' : ∀ y ∈ rs, y.align = 0 ∨ 0 < y.align := fun y hy => hr y (List.mem_cons_of_mem _ hy)
    intro p hp
    simp only [runAllocs, List.zip_cons_cons] at hp ⊢
    rcases List.mem_cons.mp hp with rfl | hp
    · exact sound_run _ rs hi hr' _ _ (sound_alloc s q hinv ha)
    · exact ih _ hi hr' p hp

theorem run_length (s : TState) (rs : List TReq) : (runAllocs s rs).2.length = rs.length := by
  induction rs generalizing s with
  | nil => rfl
  | cons r rs ih => simp [runAllocs, ih]

end Mustache.Proofs.LayoutTemp

import Mustache.Model.Lifecycle
/-!
# The per-slot automaton on batches of events (C03)

`accepts` over `++`; a batch of constructions over distinct dead slots; a batch of destructions of distinct
live slots; a batch of move-assignments between live slots; destroy-then-maybe-reconstruct.
-/
namespace Mustache.Proofs.Life
open Mustache.Model

theorem accepts_nil (s : SlotState) : accepts s [] = some s := rfl

theorem accepts_cons (s : SlotState) (e : Event) (es : List Event) :
    accepts s (e :: es) = (acceptStep s e).bind (fun s' => accepts s' es) := rfl

theorem accepts_append (s : SlotState) (a b : List Event) :
    accepts s (a ++ b) = (accepts s a).bind (fun s' => accepts s' b) := by
  induction a generalizing s with
  | nil => rfl
  | cons e es ih =>
    simp only [List.cons_append, accepts_cons]
    cases acceptStep s e with
    | none => rfl
    | some s' => simp only [Option.bind_some]; exact ih s'

/-- chaining: `a` leads from `s` to `s'`, `b` from `s'` to `s''` -/
theorem accepts_append_of {s s' s'' : SlotState} {a b : List Event}
    (ha : accepts s a = some s') (hb : accepts s' b = some s'') : accepts s (a ++ b) = some s'' := by
  rw [accepts_append, ha]; exact hb

/-- `s` with the slots `xs` made live -/
def addAll (s : SlotState) (xs : List LSlot) : SlotState := fun y => s y || xs.contains y
/-- `s` with the slots `xs` made dead -/
def removeAll (s : SlotState) (xs : List LSlot) : SlotState := fun y => s y && !xs.contains y

theorem addAll_nil (s : SlotState) : addAll s [] = s := by
  funext y; simp [addAll]

theorem removeAll_nil (s : SlotState) : removeAll s [] = s := by
  funext y; simp [removeAll]

theorem addAll_apply (s : SlotState) (xs : List LSlot) (y : LSlot) :
    addAll s xs y = true ↔ s y = true ∨ y ∈ xs := by
  simp [addAll]

theorem removeAll_apply (s : SlotState) (xs : List LSlot) (y : LSlot) :
    removeAll s xs y = true ↔ s y = true ∧ y ∉ xs := by
  simp [removeAll]

/-- equality of slot states from pointwise equivalence -/
theorem slotState_ext {a b : SlotState} (h : ∀ y, a y = true ↔ b y = true) : a = b := by
  funext y
  exact Bool.eq_iff_iff.mpr (h y)

def Event.isCreate : Event → Bool
  | .construct _ => true | .copyConstruct _ _ => true | .moveConstruct _ _ => true | _ => false

def Event.src? : Event → Option LSlot
  | .copyConstruct _ x => some x | .moveConstruct _ x => some x | .moveAssign _ x => some x | _ => none

/-- a batch of constructions (default, copy or move) into distinct dead slots from live sources -/
theorem accepts_creates (evs : List Event) (s : SlotState)
    (hc : ∀ e ∈ evs, Event.isCreate e = true)
    (hnd : (evs.map Event.dst).Nodup)
    (hdead : ∀ e ∈ evs, s e.dst = false)
    (hsrc : ∀ e ∈ evs, ∀ x, Event.src? e = some x → s x = true) :
    accepts s evs = some (addAll s (evs.map Event.dst)) := by
  induction evs generalizing s with
  | nil => rw [List.map_nil, addAll_nil]; rfl
  | cons e es ih =>
    have hd : s e.dst = false := hdead e (List.mem_cons_self ..)
    have hstep : acceptStep s e = some (s.set e.dst true) := by
      cases e with
      | construct x => simp only [Event.dst] at hd; simp [acceptStep, hd, Event.dst]
      | copyConstruct d x =>
        have := hsrc _ (List.mem_cons_self ..) x rfl
        simp only [Event.dst] at hd; simp [acceptStep, hd, this, Event.dst]
      | moveConstruct d x =>
        have := hsrc _ (List.mem_cons_self ..) x rfl
        simp only [Event.dst] at hd; simp [acceptStep, hd, this, Event.dst]
      | moveAssign d x => have := hc _ (List.mem_cons_self ..); simp [Event.isCreate] at this
      | destroy x => have := hc _ (List.mem_cons_self ..); simp [Event.isCreate] at this
    rw [accepts_cons, hstep, Option.bind_some]
    simp only [List.map_cons, List.nodup_cons] at hnd
    rw [ih (s.set e.dst true) (fun e' h' => hc e' (List.mem_cons_of_mem _ h')) hnd.2]
    · congr 1
      funext y
      simp only [addAll, SlotState.set, List.map_cons, List.contains_cons]
      by_cases hy : y = e.dst
      · subst hy; simp
      · have hb : (y == e.dst) = false := by simpa using hy
        simp [hy, hb]
    · intro e' h'
      have hne : e'.dst ≠ e.dst := fun h => hnd.1 (h ▸ List.mem_map_of_mem h')
      simp only [SlotState.set, if_neg hne]
      exact hdead e' (List.mem_cons_of_mem _ h')
    · intro e' h' x hx
      simp only [SlotState.set]
      split
      · rfl
      · exact hsrc e' (List.mem_cons_of_mem _ h') x hx

/-- a batch of destructions of distinct live slots -/
theorem accepts_destroys (xs : List LSlot) (s : SlotState) (hnd : xs.Nodup)
    (hlive : ∀ x ∈ xs, s x = true) :
    accepts s (xs.map Event.destroy) = some (removeAll s xs) := by
  induction xs generalizing s with
  | nil => rw [removeAll_nil]; rfl
  | cons x xs ih =>
    have hx : s x = true := hlive x (List.mem_cons_self ..)
    simp only [List.map_cons, accepts_cons, acceptStep, hx, if_true, Option.bind_some]
    simp only [List.nodup_cons] at hnd
    rw [ih (s.set x false) hnd.2]
    · congr 1
      funext y
      simp only [removeAll, SlotState.set, List.contains_cons]
      by_cases hy : y = x
      · subst hy; simp
      · have hb : (y == x) = false := by simpa using hy
        simp [hy, hb]
    · intro x' h'
      have hne : x' ≠ x := fun h => hnd.1 (h ▸ h')
      simp only [SlotState.set, if_neg hne]
      exact hlive x' (List.mem_cons_of_mem _ h')

/-- move-assignments between live slots change nothing -/
theorem accepts_moveAssigns (ps : List (LSlot × LSlot)) (s : SlotState)
    (h : ∀ p ∈ ps, s p.1 = true ∧ s p.2 = true) :
    accepts s (ps.map (fun p => Event.moveAssign p.1 p.2)) = some s := by
  induction ps with
  | nil => rfl
  | cons p ps ih =>
    have hp := h p (List.mem_cons_self ..)
    simp only [List.map_cons, accepts_cons, acceptStep, hp.1, hp.2, Bool.and_self, if_true, Option.bind_some]
    exact ih (fun q hq => h q (List.mem_cons_of_mem _ hq))

/-- stale instances: each live slot is destroyed and, unless `p.2`, constructed again in place -/
theorem accepts_renew (ps : List (LSlot × Bool)) (s : SlotState) (hnd : (ps.map (·.1)).Nodup)
    (hlive : ∀ p ∈ ps, s p.1 = true) :
    accepts s (ps.flatMap (fun p => Event.destroy p.1 :: (if p.2 then [] else [Event.construct p.1]))) =
      some (removeAll s ((ps.filter (·.2)).map (·.1))) := by
  induction ps generalizing s with
  | nil => rw [List.filter_nil, List.map_nil, removeAll_nil]; rfl
  | cons p ps ih =>
    have hp : s p.1 = true := hlive p (List.mem_cons_self ..)
    simp only [List.map_cons, List.nodup_cons] at hnd
    rw [List.flatMap_cons]
    cases hb : p.2 with
    | true =>
      simp only [if_true, List.cons_append, List.nil_append, accepts_cons, acceptStep, hp, Option.bind_some]
      rw [ih (s.set p.1 false) hnd.2]
      · congr 1
        funext y
        simp only [removeAll, SlotState.set, List.filter_cons, hb, if_true, List.map_cons, List.contains_cons]
        by_cases hy : y = p.1
        · subst hy; simp
        · have hb' : (y == p.1) = false := by simpa using hy
          simp [hy, hb']
      · intro q hq
        have hne : q.1 ≠ p.1 := fun h => hnd.1 (h ▸ List.mem_map_of_mem hq)
        simp only [SlotState.set, if_neg hne]
        exact hlive q (List.mem_cons_of_mem _ hq)
    | false =>
      have hset : (s.set p.1 false).set p.1 true = s := by
        funext y
        simp only [SlotState.set]
        by_cases hy : y = p.1
        · subst hy; simp [hp]
        · simp [hy]
      simp only [Bool.false_eq_true, if_false, List.cons_append, List.nil_append, accepts_cons, acceptStep, hp,
        if_true, Option.bind_some]
      have h2 : (s.set p.1 false) p.1 = false := by simp [SlotState.set]
      simp only [h2, Bool.false_eq_true, if_false, Option.bind_some, hset]
      rw [ih s hnd.2 (fun q hq => hlive q (List.mem_cons_of_mem _ hq))]
      simp [hb]

end Mustache.Proofs.Life

import Mustache.Proofs.LifeOps
import Mustache.Proofs.SharedPool
/-!
# Builder (`begin(e)…end()`, `begin()…end()`) and shared assign / remove on the live-slot set (C03)
-/
namespace Mustache.Proofs.Life
open Mustache.Model Mustache.Proofs.Rows

/-- the `initComponent` loop writes values only -/
theorem builder_fold_live (info : CompId → CompInfo) (w2 : WM) (e : Handle) (ti n : Nat) (F : SlotState)
    (adds : List (CompId × Option Nat)) (cbs0 : List Cb) :
    live (adds.foldl (fun (acc : WM × List Cb) (p : CompId × Option Nat) =>
        let w := acc.1
        let ta := w.arch ti
        match ta.mask.indexOf? p.1 with
        | none => acc
        | some ci =>
          let row := ta.rows.getD n default
          let v : Val := match (info p.1).fixed with
            | some f => some f
            | none => match p.2 with
              | some tok => some tok
              | none => defaultVal info p.1
          let w := w.setArch ti { ta with rows := ta.rows.set n { row with vals := row.vals.set ci v } }
          (w, acc.2 ++ (if (info p.1).callbacks then [Cb.assign p.1 e] else []))) (w2, cbs0)).1 F = live w2 F ∧
    (adds.foldl (fun (acc : WM × List Cb) (p : CompId × Option Nat) =>
        let w := acc.1
        let ta := w.arch ti
        match ta.mask.indexOf? p.1 with
        | none => acc
        | some ci =>
          let row := ta.rows.getD n default
          let v : Val := match (info p.1).fixed with
            | some f => some f
            | none => match p.2 with
              | some tok => some tok
              | none => defaultVal info p.1
          let w := w.setArch ti { ta with rows := ta.rows.set n { row with vals := row.vals.set ci v } }
          (w, acc.2 ++ (if (info p.1).callbacks then [Cb.assign p.1 e] else []))) (w2, cbs0)).1.buffers =
      w2.buffers := by
  refine foldl_inv (fun (acc : WM × List Cb) => live acc.1 F = live w2 F ∧ acc.1.buffers = w2.buffers)
    _ ?_ adds (w2, cbs0) ⟨rfl, rfl⟩
  intro a b ⟨h1, h2⟩
  simp only
  split
  · exact ⟨h1, h2⟩
  · exact ⟨(live_setRow _ _ _ _ _).trans h1, h2⟩

theorem initEvents_dst (ti : Nat) (tm : Mask) (n : Nat) (adds : List (CompId × Option Nat)) :
    (initEvents ti tm n adds).map Event.dst =
      colSlots ti ((adds.filter (fun p => tm.contains p.1)).map (·.1)) n := by
  simp [initEvents, colSlots, List.map_map, Event.dst]

theorem initEvents_create (ti : Nat) (tm : Mask) (n : Nat) (adds : List (CompId × Option Nat)) :
    ∀ ev ∈ initEvents ti tm n adds, Event.isCreate ev = true ∧ Event.src? ev = none := by
  intro ev hev
  simp only [initEvents, List.mem_map] at hev
  rcases hev with ⟨p, _, rfl⟩
  exact ⟨rfl, rfl⟩

theorem initKeys_nodup (tm : Mask) (adds : List (CompId × Option Nat)) (h : (adds.map (·.1)).Nodup) :
    ((adds.filter (fun p => tm.contains p.1)).map (·.1)).Nodup :=
  List.Nodup.sublist (List.Sublist.map _ List.filter_sublist) h

theorem mem_initKeys (tm : Mask) (adds : List (CompId × Option Nat)) (x : CompId) :
    x ∈ (adds.filter (fun p => tm.contains p.1)).map (·.1) ↔ x ∈ adds.map (·.1) ∧ x ∈ tm := by
  simp only [List.mem_map, List.mem_filter, List.contains_iff_mem]
  constructor
  · rintro ⟨p, ⟨hp, ht⟩, rfl⟩; exact ⟨⟨p, hp, rfl⟩, ht⟩
  · rintro ⟨⟨p, hp, rfl⟩, ht⟩; exact ⟨p, ⟨hp, ht⟩, rfl⟩

/-! ## builder on an existing entity -/

theorem buildUpdateU_accepts (info : CompId → CompInfo) (w : WM) (F : SlotState) (hF : TempOnly F)
    (e : Handle) (adds : List (CompId × Option Nat)) (rems : Mask) (hmk : MasksOk w) (hloc : LocIn w e)
    (hnd : (adds.map (·.1)).Nodup)
    (hnew : ∀ pi, (w.locOf e).arch = some pi → ∀ c ∈ adds.map (·.1), c ∉ (w.arch pi).mask) :
    accepts (live w F) (w.buildUpdateEvents e adds rems) = some (live (w.buildUpdateU info e adds rems).1 F) ∧
    (w.buildUpdateU info e adds rems).1.buffers = w.buffers := by
  unfold WM.buildUpdateEvents WM.buildUpdateU
  simp only
  cases hla : (w.locOf e).arch with
  | none => exact ⟨rfl, by first | rfl | trivial⟩
  | some pi =>
    simp only
    have hidx := hloc pi hla
    have hmm : MaskOk (Mask.diff (Mask.union (Mask.ofList (adds.map (·.1))) (w.arch pi).mask) rems) :=
      maskOk_diff (maskOk_union (maskOk_ofList _) _) _
    rcases move_via_getArch info w F hF
      (Mask.diff (Mask.union (Mask.ofList (adds.map (·.1))) (w.arch pi).mask) rems)
      (Shared.null.merge (w.arch pi).shared) e pi (w.locOf e).idx (Mask.ofList (adds.map (·.1)))
      hmk hmm hidx with ⟨hti, hnone, _⟩ | ⟨hti, w2, cbs, hsome, hacc, hmask, hlen, hbuf, _⟩
    · rw [hnone, if_pos hti]
      exact ⟨by rw [live_getArch]; rfl, getArch_buffers _ _ _⟩
    · rw [hsome, if_neg hti]
      simp only
      have hfold := builder_fold_live info w2 e
        (w.getArch (Mask.diff (Mask.union (Mask.ofList (adds.map (·.1))) (w.arch pi).mask) rems)
          (Shared.null.merge (w.arch pi).shared)).2 (w2.locOf e).idx F adds []
      refine ⟨Eq.trans ?_ (congrArg some hfold.1.symm), hfold.2.trans hbuf⟩
      rw [(getArch_key _ _ _).1]
      refine accepts_append_of hacc ?_
      apply accepts_fill (cs := (adds.filter (fun p => (closedMask w.deps
        (Mask.diff (Mask.union (Mask.ofList (adds.map (·.1))) (w.arch pi).mask) rems)).contains p.1)).map (·.1))
      · exact initEvents_dst _ _ _ _
      · exact fun ev hev => (initEvents_create _ _ _ _ ev hev).1
      · exact initKeys_nodup _ _ hnd
      · intro x
        rw [mem_initKeys]
        simp only [List.mem_filter, Bool.and_eq_true, Bool.not_eq_true', List.contains_iff_mem]
        constructor
        · rintro ⟨hx, ht⟩
          refine ⟨ht, ?_, by rw [mem_ofList]; exact hx⟩
          have := hnew pi hla x hx
          simpa using this
        · rintro ⟨ht, _, hx⟩
          exact ⟨by rw [mem_ofList] at hx; exact hx, ht⟩
      · intro x hx
        simp only [List.mem_filter] at hx
        rw [live_stored]
        exact Or.inl ⟨by rw [hmask]; exact hx.1, by rw [hlen]; exact Nat.lt_succ_self _⟩
      · intro ev hev x hx
        rw [(initEvents_create _ _ _ _ ev hev).2] at hx; cases hx

/-! ## builder creating an entity -/

theorem allocId_buffers (w : WM) : (w.allocId).1.buffers = w.buffers := by
  unfold WM.allocId
  split
  · rfl
  · split <;> rfl

theorem live_allocId (w : WM) (F : SlotState) : live (w.allocId).1 F = live w F :=
  live_congr F (fun a => by rw [allocId_arch]) (fun a => by rw [allocId_arch])

theorem masksOk_allocId {w : WM} (h : MasksOk w) : MasksOk (w.allocId).1 :=
  masksOk_congr (fun a => by rw [allocId_arch]) h

theorem buildNewU_accepts (info : CompId → CompInfo) (w : WM) (F : SlotState) (hF : TempOnly F)
    (adds : List (CompId × Option Nat)) (hmk : MasksOk w) (hnd : (adds.map (·.1)).Nodup) :
    accepts (live w F) (w.buildNewEvents adds) = some (live (w.buildNewU info adds).1 F) ∧
    (w.buildNewU info adds).1.buffers = w.buffers := by
  unfold WM.buildNewEvents WM.buildNewU
  simp only
  rw [← live_allocId w F]
  have hmk0 := masksOk_allocId hmk
  have hb0 := allocId_buffers w
  generalize (w.allocId).1 = w0 at hmk0 hb0 ⊢
  generalize (w.allocId).2 = h
  by_cases hemp : adds.isEmpty = true
  · simp only [hemp, if_true]
    have hmk1 := masksOk_getArch hmk0 [] Shared.null maskOk_nil
    constructor
    · rw [← live_getArch w0 [] Shared.null F,
        archInsert_accepts info _ F hF _ h [] (getArch_idx_lt _ _ _) (maskOk_nodup (hmk1 _)), filter_contains_nil]
      simp [colSlots, removeAll_nil]
    · rw [(archInsert_sameTable info _ _ _ _).buffers, getArch_buffers, hb0]
  · simp only [hemp, Bool.false_eq_true, if_false]
    have hmk1 := masksOk_getArch hmk0 (Mask.ofList (adds.map (·.1))) Shared.null (maskOk_ofList _)
    have hai := getArch_idx_lt w0 (Mask.ofList (adds.map (·.1))) Shared.null
    have hkey := (getArch_key w0 (Mask.ofList (adds.map (·.1))) Shared.null).1
    have hsh := archInsert_shape info (w0.getArch (Mask.ofList (adds.map (·.1))) Shared.null).1
      (w0.getArch (Mask.ofList (adds.map (·.1))) Shared.null).2 h (Mask.ofList (adds.map (·.1))) hai
    have hfold := builder_fold_live info
      ((w0.getArch (Mask.ofList (adds.map (·.1))) Shared.null).1.archInsert info
        (w0.getArch (Mask.ofList (adds.map (·.1))) Shared.null).2 h (Mask.ofList (adds.map (·.1)))).1 h
      (w0.getArch (Mask.ofList (adds.map (·.1))) Shared.null).2
      ((((w0.getArch (Mask.ofList (adds.map (·.1))) Shared.null).1.archInsert info
        (w0.getArch (Mask.ofList (adds.map (·.1))) Shared.null).2 h (Mask.ofList (adds.map (·.1)))).1.locOf h).idx)
      F adds []
    refine ⟨Eq.trans ?_ (congrArg some hfold.1.symm), hfold.2.trans ?_⟩
    · rw [← live_getArch w0 (Mask.ofList (adds.map (·.1))) Shared.null F]
      refine accepts_append_of
        (archInsert_accepts info _ F hF _ h _ hai (maskOk_nodup (hmk1 _))) ?_
      apply accepts_fill (cs := (adds.filter (fun p => ((w0.getArch (Mask.ofList (adds.map (·.1))) Shared.null).1.arch
        (w0.getArch (Mask.ofList (adds.map (·.1))) Shared.null).2).mask.contains p.1)).map (·.1))
      · exact initEvents_dst _ _ _ _
      · exact fun ev hev => (initEvents_create _ _ _ _ ev hev).1
      · exact initKeys_nodup _ _ hnd
      · intro x
        rw [mem_initKeys]
        simp only [List.mem_filter, List.contains_iff_mem, mem_ofList]
        constructor
        · rintro ⟨hx, ht⟩; exact ⟨ht, hx⟩
        · rintro ⟨ht, hx⟩; exact ⟨hx, ht⟩
      · intro x hx
        simp only [List.mem_filter] at hx
        rw [live_stored]
        refine Or.inl ⟨by rw [hsh.1]; exact hx.1, ?_⟩
        rw [hsh.2.1]; simp
      · intro ev hev x hx
        rw [(initEvents_create _ _ _ _ ev hev).2] at hx; cases hx
    · rw [(archInsert_sameTable info _ _ _ _).buffers, getArch_buffers, hb0]

/-! ## shared assign / remove -/

theorem poolGet_arch (w : WM) (sid v a : Nat) : (w.poolGet sid v).1.arch a = w.arch a := by
  rw [arch_def, poolGet_archs]; rfl

theorem poolGet_locOf (w : WM) (sid v : Nat) (e : Handle) : (w.poolGet sid v).1.locOf e = w.locOf e := by
  unfold WM.locOf; rw [poolGet_locs]

theorem live_poolGet (w : WM) (sid v : Nat) (F : SlotState) : live (w.poolGet sid v).1 F = live w F :=
  live_congr F (fun a => by rw [poolGet_arch]) (fun a => by rw [poolGet_arch])

theorem sharedMove_accepts (info : CompId → CompInfo) (w : WM) (F : SlotState) (hF : TempOnly F)
    (e : Handle) (f : Shared → Shared) (hmk : MasksOk w) (hloc : LocIn w e) (pi : Nat)
    (hla : (w.locOf e).arch = some pi) :
    accepts (live w F) (w.sharedMoveEvents e f) =
      some (live (match (w.getArch (w.arch pi).mask (f (w.arch pi).shared)).1.externalMove info
          (w.getArch (w.arch pi).mask (f (w.arch pi).shared)).2 e pi (w.locOf e).idx [] with
        | none => (w.getArch (w.arch pi).mask (f (w.arch pi).shared)).1
        | some r => r.1) F) ∧
    (match (w.getArch (w.arch pi).mask (f (w.arch pi).shared)).1.externalMove info
          (w.getArch (w.arch pi).mask (f (w.arch pi).shared)).2 e pi (w.locOf e).idx [] with
        | none => (w.getArch (w.arch pi).mask (f (w.arch pi).shared)).1
        | some r => r.1).buffers = w.buffers := by
  unfold WM.sharedMoveEvents
  simp only [hla]
  exact move_noskip info w F hF (w.arch pi).mask (f (w.arch pi).shared) e pi (w.locOf e).idx hmk (hmk pi) (hloc pi hla)

theorem sassign_accepts (info : CompId → CompInfo) (w : WM) (F : SlotState) (hF : TempOnly F)
    (e : Handle) (sid v : Nat) (hmk : MasksOk w) (hloc : LocIn w e) :
    accepts (live w F)
      (match (w.locOf e).arch with
        | none => []
        | some _ => (w.poolGet sid v).1.sharedMoveEvents e (fun s => s.add sid (w.poolGet sid v).2)) =
      some (live (w.sassign info e sid v).1 F) ∧
    (w.sassign info e sid v).1.buffers = w.buffers := by
  unfold WM.sassign
  simp only
  cases hla : (w.locOf e).arch with
  | none => exact ⟨rfl, by first | rfl | trivial⟩
  | some pi =>
    simp only
    have hmk0 : MasksOk (w.poolGet sid v).1 := masksOk_congr (fun a => by rw [poolGet_arch]) hmk
    have hloc0 : LocIn (w.poolGet sid v).1 e := by
      intro pj hpj; rw [poolGet_locOf] at hpj ⊢; rw [poolGet_arch]; exact hloc pj hpj
    have := sharedMove_accepts info (w.poolGet sid v).1 F hF e (fun s => s.add sid (w.poolGet sid v).2) hmk0 hloc0 pi
      (by rw [poolGet_locOf]; exact hla)
    rw [live_poolGet, poolGet_locOf, poolGet_buffers] at this
    cases hx : (w.poolGet sid v).1.getArch ((w.poolGet sid v).1.arch pi).mask
        (((w.poolGet sid v).1.arch pi).shared.add sid (w.poolGet sid v).2) with
    | mk g1 g2 =>
      rw [hx] at this
      simp only at this
      cases hy : g1.externalMove info g2 e pi (w.locOf e).idx [] with
      | none => rw [hy] at this; exact this
      | some r => rw [hy] at this; exact this

theorem sremove_accepts (info : CompId → CompInfo) (w : WM) (F : SlotState) (hF : TempOnly F)
    (e : Handle) (sid : Nat) (hmk : MasksOk w) (hloc : w.isValid e = true → LocIn w e) :
    accepts (live w F)
      (if !w.isValid e then [] else
        match (w.locOf e).arch with
        | none => []
        | some pi => if !(w.arch pi).shared.has sid then [] else w.sharedMoveEvents e (fun s => s.remove sid)) =
      some (live (w.sremove info e sid).1 F) ∧
    (w.sremove info e sid).1.buffers = w.buffers := by
  unfold WM.sremove
  by_cases hv : w.isValid e = true
  · simp only [hv, Bool.not_true, Bool.false_eq_true, if_false]
    cases hla : (w.locOf e).arch with
    | none => exact ⟨rfl, by first | rfl | trivial⟩
    | some pi =>
      simp only
      by_cases hs : (w.arch pi).shared.has sid = true
      · simp only [hs, Bool.not_true, Bool.false_eq_true, if_false]
        have := sharedMove_accepts info w F hF e (fun s => s.remove sid) hmk (hloc hv) pi hla
        cases hx : w.getArch (w.arch pi).mask ((w.arch pi).shared.remove sid) with
        | mk g1 g2 =>
          rw [hx] at this
          simp only at this
          cases hy : g1.externalMove info g2 e pi (w.locOf e).idx [] with
          | none => rw [hy] at this; exact this
          | some r => rw [hy] at this; exact this
      · simp only [hs, Bool.not_false, if_true]; exact ⟨rfl, by first | rfl | trivial⟩
  · simp only [Bool.not_eq_true] at hv
    simp only [hv, Bool.not_false, if_true]; exact ⟨rfl, by first | rfl | trivial⟩

end Mustache.Proofs.Life

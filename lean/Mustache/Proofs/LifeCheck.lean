import Mustache.Proofs.LifeRun
/-!
# Executable checkers for the preconditions of `step_accepts` / `run_accepts` (non-vacuity examples on concrete
histories)
-/
namespace Mustache.Proofs.Life
open Mustache.Model Mustache.Proofs.Rows

def locInb (w : WM) (e : Handle) : Bool :=
  match (w.locOf e).arch with
  | some pi => decide ((w.locOf e).idx < (w.arch pi).rows.length)
  | none => true

theorem locIn_of_check {w : WM} {e : Handle} (h : locInb w e = true) : LocIn w e := by
  intro pi hpi
  unfold locInb at h
  rw [hpi] at h
  simpa using h

/-- none of `cs` is in the mask of the archetype `e` is in -/
def newb (w : WM) (e : Handle) (cs : List CompId) : Bool :=
  match (w.locOf e).arch with
  | some pi => cs.all (fun c => !(w.arch pi).mask.contains c)
  | none => true

theorem new_of_check {w : WM} {e : Handle} {cs : List CompId} (h : newb w e cs = true) :
    ∀ pi, (w.locOf e).arch = some pi → ∀ c ∈ cs, c ∉ (w.arch pi).mask := by
  intro pi hpi c hc
  unfold newb at h
  rw [hpi] at h
  simp only [List.all_eq_true] at h
  simpa using h c hc

def targetOkb (w : WM) (e : Handle) : Bool :=
  match (w.locOf e).arch with
  | some pi => decide ((w.locOf e).idx < (w.arch pi).rows.length)
  | none => true

theorem targetOK_of_check {w : WM} {e : Handle} (h : targetOkb w e = true) (pi : Nat)
    (hpi : (w.locOf e).arch = some pi) : TargetOK w e pi := by
  unfold targetOkb at h
  rw [hpi] at h
  exact ⟨by simpa using h⟩

def packOkb (w : WM) : List Cmd → Bool
  | [] => true
  | (.create _ m _) :: _ => sortedb m
  | first :: _ => !w.isValid first.entity || targetOkb w first.entity

theorem packLifeOK_of_check {w : WM} (pack : List Cmd) (h : packOkb w pack = true) :
    PackLifeOK w pack := by
  have hnc : ∀ first : Cmd, (!w.isValid first.entity || targetOkb w first.entity) = true →
      (w.isValid first.entity = true → ∀ pi, (w.locOf first.entity).arch = some pi →
        TargetOK w first.entity pi) := by
    intro first h' hv pi hpi
    rw [hv] at h'
    exact targetOK_of_check (by simpa using h') pi hpi
  cases pack with
  | nil => trivial
  | cons first rest =>
    cases first with
    | create e m s => exact maskOk_of_sortedb m h
    | destroyNow e => exact hnc _ h
    | destroy e => exact hnc _ h
    | remove e c => exact hnc _ h
    | assign e c v => exact hnc _ h

variable (info : CompId → CompInfo)

def packsOkb : WM → List (List Cmd) → Bool
  | _, [] => true
  | w, p :: ps => packOkb w p && packsOkb (w.applyPack info p).1 ps

theorem packsLifeOK_of_check (ps : List (List Cmd)) (w : WM) (h : packsOkb info w ps = true) :
    PacksLifeOK info w ps := by
  induction ps generalizing w with
  | nil => exact PacksLifeOK.nil w
  | cons p ps ih =>
    simp only [packsOkb, Bool.and_eq_true] at h
    exact PacksLifeOK.cons w p ps (packLifeOK_of_check p h.1) (ih _ h.2)

def opOkb (w : WM) : Op Handle → Bool
  | .create _ mask _ => sortedb mask
  | .assign t e c v =>
    if w.isLocked then decide (t < w.buffers.length)
    else locInb w e && (!v.isSome || newb w e [c])
  | .remove _ e _ => w.isLocked || !w.isValid e || locInb w e
  | .buildNew t adds =>
    if w.isLocked then decide (t < w.buffers.length) else decide ((adds.map (·.1)).Nodup)
  | .build t e adds _ =>
    if w.isLocked then decide (t < w.buffers.length)
    else locInb w e && decide ((adds.map (·.1)).Nodup) && newb w e (adds.map (·.1))
  | .clone e => !w.isValid e || locInb w e
  | .sassign e _ _ => locInb w e
  | .sremove e _ => !w.isValid e || locInb w e
  | .unlock =>
    decide ((unlockPre w).lockDepth ≠ 0) ||
      packsOkb info (detached (unlockPre w)) ((unlockPre w).buffers.map packs).flatten
  | _ => true

theorem opOk_of_check (w : WM) (op : Op Handle) (h : opOkb info w op = true) : OpOk info w op := by
  cases op with
  | create t mask shared => exact maskOk_of_sortedb mask h
  | assign t e c v =>
    simp only [opOkb] at h
    refine ⟨fun hl => ?_, fun hl => ?_⟩
    · rw [hl] at h; simpa using h
    · rw [hl] at h
      simp only [Bool.false_eq_true, if_false, Bool.and_eq_true, Bool.or_eq_true, Bool.not_eq_true'] at h
      refine ⟨locIn_of_check h.1, fun pi hpi hv => ?_⟩
      rcases h.2 with h2 | h2
      · rw [hv] at h2; cases h2
      · exact new_of_check h2 pi hpi c (List.mem_singleton.mpr rfl)
  | remove t e c =>
    intro hl hv
    simp only [opOkb, hl, hv, Bool.false_or, Bool.not_true] at h
    exact locIn_of_check h
  | buildNew t adds =>
    simp only [opOkb] at h
    refine ⟨fun hl => ?_, fun hl => ?_⟩
    · rw [hl] at h; simpa using h
    · rw [hl] at h; simpa using h
  | build t e adds rems =>
    simp only [opOkb] at h
    refine ⟨fun hl => ?_, fun hl => ?_⟩
    · rw [hl] at h; simpa using h
    · rw [hl] at h
      simp only [Bool.false_eq_true, if_false, Bool.and_eq_true, decide_eq_true_eq] at h
      exact ⟨locIn_of_check h.1.1, h.1.2, new_of_check h.2⟩
  | clone e =>
    intro hv
    simp only [opOkb, hv, Bool.not_true, Bool.false_or] at h
    exact locIn_of_check h
  | sassign e sid v => exact locIn_of_check h
  | sremove e sid =>
    intro hv
    simp only [opOkb, hv, Bool.not_true, Bool.false_or] at h
    exact locIn_of_check h
  | unlock =>
    intro h0
    simp only [opOkb, h0, ne_eq, not_true_eq_false, decide_false, Bool.false_or] at h
    exact packsLifeOK_of_check info _ _ h
  | destroy t e => trivial
  | destroyNow t e => trivial
  | clearArch m => trivial
  | update => trivial
  | lock => trivial
  | dep c x => trivial
  | valid e => trivial
  | has e c => trivial
  | hasShared e s => trivial
  | get e c => trivial
  | archOf e => trivial

def runOkb : WM → List (Op Handle) → Bool
  | w, [] => keysOKb w
  | w, op :: ops => keysOKb w && opOkb info w op && runOkb (w.step info op).1 ops

theorem runOk_of_check (ops : List (Op Handle)) (w : WM) (h : runOkb info w ops = true) : RunOk info w ops := by
  induction ops generalizing w with
  | nil => exact masksOk_of_keys (keysOK_of_check h)
  | cons op ops ih =>
    simp only [runOkb, Bool.and_eq_true] at h
    exact ⟨⟨masksOk_of_keys (keysOK_of_check h.1.1), opOk_of_check info w op h.1.2⟩, ih _ h.2⟩

end Mustache.Proofs.Life

import Mustache.Proofs.LifeRun
/-!
# Counting (C03): an accepted log is balanced; the live slots of a component, enumerated and counted
-/
namespace Mustache.Proofs.Life
open Mustache.Model Mustache.Proofs.Rows

/-! ## constructions and destructions balance -/

def createCount (evs : List Event) : Nat := (evs.filter Event.isCreate).length
def Event.isDestroy : Event → Bool
  | .destroy _ => true
  | _ => false
def destroyCount (evs : List Event) : Nat := (evs.filter Event.isDestroy).length

theorem createCount_cons (e : Event) (es : List Event) :
    createCount (e :: es) = (if Event.isCreate e then 1 else 0) + createCount es := by
  unfold createCount
  rw [List.filter_cons]
  split <;> simp <;> omega

theorem destroyCount_cons (e : Event) (es : List Event) :
    destroyCount (e :: es) = (if Event.isDestroy e then 1 else 0) + destroyCount es := by
  unfold destroyCount
  rw [List.filter_cons]
  split <;> simp <;> omega

/-- along an accepted log the number of live slots is: before + constructions − destructions -/
theorem accepted_count (evs : List Event) (s s' : SlotState) (h : accepts s evs = some s') (xs : List LSlot)
    (hs : ∀ y, s y = true ↔ y ∈ xs) (hnd : xs.Nodup) :
    ∃ xs' : List LSlot, (∀ y, s' y = true ↔ y ∈ xs') ∧ xs'.Nodup ∧
      xs'.length + destroyCount evs = xs.length + createCount evs := by
  induction evs generalizing s xs with
  | nil =>
    cases h
    exact ⟨xs, hs, hnd, rfl⟩
  | cons e es ih =>
    rw [accepts_cons] at h
    cases hst : acceptStep s e with
    | none => rw [hst] at h; cases h
    | some s1 =>
      rw [hst, Option.bind_some] at h
      rw [createCount_cons, destroyCount_cons]
      have hadd : ∀ d, s d = false → s1 = s.set d true → Event.isCreate e = true →
          Event.isDestroy e = false →
          ∃ xs' : List LSlot, (∀ y, s' y = true ↔ y ∈ xs') ∧ xs'.Nodup ∧
            xs'.length + ((if Event.isDestroy e then 1 else 0) + destroyCount es) =
              xs.length + ((if Event.isCreate e then 1 else 0) + createCount es) := by
        intro d hd hs1 hc hz
        have hdx : d ∉ xs := fun hm => by rw [(hs d).mpr hm] at hd; cases hd
        rcases ih s1 h (d :: xs) (by
          intro y
          rw [hs1, List.mem_cons]
          simp only [SlotState.set]
          by_cases hy : y = d
          · simp [hy]
          · simp [hy, hs y]) (List.nodup_cons.mpr ⟨hdx, hnd⟩) with ⟨xs', h1, h2, h3⟩
        refine ⟨xs', h1, h2, ?_⟩
        rw [hc, hz]
        simp only [List.length_cons] at h3
        simp only [if_true, Bool.false_eq_true, if_false]
        omega
      cases e with
      | construct x =>
        simp only [acceptStep] at hst
        split at hst
        · cases hst
        · rename_i hx
          exact hadd x (by simpa using hx) (Option.some.inj hst).symm rfl rfl
      | copyConstruct d x =>
        simp only [acceptStep] at hst
        split at hst
        · rename_i hx
          simp only [Bool.and_eq_true, Bool.not_eq_true'] at hx
          exact hadd d hx.2 (Option.some.inj hst).symm rfl rfl
        · cases hst
      | moveConstruct d x =>
        simp only [acceptStep] at hst
        split at hst
        · rename_i hx
          simp only [Bool.and_eq_true, Bool.not_eq_true'] at hx
          exact hadd d hx.2 (Option.some.inj hst).symm rfl rfl
        · cases hst
      | moveAssign d x =>
        simp only [acceptStep] at hst
        split at hst
        · cases hst
          rcases ih s h xs hs hnd with ⟨xs', h1, h2, h3⟩
          exact ⟨xs', h1, h2, by simp [Event.isCreate, Event.isDestroy]; omega⟩
        · cases hst
      | destroy x =>
        simp only [acceptStep] at hst
        split at hst
        · rename_i hx
          cases hst
          have hxm : x ∈ xs := (hs x).mp hx
          rcases ih (s.set x false) h (xs.erase x) (by
            intro y
            rw [hnd.mem_erase_iff]
            simp only [SlotState.set]
            by_cases hy : y = x
            · simp [hy]
            · simp [hy, hs y]) (hnd.erase x) with ⟨xs', h1, h2, h3⟩
          refine ⟨xs', h1, h2, ?_⟩
          rw [List.length_erase_of_mem hxm] at h3
          have hpos : 0 < xs.length := List.length_pos_of_mem hxm
          simp [Event.isCreate, Event.isDestroy]
          omega
        · cases hst

/-- a log accepted from the live set `xs` that ends with nothing live has `|xs|` more destructions than
constructions -/
theorem accepted_balanced (evs : List Event) (s s' : SlotState) (h : accepts s evs = some s') (xs : List LSlot)
    (hs : ∀ y, s y = true ↔ y ∈ xs) (hnd : xs.Nodup) (hs' : s' = SlotState.empty) :
    xs.length + createCount evs = destroyCount evs := by
  rcases accepted_count evs s s' h xs hs hnd with ⟨xs', h1, _, h3⟩
  have : xs' = [] := by
    cases xs' with
    | nil => rfl
    | cons y ys =>
      have := (h1 y).mpr (List.mem_cons_self ..)
      rw [hs'] at this; cases this
  rw [this] at h3
  simp at h3
  omega

/-! ## the live slots of one component -/

/-- stored instances of `c`: archetype by archetype, row by row -/
def storedSlotsOf (w : WM) (c : CompId) : List LSlot :=
  w.archs.zipIdx.flatMap (fun ai =>
    if ai.1.mask.contains c then (List.range ai.1.rows.length).map (fun i => LSlot.stored ai.2 c i) else [])

/-- parked temporaries of `c`: buffer by buffer -/
def parkedSlotsOf (bufs : List (List Cmd)) (c : CompId) : List LSlot :=
  bufs.zipIdx.flatMap (fun bt => (tempSlots bt.2 0 bt.1).filter (fun y => y.comp == c))

def liveSlotsOf (w : WM) (c : CompId) : List LSlot := storedSlotsOf w c ++ parkedSlotsOf w.buffers c

theorem arch_of_getElem? {w : WM} {i : Nat} {a : Arch} (h : w.archs[i]? = some a) : w.arch i = a := by
  rw [arch_def, List.getD_eq_getElem?_getD, h]; rfl

theorem mem_storedSlotsOf (w : WM) (c : CompId) (y : LSlot) :
    y ∈ storedSlotsOf w c ↔ (storedLive w y = true ∧ y.comp = c) := by
  unfold storedSlotsOf
  rw [List.mem_flatMap]
  constructor
  · rintro ⟨ai, hai, hy⟩
    have harch := arch_of_getElem? (List.mem_zipIdx_iff_getElem?.mp hai)
    split at hy
    · rename_i hc
      simp only [List.mem_map, List.mem_range] at hy
      rcases hy with ⟨i, hi, rfl⟩
      refine ⟨?_, rfl⟩
      rw [storedLive_stored, harch]
      exact ⟨by simpa using hc, hi⟩
    · cases hy
  · rintro ⟨hl, hc⟩
    cases y with
    | temp t k c' => cases hl
    | stored a c' i =>
      simp only [LSlot.comp] at hc
      subst hc
      rw [storedLive_stored] at hl
      have hlt : a < w.archs.length := lt_archs_of_rows hl.2
      refine ⟨(w.archs[a], a), List.mem_zipIdx_iff_getElem?.mpr (List.getElem?_eq_getElem hlt), ?_⟩
      have harch : w.arch a = w.archs[a] := arch_of_getElem? (List.getElem?_eq_getElem hlt)
      simp only
      rw [← harch, if_pos (by simpa using hl.1)]
      exact List.mem_map.mpr ⟨i, List.mem_range.mpr hl.2, rfl⟩

theorem mem_parkedSlotsOf (bufs : List (List Cmd)) (c : CompId) (y : LSlot) :
    y ∈ parkedSlotsOf bufs c ↔ (tempLive bufs y = true ∧ y.comp = c) := by
  unfold parkedSlotsOf
  rw [List.mem_flatMap]
  constructor
  · rintro ⟨bt, hbt, hy⟩
    have hb := List.mem_zipIdx_iff_getElem?.mp hbt
    rw [List.mem_filter] at hy
    rcases (mem_tempSlots _ _ _ _).mp hy.1 with ⟨j, e, c', v, h1, rfl⟩
    refine ⟨?_, by simpa using hy.2⟩
    rw [tempLive_temp, List.getD_eq_getElem?_getD, hb, Nat.zero_add]
    exact ⟨e, v, h1⟩
  · rintro ⟨hl, hc⟩
    cases y with
    | stored a c' i => cases hl
    | temp t k c' =>
      simp only [LSlot.comp] at hc
      subst hc
      rcases (tempLive_temp _ _ _ _).mp hl with ⟨e, v, h1⟩
      cases hb : bufs[t]? with
      | none =>
        rw [List.getD_eq_getElem?_getD, hb] at h1
        cases h1
      | some buf =>
        rw [List.getD_eq_getElem?_getD, hb] at h1
        refine ⟨(buf, t), List.mem_zipIdx_iff_getElem?.mpr hb, ?_⟩
        rw [List.mem_filter]
        refine ⟨(mem_tempSlots _ _ _ _).mpr ⟨k, e, c', v, h1, by rw [Nat.zero_add]⟩, by simp [LSlot.comp]⟩

theorem mem_liveSlotsOf (w : WM) (c : CompId) (y : LSlot) :
    y ∈ liveSlotsOf w c ↔ (slotsOf w y = true ∧ y.comp = c) := by
  unfold liveSlotsOf slotsOf
  rw [List.mem_append, mem_storedSlotsOf, mem_parkedSlotsOf, Bool.or_eq_true]
  constructor
  · rintro (⟨h1, h2⟩ | ⟨h1, h2⟩)
    · exact ⟨Or.inl h1, h2⟩
    · exact ⟨Or.inr h1, h2⟩
  · rintro ⟨h1 | h1, h2⟩
    · exact Or.inl ⟨h1, h2⟩
    · exact Or.inr ⟨h1, h2⟩

/-- a `flatMap` over a duplicate-free index list whose pieces are duplicate-free and tagged by their index -/
theorem nodup_flatMap_tagged {α β γ : Type} (tag : β → γ) (key : α → γ) (l : List α) (f : α → List β)
    (hl : (l.map key).Nodup) (hf : ∀ a ∈ l, (f a).Nodup) (ht : ∀ a ∈ l, ∀ y ∈ f a, tag y = key a) :
    (l.flatMap f).Nodup := by
  induction l with
  | nil => exact List.nodup_nil
  | cons a as ih =>
    rw [List.map_cons, List.nodup_cons] at hl
    rw [List.flatMap_cons, List.nodup_append]
    refine ⟨hf a (List.mem_cons_self ..), ih hl.2 (fun b hb => hf b (List.mem_cons_of_mem _ hb))
      (fun b hb => ht b (List.mem_cons_of_mem _ hb)), ?_⟩
    intro x hx y hy hxy
    subst hxy
    rcases List.mem_flatMap.mp hy with ⟨b, hb, hyb⟩
    have h1 := ht a (List.mem_cons_self ..) x hx
    have h2 := ht b (List.mem_cons_of_mem _ hb) x hyb
    exact hl.1 (List.mem_map.mpr ⟨b, hb, by rw [← h2, h1]⟩)

theorem zipIdx_snd_nodup {α : Type} (l : List α) (o : Nat) : ((l.zipIdx o).map (·.2)).Nodup := by
  induction l generalizing o with
  | nil => exact List.nodup_nil
  | cons a as ih =>
    rw [List.zipIdx_cons, List.map_cons, List.nodup_cons]
    refine ⟨?_, ih (o + 1)⟩
    intro h
    rcases List.mem_map.mp h with ⟨p, hp, hp2⟩
    rcases mem_zipIdx_off as (o + 1) p hp with ⟨j, hj, _⟩
    omega

def slotTag : LSlot → Nat
  | .stored a _ _ => a
  | .temp t _ _ => t

theorem liveSlotsOf_nodup (w : WM) (c : CompId) (_hm : MasksOk w) : (liveSlotsOf w c).Nodup := by
  unfold liveSlotsOf
  rw [List.nodup_append]
  refine ⟨?_, ?_, ?_⟩
  · apply nodup_flatMap_tagged slotTag (·.2) _ _ (zipIdx_snd_nodup _ 0)
    · intro ai _
      split
      · exact List.Pairwise.map _ (fun a b (hab : a ≠ b) => by simpa using hab) List.nodup_range
      · exact List.nodup_nil
    · intro ai _ y hy
      split at hy
      · simp only [List.mem_map] at hy
        rcases hy with ⟨i, _, rfl⟩; rfl
      · cases hy
  · apply nodup_flatMap_tagged slotTag (·.2) _ _ (zipIdx_snd_nodup _ 0)
    · intro bt _
      exact (tempSlots_nodup _ _ _).filter _
    · intro bt _ y hy
      rcases (mem_tempSlots _ _ _ _).mp (List.mem_filter.mp hy).1 with ⟨_, _, _, _, _, rfl⟩; rfl
  · intro x hx y hy hxy
    subst hxy
    have h1 := ((mem_storedSlotsOf w c x).mp hx).1
    have h2 := ((mem_parkedSlotsOf w.buffers c x).mp hy).1
    cases x with
    | stored a c' i => cases h2
    | temp t k c' => cases h1

/-! ## counting -/

theorem storedSlotsOf_length_aux (c : CompId) (l : List Arch) (o n : Nat) :
    ((l.zipIdx o).flatMap (fun ai =>
      if ai.1.mask.contains c then (List.range ai.1.rows.length).map (fun i => LSlot.stored ai.2 c i) else [])).length + n =
    l.foldl (fun n a => if a.mask.contains c then n + a.rows.length else n) n := by
  induction l generalizing o n with
  | nil => simp
  | cons a as ih =>
    rw [List.zipIdx_cons, List.flatMap_cons, List.length_append, List.foldl_cons]
    rw [← ih (o + 1)]
    by_cases hc : a.mask.contains c = true
    · simp only [hc, if_true, List.length_map, List.length_range]
      rw [Nat.add_comm a.rows.length, Nat.add_assoc, Nat.add_comm a.rows.length n]
    · simp only [hc, Bool.false_eq_true, if_false, List.length_nil]; omega

/-- the model's counter of parked temporaries of `c` -/
def tempCount (temps : List (CompId × Nat)) (c : CompId) : Nat :=
  match temps.find? (·.1 == c) with | some (_, k) => k | none => 0

/-- the counter agrees with the command buffers -/
def TempsAgree (w : WM) (c : CompId) : Prop := tempCount w.temps c = (parkedSlotsOf w.buffers c).length

theorem liveSlots_length (w : WM) (c : CompId) (ht : TempsAgree w c) :
    (liveSlotsOf w c).length = w.liveCount c := by
  unfold liveSlotsOf WM.liveCount
  rw [List.length_append, ← ht]
  unfold storedSlotsOf
  have := storedSlotsOf_length_aux c w.archs 0 0
  rw [Nat.add_zero] at this
  rw [this]; rfl

end Mustache.Proofs.Life
